/-
  Props.C10 — property theorems for C10 (UTXO records and snapshot files are lossless).
  Theorems ONLY; helper lemmas live in GocoinV/Proofs/C10*.lean. Every theorem is about the definitions
  that the oracle executes and the harness compares with the Go code:
    Model.AmountCompress (btc.CompressAmount/DecompressAmount), Model.ScriptCompress
    (script.CompressScript/DecompressScript/IsP2PK), Model.UtxoRec (SerializeU/C, NewUtxoRecOwnU/C,
    OneUtxoRecU/C, UnspentDB.save / NewUnspentDb framing).
-/
import GocoinV.Proofs.C10Size
import GocoinV.Proofs.C10Snap
import GocoinV.Proofs.C10Keys
import GocoinV.Proofs.C10Prime
import GocoinV.Proofs.C10Undo
import GocoinV.Proofs.C10Load
import GocoinV.Proofs.C10Shared
import GocoinV.Gen.UtxoLoaderFacts
import GocoinV.Gen.UtxoSharedFacts
namespace GocoinV.Props.C10
open GocoinV GocoinV.UtxoRec GocoinV.ScriptCompress GocoinV.CompactSize

/-! ## amounts -/

/-- `DecompressAmount(CompressAmount(n)) = n` whenever the compressed value fits in a uint64
    (stated with `compressExact`, the encoding computed without wrap-around); under that condition the
    wrapping Go arithmetic computes exactly `compressExact`. -/
theorem amount_roundtrip_exact (n : Nat) (hn : n < 2 ^ 64)
    (hfit : AmountCompress.compressExact n < 2 ^ 64) :
    AmountCompress.compress n = AmountCompress.compressExact n ∧
      AmountCompress.decompress (AmountCompress.compress n) = n := by
  have := amount_rt n hn hfit
  have e : (2 : Nat) ^ 64 = AmountCompress.U64 := by decide
  exact ⟨AmountCompress.compress_eq_exact n (e ▸ hfit), this.2⟩

/-- The explicit bound: every amount up to 1844674407370955160 (> 8·10^17 times… far above the
    21·10^14 of the property's quantifier) round-trips. -/
theorem amount_roundtrip (n : Nat) (hn : n ≤ 1844674407370955160) :
    AmountCompress.decompress (AmountCompress.compress n) = n := by
  have h := AmountCompress.compressExact_le n
  exact (amount_roundtrip_exact n (by omega) (by omega)).2

/-- the property's own range, as a corollary -/
theorem amount_roundtrip_money (n : Nat) (hn : n ≤ 2100000000000000) :
    AmountCompress.decompress (AmountCompress.compress n) = n :=
  amount_roundtrip n (by omega)

/-- The overflow region is real: `CompressAmount` wraps near 2^64 and the round trip fails there
    (outside the quantifier; no consensus-valid amount is that large). -/
theorem amount_wrap_counterexample :
    AmountCompress.decompress (AmountCompress.compress 18446744073709551615) ≠ 18446744073709551615 := by
  decide

/-! ## scripts -/

/-- `DecompressScript(CompressScript(s)) = s` for EVERY script the compressor accepts (P2KH, P2SH,
    P2PK with a compressed key — never validated —, P2PK with an uncompressed key that `valid65`
    accepted), for every pair of key functions that satisfies `KeyOps.Sound`: expanding the compressed
    form of an accepted 65-byte key returns that key. -/
theorem script_roundtrip (K : KeyOps) (hK : K.Sound) (s c : Bytes) (h : compress K s = some c) :
    decompress K c = .ok s :=
  decompress_compress K hK s c h

/-- Why `ParsePubkey`'s range check matters for C10 (the defect DESIGN §7 F2 expected here, repaired
    in /repo by commit 06ea4281): with the validity test that only checks the curve equation mod p
    (`legacyKeys`), the script `65 04 (p+1) y ac` is compressed and comes back with X = 1. -/
theorem script_roundtrip_needs_canonical :
    let y : Nat := 0x4218f20ae6c646b363db68605822fb14264ca8d2587fdd6fbc750d587e76a7ee
    let s : Bytes := 65 :: 4 :: (beBytes 32 (P + 1) ++ beBytes 32 y) ++ [0xac]
    ∃ c, compress legacyKeys s = some c ∧ decompress legacyKeys c ≠ .ok s ∧
      compress mathKeys s = none := by
  refine ⟨4 :: beBytes 32 (P + 1), ?_, ?_, ?_⟩ <;> decide +kernel

/-- special_prefix_disjoint: a compressed script starts with a type byte `t < 6` and is exactly
    `ComprScrLen[t]` bytes long, while the length prefix `6+len` of a script stored verbatim decodes to
    a value `≥ 6` — the decoder's test `i < 6` can never confuse the two. -/
theorem special_prefix_disjoint (K : KeyOps) (s rest : Bytes) (hl : s.length + 6 < 2 ^ 63) :
    (∀ c, compress K s = some c →
        ∃ t tl, c = t :: tl ∧ t.toNat < 6 ∧ c.length = comprScrLen.getD t.toNat 0 ∧
          (vlen (c ++ rest)).1 = t.toNat) ∧
    (compress K s = none → (vlen (putULe (6 + s.length) ++ rest)).1 ≥ 6) := by
  constructor
  · intro c hc
    obtain ⟨t, tl, rfl, ht, hlen⟩ := compress_shape K s c hc
    refine ⟨t, tl, rfl, ht, hlen, ?_⟩
    rw [List.cons_append, vlen_small t (by omega)]
  · intro _
    rw [vlen_putULe _ (by omega)]
    simp only; omega

/-! ## records -/

/-- recU_roundtrip: `NewUtxoRec(SerializeU(rec)) = rec` for every well-formed record (32-byte txid,
    uint32 height, < 2^32 outputs, uint64 amounts, scripts < 2^63 bytes) — any number of outputs, any
    subset spent (`serializeU r = some b` says at least one is live), any script, any amount. -/
theorem recU_roundtrip (r : Rec) (h : WFRec r) (b : Bytes) (hs : serializeU r = some b) :
    newRecU b = .ok r :=
  newRecU_serializeU r h b hs

/-- recC_roundtrip: the same in the compressed format, for amounts on which `CompressAmount` does not
    wrap (`WFOutC`) and key functions satisfying `KeyOps.Sound`. -/
theorem recC_roundtrip (K : KeyOps) (hK : K.Sound) (r : Rec) (h : WFRecC r) (b : Bytes)
    (hs : serializeC K r = some b) : newRecC K b = .ok r :=
  newRecC_serializeC K hK r h b hs

/-- oneU_eq: looking up one output in the serialised record gives the same amount, script, height,
    coinbase flag and output count as decoding the whole record and taking that field; nil for a spent
    or out-of-range index. -/
theorem oneU_eq (r : Rec) (h : WFRec r) (b : Bytes) (hs : serializeU r = some b) (vout : Nat) :
    oneU b vout = .ok (outOf r vout) ∧
      (∀ r', newRecU b = .ok r' → oneU b vout = .ok (outOf r' vout)) := by
  refine ⟨oneU_serializeU r h b hs vout, ?_⟩
  intro r' hr'
  rw [newRecU_serializeU r h b hs] at hr'
  injection hr' with hr'; subst hr'
  exact oneU_serializeU r h b hs vout

/-- oneC_eq: the same for the compressed format. -/
theorem oneC_eq (K : KeyOps) (hK : K.Sound) (r : Rec) (h : WFRecC r) (b : Bytes)
    (hs : serializeC K r = some b) (vout : Nat) :
    oneC K b vout = .ok (outOf r vout) ∧
      (∀ r', newRecC K b = .ok r' → oneC K b vout = .ok (outOf r' vout)) := by
  refine ⟨oneC_serializeC K hK r h b hs vout, ?_⟩
  intro r' hr'
  rw [newRecC_serializeC K hK r h b hs] at hr'
  injection hr' with hr'; subst hr'
  exact oneC_serializeC K hK r h b hs vout

/-- The buffer length `le` that `Serialize` computes in its first loop is exactly the number of bytes
    its second loop writes, in both formats (no write past the allocation, no stale tail). -/
theorem serialize_length_exact (K : KeyOps) (r : Rec) (ht : r.txid.length = 32) :
    (∀ b, serializeU r = some b → b.length = sizeU r) ∧
    (∀ b, serializeC K r = some b → b.length = sizeC K r) :=
  ⟨fun b hs => sizeU_eq r ht b hs, fun b hs => sizeC_eq K r ht b hs⟩

/-- `Serialize` returns nil exactly when no output is live (both formats). -/
theorem serialize_nil_iff (K : KeyOps) (r : Rec) :
    (serializeU r = none ↔ anyOut r.outs = false) ∧ (serializeC K r = none ↔ anyOut r.outs = false) := by
  unfold serializeU serializeC
  cases anyOut r.outs <;> simp

/-! ## snapshot file -/

/-- snapshot_roundtrip (framing): reading the file `save` wrote returns the mode bit, height, block
    hash and the records, in order, for 0..n records; trailing bytes are ignored. -/
theorem snapshot_roundtrip (s : Snap) (h : WFSnap s) (extra : Bytes) :
    snapDecode (snapEncode s ++ extra) = some s :=
  snapDecode_snapEncode s h extra

/-- Whole pipeline, plain format: records serialised, written to a snapshot, reloaded and decoded
    with the codec the file's mode bit selects, are the records that went in. -/
theorem snapshot_records_roundtripU (height : Nat) (hash : Bytes) (rs : List Rec) (bs : List Bytes)
    (hh : height < 2 ^ 32) (hhash : hash.length = 32) (hn : rs.length < 2 ^ 64)
    (hwf : ∀ r ∈ rs, WFRec r) (hser : rs.map serializeU = bs.map some)
    (hlen : ∀ b ∈ bs, b.length < 2 ^ 64) :
    ∃ s, snapDecode (snapEncode ⟨false, height, hash, bs⟩) = some s ∧ s.compressed = false ∧
      s.height = height ∧ s.hash = hash ∧ s.recs.map newRecU = rs.map Res.ok := by
  have hbl : bs.length = rs.length := by
    have := congrArg List.length hser; simpa using this.symm
  have := snapDecode_snapEncode ⟨false, height, hash, bs⟩ ⟨hh, hhash, by simpa [hbl] using hn, hlen⟩ []
  rw [List.append_nil] at this
  refine ⟨_, this, rfl, rfl, rfl, ?_⟩
  simp only
  clear this hbl hlen hn
  induction rs generalizing bs with
  | nil => cases bs <;> simp_all
  | cons r t ih =>
    cases bs with
    | nil => simp at hser
    | cons b bt =>
      simp only [List.map_cons, List.cons.injEq] at hser ⊢
      exact ⟨newRecU_serializeU r (hwf r (by simp)) b hser.1,
        ih bt (fun x hx => hwf x (List.mem_cons_of_mem _ hx)) hser.2⟩

/-- Whole pipeline, compressed format. -/
theorem snapshot_records_roundtripC (K : KeyOps) (hK : K.Sound) (height : Nat) (hash : Bytes)
    (rs : List Rec) (bs : List Bytes)
    (hh : height < 2 ^ 32) (hhash : hash.length = 32) (hn : rs.length < 2 ^ 64)
    (hwf : ∀ r ∈ rs, WFRecC r) (hser : rs.map (serializeC K) = bs.map some)
    (hlen : ∀ b ∈ bs, b.length < 2 ^ 64) :
    ∃ s, snapDecode (snapEncode ⟨true, height, hash, bs⟩) = some s ∧ s.compressed = true ∧
      s.height = height ∧ s.hash = hash ∧ s.recs.map (newRecC K) = rs.map Res.ok := by
  have hbl : bs.length = rs.length := by
    have := congrArg List.length hser; simpa using this.symm
  have := snapDecode_snapEncode ⟨true, height, hash, bs⟩ ⟨hh, hhash, by simpa [hbl] using hn, hlen⟩ []
  rw [List.append_nil] at this
  refine ⟨_, this, rfl, rfl, rfl, ?_⟩
  simp only
  clear this hbl hlen hn
  induction rs generalizing bs with
  | nil => cases bs <;> simp_all
  | cons r t ih =>
    cases bs with
    | nil => simp at hser
    | cons b bt =>
      simp only [List.map_cons, List.cons.injEq] at hser ⊢
      exact ⟨newRecC_serializeC K hK r (hwf r (by simp)) b hser.1,
        ih bt (fun x hx => hwf x (List.mem_cons_of_mem _ hx)) hser.2⟩


/-! ## the key functions the oracle actually runs -/

/-- `mathKeys` — the arithmetic rendering of ParsePubkey(range check + curve equation) / SetXO
    (`c^((p+1)/4)`, sign by parity) / GetPublicKey that the oracle executes and the harness compares
    with secp256k1 on every run — satisfies `KeyOps.Sound`: Fermat's little theorem + no zero divisors in
    Z/p, with the primality of p = 2^256 - 2^32 - 977 supplied by C08's Pratt certificate
    (`GocoinV.C08.secp_p_prime`, imported). No hypothesis is left. -/
theorem mathKeys_sound_unconditional : mathKeys.Sound :=
  ScriptCompress.mathKeys_sound_holds

/-- The field modulus the model computes with is prime (C08's certificate, about the very constant
    `ScriptCompress.P`). -/
theorem field_modulus_prime : Nat.Prime P := ScriptCompress.P_prime

/-- The compressed format is lossless for the model instance that is tied to the code: script round
    trip, whole-record round trip and single-output lookup — unconditionally. -/
theorem compressed_lossless_mathKeys :
    (∀ s c, compress mathKeys s = some c → decompress mathKeys c = .ok s) ∧
    (∀ r b, WFRecC r → serializeC mathKeys r = some b →
      newRecC mathKeys b = .ok r ∧ ∀ vout, oneC mathKeys b vout = .ok (outOf r vout)) :=
  ⟨fun s c h => decompress_compress mathKeys ScriptCompress.mathKeys_sound_holds s c h,
   fun r b hw hs => ⟨newRecC_serializeC mathKeys ScriptCompress.mathKeys_sound_holds r hw b hs,
     fun vout => oneC_serializeC mathKeys ScriptCompress.mathKeys_sound_holds r hw b hs vout⟩⟩

/-! ## non-vacuity: the hypotheses of the theorems above are satisfiable on concrete data -/

/-- amount_roundtrip_exact: its hypotheses hold for 21·10^14 and for the largest amount with e = 9 -/
example : AmountCompress.compressExact 2100000000000000 < 2 ^ 64 ∧
    AmountCompress.compressExact 18000000000000000000 < 2 ^ 64 := by decide

/-- a `KeyOps` that accepts exactly the generator point G and is `Sound` (the uncompressed-key
    branch of `script_roundtrip` is reachable under its hypothesis) -/
def g65 : Bytes := 4 :: (beBytes 32 0x79be667ef9dcbbac55a06295ce870b07029bfcdb2dce28d959f2815b16f81798 ++
  beBytes 32 0x483ada7726a3c4655da4fbfc0e1108a8fd17b448a68554199c47d08ffb10d4b8)
def kG : KeyOps := { valid65 := fun k => k == g65, expand33 := fun _ => g65 }

example : kG.Sound := by
  intro pk _ _ hv
  have : pk = g65 := by simpa [kG] using hv
  subst this; rfl

example : (compress kG (65 :: g65 ++ [0xac])).isSome = true ∧
    compress kG (65 :: g65 ++ [0xac]) = some (4 :: (g65.drop 1).take 32) := by
  decide +kernel

/-- the model's own arithmetic key functions accept G and expand its compressed form back to G -/
example : mathKeys.valid65 g65 = true ∧
    mathKeys.expand33 (((4 ||| (at' g65 64 &&& 1)) - 2) :: (g65.drop 1).take 32) = g65 := by
  decide +kernel

/-- P2KH and P2SH are accepted by the compressor for any `KeyOps` -/
example (K : KeyOps) : (compress K ([0x76, 0xa9, 0x14] ++ List.replicate 20 7 ++ [0x88, 0xac])).isSome
    ∧ (compress K ([0xa9, 0x14] ++ List.replicate 20 7 ++ [0x87])).isSome := by
  constructor <;> rfl

def exRec : Rec :=
  ⟨List.replicate 32 0xab, 502809, true,
    [none, some ⟨546, [0x76, 0xa9, 0x14] ++ List.replicate 20 7 ++ [0x88, 0xac]⟩, none, some ⟨0, [0x6a]⟩]⟩

/-- recU_roundtrip / recC_roundtrip / oneU_eq / oneC_eq: a sparse coinbase record satisfies the
    hypotheses in both formats -/
example : WFRec exRec ∧ (serializeU exRec).isSome ∧ WFRecC exRec ∧ (serializeC kG exRec).isSome := by
  have hwf : WFRecC exRec := by
    refine ⟨by decide, by decide, by decide, ?_⟩
    intro o ho x hx
    simp only [exRec, List.mem_cons, List.not_mem_nil, or_false] at ho
    rcases ho with rfl | rfl | rfl | rfl
    all_goals first
      | (simp at hx; done)
      | (injection hx with hx; subst hx; exact ⟨by decide, by decide, by decide⟩)
  exact ⟨hwf.toU, by decide, hwf, by decide⟩

/-- snapshot_roundtrip: hypotheses hold for an empty snapshot and for one with two records -/
example : WFSnap ⟨true, 840000, List.replicate 32 1, []⟩ ∧
    WFSnap ⟨false, 0, List.replicate 32 0, [[1, 2, 3], []]⟩ := by
  refine ⟨⟨by decide, by decide, by decide, by simp⟩, ⟨by decide, by decide, by decide, ?_⟩⟩
  intro r hr
  simp at hr
  rcases hr with rfl | rfl <;> decide

/-! ## spend and undo: a stored record survives a partial spend that is undone (UndoBlockTxs)

`UnspentDB.del` rewrites a record without the outputs a block spends; `UndoBlockTxs` merges the undo record (the
spent outputs only) with what is left and serialises the result again. "Returned unchanged after being stored" covers
this path too: the bytes in the map after the undo are the bytes of the original record. (The Go code must read the
old record's scripts BEFORE it frees the old record's memory — that ordering is an effect the model does not have;
it is checked on the real code with the client's recycling allocator and a poisoning allocator, stream `undo`.) -/

/-- **undo_restores_record.** For every record and every spend mask (any subset of the outputs, mask shorter or
    longer than the record): merging the undo record with the partly spent record gives back the record. -/
theorem undo_restores_record (mask : List Bool) (r : Rec) :
    mergeUndo (undoOf mask r) (some (spend mask r)) = some r :=
  undo_restores_rec mask r

/-- **undo_restores_deleted.** When the block spent everything that was live (`Serialize` returned nil and the
    record was deleted from the map), the undo record alone is the original record. -/
theorem undo_restores_deleted (mask : List Bool) (r : Rec) (h : serializeU (spend mask r) = none) :
    mergeUndo (undoOf mask r) none = some r := by
  have ha : anyOut (spendOuts mask r.outs) = false := by
    unfold serializeU at h
    cases hh : anyOut (spend mask r).outs with
    | false => simpa [spend] using hh
    | true => simp [hh] at h
  simp [mergeUndo, undoOf, undoOuts_of_all_spent mask r.outs ha]

example : ∃ (mask : List Bool) (r : Rec), serializeU (spend mask r) = none ∧ (serializeU r).isSome :=
  ⟨[true], ⟨List.replicate 32 0, 7, false, [some ⟨1, [0x51]⟩]⟩, by decide, by decide⟩

/-- **undo_restores_bytesU.** Byte level, plain format: the partly spent record as stored (`b`) decodes, and the
    merge of the undo record with that decoded record serialises to exactly the bytes of the original record. -/
theorem undo_restores_bytesU (mask : List Bool) (r : Rec) (h : WFRec r) (b : Bytes)
    (hs : serializeU (spend mask r) = some b) :
    ∃ old, newRecU b = .ok old ∧ (mergeUndo (undoOf mask r) (some old)).bind serializeU = serializeU r := by
  refine ⟨spend mask r, newRecU_serializeU _ (WFRec_spend mask r h) b hs, ?_⟩
  rw [undo_restores_rec]; rfl

/-- **undo_restores_bytesC.** The same in the compressed format. -/
theorem undo_restores_bytesC (K : KeyOps) (hK : K.Sound) (mask : List Bool) (r : Rec) (h : WFRecC r) (b : Bytes)
    (hs : serializeC K (spend mask r) = some b) :
    ∃ old, newRecC K b = .ok old ∧ (mergeUndo (undoOf mask r) (some old)).bind (serializeC K) = serializeC K r := by
  have hw : WFRecC (spend mask r) :=
    ⟨h.txid, h.height, by simpa [spend, spendOuts_length] using h.count, WFOutsC_spend mask r.outs h.outs⟩
  refine ⟨spend mask r, newRecC_serializeC K hK _ hw b hs, ?_⟩
  rw [undo_restores_rec]; rfl

example : ∃ (mask : List Bool) (r : Rec), WFRec r ∧ (serializeU (spend mask r)).isSome ∧ spend mask r ≠ r :=
  ⟨[true, false], ⟨List.replicate 32 0, 7, false, [some ⟨1, [0x51]⟩, some ⟨2, []⟩]⟩,
   ⟨by decide, by decide, by decide, by
      intro o ho x hx
      simp at ho
      rcases ho with rfl | rfl <;> (injection hx with hx; subst hx; exact ⟨by decide, by decide⟩)⟩,
   by decide, by decide⟩

/-! ## the UTXO.db loader's ring of pack buffers (constants and shape regenerated from NewUnspentDb by go/cmd/gen_c10) -/

/-- **loader_ring_safe.** With the `BUFFERS_CNT` / `CHANNEL_SIZE` of the current source: in every state the file reader
    and the single map-filling goroutine can reach — under ANY schedule — the buffer the reader is filling
    (`sent % BUFFERS_CNT`) holds no pack that is still queued in the channel or being walked by the consumer. Hence the
    loader never overwrites records it has not inserted yet, whatever the number of records in the snapshot. (Needs
    `CHANNEL_SIZE + 2 ≤ BUFFERS_CNT`: queued packs + the one being walked + the one being filled.) -/
theorem loader_ring_safe (s : Ring) (h : RingReach Gen.UtxoLoaderFacts.channelSize s) :
    s.Safe Gen.UtxoLoaderFacts.buffersCnt :=
  ring_safe_of _ _ (by decide) h

example : RingReach Gen.UtxoLoaderFacts.channelSize ⟨0, 0, 0⟩ := .init

/-- a mid-run state: five packs sent, one received (being walked), none finished — the channel of 4 is full, the reader
    is about to fill buffer 5 -/
example : RingReach 4 ⟨5, 1, 0⟩ :=
  have r0 : RingReach 4 ⟨0, 0, 0⟩ := .init
  have r1 : RingReach 4 ⟨1, 0, 0⟩ := .step r0 (.send ⟨0, 0, 0⟩ (by decide))
  have r2 : RingReach 4 ⟨1, 1, 0⟩ := .step r1 (.recv ⟨1, 0, 0⟩ (by decide) rfl)
  have r3 : RingReach 4 ⟨2, 1, 0⟩ := .step r2 (.send ⟨1, 1, 0⟩ (by decide))
  have r4 : RingReach 4 ⟨3, 1, 0⟩ := .step r3 (.send ⟨2, 1, 0⟩ (by decide))
  have r5 : RingReach 4 ⟨4, 1, 0⟩ := .step r4 (.send ⟨3, 1, 0⟩ (by decide))
  .step r5 (.send ⟨4, 1, 0⟩ (by decide))

/-- **loader_ring_needs_two_spare_counterexample.** `CHANNEL_SIZE = BUFFERS_CNT - 1` is not enough: with 6 buffers and a
    channel of 5 the reader reaches pack 6 (buffer 0 again) while the consumer is still walking pack 0. -/
theorem loader_ring_needs_two_spare_counterexample : ∃ s : Ring, RingReach 5 s ∧ ¬ s.Safe 6 := by
  have r0 : RingReach 5 ⟨0, 0, 0⟩ := .init
  have r1 : RingReach 5 ⟨1, 0, 0⟩ := .step r0 (.send ⟨0, 0, 0⟩ (by decide))
  have r2 : RingReach 5 ⟨1, 1, 0⟩ := .step r1 (.recv ⟨1, 0, 0⟩ (by decide) rfl)
  have r3 : RingReach 5 ⟨2, 1, 0⟩ := .step r2 (.send ⟨1, 1, 0⟩ (by decide))
  have r4 : RingReach 5 ⟨3, 1, 0⟩ := .step r3 (.send ⟨2, 1, 0⟩ (by decide))
  have r5 : RingReach 5 ⟨4, 1, 0⟩ := .step r4 (.send ⟨3, 1, 0⟩ (by decide))
  have r6 : RingReach 5 ⟨5, 1, 0⟩ := .step r5 (.send ⟨4, 1, 0⟩ (by decide))
  have r7 : RingReach 5 ⟨6, 1, 0⟩ := .step r6 (.send ⟨5, 1, 0⟩ (by decide))
  exact ⟨_, r7, fun hs => hs 0 (Nat.le_refl _) (by decide) (by decide)⟩

/-! ## NewUnspentDb as a whole: UTXO.db, the retry with UTXO.old, the empty start (Model/UtxoLoad.lean; what the source
    does with `rec_idx`, `pool_idx`, `db.dataSize` and the maps between two attempts is `Gen.UtxoLoaderFacts.retryShape`,
    regenerated by go/cmd/gen_c10) -/

/-- **load_fallback_exact.** With the retry as the current source writes it: whatever the two files contain (either may be
    missing, cut anywhere, or garbage — PROVIDED every `make(map, …)` / `Memory_Malloc` the loader asks for returns; what it
    asks for is bounded by `load_memory_bounded` below), `NewUnspentDb` ends with exactly the content of ONE snapshot file — the records
    (in file order), mode bit, height and hash of UTXO.db if it can be read to its end, else of UTXO.old if that can, else
    an empty database in the configured format — and with `totalTxs` / `dataSize` equal to the number / total length of
    these records. Nothing an abandoned attempt has parsed (records waiting in the unsent pack, packs already inserted,
    counters) is left in the result. -/
theorem load_fallback_exact (db old : Option Bytes) (c : Bool) :
    loadDir Gen.UtxoLoaderFacts.retryShape db old c = loadedOf (loadDirSpec db old c) :=
  loadDir_exact _ ⟨by decide, rfl, rfl, rfl, rfl⟩ db old c

/-- the same for any loader geometry and any source that rewinds the index in the pack, zeroes the size counter and
    re-makes the maps between two attempts (and zeroes the record counter) (`pool_idx` need not be rewound, stale buffer contents do not matter) -/
theorem load_fallback_exact_of_cleans (sh : RetryShape) (h : sh.Cleans) (db old : Option Bytes) (c : Bool) :
    loadDir sh db old c = loadedOf (loadDirSpec db old c) :=
  loadDir_exact sh h db old c

example : (⟨6, 65536, true, false, true, true, true, false, false⟩ : RetryShape).Cleans := ⟨by decide, rfl, rfl, rfl, rfl⟩

/-- **truncated_snapshot_detected.** A snapshot file cut at ANY position before its end (inside the header, between two
    records, inside a length prefix, inside a record) is not readable: the loader reaches `fatal_error`, it never takes a
    prefix of the records for the snapshot. -/
theorem truncated_snapshot_detected (s : Snap) (h : WFSnap s) (k : Nat) (hk : k < (snapEncode s).length) :
    snapDecode ((snapEncode s).take k) = none :=
  snapDecode_take_none s h k hk

/-- **truncated_snapshot_falls_back.** UTXO.db = the snapshot `b` that `save` wrote, cut anywhere; UTXO.old = the previous
    snapshot `a`, intact: the database is opened with exactly `a` — none of the records of `b` that were readable before
    the cut. -/
theorem truncated_snapshot_falls_back (a b : Snap) (ha : WFSnap a) (hb : WFSnap b) (k : Nat)
    (hk : k < (snapEncode b).length) (c : Bool) :
    loadDir Gen.UtxoLoaderFacts.retryShape (some ((snapEncode b).take k)) (some (snapEncode a)) c = loadedOf a := by
  rw [load_fallback_exact]
  have h2 := snapDecode_snapEncode a ha []
  rw [List.append_nil] at h2
  simp [loadDirSpec, snapDecode_take_none b hb k hk, h2]

example : WFSnap ⟨true, 7, List.replicate 32 1, [[1, 2, 3]]⟩ :=
  ⟨by decide, by decide, by decide, by decide⟩

/-- **load_retry_needs_rewind_counterexample.** The rewind is needed: with a loader that keeps `rec_idx` across the retry
    (everything else as in the source), UTXO.db = two records with the last byte missing and UTXO.old = one record, the
    database opened from UTXO.old also holds the first record of the damaged UTXO.db. -/
theorem load_retry_needs_rewind_counterexample :
    (loadDir ⟨6, 65536, false, false, true, true, true, true, true⟩
      (some ((snapEncode ⟨false, 2, List.replicate 32 2, [[0xb1], [0xb2]]⟩).take 51))
      (some (snapEncode ⟨false, 1, List.replicate 32 1, [[0xa1]]⟩)) false).snap.recs = [[0xb1], [0xa1]] := by
  decide +kernel

/-- **load_memory_bounded.** With the two guards as the current source writes them (`retryShape.boundsCount`,
    `.boundsLen`, regenerated; fix a45f580a): whatever a file contains, the record count the loader pre-sizes its maps for
    is at most the file's length, every length it passes to `Memory_Malloc` is at most the file's length (in particular
    below 2^63 — `int(le)` is not negative — for every file that can exist), and all these lengths together are at most
    twice the file's length (the records that are there, plus at most one request whose `io.ReadFull` then fails). So the
    hypothesis under which `load_fallback_exact` speaks — the allocations return — is one about memory of the order of the
    file, not about the file's contents. -/
theorem load_memory_bounded (f : Bytes) :
    (∀ c, (memAsk Gen.UtxoLoaderFacts.retryShape (some f)).mapsFor = some c → c ≤ f.length) ∧
    (∀ le ∈ (memAsk Gen.UtxoLoaderFacts.retryShape (some f)).mallocs, le ≤ f.length) ∧
    (memAsk Gen.UtxoLoaderFacts.retryShape (some f)).mallocs.sum ≤ 2 * f.length :=
  memAsk_bounded _ rfl rfl f

/-- **load_requests_of_readable.** The walk `memAsk` is the loader's: on a file that can be read to its end the requests are
    the header's count and exactly the lengths of the records that are loaded (`snapDecode`), in order. -/
theorem load_requests_of_readable (f : Bytes) (s : Snap) (h : snapDecode f = some s) :
    memAsk Gen.UtxoLoaderFacts.retryShape (some f) = ⟨some s.recs.length, s.recs.map List.length⟩ := by
  unfold snapDecode at h
  unfold memAsk
  split at h
  · cases h
  · rename_i hl
    simp only at h
    split at h
    · cases h
    · rename_i recs hr
      injection h with h; subst h
      have hcnt := decRecs_count_le _ _ recs hr
      have hg : ¬ f.length < leVal ((f.drop 40).take 8) := by simp only [List.length_drop] at hcnt; omega
      simp only [hl, ↓reduceIte, hg, decide_false, Bool.and_false, Bool.false_eq_true,
        mallocs_of_ok _ f.length _ _ recs hr (by simp), decRecs_length _ _ _ hr]

/-- the 97-byte file of the finding: header with count 1, length prefix `ff 00 00 00 00 00 00 00 80` (2^63), 40 bytes -/
def garbageLenFile : Bytes :=
  List.replicate 40 0 ++ [1, 0, 0, 0, 0, 0, 0, 0] ++ [0xff, 0, 0, 0, 0, 0, 0, 0, 0x80] ++ List.replicate 40 0

/-- **load_unbounded_length_counterexample.** The guard is needed: a loader without `if le > file_size` (everything else as
    in the source) asks `Memory_Malloc` for 2^63 bytes on a 97-byte file (`int(le)` < 0: `makeslice: len out of range`, out
    of `NewUnspentDb`, no fall-back to UTXO.old — seen on the real code before fix a45f580a); with the guard it asks for
    nothing and fails over. -/
theorem load_unbounded_length_counterexample :
    memAsk { Gen.UtxoLoaderFacts.retryShape with boundsLen := false } (some garbageLenFile) = ⟨some 1, [2 ^ 63]⟩ ∧
    memAsk Gen.UtxoLoaderFacts.retryShape (some garbageLenFile) = ⟨some 1, []⟩ ∧
    (loadDir Gen.UtxoLoaderFacts.retryShape (some garbageLenFile)
      (some (snapEncode ⟨false, 7, List.replicate 32 1, [[0xa1]]⟩)) false).snap = ⟨false, 7, List.replicate 32 1, [[0xa1]]⟩ := by
  refine ⟨by decide +kernel, by decide +kernel, by decide +kernel⟩

/-- **load_unbounded_count_counterexample.** Likewise the header's count: without `if u64 > file_size` a 48-byte file makes
    the loader pre-size its 256 maps for 2^40 records (`fatal error: out of memory` on the real code before the fix). -/
theorem load_unbounded_count_counterexample :
    (memAsk { Gen.UtxoLoaderFacts.retryShape with boundsCount := false }
      (some (List.replicate 40 0 ++ [0, 0, 0, 0, 0, 1, 0, 0]))).mapsFor = some (2 ^ 40) ∧
    (memAsk Gen.UtxoLoaderFacts.retryShape (some (List.replicate 40 0 ++ [0, 0, 0, 0, 0, 1, 0, 0]))).mapsFor = none := by
  refine ⟨by decide +kernel, by decide +kernel⟩

/-! ## records on their way through shared state (Model/UtxoShared.lean; the facts are regenerated from the source) -/

/-- **static_decode_eq_fresh.** The pooled decoders (`NewUtxoRecStatic`, `NewUtxoRecStaticU`: one package-level record,
    one shared slot list, one shared pool of outputs), with `OutsList` clearing what the current source clears
    (`Gen.UtxoSharedFacts.poolClear`): whatever the pool holds from the records decoded before — any contents, any
    length, any cursor — a history of records, plain and compressed in any order, decodes to exactly what the allocating
    decoder `NewUtxoRec` returns for each of them. -/
theorem static_decode_eq_fresh (K : KeyOps) (p : Pool) (l : List (Bool × Bytes)) :
    staticHistory Gen.UtxoSharedFacts.poolClear K p l = freshHistory K l :=
  staticHistory_eq_fresh _ (by decide) K l p

/-- with the round trip: a serialised well-formed record comes back unchanged from the pooled decoder, whatever was
    decoded before (plain format; `static_record_roundtripC` is the compressed one) -/
theorem static_record_roundtripU (p : Pool) (r : Rec) (h : WFRec r) (b : Bytes) (hs : serializeU r = some b) :
    (newRecStaticU Gen.UtxoSharedFacts.poolClear p b).1 = .ok r := by
  rw [newRecStaticU_fst _ (by decide)]
  exact newRecU_serializeU r h b hs

/-- static_record_roundtripU / C: the hypotheses hold for the sparse coinbase record `exRec`, and the pool may be dirty:
    slots 0, 2 and 3 still hold outputs of an earlier record -/
example : ∃ (p : Pool) (b : Bytes), WFRec exRec ∧ serializeU exRec = some b ∧ p.slots.any Option.isSome = true ∧
    (newRecStaticU Gen.UtxoSharedFacts.poolClear p b).1 = .ok exRec :=
  ⟨⟨[some ⟨1, [1]⟩, none, some ⟨2, [2]⟩, some ⟨3, []⟩, none], 3⟩, _,
    ⟨by decide, by decide, by decide, wfOuts_of_all _ (by decide)⟩, rfl, by decide, by decide +kernel⟩

theorem static_record_roundtripC (K : KeyOps) (hK : K.Sound) (p : Pool) (r : Rec) (h : WFRecC r) (b : Bytes)
    (hs : serializeC K r = some b) : (newRecStaticC Gen.UtxoSharedFacts.poolClear K p b).1 = .ok r := by
  rw [newRecStaticC_fst _ (by decide)]
  exact newRecC_serializeC K hK r h b hs

/-- **static_decode_cursor_clear_counterexample.** Clearing only as many slots as the previous record had unspent
    outputs (the pool cursor) is not enough: from a fresh pool, a record of 10 outputs of which only #7 is left, then a
    record of 10 outputs of which only #0 is left — the second comes back with output #7 unspent as well. -/
theorem static_decode_cursor_clear_counterexample :
    ∃ (a b : Rec) (ba bb : Bytes), WFRec a ∧ WFRec b ∧ serializeU a = some ba ∧ serializeU b = some bb ∧
      staticHistory ⟨false, true⟩ kG (Pool.fresh 16) [(false, ba), (false, bb)] ≠ [.ok a, .ok b] ∧
      freshHistory kG [(false, ba), (false, bb)] = [.ok a, .ok b] := by
  refine ⟨⟨List.replicate 32 0xaa, 100, false, (List.replicate 10 none).set 7 (some ⟨5000, [0x51]⟩)⟩,
    ⟨List.replicate 32 0xbb, 101, false, (List.replicate 10 none).set 0 (some ⟨7000, [0x52]⟩)⟩, _, _, ?_, ?_, rfl, rfl, ?_, ?_⟩
  · exact ⟨by decide, by decide, by decide, wfOuts_of_all _ (by decide)⟩
  · exact ⟨by decide, by decide, by decide, wfOuts_of_all _ (by decide)⟩
  · decide +kernel
  · decide +kernel

/-- **read_vlen_any_chunking.** `btc.ReadVLen` as the current source reads (`Gen.UtxoSharedFacts.readShape`), from a
    reader whose every `Read` may stop after any number of bytes ≥ 1 (`caps` arbitrary — every position of the length
    prefix relative to the refills of a read-ahead buffer): it returns the value `ReadVLen` returns on the unread rest of
    the file and leaves the reader right after the prefix, or both fail. -/
theorem read_vlen_any_chunking (data : Bytes) (caps : List Nat) :
    (readVLen data = none ∧ readVLenRd Gen.UtxoSharedFacts.readShape ⟨data, caps⟩ = none) ∨
      (∃ v rest caps', readVLen data = some (v, rest) ∧
        readVLenRd Gen.UtxoSharedFacts.readShape ⟨data, caps⟩ = some (v, ⟨rest, caps'⟩)) :=
  readVLenRd_spec _ (by decide) ⟨data, caps⟩

/-- **records_any_chunking.** The record loop of `NewUnspentDb` (length prefix through `ReadVLen`, record through the
    read the source uses) on such a reader: for every file contents, every record count and EVERY way of cutting the file
    into reads it yields exactly the records the framing model `decRecs` (the one `snapshot_roundtrip` and
    `load_fallback_exact` are about) finds in the file — or fails exactly when that fails. -/
theorem records_any_chunking (n : Nat) (data : Bytes) (caps : List Nat) :
    decRecsRd Gen.UtxoSharedFacts.readShape n ⟨data, caps⟩ = decRecs n data :=
  decRecsRd_eq _ (by decide) (by decide) n ⟨data, caps⟩

/-- **read_vlen_short_read_counterexample.** With a plain `Read` for the length bytes the value depends on the chunking:
    the prefix fd 2c 01 (300) followed by a record, served as marker | one byte | rest, is read as 44. -/
theorem read_vlen_short_read_counterexample :
    (readVLenRd ⟨true, false, true⟩ ⟨[0xfd, 0x2c, 0x01, 7, 7, 7], [0, 0]⟩).map Prod.fst = some 44 ∧
      (readVLen [0xfd, 0x2c, 0x01, 7, 7, 7]).map Prod.fst = some 300 := by
  decide

/-- **undo_entry_survives_commit.** The undo entry `commitTxs` makes for a spent output (its script is `len` bytes at
    `off` of the stored record in heap cell `cell`), made as the current source makes it
    (`Gen.UtxoSharedFacts.undoOwnsScript`): whatever `db.commit()` and the allocator do to the cells of the UTXO heap
    before the undo file is written — free, poison, reuse for another record, any number of times — the entry still reads
    as the script that was stored. -/
theorem undo_entry_survives_commit (h : Heap) (evs : List HeapEv) (cell off len : Nat) :
    (undoEntry Gen.UtxoSharedFacts.undoOwnsScript h cell off len).read (evs.foldl HeapEv.apply h) =
      ((h cell).drop off).take len :=
  undoEntry_owned h evs cell off len

/-- **undo_entry_alias_counterexample.** An entry that keeps the slice `UnspentGet` returned reads another record's
    bytes once the cell has been freed and reused. -/
theorem undo_entry_alias_counterexample :
    ∃ (h : Heap) (e : HeapEv), (undoEntry false h 0 1 2).read (e.apply h) ≠ ((h 0).drop 1).take 2 :=
  ⟨fun _ => [1, 2, 3], ⟨0, [9, 9, 9]⟩, by decide⟩

end GocoinV.Props.C10
