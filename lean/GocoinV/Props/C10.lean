/-
  Props.C10 — property theorems for C10 (UTXO records and snapshot files are lossless).
-/
import GocoinV.Model.UtxoRec
namespace GocoinV.Props.C10
end GocoinV.Props.C10
