/-
  Props.C15 — property theorems for C15 (address encodings). Theorems ONLY (helper lemmas live in
  GocoinV/Proofs/). Every theorem here is listed by ./check, audited with `#print axioms`, and counted
  as an obligation in evidence/C15.json.
-/
import GocoinV.Model.Addr
namespace GocoinV.Props.C15
open GocoinV Bech32

/-- Decision logic of `SegwitDecode` stated outright: whatever is accepted has a legal witness
    version, a legal program length for that version, the checksum variant that BIP350 prescribes
    for the version, and the human-readable part that was asked for. -/
theorem segwitDecode_sound (hrp s : Bytes) (v : Nat) (p : Bytes)
    (h : segwitDecode hrp s = .ok (v, p)) :
    v ≤ 16 ∧ 2 ≤ p.length ∧ p.length ≤ 40 ∧ (v = 0 → p.length = 20 ∨ p.length = 32) ∧
    ∃ data m, decode s = some (hrp, data, m) ∧ (m = true ↔ v ≠ 0) := by
  unfold segwitDecode at h
  split at h
  · simp at h
  · rename_i hrpA data m hdec
    split at h
    · simp at h
    · rename_i d0 rest
      split at h; · simp at h
      split at h; · simp at h
      rename_i hh
      split at h; · simp at h
      rename_i hv
      split at h; · simp at h
      rename_i h0
      split at h; · simp at h
      rename_i hm
      split at h
      · simp at h
      · rename_i w hw
        split at h; · simp at h
        split at h; · simp at h
        rename_i hl
        split at h; · simp at h
        rename_i hl0
        simp only [Except.ok.injEq, Prod.mk.injEq] at h
        obtain ⟨rfl, rfl⟩ := h
        have hhrp : hrp = hrpA := by simpa using hh
        subst hhrp
        have d0z : d0.toNat = 0 ↔ d0 = 0 := by
          constructor
          · intro e; exact UInt8.toNat_inj.mp (by simpa using e)
          · intro e; simp [e]
        refine ⟨by omega, by omega, by omega, ?_, d0 :: rest, m, hdec, ?_⟩
        · intro hz
          have : d0 = 0 := d0z.mp hz
          simp only [this, true_and] at hl0
          omega
        · constructor
          · intro hmt hz
            have : d0 = 0 := d0z.mp hz
            exact h0 ⟨this, hmt⟩
          · intro hnz
            have : d0 ≠ 0 := fun e => hnz (d0z.mpr e)
            cases m with
            | true => rfl
            | false => exact absurd ⟨this, by simp⟩ hm

/-- non-vacuity: the BIP173 test vector BC1QW508D6QEJXTDG4Y5R3ZARVARY0C5XW7KV8F3T4 is accepted -/
example : (segwitDecode [98, 99] [66, 67, 49, 81, 87, 53, 48, 56, 68, 54, 81, 69, 74, 88, 84, 68, 71, 52, 89, 53, 82, 51, 90, 65, 82, 86, 65, 82, 89, 48, 67, 53, 88, 87, 55, 75, 86, 56, 70, 51, 84, 52]).toOption =
    some (0, [0x75, 0x1e, 0x76, 0xe8, 0x19, 0x91, 0x96, 0xd4, 0x54, 0x94, 0x1c, 0x45, 0xd1, 0xb3, 0xa3, 0x23, 0xf1, 0x43, 0x3b, 0xd6]) := by
  decide +kernel

end GocoinV.Props.C15
