/-
  Props.C15 — property theorems for C15 (address encodings). Theorems ONLY (helper lemmas live in
  GocoinV/Proofs/). Every theorem here is listed by ./check, audited with `#print axioms`, and counted
  as an obligation in evidence/C15.json.
-/
import GocoinV.Model.Addr
import GocoinV.Proofs.C15Base58
import GocoinV.Proofs.C15Bech32d
namespace GocoinV.Props.C15
open GocoinV Bech32

/-- Decision logic of `SegwitDecode` stated outright: whatever is accepted has a legal witness
    version, a legal program length for that version, the checksum variant that BIP350 prescribes
    for the version, and the human-readable part that was asked for. -/
theorem segwitDecode_sound (hrp s : Bytes) (v : Nat) (p : Bytes)
    (h : segwitDecode hrp s = .ok (v, p)) :
    v ≤ 16 ∧ 2 ≤ p.length ∧ p.length ≤ 40 ∧ (v = 0 → p.length = 20 ∨ p.length = 32) ∧
    ∃ data m, decode s = some (hrp, data, m) ∧ (m = true ↔ v ≠ 0) := by
  unfold segwitDecode at h
  split at h
  · simp at h
  · rename_i hrpA data m hdec
    split at h
    · simp at h
    · rename_i d0 rest
      split at h; · simp at h
      split at h; · simp at h
      rename_i hh
      split at h; · simp at h
      rename_i hv
      split at h; · simp at h
      rename_i h0
      split at h; · simp at h
      rename_i hm
      split at h
      · simp at h
      · rename_i w hw
        split at h; · simp at h
        split at h; · simp at h
        rename_i hl
        split at h; · simp at h
        rename_i hl0
        simp only [Except.ok.injEq, Prod.mk.injEq] at h
        obtain ⟨rfl, rfl⟩ := h
        have hhrp : hrp = hrpA := by simpa using hh
        subst hhrp
        have d0z : d0.toNat = 0 ↔ d0 = 0 := by
          constructor
          · intro e; exact UInt8.toNat_inj.mp (by simpa using e)
          · intro e; simp [e]
        refine ⟨by omega, by omega, by omega, ?_, d0 :: rest, m, hdec, ?_⟩
        · intro hz
          have : d0 = 0 := d0z.mp hz
          simp only [this, true_and] at hl0
          omega
        · constructor
          · intro hmt hz
            have : d0 = 0 := d0z.mp hz
            exact h0 ⟨this, hmt⟩
          · intro hnz
            have : d0 ≠ 0 := fun e => hnz (d0z.mpr e)
            cases m with
            | true => rfl
            | false => exact absurd ⟨this, by simp⟩ hm

/-- non-vacuity: the BIP173 test vector BC1QW508D6QEJXTDG4Y5R3ZARVARY0C5XW7KV8F3T4 is accepted -/
example : (segwitDecode [98, 99] [66, 67, 49, 81, 87, 53, 48, 56, 68, 54, 81, 69, 74, 88, 84, 68, 71, 52, 89, 53, 82, 51, 90, 65, 82, 86, 65, 82, 89, 48, 67, 53, 88, 87, 55, 75, 86, 56, 70, 51, 84, 52]).toOption =
    some (0, [0x75, 0x1e, 0x76, 0xe8, 0x19, 0x91, 0x96, 0xd4, 0x54, 0x94, 0x1c, 0x45, 0xd1, 0xb3, 0xa3, 0x23, 0xf1, 0x43, 0x3b, 0xd6]) := by
  decide +kernel

/-- Base58 is lossless: decoding the encoding of any non-empty byte string returns it unchanged
    (leading zero bytes included). The alphabet is the one REGENERATED from lib/btc/addr.go. -/
theorem b58_decode_encode (a : Bytes) (h : a ≠ []) : Base58.decode (Base58.encode a) = some a := by
  open Base58 in
  unfold Base58.decode Base58.encode
  have hv : value? (List.replicate (leadingZeros a) (digitChar 0) ++ (digits (beVal a)).map digitChar) 0
      = some (beVal a) := by
    rw [value?_replicate_zero, value?_map _ (digits_lt _), ofDigits_digits]
  rw [hv]
  have htw : (List.takeWhile (fun x => x == digitChar 0)
      (List.replicate (leadingZeros a) (digitChar 0) ++ (digits (beVal a)).map digitChar)).length
      = leadingZeros a := by
    rw [List.takeWhile_append_of_pos (by intro x hx; rw [List.eq_of_mem_replicate hx]; exact beq_self_eq_true _)]
    have : List.takeWhile (fun x => x == digitChar 0) ((digits (beVal a)).map digitChar) = [] := by
      cases hd : digits (beVal a) with
      | nil => rfl
      | cons d t =>
        have hlt : d < 58 := digits_lt (beVal a) d (by rw [hd]; exact List.mem_cons_self)
        have hne := digits_head_ne_zero (beVal a) d t hd
        have := digitChar_ne_one ⟨d, hlt⟩ hne
        simp only [List.map_cons]
        rw [List.takeWhile_cons_of_neg (by simpa using this)]
    rw [this]; simp
  simp only [htw]
  have hb : natBytes (beVal a) = a.dropWhile (· == 0) := natBytes_leVal_reverse a
  rw [hb]
  have hres : List.replicate (leadingZeros a) (0 : UInt8) ++ a.dropWhile (· == 0) = a :=
    replicate_takeWhile_dropWhile a
  rw [hres]
  cases a with
  | nil => exact absurd rfl h
  | cons x t => rfl

/-- non-vacuity / sanity: a 25-byte payload with leading zero round-trips by evaluation too -/
example : Base58.decode (Base58.encode [0, 0, 1, 2, 255]) = some [0, 0, 1, 2, 255] :=
  b58_decode_encode _ (by simp)

/-- Bech32 / Bech32m "create then verify" for EVERY human-readable part, data part and variant: whatever
    `bech32.Encode` (model, with the checksum step and tables regenerated from the Go source) produces for
    a non-empty hrp, `bech32.Decode` reads back as the same (hrp, data, variant). The proof goes through
    the GF(2)-linearity of the generated polymod step (Proofs/C15Bech32*.lean). -/
theorem bech32_decode_encode (hrp data s : Bytes) (m : Bool) (hne : hrp ≠ [])
    (h : Bech32.encode hrp data m = some s) : Bech32.decode s = some (hrp, data, m) :=
  Bech32.decode_encode hrp data s m hne h

/-- non-vacuity: the encoder does produce something for a usual input -/
example : (Bech32.encode [98, 99] [0, 14, 20, 15] false).isSome = true := by decide +kernel

end GocoinV.Props.C15
