/-
  Props.C15 — property theorems for C15 (address encodings). Theorems ONLY (helper lemmas live in
  GocoinV/Proofs/). Every theorem here is listed by ./check, audited with `#print axioms`, and counted
  as an obligation in evidence/C15.json.
-/
import GocoinV.Model.Addr
import GocoinV.Proofs.C15Base58
import GocoinV.Proofs.C15Bech32d
import GocoinV.Proofs.C15Segwit
import GocoinV.Proofs.C15SegwitInv
import GocoinV.Proofs.C15Fits
import GocoinV.Proofs.C15Addr
import GocoinV.Proofs.C15Case
import GocoinV.Proofs.C15Base58b
import GocoinV.Proofs.C15Wif
import GocoinV.Proofs.C15P2pk
import GocoinV.Proofs.C15Bch2
import GocoinV.Proofs.C15Bch3
import GocoinV.Proofs.C15Reuse
import GocoinV.Proofs.C15Sched
import GocoinV.Proofs.C15Str2
import GocoinV.Proofs.C15Str3
import GocoinV.Proofs.C15Payout
namespace GocoinV.Props.C15
open GocoinV Bech32

/-- Decision logic of `SegwitDecode` stated outright: whatever is accepted has a legal witness
    version, a legal program length for that version, the checksum variant that BIP350 prescribes
    for the version, and the human-readable part that was asked for. -/
theorem segwitDecode_sound (hrp s : Bytes) (v : Nat) (p : Bytes)
    (h : segwitDecode hrp s = .ok (v, p)) :
    v ≤ 16 ∧ 2 ≤ p.length ∧ p.length ≤ 40 ∧ (v = 0 → p.length = 20 ∨ p.length = 32) ∧
    ∃ data m, decode s = some (hrp, data, m) ∧ (m = true ↔ v ≠ 0) := by
  unfold segwitDecode at h
  split at h
  · simp at h
  · rename_i hrpA data m hdec
    split at h
    · simp at h
    · rename_i d0 rest
      split at h; · simp at h
      split at h; · simp at h
      rename_i hh
      split at h; · simp at h
      rename_i hv
      split at h; · simp at h
      rename_i h0
      split at h; · simp at h
      rename_i hm
      split at h
      · simp at h
      · rename_i w hw
        split at h; · simp at h
        split at h; · simp at h
        rename_i hl
        split at h; · simp at h
        rename_i hl0
        simp only [Except.ok.injEq, Prod.mk.injEq] at h
        obtain ⟨rfl, rfl⟩ := h
        have hhrp : hrp = hrpA := by simpa using hh
        subst hhrp
        have d0z : d0.toNat = 0 ↔ d0 = 0 := by
          constructor
          · intro e; exact UInt8.toNat_inj.mp (by simpa using e)
          · intro e; simp [e]
        refine ⟨by omega, by omega, by omega, ?_, d0 :: rest, m, hdec, ?_⟩
        · intro hz
          have : d0 = 0 := d0z.mp hz
          simp only [this, true_and] at hl0
          omega
        · constructor
          · intro hmt hz
            have : d0 = 0 := d0z.mp hz
            exact h0 ⟨this, hmt⟩
          · intro hnz
            have : d0 ≠ 0 := fun e => hnz (d0z.mpr e)
            cases m with
            | true => rfl
            | false => exact absurd ⟨this, by simp⟩ hm

/-- non-vacuity: the BIP173 test vector BC1QW508D6QEJXTDG4Y5R3ZARVARY0C5XW7KV8F3T4 is accepted -/
example : (segwitDecode [98, 99] [66, 67, 49, 81, 87, 53, 48, 56, 68, 54, 81, 69, 74, 88, 84, 68, 71, 52, 89, 53, 82, 51, 90, 65, 82, 86, 65, 82, 89, 48, 67, 53, 88, 87, 55, 75, 86, 56, 70, 51, 84, 52]).toOption =
    some (0, [0x75, 0x1e, 0x76, 0xe8, 0x19, 0x91, 0x96, 0xd4, 0x54, 0x94, 0x1c, 0x45, 0xd1, 0xb3, 0xa3, 0x23, 0xf1, 0x43, 0x3b, 0xd6]) := by
  decide +kernel

/-- Base58 is lossless: decoding the encoding of any non-empty byte string returns it unchanged
    (leading zero bytes included). The alphabet is the one REGENERATED from lib/btc/addr.go. -/
theorem b58_decode_encode (a : Bytes) (h : a ≠ []) : Base58.decode (Base58.encode a) = some a :=
  Base58.decode_encode a h

/-- non-vacuity / sanity: a 25-byte payload with leading zero round-trips by evaluation too -/
example : Base58.decode (Base58.encode [0, 0, 1, 2, 255]) = some [0, 0, 1, 2, 255] :=
  b58_decode_encode _ (by simp)

/-- Bech32 / Bech32m "create then verify" for EVERY human-readable part (any bytes, the empty one included), data
    part and variant: whatever `bech32.Encode` (model, with the checksum step and tables regenerated from the Go
    source) produces, `bech32.Decode` reads back as the same (hrp, data, variant). No side condition on the hrp any
    more: since /repo's fix aaaa0fae `Encode` produces nothing for the empty hrp (`bech32_empty_hrp_refused`); before
    it this theorem needed `hrp ≠ []` and was false without. The proof goes through the GF(2)-linearity of the
    generated polymod step (Proofs/C15Bech32*.lean). -/
theorem bech32_decode_encode (hrp data s : Bytes) (m : Bool)
    (h : Bech32.encode hrp data m = some s) : Bech32.decode s = some (hrp, data, m) :=
  Bech32.decode_encode hrp data s m h

/-- Regression statement of the fixed finding `bech32-encode-empty-hrp`: `bech32.Encode` and `SegwitEncode` refuse the
    empty human-readable part for every data / version / program / variant (BIP173: 1 to 83 characters). Before the
    fix `Encode("", [0,1,2], false)` was "1qpzceglat", which `Decode` refuses — the round trip above failed there. -/
theorem bech32_empty_hrp_refused (data prog : Bytes) (m : Bool) (v : Nat) :
    Bech32.encode [] data m = none ∧ segwitEncode [] v prog = none := by
  refine ⟨Bech32.encode_nil data m, ?_⟩
  cases h : segwitEncode [] v prog with
  | none => rfl
  | some s =>
    obtain ⟨_, _, _, _, d, _, he⟩ := Bech32.segwitEncode_some h
    rw [Bech32.encode_nil] at he; cases he

/-- What `bech32.Encode` takes, stated outright (the harness' own `encodable` predicate, BIP173): it produces a string
    EXACTLY when the human-readable part is non-empty, all its bytes are in 33..126 and none is an upper-case letter
    (so any byte ≥ 0x80 — any non-ASCII character typed into an hrp — is refused), every data symbol is < 32, and
    hrp + 1 + data + 6 ≤ 90 characters. -/
theorem bech32_encode_accept_iff (hrp data : Bytes) (m : Bool) :
    (Bech32.encode hrp data m).isSome = true ↔
      hrp ≠ [] ∧ (∀ c ∈ hrp, 33 ≤ c.toNat ∧ c.toNat ≤ 126 ∧ isUpper c = false) ∧ (∀ x ∈ data, x.toNat ≤ 31) ∧
        hrp.length + 7 + data.length ≤ 90 :=
  Bech32Str.encode_isSome_iff hrp data m

/-- `bech32.Encode` AS IT IS WRITTEN (`Bech32Str.encodeSrc`: both loops over the human-readable part are a `range`
    over the STRING, i.e. over the first bytes of its UTF-8 code points, and the length test uses the loop variable —
    last visited position + 1 — not `len(hrp)`) computes, for EVERY hrp (any byte string), data and variant, exactly
    the bytewise `Bech32.encode` all theorems of this file are about: the first loop refuses a visited byte > 126, and
    a byte that `range` skips always follows such a byte. -/
theorem bech32_encode_as_written_is_bytewise (hrp data : Bytes) (m : Bool) :
    Bech32Str.encodeSrc hrp data m = Bech32.encode hrp data m :=
  Bech32Str.encodeSrc_eq hrp data m

/-- sanity: a 2-byte code point in the hrp ("é1…": c3 a9) is refused at its first byte by both readings, and an ASCII
    hrp is encoded -/
example : Bech32Str.encodeSrc [0xc3, 0xa9] [0] false = none ∧ Bech32.encode [0xc3, 0xa9] [0] false = none ∧
    (Bech32Str.encodeSrc [98, 99] [0, 14, 20, 15] false).isSome = true := by decide +kernel

/-- non-vacuity: the encoder does produce something for a usual input -/
example : (Bech32.encode [98, 99] [0, 14, 20, 15] false).isSome = true := by decide +kernel

/-- `convert_bits` round trip (the regrouping used by SegwitEncode / SegwitDecode), for EVERY byte string:
    if regrouping `prog` from 8-bit to 5-bit groups with padding gives `d`, then regrouping `d` from 5-bit
    to 8-bit groups without padding succeeds and gives back `prog`. The model's accumulator is the same
    wrapping 32-bit value as in the Go code (Proofs/C15Conv.lean shows it agrees with the unbounded
    positional value on every bit that is ever read). -/
theorem convertBits_roundtrip (prog d : Bytes) (h : convertBits 5 prog 8 true = some d) :
    convertBits 8 d 5 false = some prog :=
  Bech32.convertBits_roundtrip prog d h

/-- non-vacuity: the 8→5 direction with padding always produces a result -/
example (prog : Bytes) : ∃ d, convertBits 5 prog 8 true = some d := Bech32.convertBits_85_total prog

/-- What the 8→5 regrouping produces: every output symbol is a 5-bit value (so `Encode` never refuses it),
    the number `p` of padding bits is below 5, and the output read as a base-32 number equals the input
    read as a base-256 number shifted left by `p` — i.e. the padding bits are zero. These are exactly the
    two padding conditions `SegwitDecode` tests (leftover bits < 5, leftover bits all zero). -/
theorem convertBits_pad_facts (prog d : Bytes) (h : convertBits 5 prog 8 true = some d) :
    (∀ x ∈ d, x.toNat < 2 ^ 5) ∧ ∃ p, p < 5 ∧ 5 * d.length = 8 * prog.length + p ∧
      Vr 5 d.reverse = Vr 8 prog.reverse * 2 ^ p :=
  Bech32.convertBits_85_spec prog d h

/-- non-vacuity of `convertBits_pad_facts` on a 3-byte input -/
example : convertBits 5 [0xff, 0x00, 0x81] 8 true = some [31, 28, 0, 8, 2] := by decide +kernel

/-- Segwit address round trip, encode then decode, for EVERY human-readable part (in particular
    "bc" and "tb"), every witness version and every program: whenever `SegwitEncode` produces a string
    (it does so exactly for version ≤ 16, program length 2..40, and 20/32 for version 0 — see
    `segwitEncode_some`), `SegwitDecode` with the same hrp accepts that string and returns the same
    version and program. Bech32 is used for version 0 and Bech32m for versions 1..16 on both sides. -/
theorem segwit_decode_encode (hrp prog s : Bytes) (v : Nat)
    (h : segwitEncode hrp v prog = some s) : segwitDecode hrp s = .ok (v, prog) :=
  Bech32.segwit_decode_encode hrp prog s v h

/-- non-vacuity: a version-1 (taproot-style) 32-byte program on "bc" is encoded -/
example : (segwitEncode [98, 99] 1 (List.replicate 32 7)).isSome = true := by decide +kernel

/-- Bech32 / Bech32m decode then encode, for EVERY input string (any case): whatever `bech32.Decode`
    accepts as (hrp, data, variant), `bech32.Encode` of that triple succeeds and gives the input with
    ASCII upper-case letters lower-cased. Hence an accepted string is determined, up to case, by what it
    decodes to: a string with a wrong checksum, an invalid character or the other checksum variant cannot
    decode to the same triple. (The proof uses the converse of the checksum lemma: the six checksum symbols
    are the ONLY six symbols that bring the generated polymod to the final constant.) -/
theorem bech32_encode_decode (s hrp data : Bytes) (m : Bool) (h : Bech32.decode s = some (hrp, data, m)) :
    Bech32.encode hrp data m = some (s.map Addr.asciiLower) :=
  Bech32.encode_decode s hrp data m h

/-- non-vacuity: the upper-case BIP173 vector "A12UEL5L" is accepted (and decodes to hrp "a", no data) -/
example : Bech32.decode [65, 49, 50, 85, 69, 76, 53, 76] = some ([97], [], false) := by decide +kernel

/-- the same for an input without upper-case letters (what wallets produce): re-encoding gives exactly
    the input -/
theorem bech32_encode_decode_lower (s hrp data : Bytes) (m : Bool) (hlow : ∀ c ∈ s, isUpper c = false)
    (h : Bech32.decode s = some (hrp, data, m)) : Bech32.encode hrp data m = some s :=
  Bech32.encode_decode_lower s hrp data m hlow h

/-- non-vacuity: "a12uel5l" has no upper-case letter and is accepted -/
example : (∀ c ∈ ([97, 49, 50, 117, 101, 108, 53, 108] : Bytes), isUpper c = false) ∧
    Bech32.decode [97, 49, 50, 117, 101, 108, 53, 108] = some ([97], [], false) := by decide +kernel

/-- the padding rules make 5→8 regrouping lossless: if a string of 5-bit symbols regroups to bytes `w`
    without padding (fewer than 5 left-over bits, all zero — the two tests of `convert_bits(..., false)`),
    then regrouping `w` back with padding returns the same symbols -/
theorem convertBits_roundtrip_rev (d w : Bytes) (hd : ∀ x ∈ d, x.toNat < 2 ^ 5)
    (h : convertBits 8 d 5 false = some w) : convertBits 5 w 8 true = some d :=
  Bech32.convertBits_58_inv d w hd h

/-- non-vacuity of `convertBits_roundtrip_rev` -/
example : (∀ x ∈ ([31, 28, 0, 8, 2] : Bytes), x.toNat < 2 ^ 5) ∧
    convertBits 8 [31, 28, 0, 8, 2] 5 false = some [0xff, 0x00, 0x81] := by decide +kernel

/-- `segwitDecode_sound` strengthened to "decode then re-encode" (the property's "decoding and re-encoding an
    accepted address yields the same string up to Bech32 case"), for EVERY hrp and EVERY input string: if
    `SegwitDecode hrp s` accepts with version `v` and program `prog`, then `SegwitEncode hrp v prog`
    succeeds and returns `s` with ASCII upper-case letters lower-cased. Consequently any two accepted
    strings denoting the same (version, program) are equal up to case, and a string that is refused by
    the checksum / variant / padding / length rules is never the encoding of anything. -/
theorem segwit_encode_decode (hrp s prog : Bytes) (v : Nat)
    (h : segwitDecode hrp s = .ok (v, prog)) : segwitEncode hrp v prog = some (s.map Addr.asciiLower) :=
  Bech32.segwit_encode_decode hrp s prog v h

/-- non-vacuity: the upper-case BIP173 vector BC1QW508D6QEJXTDG4Y5R3ZARVARY0C5XW7KV8F3T4 is accepted -/
example : (segwitDecode [98, 99] [66, 67, 49, 81, 87, 53, 48, 56, 68, 54, 81, 69, 74, 88, 84, 68, 71, 52, 89, 53, 82, 51, 90, 65, 82, 86, 65, 82, 89, 48, 67, 53, 88, 87, 55, 75, 86, 56, 70, 51, 84, 52]).toOption.isSome = true := by
  decide +kernel

/-- `Encodeb58` never writes outside its buffer: the Go code allocates len(a)*138/100+1 bytes and fills
    them from the end; the encoding of EVERY byte string fits (256^100 < 58^138, plus the 100 residues). -/
theorem encode_fits (a : Bytes) : (Base58.encode a).length ≤ a.length * 138 / 100 + 1 :=
  Base58.encode_length_le a

/-- Address level, script → address → script, for the five supported destination forms (`Addr.Supported`:
    witness v0 with a 20/32-byte program, witness v1..16 with a 2..40-byte program, P2PKH with version byte
    0/111/48, P2SH with version byte 5/196, 20-byte hashes), for either network flag and EVERY hash
    function: `OutScript` does not panic, `NewAddrFromPkScript` recognises the script it produced, and the
    address it returns has the same `OutScript`. -/
theorem addr_script_roundtrip (H : Addr.Hashes) (a : Addr.Addr) (tn : Bool) (hs : Addr.Supported a) :
    ∃ scr a', Addr.outScript a = some scr ∧ Addr.fromPkScript H scr tn = some a' ∧
      Addr.outScript a' = some scr :=
  Addr.script_roundtrip H a tn hs

/-- non-vacuity: a version-1 witness program of 32 bytes is a supported form -/
example : Addr.Supported (.segwit [98, 99] 1 (List.replicate 32 7)) := by
  refine ⟨by omega, by simp, by simp, by omega⟩

/-- Address level, address → string → address ("encoding and then decoding any supported destination yields
    the same output script"): for every supported form built the way the wallet builds it (`Addr.Fresh`:
    hrp "bc" or "tb", no cached Base58 string), `String()` produces a string, `NewAddrFromString` accepts
    that string, and the address it returns has the same `OutScript`. Holds for EVERY hash function whose
    double-SHA256 slot returns 32 bytes. For Base58 the proof includes that the string of the five
    supported version bytes starts with '1', '3', 'm'/'n', '2' or 'L' and therefore is never taken for a
    segwit address by the "bc1"/"tb1" prefix test. -/
theorem addr_string_roundtrip (H : Addr.Hashes) (hH : ∀ x, (H.sha2sum x).length = 32) (a : Addr.Addr)
    (hs : Addr.Supported a) (hf : Addr.Fresh a) :
    ∃ s a', Addr.toString H a = some s ∧ Addr.fromString H s = .ok a' ∧ Addr.outScript a' = Addr.outScript a :=
  Addr.string_roundtrip H hH a hs hf

/-- non-vacuity: a hash slot returning 32 bytes exists; a P2SH address without cached string is supported and fresh -/
example : ∃ H : Addr.Hashes, ∀ x, (H.sha2sum x).length = 32 :=
  ⟨⟨fun _ => List.replicate 32 0, fun _ => []⟩, fun _ => by simp⟩

example : Addr.Supported (.b58 5 (List.replicate 20 9) none) ∧ Addr.Fresh (.b58 5 (List.replicate 20 9) none) :=
  ⟨⟨by simp, by simp⟩, rfl⟩

/-- Base58Check acceptance stated outright, for EVERY string of at least 4 bytes that does not start with
    "bc1"/"tb1" (any case) and EVERY hash function: `NewAddrFromString` accepts exactly when the Base58
    decoding has 25 bytes and its last 4 bytes equal the first 4 bytes of the double-SHA256 of the first 21;
    the address then carries byte 0 as version and bytes 1..20 as hash. A wrong checksum, a bad character
    (decode = none), a short or an over-long payload are all refused. -/
theorem b58check_accept_iff (H : Addr.Hashes) (hs : Bytes) (hlen : 4 ≤ hs.length)
    (hp : ¬ Addr.segwitPrefix hs) (a : Addr.Addr) :
    Addr.fromString H hs = .ok a ↔
      ∃ dec, Base58.decode hs = some dec ∧ dec.length = 25 ∧ (H.sha2sum (dec.take 21)).take 4 = dec.drop 21 ∧
        a = .b58 (dec.headD 0) ((dec.drop 1).take 20) (some hs) :=
  Addr.b58check_accept_iff H hs hlen hp a

/-- non-vacuity: "1111" has 4 bytes and no segwit prefix -/
example : 4 ≤ ([49, 49, 49, 49] : Bytes).length ∧ ¬ Addr.segwitPrefix [49, 49, 49, 49] := by
  refine ⟨by simp, Addr.not_prefix_of_first _ _ (by decide)⟩

/-- … and an ACCEPTED string exists (so the iff is not an iff between two false statements): with the toy hash
    "32 zero bytes", the Base58 spelling of 00 ‖ 20×01 ‖ 00000000 is accepted as a version-0 address. -/
example : (Addr.fromString { sha2sum := fun _ => List.replicate 32 0, hash160 := fun _ => List.replicate 20 0 }
    (Base58.encode (0 :: (List.replicate 20 1 ++ [0, 0, 0, 0])))).toOption.isSome = true := by decide +kernel

/-- segwit strings at the address level: for hrp "bc"/"tb", `String()` then `NewAddrFromString` returns
    exactly the same address (hrp, version, program) -/
theorem addr_segwit_string_roundtrip (H : Addr.Hashes) (hrp prog s : Bytes) (v : Nat)
    (hh : hrp = strBytes "bc" ∨ hrp = strBytes "tb")
    (h : Addr.toString H (.segwit hrp v prog) = some s) : Addr.fromString H s = .ok (.segwit hrp v prog) :=
  Addr.fromString_toString_segwit H hrp prog s v hh h

/-- non-vacuity: such a string exists for a v0 20-byte program on "tb" (H is irrelevant for segwit) -/
example (H : Addr.Hashes) : (Addr.toString H (.segwit [116, 98] 0 (List.replicate 20 1))).isSome = true := by
  simp only [Addr.toString]; decide +kernel

/-- Mixed case is refused: a string that contains both an ASCII lower-case and an ASCII upper-case letter
    (anywhere: human-readable part or data part) is never accepted by `bech32.Decode`, hence never by
    `SegwitDecode` / `NewAddrFromString` on the segwit path. -/
theorem bech32_mixed_case_refused (s : Bytes) (hmix : s.any isLower = true ∧ s.any isUpper = true) :
    Bech32.decode s = none := by
  cases h : Bech32.decode s with
  | none => rfl
  | some r => exact absurd hmix (Bech32.decode_not_mixed s r h)

/-- non-vacuity: "bc1Q…" style input — one lower-case and one upper-case letter -/
example : ([98, 99, 49, 81] : Bytes).any isLower = true ∧ ([98, 99, 49, 81] : Bytes).any isUpper = true := by
  decide

/-- Base58 decode then encode, for EVERY string: whatever `Decodeb58` accepts re-encodes (`Encodeb58`) to exactly
    the input. With `b58_decode_encode` this makes Base58 a bijection between accepted strings and non-empty
    byte strings: a payload has exactly one spelling (no alternative leading characters, no ignored characters). -/
theorem b58_encode_decode (s pkb : Bytes) (h : Base58.decode s = some pkb) : Base58.encode pkb = s :=
  Base58.encode_decode s pkb h

/-- non-vacuity: "11z" is accepted -/
example : Base58.decode [49, 49, 122] = some [0, 0, 57] := by decide +kernel

/-- Base58Check address, decode then re-encode FROM THE DECODED FIELDS (not from the cached input string): if
    `NewAddrFromString` accepts a non-segwit string `s` as (version, hash), then `String()` of a fresh address
    with that version and hash is `s` again. -/
theorem addr_b58_reencode (H : Addr.Hashes) (hs : Bytes) (hlen : 4 ≤ hs.length) (hp : ¬ Addr.segwitPrefix hs)
    (v : UInt8) (h160 : Bytes) (c : Option Bytes) (h : Addr.fromString H hs = .ok (.b58 v h160 c)) :
    Addr.toString H (.b58 v h160 none) = some hs := by
  obtain ⟨dec, hd, hl, hc, he⟩ := (Addr.b58check_accept_iff H hs hlen hp _).mp h
  simp only [Addr.Addr.b58.injEq] at he
  obtain ⟨rfl, rfl, _⟩ := he
  have h21 : dec.headD 0 :: (dec.drop 1).take 20 = dec.take 21 := by
    cases dec with
    | nil => simp at hl
    | cons x t => simp
  simp only [Addr.toString, h21, hc, List.take_append_drop]
  rw [Base58.encode_decode hs dec hd]

/-- non-vacuity: the hypotheses are satisfiable — the accepted witness shown after `b58check_accept_iff` (toy hash
    "32 zero bytes", payload 00 ‖ 20×01 ‖ 00000000) has ≥ 4 bytes, starts with '1' (no segwit prefix) and decodes
    to a version-0 `.b58` address whose re-encoding is the typed string -/
example : (match Addr.fromString { sha2sum := fun _ => List.replicate 32 0, hash160 := fun _ => List.replicate 20 0 }
      (Base58.encode (0 :: (List.replicate 20 1 ++ [0, 0, 0, 0]))) with
    | .ok (.b58 v h _) => v.toNat == 0 && h == List.replicate 20 1 &&
        Addr.toString { sha2sum := fun _ => List.replicate 32 0, hash160 := fun _ => List.replicate 20 0 } (.b58 v h none)
          == some (Base58.encode (0 :: (List.replicate 20 1 ++ [0, 0, 0, 0])))
    | _ => false) = true := by decide +kernel

/-! ### WIF private-key strings (lib/btc/wallet.go) -/

/-- C14's executable model of `DecodePrivateAddr` / `PrivateAddr.String` (Model/HD.lean — the definitions C14's
    oracle runs and its harness compares with the Go code) factors through the string-level codec
    `AddrWif.decode` / `AddrWif.encode` that the theorems below are about (and that C15's oracle runs). -/
theorem wif_model_factors (C : WalletCrypto) :
    (∀ s, HD.decodePrivateAddr C s =
      match AddrWif.decode C s with
      | .error e => .error e
      | .ok (v, k, c) => .ok (HD.newPrivateAddr C k v c)) ∧
    (∀ key ver compr pa, HD.newPrivateAddr C key ver compr = .ok pa →
      HD.privAddrString C pa = .ok (AddrWif.encode C ver key compr)) :=
  ⟨AddrWif.decodePrivateAddr_factors C, AddrWif.privAddrString_factors C⟩

/-- WIF encode then decode, for EVERY version byte, 32-byte key and compression flag, and every hash function
    returning 32 bytes: `DecodePrivateAddr(String())` hands exactly (version, key, compressed) to
    `NewPrivateAddr`. -/
theorem wif_decode_encode (C : WalletCrypto) (hlen : ∀ b, (C.shaHash b).length = 32) (ver : UInt8) (key : Bytes)
    (compr : Bool) (hk : key.length = 32) :
    AddrWif.decode C (AddrWif.encode C ver key compr) = .ok (ver, key, compr) :=
  AddrWif.decode_encode C hlen ver key compr hk

/-- non-vacuity: a hash slot returning 32 bytes and a 32-byte key exist -/
example : ∃ (C : WalletCrypto) (key : Bytes), (∀ b, (C.shaHash b).length = 32) ∧ key.length = 32 :=
  ⟨⟨fun _ => [], fun _ => List.replicate 32 0, fun _ => [], fun _ _ => [], fun _ _ => [], fun _ _ => none⟩,
   List.replicate 32 1, fun _ => by simp, by simp⟩

/-- WIF acceptance stated outright, for EVERY string and hash function — the clean rule (that of Bitcoin Core's
    `DecodeSecret`): accepted iff the Base58 decoding is EITHER 37 bytes (then uncompressed) OR 38 bytes whose
    byte 33 is 01 (then compressed), and its last 4 bytes equal the first 4 bytes of the double-SHA256 of the
    rest; then version = byte 0, key = bytes 1..32. A bad character, a wrong length, a wrong checksum and — since
    the `fix:` commit for finding `wif-flag-byte-unchecked` — any other value of the flag byte are refused. -/
theorem wif_accept_iff (C : WalletCrypto) (s : Bytes) (v : UInt8) (k : Bytes) (c : Bool) :
    AddrWif.decode C s = .ok (v, k, c) ↔
      ∃ pkb, Base58.decode s = some pkb ∧
        ((pkb.length = 37 ∧ c = false) ∨ (pkb.length = 38 ∧ pkb.getD 33 0 = 1 ∧ c = true)) ∧
        (C.shaHash (pkb.take (pkb.length - 4))).take 4 = pkb.drop (pkb.length - 4) ∧
        v = pkb.headD 0 ∧ k = (pkb.drop 1).take 32 :=
  AddrWif.accept_iff C s v k c

/-- WIF decode then encode, for EVERY accepted string (no side condition any more): it is exactly `String()` of
    the (version, key, compressed) it decodes to, and the key has 32 bytes. Together with `wif_decode_encode`:
    accepted ⇔ is the encoding of a triple ("decoding and re-encoding an accepted … yields the same string",
    "private-key WIF strings likewise"). -/
theorem wif_encode_decode (C : WalletCrypto) (s : Bytes) (v : UInt8) (k : Bytes) (c : Bool)
    (h : AddrWif.decode C s = .ok (v, k, c)) : AddrWif.encode C v k c = s ∧ k.length = 32 :=
  AddrWif.encode_decode C s v k c h

/-- hence the WIF decoder is injective: two accepted strings that denote the same (version, key, compressed)
    are the same string — one key has one spelling per compression choice. -/
theorem wif_decode_injective (C : WalletCrypto) (s s' : Bytes) (v : UInt8) (k : Bytes) (c : Bool)
    (h : AddrWif.decode C s = .ok (v, k, c)) (h' : AddrWif.decode C s' = .ok (v, k, c)) : s = s' :=
  AddrWif.decode_inj C s s' v k c h h'

/-- non-vacuity of the two theorems above: accepted strings exist — every `String()` output is one
    (`wif_decode_encode`) -/
example (C : WalletCrypto) (hlen : ∀ b, (C.shaHash b).length = 32) :
    ∃ s v k c, AddrWif.decode C s = .ok (v, k, c) :=
  ⟨_, 0x80, List.replicate 32 1, true, AddrWif.decode_encode C hlen 0x80 (List.replicate 32 1) true (by simp)⟩

/-- REGRESSION STATEMENT for the fixed finding `wif-flag-byte-unchecked` (before the `fix:` commit the negation
    was proved here as `wif_flag_byte_unchecked_counterexample`): for EVERY version, 32-byte key, flag byte other
    than 01 and hash function, the Base58Check string of version ‖ key ‖ flag (38-byte payload, correct checksum)
    is REFUSED with the flag error — as Bitcoin Core does. The harness replays the concrete witness
    KwDiBf89QgGbjEhKnhXJuH7LrciVrZi3qYjgd9M7rFU73sMvhksF on the real code on every run. -/
theorem wif_flag_byte_refused (C : WalletCrypto) (hlen : ∀ b, (C.shaHash b).length = 32)
    (ver flag : UInt8) (key : Bytes) (hk : key.length = 32) (hf : flag ≠ 1) :
    let buf := ver :: (key ++ [flag])
    AddrWif.decode C (Base58.encode (buf ++ (C.shaHash buf).take 4)) = .error .flag :=
  AddrWif.flag_refused C hlen ver flag key hk hf

/-- non-vacuity: flag bytes other than 01 exist (a 32-byte-hash instance and a 32-byte key: example above) -/
example : (0 : UInt8) ≠ 1 ∧ (0xff : UInt8) ≠ 1 := by decide

/-! ### pay-to-pubkey scripts -/

/-- `NewAddrFromPkScript` on the P2PK forms, exactly as the code treats them: for EVERY 33-byte string `pk`
    (no test of the 02/03 prefix) the script 21 ‖ pk ‖ ac, and for EVERY 65-byte string the script 41 ‖ pk ‖ ac,
    gives the P2PKH address (version 0 / 111) of HASH160(pk) without cached string. -/
theorem p2pk_script_address (H : Addr.Hashes) (tn : Bool) (pk : Bytes) :
    (pk.length = 33 → Addr.fromPkScript H (0x21 :: (pk ++ [0xac])) tn =
      some (.b58 (if tn then 111 else 0) (H.hash160 pk) none)) ∧
    (pk.length = 65 → Addr.fromPkScript H (0x41 :: (pk ++ [0xac])) tn =
      some (.b58 (if tn then 111 else 0) (H.hash160 pk) none)) :=
  ⟨Addr.fromPkScript_p2pk33 H tn pk, Addr.fromPkScript_p2pk65 H tn pk⟩

/-- consequently script → address → script is NOT the identity on P2PK scripts: `OutScript` of the address
    returned is the 25-byte P2PKH script 76 a9 14 HASH160(pk) 88 ac (the usual wallet convention: the address of a
    P2PK output is the address of its key) -/
theorem p2pk_outscript_is_p2pkh (H : Addr.Hashes) (tn : Bool) (pk : Bytes) (h : pk.length = 33 ∨ pk.length = 65) :
    ∃ a, Addr.fromPkScript H (UInt8.ofNat pk.length :: (pk ++ [0xac])) tn = some a ∧
      Addr.outScript a = some ([0x76, 0xa9, 20] ++ H.hash160 pk ++ [0x88, 0xac]) := by
  rcases h with h | h
  · refine ⟨_, by rw [h]; exact Addr.fromPkScript_p2pk33 H tn pk h, ?_⟩
    cases tn <;> simp [Addr.outScript]
  · refine ⟨_, by rw [h]; exact Addr.fromPkScript_p2pk65 H tn pk h, ?_⟩
    cases tn <;> simp [Addr.outScript]

/-- non-vacuity -/
example : (List.replicate 33 (2 : UInt8)).length = 33 ∨ (List.replicate 33 (2 : UInt8)).length = 65 := by simp

/-! ### error detection as a distance property -/

/-- Bech32 / Bech32m detect every 1- and 2-character substitution in the data part: if `bech32.Decode` accepts
    `s` and `s'` with the same human-readable part and the same checksum variant, the strings have equal length
    (≤ 90 by `Decode`'s own test) and differ — comparing case-insensitively — in at most 2 positions, then they
    are equal up to case. Equivalently: changing 1 or 2 characters of the data part (checksum included) of an
    accepted string never gives a string accepted under the same hrp and variant. Proof: XOR-linearity of the
    GENERATED polymod step on 30-bit states (`ps_lin`), injectivity of the step, and a kernel computation
    (`decide +kernel`, no native_decide) on the orbits x^k·u mod g, 1 ≤ k ≤ 89, of the 31 non-zero symbols.
    NOT stated here (see OPEN below): weights 3 and 4; a substitution that turns a Bech32 string into a valid
    Bech32m string or vice versa (different variant); substitutions that move the separator '1'. -/
theorem bech32_detects_le2_substitutions (s s' hrp d d' : Bytes) (m : Bool)
    (h : Bech32.decode s = some (hrp, d, m)) (h' : Bech32.decode s' = some (hrp, d', m))
    (hlen : s.length = s'.length)
    (hd : Bech32.hamming (s.map Addr.asciiLower) (s'.map Addr.asciiLower) ≤ 2) :
    s.map Addr.asciiLower = s'.map Addr.asciiLower :=
  Bech32.detect_le2 s s' hrp d d' m h h' hlen hd

/-- non-vacuity: "a12uel5l" is accepted, and at distance 0 from itself -/
example : Bech32.decode [97, 49, 50, 117, 101, 108, 53, 108] = some ([97], [], false) ∧
    Bech32.hamming [97, 49, 50, 117, 101, 108, 53, 108] [97, 49, 50, 117, 101, 108, 53, 108] ≤ 2 := by decide +kernel

/-- a NON-trivial instance, and what the theorem excludes: "A12UEL5L" and "a12uel5l" are both accepted with the same
    (hrp, data, variant) at distance 0 after lowering — two different strings the theorem calls equal up to case —,
    while the 1-substitution neighbours "a12uel5m" / "a12uel4l" / "a12ue75l" (last, middle and first checksum
    character changed) are NOT accepted at all. -/
example : Bech32.decode [65, 49, 50, 85, 69, 76, 53, 76] = some ([97], [], false) ∧
    ([65, 49, 50, 85, 69, 76, 53, 76] : Bytes) ≠ [97, 49, 50, 117, 101, 108, 53, 108] ∧
    Bech32.hamming (([65, 49, 50, 85, 69, 76, 53, 76] : Bytes).map Addr.asciiLower)
      (([97, 49, 50, 117, 101, 108, 53, 108] : Bytes).map Addr.asciiLower) = 0 ∧
    Bech32.hamming [97, 49, 50, 117, 101, 108, 53, 109] [97, 49, 50, 117, 101, 108, 53, 108] = 1 ∧
    Bech32.decode [97, 49, 50, 117, 101, 108, 53, 109] = none ∧
    Bech32.decode [97, 49, 50, 117, 101, 108, 52, 108] = none ∧
    Bech32.decode [97, 49, 50, 117, 101, 55, 53, 108] = none := by decide +kernel

/-- the same at the segwit level: two strings accepted by `SegwitDecode` for the same hrp whose witness versions
    are both 0 or both non-zero (`v = 0 ↔ v' = 0`: the versions themselves may differ — a typo in the version symbol
    between two of the versions 1..16 is covered), of equal length, at case-insensitive distance ≤ 2, are equal up
    to case — so a 1- or 2-character typo anywhere after the separator of an address is never accepted (as any
    version/program), unless it changes the version symbol between 0 and non-0 (other checksum variant). -/
theorem segwit_detects_le2_substitutions (hrp s s' p p' : Bytes) (v v' : Nat) (hvv : v = 0 ↔ v' = 0)
    (h : segwitDecode hrp s = .ok (v, p)) (h' : segwitDecode hrp s' = .ok (v', p'))
    (hlen : s.length = s'.length)
    (hd : Bech32.hamming (s.map Addr.asciiLower) (s'.map Addr.asciiLower) ≤ 2) :
    s.map Addr.asciiLower = s'.map Addr.asciiLower := by
  obtain ⟨_, _, _, _, d, m, hdec, hm⟩ := segwitDecode_sound hrp s v p h
  obtain ⟨_, _, _, _, d', m', hdec', hm'⟩ := segwitDecode_sound hrp s' v' p' h'
  have : m = m' := by
    by_cases hz : v = 0
    · have hz' := hvv.mp hz
      cases m <;> cases m' <;> simp_all
    · have hz' : ¬ v' = 0 := fun e => hz (hvv.mpr e)
      cases m <;> cases m' <;> simp_all
  subst this
  exact Bech32.detect_le2 s s' hrp d d' m hdec hdec' hlen hd

/-- non-vacuity of `segwit_detects_le2_substitutions` / `_le3_`, non-trivially: the BIP173 address
    bc1qw508d6qejxtdg4y5r3zarvary0c5xw7kv8f3t4 and its upper-case spelling are two DIFFERENT strings, both accepted
    for hrp "bc" as (version 0, the same 20-byte program), of equal length and at distance 0 after lowering (the
    hypotheses hold, the conclusion is not s = s'); its 1-substitution neighbours …f3t5 and …f3tq (last checksum
    character) are refused. -/
example :
    (segwitDecode [98, 99] [98, 99, 49, 113, 119, 53, 48, 56, 100, 54, 113, 101, 106, 120, 116, 100, 103, 52, 121, 53, 114, 51, 122, 97, 114, 118, 97, 114, 121, 48, 99, 53, 120, 119, 55, 107, 118, 56, 102, 51, 116, 52]).toOption = some (0, [117, 30, 118, 232, 25, 145, 150, 212, 84, 148, 28, 69, 209, 179, 163, 35, 241, 67, 59, 214]) ∧
    (segwitDecode [98, 99] [66, 67, 49, 81, 87, 53, 48, 56, 68, 54, 81, 69, 74, 88, 84, 68, 71, 52, 89, 53, 82, 51, 90, 65, 82, 86, 65, 82, 89, 48, 67, 53, 88, 87, 55, 75, 86, 56, 70, 51, 84, 52]).toOption = some (0, [117, 30, 118, 232, 25, 145, 150, 212, 84, 148, 28, 69, 209, 179, 163, 35, 241, 67, 59, 214]) ∧
    ([98, 99, 49, 113, 119, 53, 48, 56, 100, 54, 113, 101, 106, 120, 116, 100, 103, 52, 121, 53, 114, 51, 122, 97, 114, 118, 97, 114, 121, 48, 99, 53, 120, 119, 55, 107, 118, 56, 102, 51, 116, 52] : Bytes) ≠ [66, 67, 49, 81, 87, 53, 48, 56, 68, 54, 81, 69, 74, 88, 84, 68, 71, 52, 89, 53, 82, 51, 90, 65, 82, 86, 65, 82, 89, 48, 67, 53, 88, 87, 55, 75, 86, 56, 70, 51, 84, 52] ∧
    Bech32.hamming (([98, 99, 49, 113, 119, 53, 48, 56, 100, 54, 113, 101, 106, 120, 116, 100, 103, 52, 121, 53, 114, 51, 122, 97, 114, 118, 97, 114, 121, 48, 99, 53, 120, 119, 55, 107, 118, 56, 102, 51, 116, 52] : Bytes).map Addr.asciiLower) (([66, 67, 49, 81, 87, 53, 48, 56, 68, 54, 81, 69, 74, 88, 84, 68, 71, 52, 89, 53, 82, 51, 90, 65, 82, 86, 65, 82, 89, 48, 67, 53, 88, 87, 55, 75, 86, 56, 70, 51, 84, 52] : Bytes).map Addr.asciiLower) = 0 ∧
    Bech32.hamming ([98, 99, 49, 113, 119, 53, 48, 56, 100, 54, 113, 101, 106, 120, 116, 100, 103, 52, 121, 53, 114, 51, 122, 97, 114, 118, 97, 114, 121, 48, 99, 53, 120, 119, 55, 107, 118, 56, 102, 51, 116, 53] : Bytes) [98, 99, 49, 113, 119, 53, 48, 56, 100, 54, 113, 101, 106, 120, 116, 100, 103, 52, 121, 53, 114, 51, 122, 97, 114, 118, 97, 114, 121, 48, 99, 53, 120, 119, 55, 107, 118, 56, 102, 51, 116, 52] = 1 ∧
    (segwitDecode [98, 99] [98, 99, 49, 113, 119, 53, 48, 56, 100, 54, 113, 101, 106, 120, 116, 100, 103, 52, 121, 53, 114, 51, 122, 97, 114, 118, 97, 114, 121, 48, 99, 53, 120, 119, 55, 107, 118, 56, 102, 51, 116, 53]).toOption = none ∧
    (segwitDecode [98, 99] [98, 99, 49, 113, 119, 53, 48, 56, 100, 54, 113, 101, 106, 120, 116, 100, 103, 52, 121, 53, 114, 51, 122, 97, 114, 118, 97, 114, 121, 48, 99, 53, 120, 119, 55, 107, 118, 56, 102, 51, 116, 113]).toOption = none := by decide +kernel

/-- Bech32 / Bech32m detect every substitution of up to THREE characters in the data part: same statement as
    `bech32_detects_le2_substitutions` with distance ≤ 3. The additional kernel computation (`orbit3_tab_a/b`,
    `decide +kernel`) re-computes the 2759 values (x^k·u mod g) >>> 5, u = 1..31, k = 1..89, with the GENERATED
    polymod step and checks each against a certificate tree (Proofs/C15BchTree.lean) that maps the value to
    128·u + k; a weight-3 error word with zero syndrome would make two of these values with different k equal.
    Outside the statement (exactly as for ≤ 2): a corrupted string accepted under the OTHER checksum variant
    (Bech32 ↔ Bech32m; syndrome 1 xor 0x2bc830a3 instead of 0), substitutions that change the position of the
    last '1' (then the hrp differs), insertions and deletions (then the length differs). -/
theorem bech32_detects_le3_substitutions (s s' hrp d d' : Bytes) (m : Bool)
    (h : Bech32.decode s = some (hrp, d, m)) (h' : Bech32.decode s' = some (hrp, d', m))
    (hlen : s.length = s'.length)
    (hd : Bech32.hamming (s.map Addr.asciiLower) (s'.map Addr.asciiLower) ≤ 3) :
    s.map Addr.asciiLower = s'.map Addr.asciiLower :=
  Bech32.detect_gen 3 Bech32.pf_detect3 s s' hrp d d' m h h' hlen hd

/-- non-vacuity: the hypotheses are satisfiable (an accepted string against itself) -/
example : Bech32.decode [97, 49, 50, 117, 101, 108, 53, 108] = some ([97], [], false) ∧
    Bech32.hamming [97, 49, 50, 117, 101, 108, 53, 108] [97, 49, 50, 117, 101, 108, 53, 108] ≤ 3 := by decide +kernel

/-- segwit level, ≤ 3: two strings accepted by `SegwitDecode` for the same hrp with witness versions that are both 0
    or both non-zero (they need not be equal), of equal length, at case-insensitive distance ≤ 3 are equal up to
    case. Since "version = 0" fixes the checksum variant, the only excluded typos are those that change the
    version symbol between 0 and non-0, the separator position or the length. -/
theorem segwit_detects_le3_substitutions (hrp s s' p p' : Bytes) (v v' : Nat) (hvv : v = 0 ↔ v' = 0)
    (h : segwitDecode hrp s = .ok (v, p)) (h' : segwitDecode hrp s' = .ok (v', p'))
    (hlen : s.length = s'.length)
    (hd : Bech32.hamming (s.map Addr.asciiLower) (s'.map Addr.asciiLower) ≤ 3) :
    s.map Addr.asciiLower = s'.map Addr.asciiLower := by
  obtain ⟨_, _, _, _, d, m, hdec, hm⟩ := segwitDecode_sound hrp s v p h
  obtain ⟨_, _, _, _, d', m', hdec', hm'⟩ := segwitDecode_sound hrp s' v' p' h'
  have : m = m' := by
    by_cases hz : v = 0
    · have hz' := hvv.mp hz
      cases m <;> cases m' <;> simp_all
    · have hz' : ¬ v' = 0 := fun e => hz (hvv.mpr e)
      cases m <;> cases m' <;> simp_all
  subst this
  exact Bech32.detect_gen 3 Bech32.pf_detect3 s s' hrp d d' m hdec hdec' hlen hd

/-! ### one BtcAddr object used over time (Model/AddrObj.lean)

The callers that re-point an existing object (client/usif/textui/wallet.go `list_unspent`, tools/tap2old) assign
exported fields between calls. In the model `String()` / `OutScript()` are functions of the exported fields alone
(`Addr.Obj` has no other component); the harness stream `hist` checks that of the real code by running every history
also on a new object built from the exported fields, and against `Obj.trace`. -/

/-- What the two methods may change: `String()` leaves SegwitProg, Version and Hash160 as they are (it writes only
    the caches Enc58str and Checksum), and `OutScript()` writes nothing at all. -/
theorem reuse_calls_change_only_caches (H : Addr.Hashes) (o : Addr.Obj) :
    (o.string H).2.seg = o.seg ∧ (o.string H).2.ver = o.ver ∧ (o.string H).2.h160 = o.h160 ∧
    o.apply H .callOutScript = o := by
  have h := Addr.Obj.string_core H o
  simp only [Addr.Obj.core, Prod.mk.injEq] at h
  exact ⟨h.1, h.2.1, h.2.2, rfl⟩

/-- `OutScript()` has no memory, for EVERY history (any assignments of SegwitProg / Enc58str / Checksum / Version /
    Hash160 interleaved with any calls of `String()` and `OutScript()`, caches reset or not): its result at the end
    is the result on the object that received only the assignments — no earlier call of either method changes it —
    and it is `outScript` of the destination the exported fields then denote. -/
theorem reuse_outscript_ignores_earlier_calls (H : Addr.Hashes) (ops : List Addr.Op) (o : Addr.Obj) :
    (Addr.Obj.exec H ops o).outScript = (Addr.Obj.exec H (ops.filter (fun op => !op.isCall)) o).outScript ∧
    (Addr.Obj.exec H ops o).outScript = Addr.outScript (Addr.Obj.exec H ops o).dest := by
  refine ⟨?_, rfl⟩
  unfold Addr.Obj.outScript
  rw [Addr.Obj.dest_of_core (Addr.Obj.exec_core_filter H ops o o rfl)]

/-- The re-use idiom is sound. Start from a coherent object (caches empty or holding what `String()` computes from
    the other fields: every newly constructed or parsed address, see `reuse_start_coherent`), run ANY history written
    in the callers' idiom — re-pointing always resets Enc58str (and Checksum when Version/Hash160 are assigned), calls
    of `String()` / `OutScript()` in any number and order — that ends with "point the object to destination `d`, then
    any calls". Then the next `String()` and `OutScript()` are exactly those of a new address for `d` (to which
    `addr_string_roundtrip` / `addr_script_roundtrip` apply), and the object is coherent again. -/
theorem reuse_idiom_gives_fresh_results (H : Addr.Hashes) (hH : ∀ x, (H.sha2sum x).length = 32) (o : Addr.Obj)
    (hc : o.Coherent H) (pre : List Addr.Reuse) (d : Addr.Dest) (cs : List Addr.Reuse)
    (hcs : ∀ s ∈ cs, s.isCall = true) :
    let o' := Addr.Obj.reuse H (pre ++ Addr.Reuse.point d :: cs) o
    (o'.string H).1 = (Addr.toString H d.addr).getD [] ∧ o'.outScript = Addr.outScript d.addr ∧ o'.Coherent H :=
  Addr.Obj.reuse_point_then_calls H hH o hc pre d cs hcs

/-- non-vacuity: `new(BtcAddr)` is coherent; the history of `list_unspent` (OutScript, point to P2TR, String,
    OutScript, point to P2WPKH, OutScript) is an idiom history whose suffix is calls only -/
example (H : Addr.Hashes) : Addr.Obj.zero.Coherent H ∧
    (∀ s ∈ ([.outScript, .string] : List Addr.Reuse), s.isCall = true) :=
  ⟨⟨Or.inl rfl, Or.inl rfl⟩, by decide⟩

/-- Where coherent objects come from: (a) any object whose two caches are empty (`new(BtcAddr)`,
    `NewAddrFromHash160`, `NewAddrFromPubkey`, the segwit branch of `NewAddrFromString`); (b) the object the Base58
    branch of `NewAddrFromString` builds for an accepted string — Version, Hash160, Checksum = payload bytes 21..24,
    Enc58str = the string typed. -/
theorem reuse_start_coherent (H : Addr.Hashes) :
    (∀ seg ver h, Addr.Obj.Coherent H ⟨seg, [], none, ver, h⟩) ∧
    (∀ hs a dec, 4 ≤ hs.length → ¬ Addr.segwitPrefix hs → Base58.decode hs = some dec →
      Addr.fromString H hs = .ok a →
      Addr.Obj.Coherent H ⟨none, hs, some (dec.drop 21), dec.headD 0, (dec.drop 1).take 20⟩) :=
  ⟨fun _ _ _ => ⟨Or.inl rfl, Or.inl rfl⟩,
   fun hs a dec hlen hp hd h => Addr.Obj.parsed_b58_coherent H hs hlen hp a dec hd h⟩

/-- non-vacuity of (b): side conditions as for `b58check_accept_iff` (example there) -/
example : 4 ≤ ([49, 49, 49, 49] : Bytes).length ∧ ¬ Addr.segwitPrefix [49, 49, 49, 49] :=
  ⟨by simp, Addr.not_prefix_of_first _ _ (by decide)⟩

/-- What is true WITHOUT the reset (why the callers write `ad.Enc58str = ""`): the string cache is sticky — once
    Enc58str is non-empty, assigning SegwitProg, Version, Hash160 or Checksum does not change what `String()`
    returns. This is the code's documented-by-use contract, not a defect; `OutScript()` has no such cache
    (`reuse_outscript_ignores_earlier_calls`). -/
theorem reuse_string_cache_sticky (H : Addr.Hashes) (o : Addr.Obj) (h : o.enc ≠ []) (op : Addr.Op)
    (hop : op.isCall = false) (hne : ∀ s, op ≠ .setEnc s) : ((o.apply H op).string H).1 = o.enc := by
  cases op <;> simp only [Addr.Op.isCall, Bool.true_eq_false] at hop
  · exact Addr.Obj.string_of_enc_ne H _ h
  · exact absurd rfl (hne _)
  · exact Addr.Obj.string_of_enc_ne H _ h
  · exact Addr.Obj.string_of_enc_ne H _ h
  · exact Addr.Obj.string_of_enc_ne H _ h

/-- non-vacuity: an object with a cached string, re-pointed by assigning SegwitProg only -/
example : (⟨none, [49], none, 0, []⟩ : Addr.Obj).enc ≠ [] ∧ (Addr.Op.setSeg none).isCall = false ∧
    ∀ s, Addr.Op.setSeg none ≠ .setEnc s := ⟨by simp, rfl, fun _ => by simp⟩

/-! ### Several callers at once, nothing shared

All models above are FUNCTIONS of a call's arguments (for `BtcAddr`: of the object's own fields). The client calls the
codec from many goroutines (web-UI requests, wallet balance workers, RPC), each with its own scripts, strings and
objects — so the models describe the code only while the codec functions keep no writable package-level state. -/

/-- SOURCE FACT, re-derived from the tree under test on every run (go/cmd/gen_c15/shared.go, go/types over lib/btc and
    lib/others/bech32): in the call closure of the C15 API (NewAddrFromString, BtcAddr.String/OutScript,
    NewAddrFromPkScript/Hash160/Pubkey, SegwitProg.String, Encodeb58, Decodeb58, DecodePrivateAddr,
    PrivateAddr.String, bech32.Encode/Decode/SegwitEncode/SegwitDecode; bounded at PublicFromPrivate) no use of a
    package-level variable writes it or hands it on as a reference — `b58set`, `bn0`, `bn58`, `charset_rev`
    (`Gen.C15Shared.globalsRead`) are only read, and the REFERENCE-TYPED ones among them (`globalsReadRef`: slices,
    maps, pointers, …, the variables through which a write could escape the classifier by aliasing) are PINNED here
    to `b58set`, `bn0`, `bn58`: a new package-level slice, map, pointer or pool anywhere in the closure changes the
    list and forces a look whatever the classifier thinks of its uses (a new read-only array or scalar, e.g. a
    precomputed generator table, does not); a package-level variable used as
    the key/value of `for k, v = range …` counts as written; and no package-level variable is the receiver of a
    sync / sync/atomic method (`globalsSynchronised = []`: a sync.Pool, sync.Map, atomic.Value or mutex-guarded
    cache IS state shared between callers; whether it is used correctly — e.g. a pooled buffer not handed out after
    Put — is not analysed, so its mere presence breaks the theorem). A scratch value, cache, memo table, loop index
    or pooled buffer hoisted to package level makes one of the three lists differ and the theorem false. -/
theorem codec_writes_no_package_state :
    Gen.C15Shared.globalsWritten = [] ∧ Gen.C15Shared.globalsSynchronised = [] ∧
    Gen.C15Shared.globalsReadRef = ["btc.b58set", "btc.bn0", "btc.bn58"] := by decide

/-- `Encodeb58` under ANY interleaving of any number of callers (step-level model `Base58Sched`: per digit one step
    "DivMod — quotient into the caller's `bn`, remainder into the destination operand" and one step "read the
    remainder, store the digit"; a schedule is any list of caller indices), in the variant the source has
    (`Gen.C15Shared.encodeRemShared`: is that destination operand package-level?): the state of caller `i` after the
    schedule is the state it reaches running ALONE for as many steps as the schedule gave it — no other caller's
    argument or progress enters; when it has left the loop the string it returns is `Base58.encode` of its own
    argument (the function all Base58 / address / WIF theorems above are about); and it has left the loop as soon as
    it was given two steps per digit. -/
theorem concurrent_encodes_schedule_independent (as : List Bytes) (sched : List Nat) (i : Nat) (a : Bytes)
    (ha : as[i]? = some a) :
    ∃ t, (Base58Sched.run Gen.C15Shared.encodeRemShared (Base58Sched.start as) sched).ths[i]? = some t ∧
      t = Base58Sched.alone (Base58Sched.Th.init a) (sched.count i) ∧
      (t.done → t.result a = Base58.encode a) ∧
      (2 * (Base58.digits (beVal a)).length ≤ sched.count i → t.done) := by
  have hs : Gen.C15Shared.encodeRemShared = false := by decide
  refine ⟨_, ?_, rfl, ?_, ?_⟩
  · rw [hs, Base58Sched.run_false_ths]
    simp [Base58Sched.start, ha]
  · exact Base58Sched.alone_done_result a _
  · intro hk
    obtain ⟨k, hk⟩ := Nat.exists_eq_add_of_le hk
    rw [hk, Base58Sched.alone_add]
    have hd := Base58Sched.alone_finishes (beVal a) (Base58Sched.Th.init a) rfl rfl
    rw [Base58Sched.alone_done_stays _ hd]
    exact hd

/-- non-vacuity: two callers, strictly alternating; both have left the loop and hold their own digit -/
example : let s := Base58Sched.run false (Base58Sched.start [[1], [2]]) [0, 1, 0, 1]
    s.ths.map (·.out) = [[Base58.digitChar 1], [Base58.digitChar 2]] ∧ ∀ t ∈ s.ths, t.done := by decide

/-- The fact `encodeRemShared = false` is needed: in the other variant (the remainder operand of DivMod hoisted to ONE
    package-level cell — an allocation-saving rewrite that is byte-for-byte equivalent for a single caller) the
    schedule "A divides, B divides, A stores its digit" makes caller A, encoding the value 1, store B's digit:
    it returns "3" where `Encodeb58` alone returns "2" — a string that decodes to a different payload. -/
theorem shared_remainder_not_schedule_independent :
    let s := Base58Sched.run true ⟨0, [Base58Sched.Th.ofNat 1, Base58Sched.Th.ofNat 2]⟩ [0, 1, 0]
    ∃ t, s.ths[0]? = some t ∧ t.done ∧ t.out = [Base58.digitChar 2] ∧
      (Base58Sched.alone (Base58Sched.Th.ofNat 1) 2).out = [Base58.digitChar 1] ∧
      Base58.digitChar 2 ≠ Base58.digitChar 1 := by decide

/-- SOURCE FACTS (regenerated on every run by go/cmd/gen_c15/strloop.go, same call closure as
    `codec_writes_no_package_state`): the codec reads a typed string BYTE BY BYTE. Nowhere in the closure is a code
    point taken from a string (value variable of a `range` over a string or `[]rune`, result of `utf8.DecodeRune*`,
    element of a `[]rune`; also after conversion to any integer type, arithmetic, assignment to another variable,
    being passed as an argument to a function of the two packages — parameters are followed to a fixpoint — or
    returned by one) converted to an 8/16-bit integer, masked or reduced modulo a small constant; and the list of ALL
    CALL SITES of code-point-aware library functions, with their argument expressions (identifiers normalised: p0 =
    first parameter), is exactly `strings.ToLower(p0[:3])` in `NewAddrFromString` — a second call, or the same call
    on the whole typed string, changes the list (no `EqualFold`, `ToUpper`, `Map`, `TrimSpace`, `unicode.*`, `utf8.*`
    on the typed text). All models of C15 take a Go string as the list of its bytes; these two lists are what makes
    that reading the code's. NOT seen by the extractor: code points carried through struct fields, slices other than
    `[]rune`, channels, interfaces, closures stored in variables, or functions outside lib/btc and lib/others/bech32;
    narrowing by arithmetic other than a conversion, `&` or `%` (e.g. subtracting 256). -/
theorem codec_reads_typed_strings_bytewise :
    Gen.C15Str.runeNarrowings = [] ∧
    Gen.C15Str.unicodeCalls = ["btc.NewAddrFromString: strings.ToLower(p0[:3])"] := by
  decide

/-- The digit loop of `Decodeb58` AS IT IS WRITTEN (`Base58Str.decodeSrc`: a `range` over the string visits the first
    byte of every UTF-8 code point, an invalid byte being a code point of width 1 — `Gen.C15Str.b58DecodeRangesString`;
    what is looked up there — `Gen.C15Str.b58DecodeLookup`: the byte `s[i]`) computes, for EVERY byte string, exactly
    the bytewise `Base58.decode` that all Base58 / address / WIF theorems of this file are about: the bytes `range`
    skips follow a first byte ≥ 0xC2, which is in no alphabet. Needs the regenerated lookup to be 0 (byte) or 2 (the
    range's value variable used ONLY as a comparison operand, an index or a switch tag/case, i.e. at full width);
    false as soon as the loop looks up the code point narrowed to a byte (1), and not provable when the value variable
    is used in any way the extractor does not classify — handed to a callee, converted, stored (3, modelled as 1). -/
theorem b58_decode_as_written_is_bytewise (s : Bytes) : Base58Str.decodeSrc s = Base58.decode s := by
  have hl : Gen.C15Str.b58DecodeLookup = 0 ∨ Gen.C15Str.b58DecodeLookup = 2 := by decide
  exact Base58Str.decodeGo_eq _ _ hl s

/-- "AN INVALID CHARACTER … IS REFUSED", for every character outside ASCII in whatever encoding: a typed string with a
    byte ≥ 0x80 — any UTF-8 encoded code point ≥ U+0080 (letters of other scripts, full-width forms, KELVIN SIGN, code
    points congruent to an alphabet letter modulo 256 or 128, zero-width characters), any over-long or invalid
    sequence — is refused by `Decodeb58` (bytewise model and the loop as written), `bech32.Decode`, `SegwitDecode`
    (for any expected hrp), `NewAddrFromString` and `DecodePrivateAddr`. -/
theorem nonascii_refused (H : Addr.Hashes) (C : WalletCrypto) (hrp s : Bytes) (h : ∃ c ∈ s, 128 ≤ c.toNat) :
    Base58.decode s = none ∧ Base58Str.decodeSrc s = none ∧ Bech32.decode s = none ∧
    Bech32.segwitDecode hrp s = .error .decode ∧
    (Addr.fromString H s = .error .short ∨ Addr.fromString H s = .error (.segwit .decode) ∨
      Addr.fromString H s = .error .b58decode) ∧
    AddrWif.decode C s = .error .b58 :=
  ⟨Base58Str.decode_hi s h, by rw [b58_decode_as_written_is_bytewise]; exact Base58Str.decode_hi s h,
   Bech32.decode_hi s h, Bech32.segwitDecode_hi hrp s h, Addr.fromString_hi H s h, AddrWif.decode_hi C s h⟩

/-- non-vacuity: "1" followed by U+0146 (UTF-8 c5 86; 0x46 = 'F') satisfies the hypothesis -/
example : ∃ c ∈ ([0x31, 0xc5, 0x86] : Bytes), 128 ≤ c.toNat := ⟨0xc5, by simp, by decide⟩

/-- The fact `b58DecodeLookup ≠ 1` is needed: in the variant "for _, c := range s { … b58chr2int(byte(c)) … }" (the
    idiomatic-looking rewrite, identical on ASCII) the two bytes c4 b2 — U+0132, whose low 8 bits are 0x32 = '2' —
    decode to the payload 01 that the string "2" denotes, while the bytewise decoder refuses them. -/
theorem rune_narrowing_accepts_nonalphabet :
    Base58Str.decodeGo true 1 [0xc4, 0xb2] = some [1] ∧ Base58.decode [0x32] = some [1] ∧
    Base58.decode [0xc4, 0xb2] = none := by
  have hv : Base58Str.valueGo true 1 [0xc4, 0xb2] = some 1 := by decide +kernel
  have hw : Base58.value? [0x32] 0 = some 1 := by decide +kernel
  have hn : Base58.natBytes 1 = [1] := by
    rw [Base58.natBytes]; simp; rw [Base58.natBytes]; simp
  refine ⟨?_, ?_, Base58Str.decode_hi _ ⟨0xc4, by simp, by decide⟩⟩
  · unfold Base58Str.decodeGo; rw [hv]; simp only [hn]; decide +kernel
  · unfold Base58.decode; rw [hw]; simp only [hn]; decide +kernel

/-! ### A payout address typed at run time (client/usif/textui `minadr` → rpcapi.COINBASE_ADDRESS → make_coinbase_tx)

"Hence the script a payment is sent to is always the one the typed address denotes", for the caller that keeps the
typed address ACROSS calls. `Addr.Payout.run` is the model of the two sites as written (the only state is the
string; every template decodes it again); go/cmd/c15/callers.go runs the same histories through the real
`minadr` handler and the real `make_coinbase_tx`, one fresh process per history. -/

/-- For EVERY history of `minadr <string>` commands, templates and `validateaddress` calls, from every start value
    of COINBASE_ADDRESS and for every hash function: the template requested next pays the script of the address IN
    FORCE - the last typed string that is non-empty and accepted by `NewAddrFromString`, the start value when
    nothing acceptable was typed yet. Templates and validateaddress calls that happened earlier do not appear on
    the right-hand side at all: no earlier request can influence what a template pays. -/
theorem payout_pays_address_in_force (H : Addr.Hashes) (pre : List Addr.Payout.Step) (start : Bytes) :
    Addr.Payout.run H (pre ++ [.template]) start =
      Addr.Payout.run H pre start ++
        [.pays (Addr.Payout.scriptOf H (Addr.Payout.inForce H start (Addr.Payout.typedOf pre)))] := by
  rw [Addr.Payout.run_append, Addr.Payout.cfgAfter_eq_inForce]; rfl

/-- The same for the string `minadr` DISPLAYS: after typing `s` the command shows the address in force of the
    history including `s` - `s` itself when it is a non-empty accepted address, the previous one otherwise. -/
theorem payout_shows_address_in_force (H : Addr.Hashes) (pre : List Addr.Payout.Step) (start s : Bytes) :
    Addr.Payout.run H (pre ++ [.typed s]) start =
      Addr.Payout.run H pre start ++ [.shown (Addr.Payout.inForce H start (Addr.Payout.typedOf pre ++ [s]))] ∧
    (s ≠ [] → Addr.Payout.accepted H s = true →
      Addr.Payout.inForce H start (Addr.Payout.typedOf pre ++ [s]) = s) ∧
    (Addr.Payout.accepted H s = false →
      Addr.Payout.inForce H start (Addr.Payout.typedOf pre ++ [s]) =
        Addr.Payout.inForce H start (Addr.Payout.typedOf pre)) := by
  refine ⟨?_, ?_, ?_⟩
  · rw [Addr.Payout.run_append, Addr.Payout.cfgAfter_eq_inForce]
    simp only [Addr.Payout.run, Addr.Payout.inForce_snoc]
  · intro h1 h2; rw [Addr.Payout.inForce_snoc]; simp [Addr.Payout.minadr, h1, h2]
  · intro h2; rw [Addr.Payout.inForce_snoc]; simp [Addr.Payout.minadr, h2]

/-- What the template pays IS what the address in force denotes: when the string in force decodes to one of the
    supported destination forms, the template does not panic, its script is the `OutScript` of that address, and
    `NewAddrFromPkScript` maps that script back to an address with the same script (either network flag);
    `validateaddress` of the same string reports the same script. -/
theorem payout_script_is_denoted (H : Addr.Hashes) (s : Bytes) (a : Addr.Addr) (tn : Bool)
    (hd : Addr.fromString H s = .ok a) (hs : Addr.Supported a) :
    ∃ scr a', Addr.Payout.scriptOf H s = some scr ∧ Addr.outScript a = some scr ∧
      Addr.Payout.validate H s = some (some scr) ∧
      Addr.fromPkScript H scr tn = some a' ∧ Addr.outScript a' = some scr := by
  obtain ⟨scr, a', h1, h2, h3⟩ := Addr.script_roundtrip H a tn hs
  exact ⟨scr, a', by simp [Addr.Payout.scriptOf, hd, h1], h1, by simp [Addr.Payout.validate, hd, h1], h2, h3⟩

/-- non-vacuity (and the history of the round-5 change): start value = BIP350's testnet P2TR vector; a template, then
    `minadr` with BIP173's testnet P2WPKH vector, then a template: the second template pays 0014 751e…, not the
    script of the start value; an unacceptable string typed afterwards changes nothing (these strings never reach the hash slots,
    a toy hash serves). -/
example :
    Addr.Payout.run ⟨fun _ => List.replicate 32 0, fun _ => []⟩ [.template, .typed (strBytes "tb1qw508d6qejxtdg4y5r3zarvary0c5xw7kxpjzsx"), .template,
        .typed (strBytes "tb1qw508d6qejxtdg4y5r3zarvary0c5xw7kxpjzsy"), .template]
      (strBytes "tb1pqqqqp399et2xygdj5xreqhjjvcmzhxw4aywxecjdzew6hylgvsesf3hn0c") =
    [.pays (some ([0x51, 32] ++ [0x00, 0x00, 0x00, 0xc4, 0xa5, 0xca, 0xd4, 0x62, 0x21, 0xb2, 0xa1, 0x87, 0x90, 0x5e,
        0x52, 0x66, 0x36, 0x2b, 0x99, 0xd5, 0xe9, 0x1c, 0x6c, 0xe2, 0x4d, 0x16, 0x5d, 0xab, 0x93, 0xe8, 0x64, 0x33])),
     .shown (strBytes "tb1qw508d6qejxtdg4y5r3zarvary0c5xw7kxpjzsx"),
     .pays (some ([0x00, 20] ++ [0x75, 0x1e, 0x76, 0xe8, 0x19, 0x91, 0x96, 0xd4, 0x54, 0x94, 0x1c, 0x45, 0xd1, 0xb3,
        0xa3, 0x23, 0xf1, 0x43, 0x3b, 0xd6])),
     .shown (strBytes "tb1qw508d6qejxtdg4y5r3zarvary0c5xw7kxpjzsx"),
     .pays (some ([0x00, 20] ++ [0x75, 0x1e, 0x76, 0xe8, 0x19, 0x91, 0x96, 0xd4, 0x54, 0x94, 0x1c, 0x45, 0xd1, 0xb3,
        0xa3, 0x23, 0xf1, 0x43, 0x3b, 0xd6]))] := by
  decide +kernel

/-
  -- OPEN: error detection for FOUR substitutions (BIP173's "up to 4"). Full statement:
  --   `bech32_detects_le3_substitutions` with `≤ 4` in place of `≤ 3`. Exact reduction (same lemmas as weight 3:
  --   `pf_xor`, `iter_xor`, `iter_inj0`, `shr5_eq_of_xor_small`): a weight-4 error word of ≤ 89 symbols with zero
  --   syndrome gives x^k1·u + x^k2·v + x^k3·w = z (constant), 89 ≥ k1 > k2 > k3 ≥ 1, u,v,w ≠ 0, hence
  --   H(u,k1) xor H(v,k2) = H(w,k3) for the 2759 certified values H(u,k) = (x^k·u mod g) >>> 5. Sufficient kernel
  --   check: for all pairs of table entries with k1 ≠ k2, `orbitTree.lookup (H1 xor H2) = none` (lookup is `some`
  --   on every table value by `orbit_lookup`) — 31²·C(89,2) ≈ 3.76·10^6 pair look-ups of ≈ 24 Nat comparisons.
  --   MEASURED on this machine (decide +kernel, list literal of the 2759 values, 27 590 pair look-ups): 64 s,
  --   i.e. ≈ 430 pair look-ups/s ≈ 10^4 comparisons/s ⇒ ≈ 2.4 h for weight 4 — not feasible within the build
  --   budget. A GF(32)-scaling argument (normalise u = 1; needs GF(32)-linearity of the step, which is NOT
  --   proved — only GF(2)-linearity `ps_lin` is) would divide this by 31 (≈ 5 min), still too slow here.
  --   Brute force over C(90,4)·31^4 ≈ 2.4·10^12 patterns is out of reach.
  -- OUTSIDE the distance theorems (≤ 2 and ≤ 3), by their hypotheses: (a) a corrupted string that is accepted under
  --   the OTHER checksum variant (Bech32 ↔ Bech32m, error syndrome = 1 xor 0x2bc830a3): at the `SegwitDecode`
  --   level this needs the version symbol to change between 0 and non-0 as well, which is exactly what the
  --   hypothesis `v = 0 ↔ v' = 0` of the segwit theorems excludes (two different non-zero versions are covered); (b) substitutions that put a '1' into the data part or remove the separator (the hrp then
  --   differs); (c) insertions / deletions (length differs). For all of these only uniqueness is proved
  --   (`segwit_encode_decode`: an accepted string is, up to case, THE encoding of what it decodes to, so a
  --   corrupted string is never silently accepted as the original destination); the ≤4-edit neighbourhood is
  --   searched by the correspondence run against the BIP173/350 reference (mutation stream), not by a theorem.
  -- CORRESPONDENCE ONLY (re-used objects): that `btc.BtcAddr` has no state besides the exported fields that `String()` /
  --   `OutScript()` consult is built into `Addr.Obj`; it is checked of the real code by the `hist` stream (every call on a
  --   re-used object against the same call on a new object with the same exported fields), not by a theorem. The Go
  --   `SegwitProg.Version` is an int (negative values are outside the model, as for `segwitEncode`); `Pubkey`, `Extra`
  --   and `Owns()` (which may set `Pubkey`) are not part of `Obj` — neither method reads them.
  -- CORRESPONDENCE ONLY (concurrent callers): the step-level model covers Encodeb58's digit loop ONLY, and in the variant
  --   the source has (`encodeRemShared = false`) its step function never reads the one shared cell the modeller gave it:
  --   `concurrent_encodes_schedule_independent` is then independence BY CONSTRUCTION of the model; its content is "a
  --   caller running alone returns Base58.encode within 2 steps per digit" plus the counter-model
  --   `shared_remainder_not_schedule_independent` showing what the regenerated fact rules out. Every other sharing hazard
  --   (any other variable, any other function) rests on the source facts of `codec_writes_no_package_state`, which do NOT
  --   see: writes through unsafe / reflection / cgo, closures stored in variables and called later, state reached through
  --   interface values, state inside other packages (hash objects, math/big internals, secp256k1 tables), data races on
  --   variables that are only READ here but written elsewhere in the program. For the other codec
  --   functions "no shared writable state" is the regenerated fact `codec_writes_no_package_state` (an analysis of the
  --   source, not a semantics of Go's memory model) plus the harness stream `conc` (2..16 goroutines, each on its own
  --   inputs, every result compared with the reference). Hashing (sha256/ripemd160 objects are created per call) and
  --   the key derivation behind NewPrivateAddr (secp256k1 tables, C08/C14) are outside the analysed closure.
  -- CORRESPONDENCE ONLY (typed strings outside ASCII): `strings.ToLower(hs[:3])` in NewAddrFromString is modelled as ASCII
  --   lower-casing of three bytes (Unicode's ToLower of a 3-byte string with a byte ≥ 0x80 never yields "bc1"/"tb1":
  --   invalid bytes become U+FFFD, and no 2-byte code point plus one ASCII byte lower-cases to three ASCII bytes); the
  --   UTF-8 decoder `Base58Str.decodeRune` is tied to Go's `range` by oracle op `runes`; both are exercised by the harness
  --   stream unicode.go (aliases of alphabet characters in every family, at every decoder), not proved of Go.
  -- (CLOSED: finding `bech32-encode-empty-hrp` — `Encode("", d, m)` returned "1" ++ d ++ checksum, which `Decode` refuses;
  --   fixed in lib/others/bech32/bech32.go (aaaa0fae), now `bech32_empty_hrp_refused`, and `bech32_decode_encode` /
  --   `segwit_decode_encode` lost their hypothesis `hrp ≠ []`. STILL outside the model: a NEGATIVE `SegwitProg.Version` /
  --   `witver` (Go int; `byte(witver)` wraps) — `segwitEncode` takes a Nat.)
  -- (CLOSED: finding `wif-flag-byte-unchecked` — WIF decode → re-encode was false of the code for a 38-byte payload
  --   whose flag byte is not 01; fixed in lib/btc/wallet.go, now `wif_flag_byte_refused` / `wif_encode_decode`.)
-/

end GocoinV.Props.C15
