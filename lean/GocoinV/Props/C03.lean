/-
  Props.C03 — property theorems for C03 (ECDSA, Schnorr and taproot-tweak checks are exact; own
  signatures verify). All statements are about the definitions of Model/Sig.lean — the ones the oracle
  executes and the harness compares with the Go code — against Spec/{Ecdsa,Bip340,TapTweak,Rfc6979}.lean.
  `fixed := true` is the model of the CURRENT source; `fixed := false` the model of the pinned snapshot
  (before the five `fix:` commits of this property), used by the `_counterexample` theorems.
  Hash functions are universally quantified parameters.
-/
import GocoinV.Proofs.C03
namespace GocoinV.Props.C03
open GocoinV GocoinV.Secp GocoinV.Model GocoinV.C03 GocoinV.Proofs.C03

/-! ### witnesses (also in corpus/C03/cases.txt, replayed on the real code by the harness) -/

/-- 02 ‖ 1 : the point with x = 1 and even y -/
def pkX1 : Bytes := [2, 0, 0, 0, 0, 0, 0, 0, 0, 0, 0, 0, 0, 0, 0, 0, 0, 0, 0, 0, 0, 0, 0, 0, 0, 0, 0, 0, 0, 0, 0, 0, 1]
/-- 02 ‖ (p+1) : the same point with a non-canonical x -/
def pkXplusP : Bytes := [2, 255, 255, 255, 255, 255, 255, 255, 255, 255, 255, 255, 255, 255, 255, 255, 255, 255, 255, 255, 255, 255, 255, 255, 255, 255, 255, 255, 254, 255, 255, 252, 48]
/-- r = x(G + Q) mod n, s = r, message value m = r  (u1 = u2 = 1): a valid triple for `pkX1` -/
def sigRR : Bytes := [48, 68, 2, 32, 87, 215, 131, 87, 157, 3, 217, 171, 103, 168, 170, 122, 217, 183, 90, 102, 235, 202, 78, 188, 225, 181, 190, 113, 68, 45, 177, 48, 127, 145, 70, 168, 2, 32, 87, 215, 131, 87, 157, 3, 217, 171, 103, 168, 170, 122, 217, 183, 90, 102, 235, 202, 78, 188, 225, 181, 190, 113, 68, 45, 177, 48, 127, 145, 70, 168]
/-- the same signature with s replaced by s + n (33-byte integer) -/
def sigRSplusN : Bytes := [48, 69, 2, 32, 87, 215, 131, 87, 157, 3, 217, 171, 103, 168, 170, 122, 217, 183, 90, 102, 235, 202, 78, 188, 225, 181, 190, 113, 68, 45, 177, 48, 127, 145, 70, 168, 2, 33, 1, 87, 215, 131, 87, 157, 3, 217, 171, 103, 168, 170, 122, 217, 183, 90, 101, 166, 121, 43, 163, 144, 254, 94, 173, 4, 0, 15, 189, 79, 199, 135, 233]
def msgR : Bytes := [87, 215, 131, 87, 157, 3, 217, 171, 103, 168, 170, 122, 217, 183, 90, 102, 235, 202, 78, 188, 225, 181, 190, 113, 68, 45, 177, 48, 127, 145, 70, 168]
def zero32 : Bytes := [0, 0, 0, 0, 0, 0, 0, 0, 0, 0, 0, 0, 0, 0, 0, 0, 0, 0, 0, 0, 0, 0, 0, 0, 0, 0, 0, 0, 0, 0, 0, 0]
/-- taproot: Q = lift_x(x(3G)) + 5·G -/
def twQ : Bytes := [47, 1, 229, 225, 92, 202, 53, 29, 175, 243, 132, 63, 183, 15, 60, 47, 10, 27, 221, 5, 229, 175, 136, 138, 103, 120, 78, 243, 225, 10, 42, 1]
def twBase : Bytes := [249, 48, 138, 1, 146, 88, 195, 16, 73, 52, 79, 133, 248, 157, 82, 41, 181, 49, 200, 69, 131, 111, 153, 176, 134, 1, 241, 19, 188, 224, 54, 249]
def twHashPlusN : Bytes := [255, 255, 255, 255, 255, 255, 255, 255, 255, 255, 255, 255, 255, 255, 255, 254, 186, 174, 220, 230, 175, 72, 160, 59, 191, 210, 94, 140, 208, 54, 65, 70]
def twParity : Bool := false
/-- 04 ‖ 1 ‖ 1 : not on the curve -/
def pkOff : Bytes := 4 :: (zero32.take 31 ++ [1] ++ zero32.take 31 ++ [1])
/-- 02 ‖ 0 : x = 0 has no square root of x³+7 -/
def pkNonRes : Bytes := 2 :: zero32

/-! ### acceptance is exact (current code) -/

/-- ECDSA: `btc.EcdsaVerify` (model of the current code) accepts a (public key, signature, message)
    byte triple IF AND ONLY IF the key bytes are a SEC1 encoding of a curve point with coordinates
    below p, the signature container holds r, s with 1 ≤ r, s ≤ n−1, and the ECDSA equation holds.
    Stated for every key that is not `Exceptional` (03‖x with x³+7 ≡ 0 mod p — no such x exists on
    secp256k1, but that fact is not proved here). -/
theorem ecdsa_accept_iff (pk sig msg : Bytes) (hex : ¬ Exceptional pk) :
    Sig.ecdsaVerify true pk sig msg = true ↔ Spec.Ecdsa.Accepts pk sig msg := by
  rw [ecdsa_eq pk sig msg hex]; exact verify_iff pk sig msg

example : ¬ Exceptional pkX1 := by
  rintro ⟨t, h, _⟩
  simp [pkX1] at h
example : Spec.Ecdsa.Accepts pkX1 sigRR msgR := by
  rw [← verify_iff]; decide +kernel

/-- BIP340: `btc.SchnorrVerify` (model of the current code) returns exactly BIP340 verification, for
    all byte strings and every hash function: 32-byte liftable key, 64-byte signature, r < p, s < n,
    R = s·G − e·P finite with even y and x(R) = r. -/
theorem schnorr_accept_iff (H : Hash) (pk sig msg : Bytes) :
    Sig.schnorrVerify H pk sig msg = Spec.Bip340.verify H pk sig msg :=
  schnorr_eq H pk sig msg

/-- BIP341: `btc.CheckPayToContract` (model of the current code) returns exactly the BIP341 tweak
    check: 32-byte liftable internal key, tweak below n, Q = lift_x(P) + t·G finite, x(Q) equal to the
    output key and the parity bit equal to y(Q) mod 2. -/
theorem tweak_accept_iff (qx base hash : Bytes) (parity : Bool) :
    Sig.checkPayToContract qx base hash parity = Spec.TapTweak.check qx base hash parity :=
  tweak_eq qx base hash parity

/-- `XY.ParsePubkey` (current code) is strict SEC1 parsing (`Secp.parsePubkey`): same accepted set,
    same point. -/
theorem parsePubkey_is_sec1 (pk : Bytes) (hex : ¬ Exceptional pk) :
    Sig.parsePubkey true pk = Secp.parsePubkey pk :=
  parsePubkey_eq pk hex

/-- `XY.ParseXOnlyPubkey` (current code) is BIP340 lift_x on 32-byte strings. -/
theorem xonly_is_liftX (pk : Bytes) (h32 : pk.length = 32) :
    Sig.parseXOnly true pk = liftX (beVal pk) :=
  parseXOnly_eq pk h32

example : zero32.length = 32 := by decide

/-- What `Signature.ParseBytes` accepts beyond strict DER: exactly the container
    30 L 02 lr R 02 ls S [trailing] with L = lr+ls+4, lr, ls ≥ 1 (`Spec.Ecdsa.decodeSig`, written by
    pattern matching on the byte list), and it returns the unsigned big-endian values of R and S. -/
theorem parseBytes_is_container (sig : Bytes) :
    (Sig.parseBytes sig).map (fun t => (t.1, t.2.1)) = Spec.Ecdsa.decodeSig sig :=
  parseBytes_eq sig

/-! ### own signatures -/

/-- `Signature.Sign`: whenever it succeeds, S is in [1, n/2] (low S, `IsLowS`) and R is below n.
    -- OPEN: sign_canonical (full): additionally `sigBytes r s = some der`, `isStrictDER der` and
    `parseBytes der = some (r, s, der.length)` for r ≠ 0 — checked on every signing case by the
    harness (oracle fields `strict`, `lowS`) but not yet proved. -/
theorem sign_canonical_partial (sec msg k r s recid : Nat)
    (h : Sig.sign sec msg k = some (r, s, recid)) :
    0 < s ∧ Sig.isLowS s = true ∧ r < n := by
  have := sign_low sec msg k r s recid h
  exact ⟨this.1, by simpa [Sig.isLowS] using this.2.1, this.2.2⟩

example : (Sig.sign 1 1 1).isSome = true := by decide +kernel

-- OPEN: sign_verify — ∀ d m k, 0 < d < n → sign d m k = some (r, s, _) →
--   sigVerify true r s (mul d G) m = true.  Needs the group law of Base/Secp (k·(d·G) = (k·d)·G,
--   a·G + b·G = (a+b)·G, (n−a)·G = −(a·G)) and Fermat inversion modulo n, which belong to C08 and are
--   not available; checked on every signing case by the harness against the real code, the reference
--   and the model.
-- OPEN: recover_sign — recover r s m recid = some (mul d G) for the output of sign; same prerequisites.
-- OPEN: bip340_sign_matches — schnorrSign = Spec.Bip340.sign (needs |H| = 32 bytes and the nonce hash
--   below n for the `get_n_minus` branch); compared by the harness on every ssign case.

/-- `btc.HMAC_Init/Write/Finalize` is RFC 2104 HMAC for every key whose length is not exactly 64
    (a 64-byte key is hashed by the Go code, used as it is by RFC 2104; RFC 6979 only uses 32-byte keys). -/
theorem hmac_matches (H : Hash) (key data : Bytes) (hk : key.length ≠ 64) :
    Sig.hmacGo H key data = hmac H key data :=
  hmacGo_eq H key data hk

example : zero32.length ≠ 64 := by decide

/-- `btc.RFC6979_Nonce(prv, msg, nil, nil, counter)` is the (counter+1)-th candidate of RFC 6979 §3.2
    (HMAC_DRBG steps b–h with x = prv, h1 = msg), as a byte-level identity, for 32-byte inputs and any
    hash with 32-byte output. (RFC 6979 takes h1 = bits2octets(hash) = hash mod n; gocoin — like
    libsecp256k1 — feeds the 32 hash bytes unreduced, so for int(msg) ≥ n the two differ.) -/
theorem rfc6979_matches (H : Hash) (hH : ∀ b, (H b).length = 32) (prv msg : Bytes)
    (hp : prv.length = 32) (hm : msg.length = 32) (counter : Nat) :
    Sig.rfc6979Nonce H prv msg counter = Spec.Rfc6979.candidate H prv msg counter :=
  rfc6979_eq H hH prv msg hp hm counter

example : ∃ H : Hash, ∀ b, (H b).length = 32 := ⟨fun _ => zero32, fun _ => (by decide : zero32.length = 32)⟩

/-- `btc.EcdsaSign` in RFC 6979 mode: when it terminates, the nonce is the FIRST acceptable RFC 6979
    candidate (the code never increments its counter, so it can only ever use candidate 0). -/
theorem ecdsaSignRfc_nonce (H : Hash) (hH : ∀ b, (H b).length = 32) (priv hash : Bytes)
    (hp : priv.length = 32) (hm : hash.length = 32) (r s : Nat)
    (h : Sig.ecdsaSignRfc H priv hash = some (r, s)) :
    ∃ k, Spec.Rfc6979.nonce H priv hash = some k ∧
      ∃ recid, Sig.sign (beVal priv) (beVal hash) k = some (r, s, recid) := by
  unfold Sig.ecdsaSignRfc at h
  rw [rfc6979_eq H hH priv hash hp hm 0] at h
  by_cases hv : 0 < beVal (Spec.Rfc6979.candidate H priv hash 0) ∧ beVal (Spec.Rfc6979.candidate H priv hash 0) < n
  · simp only [hv, and_self, ↓reduceIte] at h
    refine ⟨beVal (Spec.Rfc6979.candidate H priv hash 0), ?_, ?_⟩
    · unfold Spec.Rfc6979.nonce Spec.Rfc6979.nonceFrom Spec.Rfc6979.valid
      simp [hv.1, hv.2]
    · cases hs : Sig.sign (beVal priv) (beVal hash) (beVal (Spec.Rfc6979.candidate H priv hash 0)) with
      | none => rw [hs] at h; simp at h
      | some t =>
        obtain ⟨r', s', recid⟩ := t
        rw [hs] at h
        simp only [Option.some.injEq, Prod.mk.injEq] at h
        obtain ⟨rfl, rfl⟩ := h
        exact ⟨recid, rfl⟩
  · simp only [hv, ↓reduceIte] at h
    simp at h

/-! ### the pinned snapshot was NOT exact: counterexamples (repaired by the `fix:` commits) -/

/-- Pinned snapshot: an ECDSA signature whose S is replaced by S+n (a 33-byte integer) verifies,
    although S+n ∉ [1, n−1]. The current code refuses it. -/
theorem ecdsa_s_plus_n_counterexample :
    Sig.ecdsaVerify false pkX1 sigRSplusN msgR = true ∧
    Spec.Ecdsa.verify pkX1 sigRSplusN msgR = false ∧
    Sig.ecdsaVerify true pkX1 sigRSplusN msgR = false := by
  refine ⟨?_, ?_, ?_⟩ <;> decide +kernel

/-- Pinned snapshot: the key 02‖(p+1) (coordinate not below p) is accepted and verifies the signature
    made for the point x = 1. The current code refuses the key. -/
theorem ecdsa_x_plus_p_counterexample :
    Sig.ecdsaVerify false pkXplusP sigRR msgR = true ∧
    Spec.Ecdsa.verify pkXplusP sigRR msgR = false ∧
    Sig.ecdsaVerify true pkXplusP sigRR msgR = false := by
  refine ⟨?_, ?_, ?_⟩ <;> decide +kernel

/-- Pinned snapshot: `ParsePubkey` accepts 04‖1‖1, which is not on the curve, and 02‖0, whose x has no
    square root (Y is then the unchecked output of `Field.Sqrt`). The current code refuses both. -/
theorem pubkey_offcurve_counterexample :
    (Sig.parsePubkey false pkOff).isSome = true ∧ Secp.parsePubkey pkOff = none ∧
    Sig.parsePubkey true pkOff = none ∧
    (Sig.parsePubkey false pkNonRes).isSome = true ∧ Secp.parsePubkey pkNonRes = none ∧
    Sig.parsePubkey true pkNonRes = none := by
  refine ⟨?_, ?_, ?_, ?_, ?_, ?_⟩ <;> decide +kernel

/-- Pinned snapshot: the x-only key 0 (not liftable) is completed with a bogus Y, and
    `CheckPayToContract` accepts the commitment (output key 0, internal key 0, tweak 0, parity 0)
    that BIP341 refuses. The current code refuses both. -/
theorem xonly_nonliftable_counterexample :
    (Sig.parseXOnly false zero32).isSome = true ∧ liftX (beVal zero32) = none ∧
    Sig.parseXOnly true zero32 = none ∧
    Sig.checkPayToContract? false zero32 zero32 zero32 false = some true ∧
    Spec.TapTweak.check zero32 zero32 zero32 false = false ∧
    Sig.checkPayToContract zero32 zero32 zero32 false = false := by
  refine ⟨?_, ?_, ?_, ?_, ?_, ?_⟩ <;> decide +kernel

/-- Pinned snapshot: a taproot commitment whose tweak is t+n (not below n) is accepted. -/
theorem tweak_t_plus_n_counterexample :
    Sig.checkPayToContract? false twQ twBase twHashPlusN twParity = some true ∧
    Spec.TapTweak.check twQ twBase twHashPlusN twParity = false ∧
    Sig.checkPayToContract twQ twBase twHashPlusN twParity = false := by
  refine ⟨?_, ?_, ?_⟩ <;> decide +kernel

/-- Pinned snapshot: `SchnorrVerify` had no length check and panicked (index out of range) on a
    signature shorter than 32 bytes or a key shorter than 32 bytes; the current code returns false. -/
theorem schnorr_short_input_counterexample (H : Hash) :
    Sig.schnorrVerify? false H zero32 [] zero32 = none ∧
    Sig.schnorrVerify? false H [] (zero32 ++ zero32) zero32 = none ∧
    Sig.schnorrVerify? true H zero32 [] zero32 = some false ∧
    Sig.schnorrVerify? true H [] (zero32 ++ zero32) zero32 = some false := by
  refine ⟨?_, ?_, ?_, ?_⟩ <;> simp [Sig.schnorrVerify?, Sig.parseXOnly, zero32]

end GocoinV.Props.C03
