/-
  Props.C03 — property theorems for C03 (ECDSA, Schnorr and taproot-tweak checks are exact; own
  signatures verify). All statements are about the definitions of Model/Sig.lean — the ones the oracle
  executes and the harness compares with the Go code — against Spec/{Ecdsa,Bip340,TapTweak,Rfc6979}.lean.
  `fixed := true` is the model of the CURRENT source; `fixed := false` (and `recoverLegacy`,
  `schnorrSignLegacyPanics`) the model of the pinned snapshot (before the seven `fix:` commits of this
  property), used by the `_counterexample` theorems.
  Hash functions are universally quantified parameters.
  Helpers: Proofs/C03.lean (model = spec), C03Field.lean (ZMod p / ZMod n reading of the Nat arithmetic,
  square roots, −7 not a cube), C03Group.lean (`SecpGroupLaw`, curve points as a group, k·P), C03Curve.lean
  (`SecpGroupLaw` from Mathlib's Weierstrass group), C03Ecdsa.lean (sign/verify/recover), C03Der.lean
  (DER), C03Schnorr.lean (BIP340 signing), C03Recover.lean (recovery on arbitrary input, nonce x ≥ n),
  C03Tweak.lean (internal key + tweak = ∞), C03Bip340.lean (BIP340's "−e·P" as the BIP writes it).
-/
import GocoinV.Proofs.C03
import GocoinV.Proofs.C03Field
import GocoinV.Proofs.C03Group
import GocoinV.Proofs.C03Curve
import GocoinV.Proofs.C03Ecdsa
import GocoinV.Proofs.C03Der
import GocoinV.Proofs.C03Schnorr
import GocoinV.Proofs.C03Recover
import GocoinV.Proofs.C03Tweak
import GocoinV.Proofs.C03Bip340
import GocoinV.Gen.C03Facts
namespace GocoinV.Props.C03
open GocoinV GocoinV.Secp GocoinV.Model GocoinV.C03 GocoinV.Proofs.C03

/-! ### witnesses (every one of them is a line of corpus/C03/cases.txt — classes `forged-small-x`, `legacy *`,
    `theorem-witness` — and is replayed on the real code by the harness on every run) -/

/-- 02 ‖ 1 : the point with x = 1 and even y -/
def pkX1 : Bytes := [2, 0, 0, 0, 0, 0, 0, 0, 0, 0, 0, 0, 0, 0, 0, 0, 0, 0, 0, 0, 0, 0, 0, 0, 0, 0, 0, 0, 0, 0, 0, 0, 1]
/-- 02 ‖ (p+1) : the same point with a non-canonical x -/
def pkXplusP : Bytes := [2, 255, 255, 255, 255, 255, 255, 255, 255, 255, 255, 255, 255, 255, 255, 255, 255, 255, 255, 255, 255, 255, 255, 255, 255, 255, 255, 255, 254, 255, 255, 252, 48]
/-- r = x(G + Q) mod n, s = r, message value m = r  (u1 = u2 = 1): a valid triple for `pkX1` -/
def sigRR : Bytes := [48, 68, 2, 32, 87, 215, 131, 87, 157, 3, 217, 171, 103, 168, 170, 122, 217, 183, 90, 102, 235, 202, 78, 188, 225, 181, 190, 113, 68, 45, 177, 48, 127, 145, 70, 168, 2, 32, 87, 215, 131, 87, 157, 3, 217, 171, 103, 168, 170, 122, 217, 183, 90, 102, 235, 202, 78, 188, 225, 181, 190, 113, 68, 45, 177, 48, 127, 145, 70, 168]
/-- the same signature with s replaced by s + n (33-byte integer) -/
def sigRSplusN : Bytes := [48, 69, 2, 32, 87, 215, 131, 87, 157, 3, 217, 171, 103, 168, 170, 122, 217, 183, 90, 102, 235, 202, 78, 188, 225, 181, 190, 113, 68, 45, 177, 48, 127, 145, 70, 168, 2, 33, 1, 87, 215, 131, 87, 157, 3, 217, 171, 103, 168, 170, 122, 217, 183, 90, 101, 166, 121, 43, 163, 144, 254, 94, 173, 4, 0, 15, 189, 79, 199, 135, 233]
def msgR : Bytes := [87, 215, 131, 87, 157, 3, 217, 171, 103, 168, 170, 122, 217, 183, 90, 102, 235, 202, 78, 188, 225, 181, 190, 113, 68, 45, 177, 48, 127, 145, 70, 168]
def zero32 : Bytes := [0, 0, 0, 0, 0, 0, 0, 0, 0, 0, 0, 0, 0, 0, 0, 0, 0, 0, 0, 0, 0, 0, 0, 0, 0, 0, 0, 0, 0, 0, 0, 0]
/-- taproot: Q = lift_x(x(3G)) + 5·G -/
def twQ : Bytes := [47, 1, 229, 225, 92, 202, 53, 29, 175, 243, 132, 63, 183, 15, 60, 47, 10, 27, 221, 5, 229, 175, 136, 138, 103, 120, 78, 243, 225, 10, 42, 1]
def twBase : Bytes := [249, 48, 138, 1, 146, 88, 195, 16, 73, 52, 79, 133, 248, 157, 82, 41, 181, 49, 200, 69, 131, 111, 153, 176, 134, 1, 241, 19, 188, 224, 54, 249]
def twHashPlusN : Bytes := [255, 255, 255, 255, 255, 255, 255, 255, 255, 255, 255, 255, 255, 255, 255, 254, 186, 174, 220, 230, 175, 72, 160, 59, 191, 210, 94, 140, 208, 54, 65, 70]
def twParity : Bool := false
/-- x(G) as an x-only internal key (G has even y, so lift_x gives G = 1·G), and the tweak n − 1 -/
def gx32 : Bytes := [121, 190, 102, 126, 249, 220, 187, 172, 85, 160, 98, 149, 206, 135, 11, 7, 2, 155, 252, 219, 45, 206, 40, 217, 89, 242, 129, 91, 22, 248, 23, 152]
def nMinus1 : Bytes := [255, 255, 255, 255, 255, 255, 255, 255, 255, 255, 255, 255, 255, 255, 255, 254, 186, 174, 220, 230, 175, 72, 160, 59, 191, 210, 94, 140, 208, 54, 65, 64]
/-- 00..01 (32 bytes) and the constant hash function returning it: the smallest hash function under
    which signing succeeds (nonce hash 1, challenge 1) — used for the non-vacuity examples of the
    signing theorems, which quantify over every hash function -/
def one32 : Bytes := zero32.take 31 ++ [1]
def Hone : Hash := fun _ => one32
/-- recovery at infinity: r = s = x(5·G) (even y, recid 0), message value 5·r mod n: s·R − m·G = ∞ -/
def r5 : Nat := 21505829891763648114329055987619236494102133314575206970830385799158076338148
def m5 : Bytes := [237, 187, 87, 129, 130, 35, 162, 224, 172, 135, 67, 185, 51, 205, 149, 204, 138, 185, 151, 181, 77, 232, 5, 150, 250, 76, 43, 16, 123, 68, 175, 116]
/-- 04 ‖ 1 ‖ 1 : not on the curve -/
def pkOff : Bytes := 4 :: (zero32.take 31 ++ [1] ++ zero32.take 31 ++ [1])
/-- 02 ‖ 0 : x = 0 has no square root of x³+7 -/
def pkNonRes : Bytes := 2 :: zero32

/-! ### acceptance is exact (current code) -/

/-- ECDSA: `btc.EcdsaVerify` (model of the current code) accepts a (public key, signature, message)
    byte triple IF AND ONLY IF the key bytes are a SEC1 encoding of a curve point with coordinates
    below p, the signature container holds r, s with 1 ≤ r, s ≤ n−1, and the ECDSA equation holds.
    For ALL byte strings (the key class 03‖x with x³+7 ≡ 0, on which model and SEC1 parser could
    differ, is empty: `no_point_with_y_zero`). -/
theorem ecdsa_accept_iff (pk sig msg : Bytes) :
    Sig.ecdsaVerify true pk sig msg = true ↔ Spec.Ecdsa.Accepts pk sig msg := by
  rw [ecdsa_eq pk sig msg (not_exceptional pk)]; exact verify_iff pk sig msg

/-- −7 is not a cube modulo p (p ≡ 1 mod 3 and (−7)^((p−1)/3) ≠ 1, evaluated by the kernel; p prime by
    the Pratt certificate of Proofs/C08_Primes): x³ + 7 ≢ 0 for every x, so no point of secp256k1 has
    y = 0 and no public key is `Exceptional`. -/
theorem no_point_with_y_zero (x : Nat) : (x * x % p * x + 7) % p ≠ 0 ∧ onCurve (some (x, 0)) = false := by
  refine ⟨curveRhs_ne_zero x, ?_⟩
  cases h : onCurve (some (x, 0)) with
  | false => rfl
  | true => exact absurd rfl (onCurve_y_ne_zero x 0 h)

example : Spec.Ecdsa.Accepts pkX1 sigRR msgR := by
  rw [← verify_iff]; decide +kernel

/-- BIP340: `btc.SchnorrVerify` (model of the current code) returns exactly BIP340 verification, for
    all byte strings and every hash function: 32-byte liftable key, 64-byte signature, r < p, s < n,
    R = s·G − e·P finite with even y and x(R) = r.
    Assumption carried by the MODEL (not by this theorem): the Go code hands `n − e` to `XYZ.ECmult` with
    e the UNREDUCED 256-bit challenge, so for e > n (probability ≈ 2^-128 per verification, no SHA-256
    input known) the scalar is a NEGATIVE big.Int; `Sig.ecmult` takes an `Int` and says the code computes
    ((n − e) mod n)·P + s·G. That cannot be exercised through `btc.SchnorrVerify` itself
    (`SchnorrsigChallenge` is a plain function over SHA-256); the harness exercises it on the real
    `XYZ.ECmult` directly (op `ecmneg`) and through SchnorrVerify's own steps with an injected challenge
    (op `schnorre`, compared with this model and spec at the constant hash `H = fun _ => e`, to which the
    theorem applies as to any other `H`). That the real SchnorrVerify composes these steps in the same
    way when e > n is assumed. -/
theorem schnorr_accept_iff (H : Hash) (pk sig msg : Bytes) :
    Sig.schnorrVerify H pk sig msg = Spec.Bip340.verify H pk sig msg :=
  schnorr_eq H pk sig msg

/-- The step "R = s·G − e·P" AS THE BIP WRITES IT. `Spec.Bip340.verify` (above) writes −e·P as
    ((n − e) mod n)·P, which is the shape of the Go code; `Spec.Bip340.verifyText` adds the NEGATION of
    the point e·P, as BIP340 (and the harness's math/big reference) does. The two coincide — and so
    `btc.SchnorrVerify` (model) is BIP340 verification to the letter — for every key whose lifted point
    has order dividing n.
    -- OPEN: schnorr_accept_text without `hord`. Every point of secp256k1 has order n (the group has
    prime order n), but that is the point count #E(F_p) = n, not proved in this development (the same
    open fact as in `recover_verifies_partial`); for a concrete key `hord` is a kernel evaluation. On
    the real code the text form is what the reference judges, on every schnorr case of every run. -/
theorem schnorr_accept_text_partial (H : Hash) (pk sig msg : Bytes)
    (hord : ∀ P, liftX (beVal pk) = some P → mul n (some P) = none) :
    Sig.schnorrVerify H pk sig msg = Spec.Bip340.verifyText H pk sig msg := by
  rw [schnorr_accept_iff]; exact bip340_verify_eq_text H pk sig msg hord

/-- non-vacuity: the key x(G) (lift_x gives G itself, of order n) -/
example : ∀ P, liftX (beVal gx32) = some P → mul n (some P) = none := by
  have hG : liftX (beVal gx32) = G := by decide +kernel
  intro P hP
  rw [hG] at hP
  rw [← hP]; exact mul_n_G

/-- BIP340 "fail if r ≥ p", stated outright for the model: a signature whose first 32 bytes, read as an
    integer, are not below p is refused for every key, message and hash function — in particular
    r = x(R) + p for a nonce point with a tiny x. (Corollary of `schnorr_accept_iff`; in the model this is
    the line `rx := beVal (sig.take 32)` — "raw limbs, never normalised" — compared with a value < p.) -/
theorem schnorr_refuses_r_ge_p (H : Hash) (pk sig msg : Bytes) (h : beVal (sig.take 32) ≥ p) :
    Sig.schnorrVerify H pk sig msg = false := by
  rw [schnorr_accept_iff]
  unfold Spec.Bip340.verify
  split
  · rfl
  · cases liftX (beVal pk) with
    | none => rfl
    | some P => simp only [h, true_or, ↓reduceIte]

/-- non-vacuity: r = p itself (32 bytes) -/
example : beVal (pkXplusP.drop 1) ≥ p := by decide +kernel

/-- SOURCE FACT behind the previous theorem, regenerated from /repo/lib/secp256k1/schnorr.go on every run
    (go/cmd/gen_c03 → Gen/C03Facts.lean) and re-checked here by the kernel: in `SchnorrVerify` the Field
    that receives `SetB32(sig[:32])` is used in exactly two ways — that load and `Equals` — i.e. it is
    never normalised (reduced mod p) and never compared through anything else. This is how the Go code
    implements "fail if r ≥ p" (raw limbs of a value ≥ p never equal the normalised x(R)), and it is the
    one acceptance condition of this property that NO input can discriminate on the real function: a
    signature with r = x(R) + p needs a nonce point with x(R) < 2^32 + 977 for a key that satisfies a hash
    equation. The harness reaches it only through its re-assembly of SchnorrVerify's steps with an
    injected challenge (class `schnorre/*-r-plus-p`); an edit of the real function that normalises the
    Field changes this fact and this theorem stops compiling. -/
theorem schnorr_sig_r_compared_raw :
    Gen.C03Facts.schnorrSigRxRaw = true ∧ Gen.C03Facts.schnorrSigRxUses = ["Equals", "SetB32"] := by
  decide

/-- SOURCE FACT behind every signer theorem of this file, regenerated from /repo/lib on every run
    (go/cmd/gen_c03/config.go → Gen/C03Facts.lean) and re-checked here by the kernel: the model treats the
    nonce-scheme switch `EcdsaSignWithRFC6979` and the three verifier hooks (the exported package-level
    variables of lib/btc/ecdsa.go) as CONFIGURATION — set once by the application, so that `ecdsaSignRfc`
    IS `btc.EcdsaSign` for the whole life of a process that switched RFC 6979 on, whatever library calls
    came before. That holds because no function of lib/ (any package, non-test files) writes one of these
    variables: no assignment, no `range` assigning to it, no increment or decrement, no address taken. A library function
    that toggles the switch (even one that restores it on its success path) makes the signer of a later
    call depend on the HISTORY of calls; this list then becomes non-empty and the theorem stops compiling,
    and the harness looks for the failing history (op `hist`: configure, call a mix of VerifyKeyPair /
    verifiers / signers / key functions, compare `btc.EcdsaSign` with the configured signer after every
    step). -/
theorem config_written_by_no_library_function :
    Gen.C03Facts.configWriters = [] ∧ Gen.C03Facts.signerSwitch ∈ Gen.C03Facts.configVars := by
  decide

/-- BIP341: `btc.CheckPayToContract` (model of the current code) returns exactly the BIP341 tweak
    check: 32-byte liftable internal key, tweak below n, Q = lift_x(P) + t·G finite, x(Q) equal to the
    output key and the parity bit equal to y(Q) mod 2. -/
theorem tweak_accept_iff (qx base hash : Bytes) (parity : Bool) :
    Sig.checkPayToContract qx base hash parity = Spec.TapTweak.check qx base hash parity :=
  tweak_eq qx base hash parity

/-- BIP341 "fail if Q is the point at infinity": if the lifted internal key is d·G (any d ≤ n) and the
    tweak is n − d, then lift_x(P) + t·G = n·G = ∞ (group law of the reference curve) and
    `btc.CheckPayToContract` (model of the current code) refuses the commitment for EVERY claimed output
    key and parity bit — in particular the claims an implementation would be left comparing had it
    tested only t·G (or nothing) for infinity: the internal key's own x with either parity, x(t·G), 0.
    The harness offers exactly these claims to the real code (inf.go, classes tweak/infinity-claim-*)
    and ties the helper `XY.ECPublicTweakAdd` itself to A + t·G (op tweakadd). -/
theorem tweak_infinity_refused (qx base hash : Bytes) (parity : Bool) (d : Nat) (hdn : d ≤ n)
    (hP : liftX (beVal base) = mul d G) (ht : beVal hash = n - d) :
    Sig.checkPayToContract qx base hash parity = false :=
  tweak_cancel_false qx base hash parity d hdn hP ht

/-- non-vacuity: internal key x(G), d = 1, tweak n − 1; the claim "output key = internal key, odd
    parity" is refused (as is every other one). -/
example : Sig.checkPayToContract gx32 gx32 nMinus1 true = false ∧
    Sig.checkPayToContract gx32 gx32 nMinus1 false = false ∧
    Sig.checkPayToContract zero32 gx32 nMinus1 false = false := by
  have h1 : (1 : Nat) ≤ n := by decide
  have hP : liftX (beVal gx32) = mul 1 G := by decide +kernel
  have ht : beVal nMinus1 = n - 1 := by decide +kernel
  exact ⟨tweak_infinity_refused _ _ _ _ 1 h1 hP ht, tweak_infinity_refused _ _ _ _ 1 h1 hP ht,
    tweak_infinity_refused _ _ _ _ 1 h1 hP ht⟩

/-- `XY.ParsePubkey` (current code) is strict SEC1 parsing (`Secp.parsePubkey`): same accepted set,
    same point. -/
theorem parsePubkey_is_sec1 (pk : Bytes) :
    Sig.parsePubkey true pk = Secp.parsePubkey pk :=
  parsePubkey_eq pk (not_exceptional pk)

/-- `XY.ParseXOnlyPubkey` (current code) is BIP340 lift_x on 32-byte strings. -/
theorem xonly_is_liftX (pk : Bytes) (h32 : pk.length = 32) :
    Sig.parseXOnly true pk = liftX (beVal pk) :=
  parseXOnly_eq pk h32

example : zero32.length = 32 := by decide

/-- What `Signature.ParseBytes` accepts beyond strict DER: exactly the container
    30 L 02 lr R 02 ls S [trailing] with L = lr+ls+4, lr, ls ≥ 1 (`Spec.Ecdsa.decodeSig`, written by
    pattern matching on the byte list), and it returns the unsigned big-endian values of R and S. -/
theorem parseBytes_is_container (sig : Bytes) :
    (Sig.parseBytes sig).map (fun t => (t.1, t.2.1)) = Spec.Ecdsa.decodeSig sig :=
  parseBytes_eq sig

/-! ### the reduction "x(R) mod n": nonce points with n ≤ x(R) < p

  n < p, so about 2^128 curve points have an x-coordinate in [n, p); a signature made with such a nonce
  point carries r = x(R) − n. Signing reaches one with probability 2^-128, so the case is stated
  (and replayed on the real code by the harness, classes `rx-ge-n-*`, `rx-twin-*`, op `recov`) with
  algebraically constructed triples: R first, then the key. -/

/-- the curve point with x = p − 3 (odd y): n ≤ x -/
def xHi : Nat := 115792089237316195423570985008687907853269984665640564039457584007908834671660
def yHi : Nat := 6603225675942137755722016048183769717410321709583529039474051610042430502525
/-- Q = R − G (compressed), r = s = m = x(R) − n  (u1 = u2 = 1): a valid triple whose nonce point is R -/
def pkHi : Bytes := [2, 35, 201, 96, 14, 149, 104, 87, 71, 232, 157, 203, 144, 91, 255, 245, 161, 92, 119, 192, 58, 46, 41, 115, 65, 110, 54, 212, 115, 233, 206, 159, 114]
def sigHi : Bytes := [48, 38, 2, 17, 1, 69, 81, 35, 25, 80, 183, 95, 196, 64, 45, 161, 114, 47, 201, 186, 235, 2, 17, 1, 69, 81, 35, 25, 80, 183, 95, 196, 64, 45, 161, 114, 47, 201, 186, 235]
def msgHi : Bytes := [0, 0, 0, 0, 0, 0, 0, 0, 0, 0, 0, 0, 0, 0, 0, 1, 69, 81, 35, 25, 80, 183, 95, 196, 64, 45, 161, 114, 47, 201, 186, 235]

/-- `Signature.Verify` compares r with x(R) REDUCED modulo n: whenever s is in range and the point
    u1·G + u2·Q the verifier computes is the finite point (x, y), the signature is accepted exactly
    when r = x mod n (and r ≠ 0) — in particular for n ≤ x < p it is r = x − n that is accepted, and
    x itself (≥ n) that is refused.
    (This only unfolds `sigVerify`/`recompute` — the model compares `r == x % n` by definition; it is
    kept as the readable statement of what the model says about the reduction. The content — that this
    IS the ECDSA acceptance predicate — is `ecdsa_accept_iff` together with the `pkHi` examples below,
    and the tie to the real code is the harness classes `rx-ge-n-*`, `rx-twin-*`, `theorem-witness`.) -/
theorem verify_reduces_x_mod_n (r s m x y : Nat) (Q : Point) (hs0 : 0 < s) (hsn : s < n)
    (hpt : Sig.ecmult Q ((Sig.modInvN s * r % n : Nat) : Int) (Sig.modInvN s * m % n) = some (x, y)) :
    Sig.sigVerify true r s Q m = true ↔ (r ≠ 0 ∧ r = x % n) := by
  have hnp : 0 < n := by decide
  have hxn : x % n < n := Nat.mod_lt _ hnp
  unfold Sig.sigVerify Sig.recompute
  simp only [hpt]
  by_cases hr : r = 0 ∨ r ≥ n
  · have hc : True ∧ (r = 0 ∨ r ≥ n ∨ s = 0 ∨ s ≥ n) := ⟨trivial, by omega⟩
    rw [if_pos hc]
    constructor
    · intro h; exact absurd h (by simp)
    · rintro ⟨h0, he⟩; omega
  · have hc : ¬ (True ∧ (r = 0 ∨ r ≥ n ∨ s = 0 ∨ s ≥ n)) := by omega
    rw [if_neg hc]
    simp only [beq_iff_eq]
    constructor
    · intro h; exact ⟨by omega, h⟩
    · exact fun h => h.2

/-- non-vacuity: the verifier's point for (pkHi, r = s = m = x − n) is (xHi, yHi), with n ≤ xHi -/
example : 0 < xHi - n ∧ xHi - n < n ∧ n ≤ xHi ∧
    Sig.ecmult (Secp.parsePubkey pkHi) ((Sig.modInvN (xHi - n) * (xHi - n) % n : Nat) : Int)
      (Sig.modInvN (xHi - n) * (xHi - n) % n) = some (xHi, yHi) := by
  decide +kernel

/-- the spec, the model of `btc.EcdsaVerify` and therefore (`ecdsa_accept_iff`) the acceptance
    predicate all hold on a triple whose nonce point has x ≥ n: key Q = R − G, r = s = m = x(R) − n. -/
example : Secp.add (Secp.parsePubkey pkHi) G = some (xHi, yHi) ∧ n ≤ xHi ∧ xHi < p ∧
    xHi % n = beVal msgHi ∧ Spec.Ecdsa.decodeSig sigHi = some (xHi - n, xHi - n) := by
  decide +kernel

example : Spec.Ecdsa.Accepts pkHi sigHi msgHi := by
  rw [← verify_iff]; decide +kernel

example : Sig.ecdsaVerify true pkHi sigHi msgHi = true := by decide +kernel

/-- Public-key recovery on ARBITRARY input, both x candidates: when
    `RecoverPublicKey(r, s, h, recid)` returns a (finite) key Q, then `Signature.Verify` accepts (r, s)
    for Q and h — with recid bit 1 set the nonce point has x = r + n ≥ n, and the verifier has to
    reduce it to r. Hypothesis: the reconstructed nonce point (`recoverNonce`: x = r or r + n, y of the
    requested parity) has order dividing n. (True of every point of secp256k1 — the group has prime
    order n — but that is a point count, not proved; a kernel evaluation for any concrete point.)
    -- OPEN: recover_verifies without `hord` (needs #E(F_p) = n). -/
theorem recover_verifies_partial (r s recid : Nat) (hb : Bytes) (Q : Nat × Nat)
    (h : Sig.recoverPublicKey r s hb recid = some (some Q))
    (hord : mul n (recoverNonce r recid) = none) :
    Sig.sigVerify true r s (some Q) (beVal hb) = true :=
  recover_verifies_core r s recid hb Q h hord

/-- non-vacuity on the nonce point with x = p − 3 ≥ n (recid = 3: bit 1 = "x is r + n", bit 0 = odd y;
    s = r, message value 0, so the recovered key is the nonce point itself) -/
example : Sig.recoverPublicKey (xHi - n) (xHi - n) zero32 3 = some (some (xHi, yHi)) := by decide +kernel
example : mul n (recoverNonce (xHi - n) 3) = none := by decide +kernel

/-- `RecoverPublicKey` (current code) never hands out the point at infinity as a key: when the
    recovered point s·R − m·G is ∞ (r = x(k·G), m = s·k: no discrete logarithm needed, choose k) it
    returns nil. (The pinned snapshot returned a non-nil key object with `Infinity` set and left-over
    coordinates: `recover_infinity_counterexample`.) -/
theorem recover_never_infinity (r s recid : Nat) (hb : Bytes) :
    Sig.recoverPublicKey r s hb recid ≠ some none :=
  recover_ne_infinity r s recid hb

/-! ### own signatures -/

/-- The group law of the reference curve `Base/Secp` that the signing theorems below rest on:
    `Secp.add` is closed, commutative and associative on curve points. Proved (not assumed): `Secp.add`
    is shown to coincide with the addition of Mathlib's `WeierstrassCurve.Affine.Point` for
    y² = x³ + 7 over `ZMod p` (Proofs/C03Curve.lean, `rep_add`), whose `AddCommGroup` instance is
    Mathlib's; p prime by Proofs/C08_Primes. -/
theorem reference_curve_group_law : SecpGroupLaw := secpGroupLaw

/-- G has order n on the reference curve: n·G = ∞ (kernel evaluation of the reference double-and-add)
    and d·G ≠ ∞ for 0 < d < n (n prime). -/
theorem generator_order (d : Nat) (h0 : 0 < d) (hd : d < n) : mul n G = none ∧ mul d G ≠ none :=
  ⟨mul_n_G, mul_G_ne_none d h0 hd⟩

example : 0 < 1 ∧ 1 < n := by decide

/-- `Signature.Sign` + `Signature.Bytes`: whenever `Sign` succeeds with R ≠ 0, S is in [1, n/2] (low S,
    `IsLowS`), R is in [1, n−1], `Bytes()` does not panic, its output is BIP66-strict DER, and
    `ParseBytes` reads (R, S) back from it.
    (R = 0 mod n is not refused by `Sign` — unlike libsecp256k1 — and `Bytes()` would then panic on
    `r[0]`; it needs a nonce k with x(k·G) = n, which exists but is a discrete logarithm: observation.) -/
theorem sign_canonical (sec msg k r s recid : Nat)
    (h : Sig.sign sec msg k = some (r, s, recid)) (hr : r ≠ 0) :
    0 < s ∧ Sig.isLowS s = true ∧ r < n ∧
    ∃ der, Sig.sigBytes r s = some der ∧ Spec.Ecdsa.isStrictDER der = true ∧
      (Sig.parseBytes der).map (fun t => (t.1, t.2.1)) = some (r, s) := by
  have hl := sign_low sec msg k r s recid h
  have hn256 : n < 2 ^ 256 := by decide
  have hh : Sig.halfOrder < n := by decide
  obtain ⟨der, h1, h2, h3⟩ := sigBytes_canonical r s (Nat.pos_of_ne_zero hr) (by omega) hl.1 (by omega)
  exact ⟨hl.1, by simpa [Sig.isLowS] using hl.2.1, hl.2.2, der, h1, h2, by rw [parseBytes_eq, h3]⟩

example : (Sig.sign 1 1 1).map (fun t => decide (t.1 ≠ 0)) = some true := by decide +kernel

/-- Every output of `Signature.Sign` (any secret key d, message value m, nonce k) passes
    `Signature.Verify` for the public key d·G — exactly when its R is not 0 (see `sign_canonical`
    for that unreachable case). -/
theorem sign_verify (d m k r s recid : Nat) (h : Sig.sign d m k = some (r, s, recid)) :
    Sig.sigVerify true r s (mul d G) m = true ↔ r ≠ 0 := by
  constructor
  · intro hv hr
    subst hr
    simp [Sig.sigVerify] at hv
  · exact sign_verify_core d m k r s recid h

/-- At the observables of the property: for a secret key 0 < d < n, what `Sign` + `Bytes()` hand out
    is strict DER and `btc.EcdsaVerify(compressed pubkey of d·G, DER, hash)` returns true. -/
theorem own_signature_accepted (d k r s recid : Nat) (msg : Bytes) (hd0 : 0 < d) (hdn : d < n)
    (h : Sig.sign d (beVal msg) k = some (r, s, recid)) (hr : r ≠ 0) :
    ∃ der, Sig.sigBytes r s = some der ∧ Spec.Ecdsa.isStrictDER der = true ∧
      Sig.ecdsaVerify true (ser33 (mul d G)) der msg = true :=
  Proofs.C03.own_signature_accepted d k r s recid msg hd0 hdn h hr

example : (Sig.sign 1 (beVal [1]) 1).map (fun t => decide (t.1 ≠ 0)) = some true := by decide +kernel

/-- `Signature.RecoverPublicKey(hash, recid)` on an output (R, S, recid) of `Sign` returns the signer's
    public key d·G (R ≠ 0 as above). -/
theorem recover_sign (d k r s recid : Nat) (hb : Bytes) (hd0 : 0 < d) (hdn : d < n)
    (h : Sig.sign d (beVal hb) k = some (r, s, recid)) (hr : r ≠ 0) :
    ∃ Q, mul d G = some Q ∧ Sig.recoverPublicKey r s hb recid = some (some Q) := by
  have hrec := recover_sign_core d k r s recid hb h hr
  cases hm : mul d G with
  | none => exact absurd hm (mul_G_ne_none d hd0 hdn)
  | some Q => exact ⟨Q, rfl, by rw [hrec, hm]; rfl⟩

example : 0 < 1 ∧ 1 < n ∧ (Sig.sign 1 (beVal [1]) 1).map (fun t => decide (t.1 ≠ 0)) = some true := by
  decide +kernel

/-- the same for ANY secret-key number d (`Sign` reduces it mod n): the recovered key is d·G, and nil
    when d·G = ∞ (d ≡ 0 mod n; the current code refuses a result at infinity). -/
theorem recover_sign_any_key (d k r s recid : Nat) (hb : Bytes)
    (h : Sig.sign d (beVal hb) k = some (r, s, recid)) (hr : r ≠ 0) :
    Sig.recoverPublicKey r s hb recid = (mul d G).map some :=
  recover_sign_core d k r s recid hb h hr

/-- `secp256k1.SchnorrSign` only hands out signatures that `SchnorrVerify` accepts for the x-only
    public key of the secret key (the code verifies before returning; any hash function). -/
theorem schnorr_sign_verifies (H : Hash) (m sk a sig : Bytes) (h : Sig.schnorrSign H m sk a = some sig) :
    ∃ px py, mul (beVal sk) G = some (px, py) ∧ Sig.schnorrVerify H (beBytes 32 px) sig m = true :=
  schnorrSign_verifies H m sk a sig h

/-- `secp256k1.SchnorrSign(m, sk, aux)` equals BIP340 default signing `Spec.Bip340.sign`, byte for
    byte (same signature or both fail), for every hash function with 32-byte output and every 32-byte
    secret key, PROVIDED the BIP340 nonce hash `rand`, read as an integer, is below n.
    -- OPEN: bip340_sign_matches without `hk`. It is FALSE of the code as written: for rand ≥ n and odd
    y(R), `get_n_minus(k0)` yields rand − n = k' instead of n − k', the final self-verification fails
    and SchnorrSign returns nil where BIP340 returns a signature. With SHA-256 this needs a nonce hash
    in [n, 2^256) (probability < 2^-127 per signature; no such input can be exhibited): observation,
    reported in DESIGN, no counterexample theorem possible for SHA-256. -/
theorem bip340_sign_matches_partial (H : Hash) (hH : ∀ b, (H b).length = 32) (m sk a : Bytes)
    (hsk : sk.length = 32) (hk : beVal (signNonceHash H m sk a) < n) :
    Sig.schnorrSign H m sk a = Spec.Bip340.sign H m sk a :=
  schnorrSign_eq H hH m sk a hsk hk

/-- non-vacuity of `bip340_sign_matches_partial` AND `schnorr_sign_verifies` on an instance where a
    signature comes out (secret key 1, H = the constant 00..01: nonce hash 1 < n, k' = 1, challenge 1):
    the hypotheses hold and `SchnorrSign` returns a signature (both sides of the equality are `some`). -/
example : (∀ b, (Hone b).length = 32) ∧ one32.length = 32 ∧
    beVal (signNonceHash Hone zero32 one32 zero32) < n ∧
    (Sig.schnorrSign Hone zero32 one32 zero32).isSome = true :=
  ⟨fun _ => (by decide : one32.length = 32), by decide, by decide +kernel, by decide +kernel⟩

/-- For ALL byte strings: a secret key that is not exactly 32 bytes long is refused (nil), as BIP340
    (sk = 32-byte array) requires — so together with `bip340_sign_matches_partial` the signer is covered
    for every (message, key, aux). -/
theorem schnorr_sign_key_length (H : Hash) (m sk a : Bytes) (h : sk.length ≠ 32) :
    Sig.schnorrSign H m sk a = none := by
  unfold Sig.schnorrSign; rw [if_pos h]

example : ([1] : Bytes).length ≠ 32 := by decide

/-- `btc.HMAC_Init/Write/Finalize` is RFC 2104 HMAC for every key whose length is not exactly 64
    (a 64-byte key is hashed by the Go code, used as it is by RFC 2104; RFC 6979 only uses 32-byte keys). -/
theorem hmac_matches (H : Hash) (key data : Bytes) (hk : key.length ≠ 64) :
    Sig.hmacGo H key data = hmac H key data :=
  hmacGo_eq H key data hk

example : zero32.length ≠ 64 := by decide

/-- `btc.RFC6979_Nonce(prv, msg, nil, nil, counter)` is the (counter+1)-th candidate of the
    LIBSECP256K1 VARIANT of RFC 6979 §3.2 (HMAC_DRBG steps b–h with x = prv and h1 = the 32 message-hash
    bytes AS THEY ARE), as a byte-level identity, for 32-byte inputs and any hash with 32-byte output.
    This is NOT RFC 6979 to the letter: the RFC takes h1 = bits2octets(hash) = hash mod n; gocoin — like
    libsecp256k1 — feeds the hash bytes unreduced, so the two coincide exactly when int(msg) < n and
    differ when int(msg) ≥ n. `Spec.Rfc6979.candidate` is applied here to the unreduced `msg`, i.e. the
    theorem states the variant. External vectors (lib/btc/hash_test.go, libsecp256k1's) exist only for
    hashes < n; for hashes ≥ n the harness checks code = model = reference-of-the-variant and records
    that the strict-RFC nonce would be different (corpus class `hash-ge-n`). -/
theorem rfc6979_matches (H : Hash) (hH : ∀ b, (H b).length = 32) (prv msg : Bytes)
    (hp : prv.length = 32) (hm : msg.length = 32) (counter : Nat) :
    Sig.rfc6979Nonce H prv msg counter = Spec.Rfc6979.candidate H prv msg counter :=
  rfc6979_eq H hH prv msg hp hm counter

example : ∃ H : Hash, ∀ b, (H b).length = 32 := ⟨fun _ => zero32, fun _ => (by decide : zero32.length = 32)⟩

/-- `btc.EcdsaSign` in RFC 6979 mode: when it terminates, the nonce is the FIRST acceptable RFC 6979
    candidate (the code never increments its counter, so it can only ever use candidate 0). -/
theorem ecdsaSignRfc_nonce (H : Hash) (hH : ∀ b, (H b).length = 32) (priv hash : Bytes)
    (hp : priv.length = 32) (hm : hash.length = 32) (r s : Nat)
    (h : Sig.ecdsaSignRfc H priv hash = some (r, s)) :
    ∃ k, Spec.Rfc6979.nonce H priv hash = some k ∧
      ∃ recid, Sig.sign (beVal priv) (beVal hash) k = some (r, s, recid) := by
  unfold Sig.ecdsaSignRfc at h
  rw [rfc6979_eq H hH priv hash hp hm 0] at h
  by_cases hv : 0 < beVal (Spec.Rfc6979.candidate H priv hash 0) ∧ beVal (Spec.Rfc6979.candidate H priv hash 0) < n
  · simp only [hv, and_self, ↓reduceIte] at h
    refine ⟨beVal (Spec.Rfc6979.candidate H priv hash 0), ?_, ?_⟩
    · unfold Spec.Rfc6979.nonce Spec.Rfc6979.nonceFrom Spec.Rfc6979.valid
      simp [hv.1, hv.2]
    · cases hs : Sig.sign (beVal priv) (beVal hash) (beVal (Spec.Rfc6979.candidate H priv hash 0)) with
      | none => rw [hs] at h; simp at h
      | some t =>
        obtain ⟨r', s', recid⟩ := t
        rw [hs] at h
        simp only [Option.some.injEq, Prod.mk.injEq] at h
        obtain ⟨rfl, rfl⟩ := h
        exact ⟨recid, rfl⟩
  · simp only [hv, ↓reduceIte] at h
    simp at h

/-- non-vacuity of `ecdsaSignRfc_nonce` on an instance where a signature comes out (key 1, hash 00..01,
    H = the constant 00..01, so the first RFC 6979 candidate is 1) -/
example : (∀ b, (Hone b).length = 32) ∧ one32.length = 32 ∧
    (Sig.ecdsaSignRfc Hone one32 one32).isSome = true :=
  ⟨fun _ => (by decide : one32.length = 32), by decide, by decide +kernel⟩

/-! ### the pinned snapshot was NOT exact: counterexamples (repaired by the `fix:` commits) -/

/-- Pinned snapshot: an ECDSA signature whose S is replaced by S+n (a 33-byte integer) verifies,
    although S+n ∉ [1, n−1]. The current code refuses it. -/
theorem ecdsa_s_plus_n_counterexample :
    Sig.ecdsaVerify false pkX1 sigRSplusN msgR = true ∧
    Spec.Ecdsa.verify pkX1 sigRSplusN msgR = false ∧
    Sig.ecdsaVerify true pkX1 sigRSplusN msgR = false := by
  refine ⟨?_, ?_, ?_⟩ <;> decide +kernel

/-- Pinned snapshot: the key 02‖(p+1) (coordinate not below p) is accepted and verifies the signature
    made for the point x = 1. The current code refuses the key. -/
theorem ecdsa_x_plus_p_counterexample :
    Sig.ecdsaVerify false pkXplusP sigRR msgR = true ∧
    Spec.Ecdsa.verify pkXplusP sigRR msgR = false ∧
    Sig.ecdsaVerify true pkXplusP sigRR msgR = false := by
  refine ⟨?_, ?_, ?_⟩ <;> decide +kernel

/-- Pinned snapshot: `ParsePubkey` accepts 04‖1‖1, which is not on the curve, and 02‖0, whose x has no
    square root (Y is then the unchecked output of `Field.Sqrt`). The current code refuses both. -/
theorem pubkey_offcurve_counterexample :
    (Sig.parsePubkey false pkOff).isSome = true ∧ Secp.parsePubkey pkOff = none ∧
    Sig.parsePubkey true pkOff = none ∧
    (Sig.parsePubkey false pkNonRes).isSome = true ∧ Secp.parsePubkey pkNonRes = none ∧
    Sig.parsePubkey true pkNonRes = none := by
  refine ⟨?_, ?_, ?_, ?_, ?_, ?_⟩ <;> decide +kernel

/-- Pinned snapshot: the x-only key 0 (not liftable) is completed with a bogus Y, and
    `CheckPayToContract` accepts the commitment (output key 0, internal key 0, tweak 0, parity 0)
    that BIP341 refuses. The current code refuses both. -/
theorem xonly_nonliftable_counterexample :
    (Sig.parseXOnly false zero32).isSome = true ∧ liftX (beVal zero32) = none ∧
    Sig.parseXOnly true zero32 = none ∧
    Sig.checkPayToContract? false zero32 zero32 zero32 false = some true ∧
    Spec.TapTweak.check zero32 zero32 zero32 false = false ∧
    Sig.checkPayToContract zero32 zero32 zero32 false = false := by
  refine ⟨?_, ?_, ?_, ?_, ?_, ?_⟩ <;> decide +kernel

/-- Pinned snapshot: a taproot commitment whose tweak is t+n (not below n) is accepted. -/
theorem tweak_t_plus_n_counterexample :
    Sig.checkPayToContract? false twQ twBase twHashPlusN twParity = some true ∧
    Spec.TapTweak.check twQ twBase twHashPlusN twParity = false ∧
    Sig.checkPayToContract twQ twBase twHashPlusN twParity = false := by
  refine ⟨?_, ?_, ?_⟩ <;> decide +kernel

/-- Pinned snapshot: `SchnorrVerify` had no length check and panicked (index out of range) on a
    signature shorter than 32 bytes or a key shorter than 32 bytes; the current code returns false. -/
theorem schnorr_short_input_counterexample (H : Hash) :
    Sig.schnorrVerify? false H zero32 [] zero32 = none ∧
    Sig.schnorrVerify? false H [] (zero32 ++ zero32) zero32 = none ∧
    Sig.schnorrVerify? true H zero32 [] zero32 = some false ∧
    Sig.schnorrVerify? true H [] (zero32 ++ zero32) zero32 = some false := by
  refine ⟨?_, ?_, ?_, ?_⟩ <;> simp [Sig.schnorrVerify?, Sig.parseXOnly, zero32]

/-- Pinned snapshot: `SchnorrSign` had no length test on the secret key; for the one-byte key 01 (public
    point G, even Y) the loop `t[i] ^= d[i]` ran past the end of the key: index-out-of-range panic
    (replayed on the pinned code: "index out of range [1] with length 1"). The current code returns nil
    for every hash function, message and aux. -/
theorem schnorr_sign_short_key_counterexample :
    Sig.schnorrSignLegacyPanics [1] = true ∧
    ∀ (H : Hash) (m a : Bytes), Sig.schnorrSign H m [1] a = none :=
  ⟨by decide +kernel, fun H m a => schnorr_sign_key_length H m [1] a (by decide)⟩

/-- Pinned snapshot: `RecoverPublicKey` on r = s = x(5·G), message value 5·r, recid 0 computed the point
    at infinity (s·R − m·G = ∞) and RETURNED it (a non-nil key object with `Infinity` set and left-over
    coordinates, under which the signature does not verify). The current code returns nil. -/
theorem recover_infinity_counterexample :
    Sig.recoverPublicKeyLegacy r5 r5 m5 0 = some none ∧ Sig.recoverPublicKey r5 r5 m5 0 = none := by
  have h : Sig.recoverPublicKeyLegacy r5 r5 m5 0 = some none := by decide +kernel
  exact ⟨h, by rw [recoverPublicKey_eq, h]⟩

end GocoinV.Props.C03
