/-
  Props.C17 — per-address balances equal the projection of the UTXO set (property theorems only).
  Model: GocoinV.Model.Balances (the definitions the oracle executes and the harness compares with
  client/wallet + lib/utxo). Helper lemmas: GocoinV.Proofs.C17.

  Vocabulary.  `coinsOf u : (key8, vout) ⇀ Out` is the unspent set as a partial map (DESIGN §4 `abs`).
  `Rel cfg H bal C` says that the index `bal` is EXACTLY the projection of the coin set `C`: for every
  index key K = (address type, H payload) the record exists iff some coin of value ≥ cfg.min has that key,
  its entry list is duplicate-free and lists exactly those coins, and its Value is their sum (mod 2^64).
  `Inv H s` = UTXO map well-formed ∧ (index on → Rel).  `Admissible` names what the rest of the node
  guarantees about the change stream (fresh transaction keys; undo restores only spent outputs — the
  C06 fact).  The minimum value and useMapCnt are part of the state and change only in `enable`
  (the code re-reads them only in LoadBalancesFromUtxo), so "the minimum is constant while enabled"
  holds by construction of `step`.
-/
import GocoinV.Proofs.C17
namespace GocoinV.Props.C17
open GocoinV.Model.Balances GocoinV.Spec.Balances GocoinV.Proofs.C17

/-- add_preserves (NewUTXO, one output): adding a qualifying coin that is not yet in the set through
    NewUTXO's loop body keeps the index equal to the projection — whatever the record's representation
    (list, map, or switching from list to map at useMapCnt-1) and whether or not the record existed. -/
theorem add_preserves (cfg : Cfg) (H : Bytes → Nat) (bal : BalMap) (C : Coins) (K : AKey) (inp : Inp) (o : Out)
    (h : Rel cfg H bal C) (hfresh : C inp = none) (hq : qual cfg H o K) :
    Rel cfg H (addOne cfg bal K inp o.value) (updC C inp (some o)) :=
  addOne_rel h hfresh hq

/-- del_preserves (all_del_utxos, one output): removing a coin that is in the set keeps the index equal to
    the projection; in particular the record disappears exactly when its last entry goes, and otherwise
    its Value drops by the coin's value. -/
theorem del_preserves (cfg : Cfg) (H : Bytes → Nat) (bal : BalMap) (C : Coins) (K : AKey) (inp : Inp) (o : Out)
    (h : Rel cfg H bal C) (hin : C inp = some o) (hq : qual cfg H o K) :
    Rel cfg H (delOne bal K inp o.value) (updC C inp none) :=
  delOne_rel h hin hq

/-- NewUTXO on a whole record (the callback of commit.do_add, of UndoBlockTxs' addback loop and of
    LoadBalancesFromUtxo): if none of the record's non-nil outputs is in the coin set yet, the index
    afterwards is the projection of the set with those outputs laid over it. -/
theorem newUTXO_preserves (cfg : Cfg) (H : Bytes → Nat) (bal : BalMap) (C : Coins) (r : Rec)
    (h : Rel cfg H bal C) (hfresh : ∀ i o, outAt r.outs i = some o → C (r.key, i) = none) :
    Rel cfg H (newUTXO cfg H bal r) (overlay C r.key r.outs 0) :=
  addOuts_rel r.outs 0 bal C h (by intro i o hi; simpa using hfresh i o hi)

/-- all_del_utxos on the stored record with a mask (the callback of UnspentDB.del): the index afterwards
    is the projection of the set without the masked outputs. -/
theorem allDel_preserves (cfg : Cfg) (H : Bytes → Nat) (bal : BalMap) (C : Coins) (r : Rec) (mask : List Bool)
    (h : Rel cfg H bal C) (hrec : ∀ i, C (r.key, i) = outAt r.outs i) :
    Rel cfg H (allDel cfg H bal r mask) (unlay C r.key mask 0) :=
  (delOuts_rel r.outs 0 bal C h (by intro i; simpa using hrec i)).1

/-- One step of the UTXO change stream (commit add / commit del / undo del / undo add / enable / disable)
    preserves the invariant, under the named admissibility facts. -/
theorem step_preserves (H : Bytes → Nat) (s : State) (ev : Ev) (h : Inv H s) (ha : Admissible s ev) :
    Inv H (step H s ev) :=
  inv_step ev h ha

/-- Building the index from an already populated set (LoadBalancesFromUtxo) yields the projection. -/
theorem enable_builds_projection (H : Bytes → Nat) (s : State) (mn um : Nat) (h : Inv H s) (hoff : s.on = false) :
    let s' := step H s (.enable mn um)
    s'.on = true ∧ s'.cfg.min = mn ∧ Rel s'.cfg H s'.bal (coinsOf s'.utxo) := by
  have hi := inv_step (H := H) (.enable mn um) h trivial
  have hon : (step H s (.enable mn um)).on = true := by simp [step, hoff]
  refine ⟨hon, by simp [step, hoff], hi.2 hon⟩

/-- Induction over the whole history: after ANY admissible sequence of connects' adds/dels (in any
    interleaving), disconnects' dels/adds, on/off switches and builds-from-populated, starting from the
    empty node, the invariant holds. -/
theorem inv_all_histories (H : Bytes → Nat) (evs : List Ev) (hadm : AdmissibleRun H State.init evs) :
    Inv H (run H State.init evs) :=
  inv_run evs State.init (inv_init H) hadm

/-- Central theorem, keyed form. After any admissible history, while the index is on, for every address:
    GetAllUnspent has no duplicates, contains exactly the unspent outputs of value ≥ min whose script
    maps to the address's index key (type, H payload) — each reported with the right txid, vout, value,
    height and coinbase flag — and the record's total is their sum (mod 2^64). No injectivity needed. -/
theorem balances_eq_projection_keyed (H : Bytes → Nat) (evs : List Ev) (hadm : AdmissibleRun H State.init evs)
    (a : Addr) (hon : (run H State.init evs).on = true) :
    let s := run H State.init evs
    (getAllUnspent H s a).Nodup ∧
    (∀ x, x ∈ getAllUnspent H s a ↔ ∃ r o, aget (x.txid.take 8) s.utxo = some r ∧ outAt r.outs x.vout = some o ∧
        s.cfg.min ≤ o.value ∧ script2idx H o.script = some (a.idx, H a.payload) ∧
        x = { txid := r.txid, vout := x.vout, value := o.value, minedAt := r.inBlock, coinbase := r.coinbase }) ∧
    total H s a = sumValues (getAllUnspent H s a) % M64 :=
  getAll_spec a (inv_all_histories H evs hadm) hon

/-- The scriptPubKey of a supported address (type 0..4 with a 20/20/20/32/32-byte payload) is recognised
    by Script2Idx with exactly the key GetAllUnspent uses for that address. -/
theorem script_of_address_has_its_key (H : Bytes → Nat) (a : Addr) (hv : a.idx < 5)
    (hl : a.payload.length = if a.idx < 3 then 20 else 32) :
    script2idx H a.script = some (a.idx, H a.payload) :=
  script2idx_script H a hv hl

/-- Central theorem. After any admissible history (connects, disconnects, reorganisations, on/off,
    build-from-populated), while the index is on, for every supported address `a`:
    GetAllUnspent a = {o ∈ utxo | script o = script a ∧ value o ≥ min} (duplicate-free, same members,
    each with the right txid/vout/value/height/coinbase) and total a = Σ of it — provided
    `hinj`: no output currently in the set has a script different from `a`'s with the same index key
    (injectivity of the 64-bit address key (type, H payload) on the scripts in play), and
    `hfit`: the sum fits in 64 bits (total supply < 2^64). -/
theorem balances_eq_projection (H : Bytes → Nat) (evs : List Ev) (hadm : AdmissibleRun H State.init evs)
    (a : Addr) (hv : a.idx < 5) (hl : a.payload.length = if a.idx < 3 then 20 else 32)
    (hon : (run H State.init evs).on = true)
    (hinj : ∀ k r j o, aget k (run H State.init evs).utxo = some r → outAt r.outs j = some o →
      script2idx H o.script = script2idx H a.script → o.script = a.script)
    (hfit : sumValues (getAllUnspent H (run H State.init evs) a) < M64) :
    let s := run H State.init evs
    (getAllUnspent H s a).Nodup ∧
    (∀ x, x ∈ getAllUnspent H s a ↔ Pays s.cfg.min s.utxo a x) ∧
    total H s a = sumValues (getAllUnspent H s a) := by
  obtain ⟨hn, hm, ht⟩ := balances_eq_projection_keyed H evs hadm a hon
  have hkey := script2idx_script H a hv hl
  refine ⟨hn, ?_, by rw [ht]; exact Nat.mod_eq_of_lt hfit⟩
  intro x
  rw [hm x]
  unfold Pays
  constructor
  · rintro ⟨r, o, hr, ho, hmin, hs, hx⟩
    exact ⟨r, o, hr, ho, hmin, hinj _ r _ o hr ho (by rw [hs, hkey]), hx⟩
  · rintro ⟨r, o, hr, ho, hmin, hs, hx⟩
    exact ⟨r, o, hr, ho, hmin, by rw [hs, hkey], hx⟩

/-- Converse of `script_of_address_has_its_key`: every script Script2Idx recognises is byte for byte the
    standard scriptPubKey of the address (type, payload) it is indexed under, and the payload has that
    type's length (20/20/20/32/32). So two different scripts share an index key only if the 64-bit hash
    of two different payloads of the same type collides. -/
theorem recognised_script_is_address_script (s : Bytes) (i : Nat) (p : Bytes) (h : scriptForm s = some (i, p)) :
    s = Addr.script ⟨i, p⟩ ∧ i < 5 ∧ p.length = (if i < 3 then 20 else 32) :=
  scriptForm_converse s i p h

/-- Central theorem with the injectivity hypothesis reduced to the hash alone (closes the former OPEN item):
    `hHinj` only asks that no payload `p` of an output currently in the set, recognised under `a`'s address
    type, has `H p = H a.payload` unless `p = a.payload` (no 64-bit SipHash collision among the payloads
    in play). The minimum may be any value including 0: with `min = 0` every unspent output paying to `a`
    is listed, zero-valued ones too, and the record exists as long as one of them is unspent. -/
theorem balances_eq_projection_hash_inj (H : Bytes → Nat) (evs : List Ev) (hadm : AdmissibleRun H State.init evs)
    (a : Addr) (hv : a.idx < 5) (hl : a.payload.length = if a.idx < 3 then 20 else 32)
    (hon : (run H State.init evs).on = true)
    (hHinj : ∀ k r j o p, aget k (run H State.init evs).utxo = some r → outAt r.outs j = some o →
      scriptForm o.script = some (a.idx, p) → H p = H a.payload → p = a.payload)
    (hfit : sumValues (getAllUnspent H (run H State.init evs) a) < M64) :
    let s := run H State.init evs
    (getAllUnspent H s a).Nodup ∧
    (∀ x, x ∈ getAllUnspent H s a ↔ Pays s.cfg.min s.utxo a x) ∧
    total H s a = sumValues (getAllUnspent H s a) :=
  balances_eq_projection H evs hadm a hv hl hon
    (fun k r j o hr ho hk => hinj_of_payload_inj H a hv hl o (fun p hf hp => hHinj k r j o p hr ho hf hp) hk) hfit

/-- The record of an address exists exactly as long as GetAllUnspent has something to report for it — the
    record's lifetime follows its OUTPUT LIST, not its total: with `min = 0` an address whose remaining
    outputs are all worth 0 keeps its record (Value 0). -/
theorem record_exists_iff_outputs (H : Bytes → Nat) (evs : List Ev) (hadm : AdmissibleRun H State.init evs)
    (a : Addr) (hon : (run H State.init evs).on = true) :
    let s := run H State.init evs
    (aget (a.idx, H a.payload) s.bal).isSome = true ↔ getAllUnspent H s a ≠ [] :=
  record_iff_nonempty a (inv_all_histories H evs hadm) hon

/-- `min = 0`: EVERY unspent output paying to the address is listed, whatever its value (0 included). -/
theorem min_zero_lists_every_output (H : Bytes → Nat) (evs : List Ev) (hadm : AdmissibleRun H State.init evs)
    (a : Addr) (hv : a.idx < 5) (hl : a.payload.length = if a.idx < 3 then 20 else 32)
    (hon : (run H State.init evs).on = true) (hmin : (run H State.init evs).cfg.min = 0)
    (r : Rec) (j : Nat) (o : Out) (hr : aget r.key (run H State.init evs).utxo = some r)
    (ho : outAt r.outs j = some o) (hs : o.script = a.script) :
    ({ txid := r.txid, vout := j, value := o.value, minedAt := r.inBlock, coinbase := r.coinbase } : Unspent)
      ∈ getAllUnspent H (run H State.init evs) a := by
  refine ((balances_eq_projection_keyed H evs hadm a hon).2.1 _).2 ⟨r, o, hr, ho, ?_, ?_, rfl⟩
  · rw [hmin]; exact Nat.zero_le _
  · rw [hs]; exact script2idx_script H a hv hl

/-! ### non-vacuity -/

def exScr : Bytes := [0x00, 0x14] ++ List.replicate 20 1
def exOut0 : Out := { value := 10, script := exScr }
def exOut2 : Out := { value := 3, script := [0x51] }
def exRec : Rec := { txid := List.replicate 32 7, inBlock := 5, coinbase := false, outs := [some exOut0, none, some exOut2] }
def exAddr : Addr := { idx := 2, payload := List.replicate 20 1 }
def exH : Bytes → Nat := fun b => b.length

/-- a history satisfying the hypotheses: enable on the empty set, connect a record, spend one output,
    undo that, switch off and on again with another minimum -/
def exEvs : List Ev := [.enable 5 2, .add exRec, .del exRec.key [true, false, false],
  .undoDel exRec.key 3, .add exRec, .disable, .enable 4 0]

example : AdmissibleRun exH State.init exEvs := by
  refine ⟨trivial, ?_, trivial, trivial, ?_, trivial, trivial, trivial⟩ <;> (show aget _ _ = none) <;> decide +kernel
example : (run exH State.init exEvs).on = true := by decide +kernel
example : getAllUnspent exH (run exH State.init exEvs) exAddr =
    [{ txid := List.replicate 32 7, vout := 0, value := 10, minedAt := 5, coinbase := false }] := by decide +kernel
example : total exH (run exH State.init exEvs) exAddr = 10 := by decide +kernel
example : sumValues (getAllUnspent exH (run exH State.init exEvs) exAddr) < M64 := by decide +kernel
example : exAddr.idx < 5 ∧ exAddr.payload.length = (if exAddr.idx < 3 then 20 else 32) := by decide +kernel
example : script2idx exH exAddr.script = some (2, 20) := by decide +kernel
example : Inv exH State.init := inv_init exH
example : Rel { min := 0, useMapCnt := 0 } exH [] (fun _ => none) := rel_empty _ _
example : qual { min := 5, useMapCnt := 2 } exH exOut0 (2, 20) := by
  constructor <;> decide +kernel

/-! min = 0 with zero-valued outputs: the address holds a 0-value and a 10-value output; the block spends the
    10-value one; the total reaches 0 but the record and its zero-valued entry stay (list mode and map mode);
    spending the zero-valued one as well removes the record. -/
def zOut0 : Out := { value := 0, script := exScr }
def zRec : Rec := { txid := List.replicate 32 9, inBlock := 6, coinbase := false, outs := [some zOut0, some exOut0, some zOut0] }
def zEvs (um : Nat) : List Ev := [.enable 0 um, .add zRec, .del zRec.key [false, true, false]]

example : AdmissibleRun exH State.init (zEvs 5000) := by
  refine ⟨trivial, ?_, trivial, trivial⟩; (show aget _ _ = none); decide +kernel
example : (run exH State.init (zEvs 5000)).cfg.min = 0 ∧ (run exH State.init (zEvs 5000)).on = true := by decide +kernel
example : getAllUnspent exH (run exH State.init (zEvs 5000)) exAddr =
    [{ txid := List.replicate 32 9, vout := 0, value := 0, minedAt := 6, coinbase := false },
     { txid := List.replicate 32 9, vout := 2, value := 0, minedAt := 6, coinbase := false }] := by decide +kernel
example : total exH (run exH State.init (zEvs 5000)) exAddr = 0 ∧
    (aget (exAddr.idx, exH exAddr.payload) (run exH State.init (zEvs 5000)).bal).isSome = true := by decide +kernel
example : (getAllUnspent exH (run exH State.init (zEvs 1)) exAddr).length = 2 ∧
    total exH (run exH State.init (zEvs 1)) exAddr = 0 := by decide +kernel
example : getAllUnspent exH (run exH State.init (zEvs 3 ++ [.del zRec.key [true, false, false]])) exAddr =
    [{ txid := List.replicate 32 9, vout := 2, value := 0, minedAt := 6, coinbase := false }] := by decide +kernel
example : aget (exAddr.idx, exH exAddr.payload)
    (run exH State.init (zEvs 3 ++ [.del zRec.key [true, false, true]])).bal = none := by decide +kernel
example : scriptForm exScr = some (2, List.replicate 20 1) := by decide +kernel
example : ∀ p, scriptForm exOut0.script = some (exAddr.idx, p) → exH p = exH exAddr.payload → p = exAddr.payload := by
  intro p h _
  have : scriptForm exOut0.script = some (2, List.replicate 20 1) := by decide +kernel
  rw [this] at h; cases h; rfl

end GocoinV.Props.C17
