/-
  Props.C17 — per-address balances equal the projection of the UTXO set (property theorems only).
  Model: GocoinV.Model.Balances (the definitions the oracle executes and the harness compares with
  client/wallet + lib/utxo). Helper lemmas: GocoinV.Proofs.C17.

  Vocabulary.  `coinsOf u : (key8, vout) ⇀ Out` is the unspent set as a partial map (DESIGN §4 `abs`).
  `Rel cfg H bal C` says that the index `bal` is EXACTLY the projection of the coin set `C`: for every
  index key K = (address type, H payload) the record exists iff some coin of value ≥ cfg.min has that key,
  its entry list is duplicate-free and lists exactly those coins, and its Value is their sum (mod 2^64).
  `Inv H s` = UTXO map well-formed ∧ (index on → Rel).  `Admissible` names what the rest of the node
  guarantees about the change stream (fresh transaction keys; undo restores only spent outputs — the
  C06 fact).  The minimum value and useMapCnt are part of the state and change only in `enable`
  (the code re-reads them only in LoadBalancesFromUtxo), so "the minimum is constant while enabled"
  holds by construction of `step` — GIVEN the source facts of `model_matches_source_facts` (regenerated from
  /repo on every run by go/cmd/gen_c17): only ApplyBalMinVal stores the value in force, only InitConfig and
  LoadBalancesFromUtxo call it, `common.Reset()` cannot reach it. `load_ignores_config_changes` carries that to
  config changes landing BETWEEN TWO RECORDS of a running build.
  Addresses: `Addr` = (sub-index 0..4, payload) is what the index is keyed by; `QAddr` (Model.BalancesAddr) is ANY
  `btc.BtcAddr` value GetAllUnspent may be asked about (any witness version / program length, any base58 version).
-/
import GocoinV.Proofs.C17
import GocoinV.Proofs.C17Load
import GocoinV.Proofs.C17Disk
import GocoinV.Proofs.C17Addr
import GocoinV.Proofs.C17Cfg
import GocoinV.Proofs.C17Block
namespace GocoinV.Props.C17
open GocoinV.Model.Balances GocoinV.Spec.Balances GocoinV.Proofs.C17
open GocoinV.Model.BalancesLoad GocoinV.Proofs.C17Load
open GocoinV.Model.BalancesDisk GocoinV.Proofs.C17Disk
open GocoinV.Model.BalancesCfg GocoinV.Proofs.C17Cfg
open GocoinV.Model.BalancesBlock GocoinV.Proofs.C17Block

/-- add_preserves (NewUTXO, one output): adding a qualifying coin that is not yet in the set through
    NewUTXO's loop body keeps the index equal to the projection — whatever the record's representation
    (list, map, or switching from list to map at useMapCnt-1) and whether or not the record existed. -/
theorem add_preserves (cfg : Cfg) (H : Bytes → Nat) (bal : BalMap) (C : Coins) (K : AKey) (inp : Inp) (o : Out)
    (h : Rel cfg H bal C) (hfresh : C inp = none) (hq : qual cfg H o K) :
    Rel cfg H (addOne cfg bal K inp o.value) (updC C inp (some o)) :=
  addOne_rel h hfresh hq

/-- del_preserves (all_del_utxos, one output): removing a coin that is in the set keeps the index equal to
    the projection; in particular the record disappears exactly when its last entry goes, and otherwise
    its Value drops by the coin's value. -/
theorem del_preserves (cfg : Cfg) (H : Bytes → Nat) (bal : BalMap) (C : Coins) (K : AKey) (inp : Inp) (o : Out)
    (h : Rel cfg H bal C) (hin : C inp = some o) (hq : qual cfg H o K) :
    Rel cfg H (delOne bal K inp o.value) (updC C inp none) :=
  delOne_rel h hin hq

/-- NewUTXO on a whole record (the callback of commit.do_add, of UndoBlockTxs' addback loop and of
    LoadBalancesFromUtxo): if none of the record's non-nil outputs is in the coin set yet, the index
    afterwards is the projection of the set with those outputs laid over it. -/
theorem newUTXO_preserves (cfg : Cfg) (H : Bytes → Nat) (bal : BalMap) (C : Coins) (r : Rec)
    (h : Rel cfg H bal C) (hfresh : ∀ i o, outAt r.outs i = some o → C (r.key, i) = none) :
    Rel cfg H (newUTXO cfg H bal r) (overlay C r.key r.outs 0) :=
  addOuts_rel r.outs 0 bal C h (by intro i o hi; simpa using hfresh i o hi)

/-- all_del_utxos on the stored record with a mask (the callback of UnspentDB.del): the index afterwards
    is the projection of the set without the masked outputs. -/
theorem allDel_preserves (cfg : Cfg) (H : Bytes → Nat) (bal : BalMap) (C : Coins) (r : Rec) (mask : List Bool)
    (h : Rel cfg H bal C) (hrec : ∀ i, C (r.key, i) = outAt r.outs i) :
    Rel cfg H (allDel cfg H bal r mask) (unlay C r.key mask 0) :=
  (delOuts_rel r.outs 0 bal C h (by intro i; simpa using hrec i)).1

/-- One step of the UTXO change stream (commit add / commit del / undo del / undo add / enable / disable / restart
    through the balances cache) preserves the invariant, under the named admissibility facts. -/
theorem step_preserves (H : Bytes → Nat) (s : State) (ev : Ev) (h : Inv H s) (ha : Admissible s ev) :
    Inv H (step H s ev) :=
  inv_step ev h ha

/-- Building the index from an already populated set (LoadBalancesFromUtxo) yields the projection. -/
theorem enable_builds_projection (H : Bytes → Nat) (s : State) (mn um : Nat) (h : Inv H s) (hoff : s.on = false) :
    let s' := step H s (.enable mn um)
    s'.on = true ∧ s'.cfg.min = mn ∧ Rel s'.cfg H s'.bal (coinsOf s'.utxo) := by
  have hi := inv_step (H := H) (.enable mn um) h trivial
  have hon : (step H s (.enable mn um)).on = true := by simp [step, hoff]
  refine ⟨hon, by simp [step, hoff], hi.2 hon⟩

/-- Induction over the whole history: after ANY admissible sequence of connects' adds/dels (in any
    interleaving), disconnects' dels/adds, on/off switches, builds-from-populated and restarts through the balances
    cache (`.reload`: any UseMapCnt, any map iteration order while saving), starting from the empty node, the invariant holds. -/
theorem inv_all_histories (H : Bytes → Nat) (evs : List Ev) (hadm : AdmissibleRun H State.init evs) :
    Inv H (run H State.init evs) :=
  inv_run evs State.init (inv_init H) hadm

/-- Central theorem, keyed form. After any admissible history, while the index is on, for every address:
    GetAllUnspent has no duplicates, contains exactly the unspent outputs of value ≥ min whose script
    maps to the address's index key (type, H payload) — each reported with the right txid, vout, value,
    height and coinbase flag — and the record's total is their sum (mod 2^64). No injectivity needed. -/
theorem balances_eq_projection_keyed (H : Bytes → Nat) (evs : List Ev) (hadm : AdmissibleRun H State.init evs)
    (a : Addr) (hon : (run H State.init evs).on = true) :
    let s := run H State.init evs
    (getAllUnspent H s a).Nodup ∧
    (∀ x, x ∈ getAllUnspent H s a ↔ ∃ r o, aget (x.txid.take 8) s.utxo = some r ∧ outAt r.outs x.vout = some o ∧
        s.cfg.min ≤ o.value ∧ script2idx H o.script = some (a.idx, H a.payload) ∧
        x = { txid := r.txid, vout := x.vout, value := o.value, minedAt := r.inBlock, coinbase := r.coinbase }) ∧
    total H s a = sumValues (getAllUnspent H s a) % M64 :=
  getAll_spec a (inv_all_histories H evs hadm) hon

/-- GetAllUnspent's address → (sub-index, key) map, for EVERY address value it accepts (any witness version and
    program, any base58 version byte; `q.WF` is the Go type's `Hash160 [20]byte`), on either network:
    * if its branches pick a sub-index and a payload (`addrKey tn q = some a`), then the address's own OutScript() is
      exactly the standard script that sub-index stores for that payload, the payload has that sub-index's length
      (20/20/20/32/32), Script2Idx recognises the script under exactly the key the function looks up, and the function
      reports that record;
    * otherwise (witness version ≥ 2; version 1 with a program that is not 32 bytes; version 0 with a program that is
      neither 20 nor 32 bytes; a base58 version of another network) it looks nothing up and returns nothing.
    In particular an address is never answered from a sub-index whose scripts differ from its own script. -/
theorem script_of_address_has_its_key (H : Bytes → Nat) (tn : Bool) (q : QAddr) (hw : q.WF) :
    (∀ a, addrKey tn q = some a →
      q.outScript = some a.script ∧ a.idx < 5 ∧ a.payload.length = (if a.idx < 3 then 20 else 32) ∧
      script2idx H a.script = some (a.idx, H a.payload) ∧
      ∀ s, getAllUnspentQ H tn s q = getAllUnspent H s a ∧ totalQ H tn s q = total H s a) ∧
    (addrKey tn q = none → ∀ s, getAllUnspentQ H tn s q = [] ∧ totalQ H tn s q = 0) := by
  refine ⟨fun a h => ?_, fun h s => getAllQ_none h s⟩
  obtain ⟨hs, hv, hl⟩ := addrKey_spec tn q hw a h
  exact ⟨hs, hv, hl, script2idx_script H a hv hl, fun s => getAllQ_some h s⟩

/-- Every standard address (type 0..4 with a 20/20/20/32/32-byte payload) IS accepted: its address value on the
    network in use resolves to its own sub-index and payload (so the five standard forms are not lost by the
    version / length tests). -/
theorem standard_address_is_accepted (tn : Bool) (a : Addr) (hv : a.idx < 5)
    (hl : a.payload.length = if a.idx < 3 then 20 else 32) :
    addrKey tn (a.toQ tn) = some a ∧ (a.toQ tn).WF ∧ (a.toQ tn).outScript = some a.script := by
  obtain ⟨hk, hw⟩ := addrKey_toQ tn a hv hl
  exact ⟨hk, hw, (addrKey_spec tn _ hw a hk).1⟩

/-- Central theorem. After any admissible history (connects, disconnects, reorganisations, on/off,
    build-from-populated), while the index is on, for every supported address `a`:
    GetAllUnspent a = {o ∈ utxo | script o = script a ∧ value o ≥ min} (duplicate-free, same members,
    each with the right txid/vout/value/height/coinbase) and total a = Σ of it — provided
    `hinj`: no output currently in the set has a script different from `a`'s with the same index key
    (injectivity of the 64-bit address key (type, H payload) on the scripts in play), and
    `hfit`: the sum fits in 64 bits (total supply < 2^64). -/
theorem balances_eq_projection (H : Bytes → Nat) (evs : List Ev) (hadm : AdmissibleRun H State.init evs)
    (a : Addr) (hv : a.idx < 5) (hl : a.payload.length = if a.idx < 3 then 20 else 32)
    (hon : (run H State.init evs).on = true)
    (hinj : ∀ k r j o, aget k (run H State.init evs).utxo = some r → outAt r.outs j = some o →
      script2idx H o.script = script2idx H a.script → o.script = a.script)
    (hfit : sumValues (getAllUnspent H (run H State.init evs) a) < M64) :
    let s := run H State.init evs
    (getAllUnspent H s a).Nodup ∧
    (∀ x, x ∈ getAllUnspent H s a ↔ Pays s.cfg.min s.utxo a x) ∧
    total H s a = sumValues (getAllUnspent H s a) := by
  obtain ⟨hn, hm, ht⟩ := balances_eq_projection_keyed H evs hadm a hon
  have hkey := script2idx_script H a hv hl
  refine ⟨hn, ?_, by rw [ht]; exact Nat.mod_eq_of_lt hfit⟩
  intro x
  rw [hm x]
  unfold Pays
  constructor
  · rintro ⟨r, o, hr, ho, hmin, hs, hx⟩
    exact ⟨r, o, hr, ho, hmin, hinj _ r _ o hr ho (by rw [hs, hkey]), hx⟩
  · rintro ⟨r, o, hr, ho, hmin, hs, hx⟩
    exact ⟨r, o, hr, ho, hmin, by rw [hs, hkey], hx⟩

/-- Converse of `script_of_address_has_its_key`: every script Script2Idx recognises is byte for byte the
    standard scriptPubKey of the address (type, payload) it is indexed under, and the payload has that
    type's length (20/20/20/32/32). So two different scripts share an index key only if the 64-bit hash
    of two different payloads of the same type collides. -/
theorem recognised_script_is_address_script (s : Bytes) (i : Nat) (p : Bytes) (h : scriptForm s = some (i, p)) :
    s = Addr.script ⟨i, p⟩ ∧ i < 5 ∧ p.length = (if i < 3 then 20 else 32) :=
  scriptForm_converse s i p h

/-- Central theorem with the injectivity hypothesis reduced to the hash alone (closes the former OPEN item):
    `hHinj` only asks that no payload `p` of an output currently in the set, recognised under `a`'s address
    type, has `H p = H a.payload` unless `p = a.payload` (no 64-bit SipHash collision among the payloads
    in play). The minimum may be any value including 0: with `min = 0` every unspent output paying to `a`
    is listed, zero-valued ones too, and the record exists as long as one of them is unspent. -/
theorem balances_eq_projection_hash_inj (H : Bytes → Nat) (evs : List Ev) (hadm : AdmissibleRun H State.init evs)
    (a : Addr) (hv : a.idx < 5) (hl : a.payload.length = if a.idx < 3 then 20 else 32)
    (hon : (run H State.init evs).on = true)
    (hHinj : ∀ k r j o p, aget k (run H State.init evs).utxo = some r → outAt r.outs j = some o →
      scriptForm o.script = some (a.idx, p) → H p = H a.payload → p = a.payload)
    (hfit : sumValues (getAllUnspent H (run H State.init evs) a) < M64) :
    let s := run H State.init evs
    (getAllUnspent H s a).Nodup ∧
    (∀ x, x ∈ getAllUnspent H s a ↔ Pays s.cfg.min s.utxo a x) ∧
    total H s a = sumValues (getAllUnspent H s a) :=
  balances_eq_projection H evs hadm a hv hl hon
    (fun k r j o hr ho hk => hinj_of_payload_inj H a hv hl o (fun p hf hp => hHinj k r j o p hr ho hf hp) hk) hfit

/-- The record of an address exists exactly as long as GetAllUnspent has something to report for it — the
    record's lifetime follows its OUTPUT LIST, not its total: with `min = 0` an address whose remaining
    outputs are all worth 0 keeps its record (Value 0). -/
theorem record_exists_iff_outputs (H : Bytes → Nat) (evs : List Ev) (hadm : AdmissibleRun H State.init evs)
    (a : Addr) (hon : (run H State.init evs).on = true) :
    let s := run H State.init evs
    (aget (a.idx, H a.payload) s.bal).isSome = true ↔ getAllUnspent H s a ≠ [] :=
  record_iff_nonempty a (inv_all_histories H evs hadm) hon

/-- `min = 0`: EVERY unspent output paying to the address is listed, whatever its value (0 included). -/
theorem min_zero_lists_every_output (H : Bytes → Nat) (evs : List Ev) (hadm : AdmissibleRun H State.init evs)
    (a : Addr) (hv : a.idx < 5) (hl : a.payload.length = if a.idx < 3 then 20 else 32)
    (hon : (run H State.init evs).on = true) (hmin : (run H State.init evs).cfg.min = 0)
    (r : Rec) (j : Nat) (o : Out) (hr : aget r.key (run H State.init evs).utxo = some r)
    (ho : outAt r.outs j = some o) (hs : o.script = a.script) :
    ({ txid := r.txid, vout := j, value := o.value, minedAt := r.inBlock, coinbase := r.coinbase } : Unspent)
      ∈ getAllUnspent H (run H State.init evs) a := by
  refine ((balances_eq_projection_keyed H evs hadm a hon).2.1 _).2 ⟨r, o, hr, ho, ?_, ?_, rfl⟩
  · rw [hmin]; exact Nat.zero_le _
  · rw [hs]; exact script2idx_script H a hv hl

/-- Central theorem for ANY address value (not only the five standard forms). After any admissible history, while
    the index is on, GetAllUnspent(q) is duplicate-free and reports EXACTLY the unspent outputs of value ≥ min whose
    script is `q`'s own OutScript() — when the function resolves `q` to a sub-index; and NOTHING when it does not.
    So no address is ever shown outputs that pay to a different script. (For unresolved addresses — future witness
    versions — outputs paying to them exist in the set but are not indexed, by design: the right-hand side is empty.)
    `hHinj`: no 64-bit SipHash collision among the payloads in play, as in `balances_eq_projection_hash_inj`. -/
theorem balances_eq_projection_any_address (H : Bytes → Nat) (evs : List Ev) (hadm : AdmissibleRun H State.init evs)
    (tn : Bool) (q : QAddr) (hw : q.WF) (hon : (run H State.init evs).on = true)
    (hHinj : ∀ a, addrKey tn q = some a → ∀ k r j o p, aget k (run H State.init evs).utxo = some r →
      outAt r.outs j = some o → scriptForm o.script = some (a.idx, p) → H p = H a.payload → p = a.payload)
    (hfit : sumValues (getAllUnspentQ H tn (run H State.init evs) q) < M64) :
    let s := run H State.init evs
    (getAllUnspentQ H tn s q).Nodup ∧
    (∀ x, x ∈ getAllUnspentQ H tn s q ↔
      ∃ a, addrKey tn q = some a ∧ q.outScript = some a.script ∧ Pays s.cfg.min s.utxo a x) ∧
    totalQ H tn s q = sumValues (getAllUnspentQ H tn s q) := by
  cases hk : addrKey tn q with
  | none =>
    have h0 := getAllQ_none (H := H) hk (run H State.init evs)
    simp only [h0.1, h0.2]
    refine ⟨List.nodup_nil, fun x => ⟨fun h => (by cases h), fun h => (by obtain ⟨a, ha, _⟩ := h; cases ha)⟩, by simp [sumValues]⟩
  | some a =>
    obtain ⟨hs, hv, hl⟩ := addrKey_spec tn q hw a hk
    have h1 := getAllQ_some (H := H) hk (run H State.init evs)
    rw [h1.1] at hfit
    obtain ⟨hn, hm, ht⟩ := balances_eq_projection_hash_inj H evs hadm a hv hl hon (hHinj a hk) hfit
    simp only [h1.1, h1.2]
    refine ⟨hn, fun x => ?_, ht⟩
    rw [hm x]
    exact ⟨fun hp => ⟨a, rfl, hs, hp⟩, fun h => by obtain ⟨a', ha', _, hp⟩ := h; cases ha'; exact hp⟩

/-! ### the byte-level load: static decoder (both record formats), abort path

  Model.BalancesLoad mirrors `utxo.NewUtxoRecStatic` with its package-level buffers as explicit state (`Static`),
  for the plain (`entU`) and the compressed (`entC K`) record format, and `wallet.LoadBalancesFromUtxo` over the
  stored bytes with the `FetchingBalanceTick` abort. The stateless decoders are C10's `newRecU` / `newRecC`
  (imported; `recU_roundtrip` / `recC_roundtrip` of Props/C10 say they invert `SerializeU` / `SerializeC`). -/

/-- No residue, plain format: whatever the static buffers hold from earlier records (`st` is arbitrary), when
    `NewUtxoRecStatic` returns, the record it shows — txid, height, coinbase flag, number of slots and for EVERY slot
    nil or (value, script) — is exactly what the stateless `NewUtxoRec` decodes from the same bytes. -/
theorem static_decode_no_residue_plain (st st' : Static) (dat : Bytes) (r : URec)
    (h : staticDec entU dat st = .ok (r, st')) : UtxoRec.newRecU dat = .ok r := by
  rw [← genRec_entU]; exact staticDec_sound entU dat st st' r h

/-- No residue, compressed format (any key functions `K`). -/
theorem static_decode_no_residue_compressed (K : ScriptCompress.KeyOps) (st st' : Static) (dat : Bytes) (r : URec)
    (h : staticDec (entC K) dat st = .ok (r, st')) : UtxoRec.newRecC K dat = .ok r := by
  rw [← genRec_entC]; exact staticDec_sound (entC K) dat st st' r h

/-- Sequences, plain format: decoding the serialisations of ANY sequence of well-formed records one after the other
    through the same static buffers (starting from any buffer state) yields, record by record, exactly the records
    that were serialised — no output of record k shows in record k+1, whatever their slot counts and live slots.
    `_partial`: stated for runs in which no decode panics (`staticSeq … = some out`), from ANY buffer state;
    `static_sequence_exact_plain` below adds that no decode panics when pool and slot array have equal length. -/
theorem static_sequence_exact_plain_partial (rs : List URec) (hwf : ∀ r ∈ rs, UtxoRec.WFRec r) (bs : List Bytes)
    (hser : rs.map UtxoRec.serializeU = bs.map some) (st : Static) (out : List URec)
    (h : staticSeq entU bs st = some out) : out = rs := by
  refine staticSeq_exact entU rs bs st out ?_ h
  clear h
  induction rs generalizing bs with
  | nil => cases bs <;> simp at hser ⊢
  | cons r rs ih =>
    cases bs with
    | nil => simp at hser
    | cons b bs =>
      simp only [List.map_cons, List.cons.injEq] at hser ⊢
      refine ⟨?_, ih (fun r hr => hwf r (List.mem_cons_of_mem _ hr)) bs hser.2⟩
      rw [genRec_entU]
      exact UtxoRec.newRecU_serializeU r (hwf r (by simp)) b hser.1

/-- Sequences, compressed format (sound key functions, amounts on which CompressAmount does not wrap: `WFRecC`). -/
theorem static_sequence_exact_compressed_partial (K : ScriptCompress.KeyOps) (hK : K.Sound) (rs : List URec)
    (hwf : ∀ r ∈ rs, UtxoRec.WFRecC r) (bs : List Bytes)
    (hser : rs.map (UtxoRec.serializeC K) = bs.map some) (st : Static) (out : List URec)
    (h : staticSeq (entC K) bs st = some out) : out = rs := by
  refine staticSeq_exact (entC K) rs bs st out ?_ h
  clear h
  induction rs generalizing bs with
  | nil => cases bs <;> simp at hser ⊢
  | cons r rs ih =>
    cases bs with
    | nil => simp at hser
    | cons b bs =>
      simp only [List.map_cons, List.cons.injEq] at hser ⊢
      refine ⟨?_, ih (fun r hr => hwf r (List.mem_cons_of_mem _ hr)) bs hser.2⟩
      rw [genRec_entC]
      exact UtxoRec.newRecC_serializeC K hK r (hwf r (by simp)) b hser.1

/-- Sequences, plain format, total: from any buffer state in which `rec_pool` and `rec_outs` have the same length
    (`Static.Sized`: true at package initialisation, kept by `OutsList`, which re-allocates both together), decoding the
    serialisations of any sequence of well-formed records through the static decoder never panics and yields exactly
    those records (the pool cannot run out: slot indices are strictly increasing, so `rec_idx ≤ slot index < cnt`). -/
theorem static_sequence_exact_plain (rs : List URec) (hwf : ∀ r ∈ rs, UtxoRec.WFRec r) (bs : List Bytes)
    (hser : rs.map UtxoRec.serializeU = bs.map some) (st : Static) (hz : Static.Sized st) :
    staticSeq entU bs st = some rs := by
  refine staticSeq_total entU rs bs st hz ?_ (by simpa using (congrArg List.length hser).symm)
  intro k r b hr hb st1 hz1
  have := congrArg (fun l => l[k]?) hser
  simp only [List.getElem?_map, hr, hb, Option.map_some] at this
  exact staticDecU_total r (hwf r (List.mem_of_getElem? hr)) b (Option.some.inj this) st1 hz1

/-- Sequences, compressed format, total (sound key functions, `WFRecC`). -/
theorem static_sequence_exact_compressed (K : ScriptCompress.KeyOps) (hK : K.Sound) (rs : List URec)
    (hwf : ∀ r ∈ rs, UtxoRec.WFRecC r) (bs : List Bytes)
    (hser : rs.map (UtxoRec.serializeC K) = bs.map some) (st : Static) (hz : Static.Sized st) :
    staticSeq (entC K) bs st = some rs := by
  refine staticSeq_total (entC K) rs bs st hz ?_ (by simpa using (congrArg List.length hser).symm)
  intro k r b hr hb st1 hz1
  have := congrArg (fun l => l[k]?) hser
  simp only [List.getElem?_map, hr, hb, Option.map_some] at this
  exact staticDecC_total K hK r (hwf r (List.mem_of_getElem? hr)) b (Option.some.inj this) st1 hz1

/-- A COMPLETED byte-level load is the record-level `.enable` step, in either record format (`P = entU` or `entC K`):
    if the stored bytes decode (statelessly) to the records of the unspent set (`Stored`), the tick never fires and the
    load returns, the node state afterwards — maps, on flag, applied minimum and useMapCnt — EQUALS
    `step H s (.enable mn um)`, whatever the static buffers held. Hence every theorem above about histories with
    `.enable` (inv_all_histories, balances_eq_projection, …) holds verbatim when the index is built from bytes. -/
theorem load_bytes_eq_enable (P : Parser) (H : Bytes → Nat) (tick : Nat → Bool) (s s' : State) (st st' : Static)
    (raw : List Bytes) (mn um : Nat) (hs : Stored P raw s.utxo)
    (hq : ∀ k, 1 ≤ k → k ≤ raw.length → tick k = false)
    (h : loadFromUtxo P H tick s st raw mn um = some (s', st')) : s' = step H s (.enable mn um) :=
  loadFromUtxo_completed P H tick s s' st st' raw mn um hs hq h

/-- Build-from-populated over the stored bytes, both formats: after a completed load the index is on and is the
    projection of the unspent set (the byte-level form of `enable_builds_projection`). -/
theorem load_bytes_builds_projection (P : Parser) (H : Bytes → Nat) (tick : Nat → Bool) (s s' : State) (st st' : Static)
    (raw : List Bytes) (mn um : Nat) (hi : Inv H s) (hoff : s.on = false) (hs : Stored P raw s.utxo)
    (hq : ∀ k, 1 ≤ k → k ≤ raw.length → tick k = false)
    (h : loadFromUtxo P H tick s st raw mn um = some (s', st')) :
    s'.on = true ∧ s'.cfg.min = mn ∧ s'.utxo = s.utxo ∧ Rel s'.cfg H s'.bal (coinsOf s'.utxo) := by
  have e := load_bytes_eq_enable P H tick s s' st st' raw mn um hs hq h
  have hb := enable_builds_projection H s mn um hi hoff
  subst e
  exact ⟨hb.1, hb.2.1, by simp [step, hoff], hb.2.2⟩

/-- The ABORT path: if FetchingBalanceTick answers true after one of the records (1 ≤ k ≤ number of records) and
    the index was off, then after LoadBalancesFromUtxo returns the index is EMPTY and OFF (no record of the partial
    scan survives: `InitMaps(true)`), the unspent set is untouched, and the invariant still holds — so a later
    complete load starts from the same state as if the aborted one had never happened. -/
theorem load_aborted_leaves_index_empty_and_off (P : Parser) (H : Bytes → Nat) (tick : Nat → Bool) (s s' : State)
    (st st' : Static) (raw : List Bytes) (mn um : Nat) (hi : Inv H s) (hoff : s.on = false)
    (hq : ∃ k, 1 ≤ k ∧ k ≤ raw.length ∧ tick k = true)
    (h : loadFromUtxo P H tick s st raw mn um = some (s', st')) :
    s'.on = false ∧ s'.bal = [] ∧ s'.utxo = s.utxo ∧ Inv H s' ∧
      (∀ a, getAllUnspent H s' a = [] ∧ total H s' a = 0) := by
  have e := loadFromUtxo_aborted P H tick s s' st st' raw mn um hoff hq h
  subst e
  refine ⟨rfl, rfl, rfl, ⟨hi.1, fun hon => by cases hon⟩, fun a => ?_⟩
  simp [getAllUnspent, total, aget]

/-- load_bytes_total, plain format: when `Unspent.HashMap` holds the serialisations (`SerializeU`) of well-formed
    records which are the model's unspent set, LoadBalancesFromUtxo over those bytes RETURNS (no panic, no hang) from any
    buffer state with equally long pool and slot arrays and for ANY tick function, keeps that buffer property, and its
    result is the record-level `.enable` step when the tick never fires, the empty switched-off index when it does. -/
theorem load_serialized_plain (H : Bytes → Nat) (tick : Nat → Bool) (s : State) (st : Static) (mn um : Nat)
    (rs : List URec) (hwf : ∀ r ∈ rs, UtxoRec.WFRec r) (raw : List Bytes)
    (hser : rs.map UtxoRec.serializeU = raw.map some) (hu : rs.map toBal = s.utxo.map Prod.snd)
    (hz : Static.Sized st) :
    ∃ s' st', loadFromUtxo entU H tick s st raw mn um = some (s', st') ∧ Static.Sized st' ∧
      ((∀ k, 1 ≤ k → k ≤ raw.length → tick k = false) → s' = step H s (.enable mn um)) ∧
      (s.on = false → (∃ k, 1 ≤ k ∧ k ≤ raw.length ∧ tick k = true) →
        s' = { s with cfg := { min := mn, useMapCnt := um }, bal := [], on := false }) := by
  obtain ⟨s', st', h, hz'⟩ := loadFromUtxo_total entU H tick s st raw mn um (readable_of_serializedU rs hwf raw hser) hz
  have hs := stored_of_decodes entU rs raw s.utxo (decodes_of_serializedU rs hwf raw hser) hu
  exact ⟨s', st', h, hz', fun hq => loadFromUtxo_completed entU H tick s s' st st' raw mn um hs hq h,
    fun hoff hq => loadFromUtxo_aborted entU H tick s s' st st' raw mn um hoff hq h⟩

/-- load_bytes_total, compressed format (sound key functions, `WFRecC`). -/
theorem load_serialized_compressed (K : ScriptCompress.KeyOps) (hK : K.Sound) (H : Bytes → Nat) (tick : Nat → Bool)
    (s : State) (st : Static) (mn um : Nat)
    (rs : List URec) (hwf : ∀ r ∈ rs, UtxoRec.WFRecC r) (raw : List Bytes)
    (hser : rs.map (UtxoRec.serializeC K) = raw.map some) (hu : rs.map toBal = s.utxo.map Prod.snd)
    (hz : Static.Sized st) :
    ∃ s' st', loadFromUtxo (entC K) H tick s st raw mn um = some (s', st') ∧ Static.Sized st' ∧
      ((∀ k, 1 ≤ k → k ≤ raw.length → tick k = false) → s' = step H s (.enable mn um)) ∧
      (s.on = false → (∃ k, 1 ≤ k ∧ k ≤ raw.length ∧ tick k = true) →
        s' = { s with cfg := { min := mn, useMapCnt := um }, bal := [], on := false }) := by
  obtain ⟨s', st', h, hz'⟩ := loadFromUtxo_total (entC K) H tick s st raw mn um (readable_of_serializedC K hK rs hwf raw hser) hz
  have hs := stored_of_decodes (entC K) rs raw s.utxo (decodes_of_serializedC K hK rs hwf raw hser) hu
  exact ⟨s', st', h, hz', fun hq => loadFromUtxo_completed (entC K) H tick s s' st st' raw mn um hs hq h,
    fun hoff hq => loadFromUtxo_aborted (entC K) H tick s s' st st' raw mn um hoff hq h⟩

/-! ### configuration changes (Model.BalancesCfg, Gen.WalletCfgFacts) -/

/-- The model's treatment of the two thresholds restated against /repo's CURRENT source (facts regenerated by
    go/cmd/gen_c17 on every run; this theorem stops compiling when one of them changes). The facts are in the
    generator's canonical form: a function is named only when it is an ENTRY POINT of its package (exported, init,
    main, used as a value); unexported helpers count as inlined into their callers; the two package variables are
    found by their role (what `common.AllBalMinVal()` loads; the wallet variable assigned from
    CFG.AllBalances.UseMapCnt, printed `<useMapCnt>`); locals are resolved. So: the variable behind
    `common.AllBalMinVal()` is stored only by ApplyBalMinVal (the value of CFG.AllBalances.MinValue) and loaded only
    by AllBalMinVal; a store is reachable in package common only from ApplyBalMinVal and InitConfig — NOT from
    `Reset()`, which the WebUI / TextUI run after every config change; outside package common only
    wallet.LoadBalancesFromUtxo calls it, once, unconditionally, before its scan, behind the WalletON guard; the only
    package-level / imported quantities that ordered comparisons on the paths of the callbacks TxNotifyAdd /
    TxNotifyDel depend on are `common.AllBalMinVal()` (the value in force) and, when adding, the list->map
    threshold; nothing in client/wallet reads CFG.AllBalances.MinValue; the wallet's copy of
    CFG.AllBalances.UseMapCnt is assigned only in InitMaps and LoadBalances, from that field; the path of the
    removing callback calls no standard-library search that assumes a SORTED slice (slices.BinarySearch*, sort.Search*,
    sort.Find): the model finds the entry to remove by membership, and an entry list restored from the balances cache is in arbitrary order
    (`shrunk_map_reloads_as_list_in_any_order`); the conditions (any operator) on the callbacks' paths depend only on the
    record's outputs (presence, script, value), the index's own tables and records, the script classification, the value in
    force and, when adding, the list->map threshold — on no other variable of the package and on nothing else imported from
    client/... (node state such as `common.BlockChainSynchronized`, configuration), functions / constants of lib/... and the
    standard library not being listed; `common.AllBalMinVal()` returns the atomic load of the variable and nothing else.
    WHAT THE FACTS DO NOT PIN: the bodies of the functions named (what `Script2Idx` computes, what is done with a value once
    read — that is the correspondence run's part), state reached through a function / method of lib/... or through a
    function value, and anything outside client/common and client/wallet. -/
theorem model_matches_source_facts :
    Gen.WalletCfgFacts.minValWriters = ["ApplyBalMinVal"] ∧
    Gen.WalletCfgFacts.minValStored = ["CFG.AllBalances.MinValue"] ∧
    Gen.WalletCfgFacts.minValReaders = ["AllBalMinVal"] ∧
    Gen.WalletCfgFacts.minValReach = ["ApplyBalMinVal", "InitConfig"] ∧
    Gen.WalletCfgFacts.resetMayWriteMinVal = false ∧
    Gen.WalletCfgFacts.minValExternalCallers = ["wallet.LoadBalancesFromUtxo"] ∧
    Gen.WalletCfgFacts.loadGuardedByWalletON = true ∧ Gen.WalletCfgFacts.loadAppliesOnceBeforeScan = true ∧
    Gen.WalletCfgFacts.addPathComparesWith = ["(<useMapCnt>-1)", "common.AllBalMinVal()"] ∧
    Gen.WalletCfgFacts.delPathComparesWith = ["common.AllBalMinVal()"] ∧
    Gen.WalletCfgFacts.addPathReadsInForce = true ∧ Gen.WalletCfgFacts.delPathReadsInForce = true ∧
    Gen.WalletCfgFacts.walletReadsCfgMinValue = [] ∧
    Gen.WalletCfgFacts.useMapCntWriters = ["InitMaps", "LoadBalances"] ∧
    Gen.WalletCfgFacts.useMapCntSources = ["int(common.Get(&common.CFG.AllBalances.UseMapCnt))"] ∧
    Gen.WalletCfgFacts.delPathSortedSearches = [] ∧
    Gen.WalletCfgFacts.addPathConditionsDependOn =
      ["<useMapCnt>", "OneAllAddrBal", "OneAllAddrBal.unsp", "OneAllAddrBal.unspMap", "Script2Idx()", "[]byte", "allBalances",
       "allBalances.unsp", "allBalances.unspMap", "common.AllBalMinVal()", "utxo.UtxoRec.Outs", "utxo.UtxoRec.Outs.PKScr",
       "utxo.UtxoRec.Outs.Value"] ∧
    Gen.WalletCfgFacts.delPathConditionsDependOn =
      ["Script2Idx()", "[]bool", "[]byte", "allBalances", "allBalances.unsp", "allBalances.unspMap", "common.AllBalMinVal()",
       "utxo.UtxoRec.Outs", "utxo.UtxoRec.Outs.PKScr", "utxo.UtxoRec.Outs.Value"] ∧
    Gen.WalletCfgFacts.minValGetterReturns = ["atomic.LoadUint64(&<minVal>)"] :=
  source_facts

/-- A config change landing DURING the build of the index is ignored until the next build: for ANY schedule `chg` of
    `CFG.AllBalances.MinValue = v; common.Reset()` events between the records of a running LoadBalancesFromUtxo (from
    the tick callback or another goroutine; WalletON is false all that time), the load behaves exactly as without
    them — same maps, same on flag, and the minimum in force afterwards is the one applied before the scan. Hence
    every record of the scan is filtered with ONE threshold, and `load_bytes_eq_enable`, `load_bytes_builds_projection`,
    `load_serialized_*` hold verbatim for `loadFromUtxoR`. Rests on `resetMayWriteMinVal = false` (generated). -/
theorem load_ignores_config_changes (P : Parser) (H : Bytes → Nat) (tick : Nat → Bool) (chg : Nat → Option Nat)
    (s : State) (st : Static) (raw : List Bytes) (mn um : Nat) :
    loadFromUtxoR P H tick chg s st raw mn um = loadFromUtxo P H tick s st raw mn um :=
  loadFromUtxoR_eq P H tick chg s st raw mn um

/-- Build-from-populated with config changes during the scan: after a completed load the index is on, is the
    projection of the unspent set under the minimum IN FORCE afterwards, and that minimum is the one configured when
    the build started. -/
theorem load_with_config_changes_builds_projection (P : Parser) (H : Bytes → Nat) (tick : Nat → Bool)
    (chg : Nat → Option Nat) (s s' : State) (st st' : Static)
    (raw : List Bytes) (mn um : Nat) (hi : Inv H s) (hoff : s.on = false) (hs : Stored P raw s.utxo)
    (hq : ∀ k, 1 ≤ k → k ≤ raw.length → tick k = false)
    (h : loadFromUtxoR P H tick chg s st raw mn um = some (s', st')) :
    s'.on = true ∧ s'.cfg.min = mn ∧ s'.utxo = s.utxo ∧ Rel s'.cfg H s'.bal (coinsOf s'.utxo) := by
  rw [load_ignores_config_changes] at h
  exact load_bytes_builds_projection P H tick s s' st st' raw mn um hi hoff hs hq h

/-! ### the disk cache of the index (wallet/disk.go, Model.BalancesDisk) -/

/-- `btc.ReadVarInt(btc.WriteVarInt(n)) = n` for every uint64 (base-128 VARINT with the uint64 wrap explicit),
    with anything following. -/
theorem varint_roundtrip (n : Nat) (h : n < 2 ^ 64) (rest : Bytes) :
    readVarInt (writeVarInt n ++ rest) = some (n, rest) :=
  readVarInt_writeVarInt n h rest

/-- disk_roundtrip: for one address type's map `m` (Go map order = any list order) whose records are as the index
    invariant keeps them (`WFBal`: non-empty duplicate-free entry list — both given by `Rel` — 8-byte keys, uint32
    vouts, a Value on which CompressAmount does not wrap) and whose keys are uint64, `load_map` on what `save_map`
    wrote (trailing bytes ignored) assigns a map with exactly the same keys, Values and entries; only the layout is
    re-chosen (`norm`: map layout iff count >= useMapCnt — a map that had shrunk below useMapCnt comes back as a
    list, a list never comes back as a map since lists hold < useMapCnt entries). Both layouts write the same bytes. -/
theorem disk_roundtrip (um : Nat) (m : List (Nat × Bal)) (hl : m.length < 2 ^ 64)
    (hk : ∀ p ∈ m, p.1 < 2 ^ 64 ∧ WFBal p.2) (extra : Bytes) (prev : List (Nat × Option Bal)) :
    loadMap um (some (saveMap m ++ extra)) prev = (m.map (fun p => (p.1, some (norm um p.2)))).reverse := by
  unfold loadMap
  simp only [loadPairs_saveMap um m hl hk extra]

/-- `load_map` never stores a nil record (fix in client/wallet/disk.go: a record that cannot be read — file cut inside it, entry
    count 0 — refuses the file): every file it accepts holds exactly the announced number of records, each a real record. -/
theorem loaded_map_has_no_nil_record (um : Nat) (f : Bytes) (l : List (Nat × Option Bal)) (h : loadPairs um f = some l) :
    ∀ p ∈ l, p.2.isSome = true := by
  unfold loadPairs at h
  split at h
  · cases h
  · exact (loadRecs_all_some um _ _ _ h).2

/-- LoadBalances as an ENABLING event (`loadAll` = all address-type files; `none` = the load is refused: InitMaps(true), error
    returned, WalletON stays false, the client falls back to LoadBalancesFromUtxo = the model's `.enable`): it switches the index on
    only if EVERY file was there and was accepted completely, and then every loaded record is a real one; a single missing or
    refused file refuses the whole load.  (Before the fix the test was `allBalances[i] == nil`, which a file cut inside its last
    record — stored with a nil record — and, after a Disable, ANY failed file passed: the index went on with a wrong map, the
    negation of C17.  Kept in the corpus: harness stream disk-corrupt.) -/
theorem load_balances_all_or_nothing (um : Nat) (fs : List (Option Bytes)) :
    (∀ ls, GocoinV.Model.BalancesDisk.loadAll um fs = some ls →
      ls.length = fs.length ∧ (∀ f ∈ fs, ∃ b, f = some b ∧ (loadPairs um b).isSome = true) ∧ ∀ l ∈ ls, ∀ p ∈ l, p.2.isSome = true) ∧
    ((∃ f ∈ fs, f = none ∨ ∃ b, f = some b ∧ loadPairs um b = none) → GocoinV.Model.BalancesDisk.loadAll um fs = none) :=
  ⟨fun ls h => loadAll_some um fs ls h, loadAll_none_of um fs⟩

/-- … and on what SaveBalances wrote for an index as the invariant keeps it, LoadBalances gives back, per address type, exactly
    the saved map (keys, Values, entries; layout re-chosen by `norm`) — so enabling through the cache at the block the cache was
    written for yields the same index as the one that was saved, which `balances_eq_projection` shows to be the projection. -/
theorem load_balances_roundtrip (um : Nat) (ms : List (List (Nat × Bal)))
    (hl : ∀ m ∈ ms, m.length < 2 ^ 64) (hk : ∀ m ∈ ms, ∀ p ∈ m, p.1 < 2 ^ 64 ∧ WFBal p.2) :
    GocoinV.Model.BalancesDisk.loadAll um (ms.map (fun m => some (saveMap m)))
      = some (ms.map (fun m => (m.map (fun p => (p.1, some (norm um p.2)))).reverse)) := by
  induction ms with
  | nil => rfl
  | cons m rest ih =>
    have h1 := loadPairs_saveMap um m (hl m (by simp)) (hk m (by simp)) []
    simp only [List.append_nil] at h1
    simp only [List.map_cons, GocoinV.Model.BalancesDisk.loadAll, h1,
      ih (fun x hx => hl x (List.mem_cons_of_mem _ hx)) (fun x hx => hk x (List.mem_cons_of_mem _ hx))]

/-! ### restart through the balances cache as an event of the histories (`Ev.reload`)

  `Ev` now has the event `.reload useMapCnt ords` = SaveBalances; restart; LoadBalances, so every history theorem above
  (`inv_all_histories`, `balances_eq_projection*`, `record_exists_iff_outputs`, …) quantifies over histories that go through
  the cache at any point, any number of times, with any UseMapCnt at the restart and any Go map iteration order while the
  map records were saved — and that go on connecting / disconnecting blocks on the restored index. -/

/-- A restart through the cache changes no answer: the unspent set, the minimum and the on-flag are untouched, every
    address's total is the same and its GetAllUnspent list is a rearrangement of the one before. -/
theorem reload_keeps_every_answer (H : Bytes → Nat) (s : State) (um : Nat) (ords : List (AKey × List Inp))
    (h : Inv H s) (hon : s.on = true) (a : Addr) :
    let s' := step H s (.reload um ords)
    s'.utxo = s.utxo ∧ s'.on = true ∧ s'.cfg.min = s.cfg.min ∧ s'.cfg.useMapCnt = um ∧
    total H s' a = total H s a ∧ (getAllUnspent H s' a).Perm (getAllUnspent H s a) := by
  simp only [step, hon, if_true]
  refine ⟨trivial, trivial, trivial, trivial, ?_, ?_⟩
  · simp only [total, aget_reloadBal]
    cases hb : aget (a.idx, H a.payload) s.bal with
    | none => rfl
    | some b =>
      have hK := h.2 hon (a.idx, H a.payload)
      rw [hb] at hK
      exact (relayout_perm um _ b hK.1).2
  · simp only [getAllUnspent, aget_reloadBal]
    cases hb : aget (a.idx, H a.payload) s.bal with
    | none => exact List.Perm.refl _
    | some b =>
      have hK := h.2 hon (a.idx, H a.payload)
      rw [hb] at hK
      exact (relayout_perm um _ b hK.1).1.filterMap _

/-- What the restart may hand back (why no code path may rely on an ordering of the entry lists): a MAP record whose count
    is below the UseMapCnt of the restart — it shrank after the switch-over, or UseMapCnt was raised — comes back as a LIST
    holding the entries in exactly the order Go's map iteration produced while saving, i.e. in ANY order. -/
theorem shrunk_map_reloads_as_list_in_any_order (um : Nat) (b : Bal) (ord : List Inp) (hm : b.isMap = true)
    (hp : ord.Perm b.unsp) (hlt : ord.length < um) :
    relayout um ord b = { value := b.value, unsp := ord, isMap := false } := by
  have : savedOrder ord b = ord := by
    simp only [savedOrder, hm, Bool.true_and, List.isPerm_iff.2 hp, if_true]
  simp only [relayout, this, Nat.not_le.2 hlt, if_false]

/-- … and the event is exactly the byte-level round trip of disk.go: for one address type's map `m` (records as the index
    invariant keeps them, `WFBal`), `load_map` with the restart's UseMapCnt on the file `save_map` writes when every map
    record is iterated in the order `ord` proposes gives back, key for key, the records `relayout` computes. -/
theorem reload_is_cache_roundtrip (um : Nat) (m : List (Nat × Bal)) (ord : Nat → List Inp) (hl : m.length < 2 ^ 64)
    (hk : ∀ p ∈ m, p.1 < 2 ^ 64 ∧ WFBal p.2) (prev : List (Nat × Option Bal)) :
    loadMap um (some (saveMap (m.map (fun p => (p.1, asSaved (ord p.1) p.2))))) prev
      = (m.map (fun p => (p.1, some (relayout um (ord p.1) p.2)))).reverse := by
  have h := disk_roundtrip um (m.map (fun p => (p.1, asSaved (ord p.1) p.2))) (by simpa using hl)
    (by
      intro p hp
      obtain ⟨q, hq, rfl⟩ := List.mem_map.1 hp
      exact ⟨(hk q hq).1, wfBal_asSaved _ _ (hk q hq).2⟩) [] prev
  rw [List.append_nil] at h
  rw [h, List.map_map]
  congr 1
  apply List.map_congr_left
  intro p hp
  simp only [Function.comp, norm_asSaved um (ord p.1) p.2 (hk p hp).2.nodup]

/-! ### block connections in every sync state (Model.BalancesBlock) -/

/-- Source facts (regenerated from /repo/lib/utxo on every run by go/cmd/gen_c17/guards.go) behind the block layer: WHAT
    DECIDES WHETHER lib/utxo CALLS THE INDEX CALLBACKS, WHAT IT HANDS TO THEM, AND WHERE THE INSTALLED CALLBACKS CAN CHANGE.
    Canonical form: field paths rooted in the type of the receiver / parameter; a local that is defined once stands for its
    definition, any other local for EVERY value written to it and the conditions around those writes; parameters of closures
    and of non-entry functions stand for what the call chain passes, a call of a non-entry function for what it returns and
    every condition it tests; per entry point through which a call site is reached. Guards = the conditions of the if / for /
    switch statements around the call and every condition inside an earlier statement of an enclosing block that contains (at
    any depth) a return / goto / panic / break / continue leaving it. Read: through CommitBlockTxs, `CB.NotifyTxAdd(rec)`
    depends on the callback being installed and on the block's AddList, and is handed a record of the AddList;
    `CB.NotifyTxDel(rec, outs)` depends on the callback being installed, the block's DeledTxs and the stored record being the
    one named by the txid, and is handed the stored record (decoded by NewUtxoRec) and the block's mask; through UndoBlockTxs
    additionally on the undo file being readable and on what is read from it (the callback is handed the record read back),
    the deletion on the block's transactions (mask: all outputs). The callbacks are assigned in one place, NewUnspentDb, from
    the options. In these sets there is no `BlockChanges.Height`, `BlockChanges.LastKnownHeight`, `UnspentDB.UnwindBufLen`,
    `BlockChanges.UndoData` and no field of the record: `connectBlock` runs the callbacks in every sync state.
    WHAT THE FACT DOES NOT PIN: it is a may-depend set computed from the syntax of package lib/utxo only. It does not see
    what the entry points named with `()` (NewUtxoRec, FullUtxoRec) or functions of other packages compute, state reached
    through a function value, an interface method or reflection, a change of the callbacks or of a guard made OUTSIDE lib/utxo
    (client/…: covered only by the correspondence run), or an edit that keeps the sets but changes the expression (a guard
    `!= nil` turned into `== nil`, a different record of the same AddList). Such edits are the correspondence run's part. -/
theorem callbacks_guarded_by_installation_only :
    Gen.UtxoNotifyFacts.notifyAddGuards =
      [("UnspentDB.CommitBlockTxs", ["BlockChanges.AddList", "UnspentDB.CB.NotifyTxAdd"]),
       ("UnspentDB.UndoBlockTxs", ["FullUtxoRec()", "UnspentDB.CB.NotifyTxAdd", "UnspentDB.LastBlockHeight", "UnspentDB.dir_undo",
          "btc.VLen()", "fmt.Sprint()", "os.ReadFile()"])] ∧
    Gen.UtxoNotifyFacts.notifyDelGuards =
      [("UnspentDB.CommitBlockTxs", ["BlockChanges.DeledTxs", "UnspentDB.CB.NotifyTxDel", "UnspentDB.HashMap", "bytes.Equal()"]),
       ("UnspentDB.UndoBlockTxs", ["UnspentDB.CB.NotifyTxDel", "UnspentDB.HashMap", "btc.Block.Txs", "btc.Block.Txs.Hash.Hash",
          "bytes.Equal()"])] ∧
    Gen.UtxoNotifyFacts.notifyAddArgs =
      [("UnspentDB.CommitBlockTxs", ["BlockChanges.AddList"]),
       ("UnspentDB.UndoBlockTxs", ["FullUtxoRec()", "UnspentDB.LastBlockHeight", "UnspentDB.dir_undo", "btc.VLen()",
          "fmt.Sprint()", "os.ReadFile()"])] ∧
    Gen.UtxoNotifyFacts.notifyDelArgs =
      [("UnspentDB.CommitBlockTxs", ["BlockChanges.DeledTxs", "NewUtxoRec()", "UnspentDB.HashMap"]),
       ("UnspentDB.UndoBlockTxs", ["NewUtxoRec()", "UnspentDB.CB.NotifyTxDel", "UnspentDB.HashMap", "btc.Block.Txs",
          "btc.Block.Txs.TxOut"])] ∧
    Gen.UtxoNotifyFacts.callbackWrites = ["NewUnspentDb: UnspentDB.CB = {NewUnspentOpts.CB}"] :=
  notify_facts

/-- "… after EVERY block connection": a block is connected with the same effect on the unspent set AND on the index
    whatever the node's sync state — its height, the height of the best known header (0, at the tip, 144 ahead, exactly
    UnwindBufLen ahead, further: the node is "syncing" and keeps no undo data for the block), the unwind buffer length.
    DEFINITIONAL (`rfl`): the model's `connectBlock` never reads `height` / `lastKnown`; the theorem only records that
    modelling decision. That the CODE behaves so is not proved here: it rests on the may-depend facts of
    `callbacks_guarded_by_installation_only` (with the limits stated there) and on the correspondence run, which connects
    blocks 1 block … the whole uint32 range beyond the UnwindBufLen boundary with the index on. -/
theorem connect_tells_index_in_every_sync_state (H : Bytes → Nat) (s : State) (b : BlockCh) (height lastKnown : Nat) :
    connectBlock H s (b.inState height lastKnown) = connectBlock H s b :=
  connectBlock_inState H s b height lastKnown

/-- One block connection preserves "index = projection" in EVERY sync state, in particular for a block connected while
    the node is far behind the best known header (`farBehind`: no undo data, the block can never be disconnected). -/
theorem connect_preserves_in_every_sync_state (H : Bytes → Nat) (s : State) (b : BlockCh) (h : Inv H s)
    (ha : AdmissibleRun H s b.work) : Inv H (connectBlock H s b) :=
  inv_connectBlock b h ha

/-- Undo data is kept exactly for the blocks connected at most `unwind` blocks behind the best known header (uint32
    arithmetic of chain.commitTxs); `lastKnown = 0` (feature not used) always keeps it. Unfolds the definition of `keepsUndo`
    (what the oracle's `keepundo` answers and the harness compares with the undo file the real code leaves); `keepsUndo` occurs
    in no statement about the index: a `.disconnect` of a block that kept no undo data is not excluded by `AdmissibleRun` — the
    model's disconnect carries its own undo records — and the real node cannot perform it (UndoBlockTxs panics). -/
theorem undo_kept_iff_not_far_behind (unwind : Nat) (b : BlockCh) :
    (keepsUndo unwind b = true ↔ b.lastKnown ≤ (b.height + unwind) % 2 ^ 32) ∧
    (farBehind unwind b = true ↔ (b.height + unwind) % 2 ^ 32 < b.lastKnown) ∧
    (b.lastKnown = 0 → keepsUndo unwind b = true) := by
  refine ⟨?_, ?_, ?_⟩
  · unfold keepsUndo U32; exact decide_eq_true_iff
  · unfold farBehind keepsUndo U32
    rw [Bool.not_eq_true', decide_eq_false_iff_not, Nat.not_le]
  · intro h0; simp [keepsUndo, h0]

/-- Central theorem over BLOCK-level histories: blocks connected in any sync states (each `connect` carries its own height
    and best-known-header height: at the tip, catching up, far behind), blocks disconnected, the index switched on / off /
    restarted through the cache in between. While the index is on, for every address GetAllUnspent is duplicate-free, is
    exactly the projection of the unspent set (outputs ≥ min whose script maps to the address's key, with the right
    txid / vout / value / height / coinbase flag), and the total is their sum. This is `balances_eq_projection_keyed` through
    `flat` (a block history IS a record history: `runB_eq_run`); it adds no proof content beyond it. -/
theorem balances_eq_projection_block_histories (H : Bytes → Nat) (h : List BEv)
    (hadm : AdmissibleRun H State.init (flat h)) (a : Addr) (hon : (runB H State.init h).on = true) :
    let s := runB H State.init h
    (getAllUnspent H s a).Nodup ∧
    (∀ x, x ∈ getAllUnspent H s a ↔ ∃ r o, aget (x.txid.take 8) s.utxo = some r ∧ outAt r.outs x.vout = some o ∧
        s.cfg.min ≤ o.value ∧ script2idx H o.script = some (a.idx, H a.payload) ∧
        x = { txid := r.txid, vout := x.vout, value := o.value, minedAt := r.inBlock, coinbase := r.coinbase }) ∧
    total H s a = sumValues (getAllUnspent H s a) % M64 :=
  getAll_spec a (inv_runB h State.init (inv_init H) hadm) hon

/-! ### non-vacuity -/

def exScr : Bytes := [0x00, 0x14] ++ List.replicate 20 1
def exOut0 : Out := { value := 10, script := exScr }
def exOut2 : Out := { value := 3, script := [0x51] }
def exRec : Rec := { txid := List.replicate 32 7, inBlock := 5, coinbase := false, outs := [some exOut0, none, some exOut2] }
def exAddr : Addr := { idx := 2, payload := List.replicate 20 1 }
def exH : Bytes → Nat := fun b => b.length

/-- a history satisfying the hypotheses: enable on the empty set, connect a record, spend one output,
    undo that, switch off and on again with another minimum -/
def exEvs : List Ev := [.enable 5 2, .add exRec, .del exRec.txid [true, false, false],
  .undoDel exRec.txid 3, .add exRec, .disable, .enable 4 0]

example : AdmissibleRun exH State.init exEvs := by
  refine ⟨trivial, ?_, trivial, trivial, ?_, trivial, trivial, trivial⟩ <;> (show aget _ _ = none) <;> decide +kernel
example : (run exH State.init exEvs).on = true := by decide +kernel
example : getAllUnspent exH (run exH State.init exEvs) exAddr =
    [{ txid := List.replicate 32 7, vout := 0, value := 10, minedAt := 5, coinbase := false }] := by decide +kernel
example : total exH (run exH State.init exEvs) exAddr = 10 := by decide +kernel
example : sumValues (getAllUnspent exH (run exH State.init exEvs) exAddr) < M64 := by decide +kernel
example : exAddr.idx < 5 ∧ exAddr.payload.length = (if exAddr.idx < 3 then 20 else 32) := by decide +kernel
example : script2idx exH exAddr.script = some (2, 20) := by decide +kernel
/-! any address value: the standard P2WPKH address resolves to (2, program); witness v2/32, v1/20, v16/20, v0/21 and
    a base58 address of the other network resolve to nothing even when their program equals a funded address's -/
example : addrKey true (.segwit 0 exAddr.payload) = some exAddr ∧ (QAddr.segwit 0 exAddr.payload).outScript = some exScr := by decide +kernel
example : addrKey true (.segwit 2 (List.replicate 32 1)) = none ∧ addrKey true (.segwit 1 exAddr.payload) = none ∧
    addrKey true (.segwit 16 exAddr.payload) = none ∧ addrKey true (.segwit 0 (List.replicate 21 1)) = none ∧
    addrKey true (.base58 0 exAddr.payload) = none ∧ addrKey false (.base58 0 exAddr.payload) = some ⟨0, exAddr.payload⟩ := by decide +kernel
example : getAllUnspentQ exH true (run exH State.init exEvs) (.segwit 0 exAddr.payload) =
    [{ txid := List.replicate 32 7, vout := 0, value := 10, minedAt := 5, coinbase := false }] ∧
    getAllUnspentQ exH true (run exH State.init exEvs) (.segwit 1 exAddr.payload) = [] := by decide +kernel
example : (QAddr.segwit 1 exAddr.payload).outScript = some ([0x51, 0x14] ++ exAddr.payload) ∧
    (QAddr.segwit 16 exAddr.payload).outScript = some ([0x60, 0x14] ++ exAddr.payload) ∧
    (QAddr.segwit 17 exAddr.payload).outScript = none ∧ (QAddr.base58 7 exAddr.payload).outScript = none := by decide +kernel
example : (QAddr.base58 111 exAddr.payload).WF := by show exAddr.payload.length = 20; decide +kernel
example : Inv exH State.init := inv_init exH
example : Rel { min := 0, useMapCnt := 0 } exH [] (fun _ => none) := rel_empty _ _
example : qual { min := 5, useMapCnt := 2 } exH exOut0 (2, 20) := by
  constructor <;> decide +kernel

/-! min = 0 with zero-valued outputs: the address holds a 0-value and a 10-value output; the block spends the
    10-value one; the total reaches 0 but the record and its zero-valued entry stay (list mode and map mode);
    spending the zero-valued one as well removes the record. -/
def zOut0 : Out := { value := 0, script := exScr }
def zRec : Rec := { txid := List.replicate 32 9, inBlock := 6, coinbase := false, outs := [some zOut0, some exOut0, some zOut0] }
def zEvs (um : Nat) : List Ev := [.enable 0 um, .add zRec, .del zRec.txid [false, true, false]]

example : AdmissibleRun exH State.init (zEvs 5000) := by
  refine ⟨trivial, ?_, trivial, trivial⟩; (show aget _ _ = none); decide +kernel
example : (run exH State.init (zEvs 5000)).cfg.min = 0 ∧ (run exH State.init (zEvs 5000)).on = true := by decide +kernel
example : getAllUnspent exH (run exH State.init (zEvs 5000)) exAddr =
    [{ txid := List.replicate 32 9, vout := 0, value := 0, minedAt := 6, coinbase := false },
     { txid := List.replicate 32 9, vout := 2, value := 0, minedAt := 6, coinbase := false }] := by decide +kernel
example : total exH (run exH State.init (zEvs 5000)) exAddr = 0 ∧
    (aget (exAddr.idx, exH exAddr.payload) (run exH State.init (zEvs 5000)).bal).isSome = true := by decide +kernel
example : (getAllUnspent exH (run exH State.init (zEvs 1)) exAddr).length = 2 ∧
    total exH (run exH State.init (zEvs 1)) exAddr = 0 := by decide +kernel
example : getAllUnspent exH (run exH State.init (zEvs 3 ++ [.del zRec.txid [true, false, false]])) exAddr =
    [{ txid := List.replicate 32 9, vout := 2, value := 0, minedAt := 6, coinbase := false }] := by decide +kernel
example : aget (exAddr.idx, exH exAddr.payload)
    (run exH State.init (zEvs 3 ++ [.del zRec.txid [true, false, true]])).bal = none := by decide +kernel
example : scriptForm exScr = some (2, List.replicate 20 1) := by decide +kernel
example : ∀ p, scriptForm exOut0.script = some (exAddr.idx, p) → exH p = exH exAddr.payload → p = exAddr.payload := by
  intro p h _
  have : scriptForm exOut0.script = some (2, List.replicate 20 1) := by decide +kernel
  rw [this] at h; cases h; rfl

/-! byte-level load: two stored records, the first with a live HIGH slot only (slot 2 of 3), the second with the same
    slot count and only slot 0 live: the static decoder must not show the first record's slot 2 in the second. -/
def bOutA : UOut := { value := 7, pk := exScr }
def bRec1 : URec := { txid := List.replicate 32 1, inBlock := 3, coinbase := false, outs := [none, none, some bOutA] }
def bRec2 : URec := { txid := List.replicate 32 2, inBlock := 4, coinbase := false, outs := [some bOutA, none, none] }
def bRaw1 : Bytes := (UtxoRec.serializeU bRec1).getD []
def bRaw2 : Bytes := (UtxoRec.serializeU bRec2).getD []
def bUtxo : State := run exH State.init [.add (toBal bRec1), .add (toBal bRec2)]

example : staticSeq entU [bRaw1, bRaw2] (Static.init 4) = some [bRec1, bRec2] := by decide +kernel
example : [bRec1, bRec2].map UtxoRec.serializeU = [bRaw1, bRaw2].map some := by decide +kernel
example : Static.Sized (Static.init 4) := static_init_sized 4
example : [bRec2, bRec1].map toBal = bUtxo.utxo.map Prod.snd := by decide +kernel
/-- a dirty buffer: slot 2 still points to a pool object (as left by bRec1) -/
example : (match staticDec entU bRaw2 ((Static.init 4).put 2 bOutA) with
    | .ok (r, _) => decide (r = bRec2)
    | _ => false) = true := by decide +kernel
example : Stored entU [bRaw2, bRaw1] bUtxo.utxo :=
  ⟨⟨bRec2, by decide +kernel, by decide +kernel⟩, ⟨bRec1, by decide +kernel, by decide +kernel⟩, trivial⟩
example : (loadFromUtxo entU exH (fun _ => false) bUtxo (Static.init 4) [bRaw2, bRaw1] 5 2).isSome = true := by decide +kernel
example : (loadFromUtxo entU exH (fun n => n == 1) bUtxo (Static.init 4) [bRaw2, bRaw1] 5 2).map (fun p => (p.1.on, p.1.bal)) =
    some (false, []) := by decide +kernel

/-! config change during the load: after the first of two records the config gets MinValue 8 (> the 7 of the second
    record's output) and Reset() runs: both records are still filtered with the minimum 5 applied before the scan -/
example : (loadFromUtxoR entU exH (fun _ => false) (fun n => if n = 1 then some 8 else none) bUtxo (Static.init 4) [bRaw2, bRaw1] 5 2).map
    (fun p => (p.1.on, p.1.cfg.min, p.1.bal.map (fun kb => kb.2.value))) = some (true, 5, [14]) := by decide +kernel

/-! `.undoAdd` — the only event whose admissibility condition is not trivial — in an admissible history with the index ON: the
    10-value output of `zRec` is spent by a block (`.del … [false, true, false]`), the block is disconnected and UndoBlockTxs puts
    the output back into the PARTIALLY SPENT stored record (`uRec1` carries only the restored slot; same slot count; the slot is nil
    in the stored record `zSpent`).  List mode (useMapCnt 5000) and map mode (useMapCnt 1): three outputs again, total 10. -/
def zSpent : Rec := { zRec with outs := [some zOut0, none, some zOut0] }
def uRec1 : Rec := { zRec with outs := [none, some exOut0, none] }
def uEvs (um : Nat) : List Ev := zEvs um ++ [.undoAdd uRec1]

theorem undoAdd_example_restores_only_spent_slots (j : Nat) (o : Out) (hj : outAt uRec1.outs j = some o) :
    outAt zSpent.outs j = none := by
  match j, hj with
  | 0, hj => simp [uRec1, outAt] at hj
  | 1, _ => rfl
  | 2, hj => simp [uRec1, outAt] at hj
  | (j + 3), hj => simp [uRec1, outAt] at hj

example : AdmissibleRun exH State.init (uEvs 5000) := by
  refine ⟨trivial, ?_, trivial, ?_, trivial⟩
  · show aget _ _ = none; decide +kernel
  · intro old h
    have hg : aget uRec1.key (step exH (step exH (step exH State.init (.enable 0 5000)) (.add zRec)) (.del zRec.txid [false, true, false])).utxo
        = some zSpent := by decide +kernel
    rw [hg] at h
    cases h
    exact ⟨by decide, undoAdd_example_restores_only_spent_slots⟩
example : AdmissibleRun exH State.init (uEvs 1) := by
  refine ⟨trivial, ?_, trivial, ?_, trivial⟩
  · show aget _ _ = none; decide +kernel
  · intro old h
    have hg : aget uRec1.key (step exH (step exH (step exH State.init (.enable 0 1)) (.add zRec)) (.del zRec.txid [false, true, false])).utxo
        = some zSpent := by decide +kernel
    rw [hg] at h
    cases h
    exact ⟨by decide, undoAdd_example_restores_only_spent_slots⟩
example : (getAllUnspent exH (run exH State.init (uEvs 5000)) exAddr).map (fun u => (u.vout, u.value)) = [(0, 0), (2, 0), (1, 10)] ∧
    total exH (run exH State.init (uEvs 5000)) exAddr = 10 ∧
    (aget (exAddr.idx, exH exAddr.payload) (run exH State.init (uEvs 5000)).bal).map (·.isMap) = some false := by decide +kernel
example : (getAllUnspent exH (run exH State.init (uEvs 1)) exAddr).length = 3 ∧ total exH (run exH State.init (uEvs 1)) exAddr = 10 ∧
    (aget (exAddr.idx, exH exAddr.payload) (run exH State.init (uEvs 1)).bal).map (·.isMap) = some true := by decide +kernel

/-! disk cache: a list-layout record and a record that comes back in the map layout -/
def dBal1 : Bal := { value := 150000, unsp := [(List.replicate 8 3, 1)], isMap := false }
def dBal2 : Bal := { value := 7, unsp := [(List.replicate 8 4, 0), (List.replicate 8 5, 70000)], isMap := true }
def dMap : List (Nat × Bal) := [(11, dBal1), (18446744073709551615, dBal2)]
example : loadMap 2 (some (saveMap dMap)) [] = [(18446744073709551615, some dBal2), (11, some dBal1)] := by decide +kernel
example : WFBal dBal1 := ⟨by decide, by decide, by intro i hi; simp [dBal1] at hi; subst hi; exact ⟨by decide, by decide⟩, by decide, by decide +kernel, by decide⟩
example : readVarInt (writeVarInt 18446744073709551615) = some (18446744073709551615, []) := by decide +kernel
/-- a file cut inside the LAST record is refused (before the fix: accepted with a nil pointer stored for that key, the index
    went on and Browse dereferenced it — harness key cache-corrupt-enables-wrong-index, file P2KH cut by one byte) -/
example : loadPairs 2 ((saveMap dMap).take ((saveMap dMap).length - 1)) = none := by decide +kernel
/-- a file cut inside a record that is not the last: the next key read fails -/
example : loadPairs 2 ((saveMap dMap).take 12) = none := by decide +kernel
/-- all-or-nothing over the files: one cut file among good ones refuses the load; the good ones alone load -/
example : GocoinV.Model.BalancesDisk.loadAll 2 [some (saveMap dMap), some ((saveMap dMap).take 30), some (saveMap [])] = none ∧
    GocoinV.Model.BalancesDisk.loadAll 2 [some (saveMap dMap), none] = none ∧
    (GocoinV.Model.BalancesDisk.loadAll 2 [some (saveMap dMap), some (saveMap [])]).isSome = true := by decide +kernel

/-! restart through the cache inside a history: three outputs to one address with UseMapCnt 2 (map layout), one spent (a map
    of two), restart with UseMapCnt 5 and the map iterated in DESCENDING order: the record is a list [vout 2, vout 0];
    then vout 0 is spent: found and removed, the record is [vout 2] with the right total -/
def rKey : Key := zRec.key
def rEvs : List Ev := zEvs 2 ++ [.reload 5 [((2, 20), [(rKey, 2), (rKey, 0)])]]
example : AdmissibleRun exH State.init (rEvs ++ [.del zRec.txid [true, false, false]]) := by
  refine ⟨trivial, ?_, trivial, trivial, trivial, trivial⟩; (show aget _ _ = none); decide +kernel
example : aget (2, 20) (run exH State.init (zEvs 2)).bal = some { value := 0, unsp := [(rKey, 0), (rKey, 2)], isMap := true } := by
  decide +kernel
example : aget (2, 20) (run exH State.init rEvs).bal = some { value := 0, unsp := [(rKey, 2), (rKey, 0)], isMap := false } ∧
    (run exH State.init rEvs).cfg.useMapCnt = 5 ∧ (run exH State.init rEvs).on = true := by decide +kernel
example : aget (2, 20) (run exH State.init (rEvs ++ [.del zRec.txid [true, false, false]])).bal =
    some { value := 0, unsp := [(rKey, 2)], isMap := false } := by decide +kernel
example : (getAllUnspent exH (run exH State.init (rEvs ++ [.del zRec.txid [true, false, false]])) exAddr).map (fun u => u.vout) = [2] := by
  decide +kernel
example : relayout 5 [(rKey, 2), (rKey, 0)] { value := 0, unsp := [(rKey, 0), (rKey, 2)], isMap := true } =
    { value := 0, unsp := [(rKey, 2), (rKey, 0)], isMap := false } :=
  shrunk_map_reloads_as_list_in_any_order 5 _ _ rfl (by decide +kernel) (by decide)
example : Inv exH (run exH State.init (zEvs 2)) := inv_all_histories exH (zEvs 2) (by
  refine ⟨trivial, ?_, trivial, trivial⟩; (show aget _ _ = none); decide +kernel)

/-! block layer: the index is ON (switched on at block 5 / restored at start-up); block 6 arrives while the best known
    header is 2561 blocks ahead (unwind buffer 2560: far behind, no undo data), pays `exAddr` 10 and 3 to OP_TRUE; block 7
    (still far behind) spends the 10: the index is told both times. The same two blocks at the tip give the same state. -/
def syncB1 : BlockCh := { height := 6, lastKnown := 6 + 2560 + 1, work := [.add exRec] }
def syncB2 : BlockCh := { height := 7, lastKnown := 6 + 2560 + 1, work := [.del exRec.txid [true, false, false]] }
def syncHist : List BEv := [.ctl (.enable 5 2), .connect syncB1]
example : farBehind 2560 syncB1 = true ∧ keepsUndo 2560 (syncB1.inState 6 (6 + 2560)) = true ∧ farBehind 2560 syncB2 = false ∧
    keepsUndo 2560 (syncB1.inState 6 0) = true := by decide +kernel
example : AdmissibleRun exH State.init (flat syncHist) := by
  refine ⟨trivial, ?_, trivial⟩; (show aget _ _ = none); decide +kernel
example : (runB exH State.init syncHist).on = true := by decide +kernel
example : getAllUnspent exH (runB exH State.init syncHist) exAddr =
    [{ txid := List.replicate 32 7, vout := 0, value := 10, minedAt := 5, coinbase := false }] ∧
    total exH (runB exH State.init syncHist) exAddr = 10 := by decide +kernel
example : getAllUnspent exH (runB exH State.init (syncHist ++ [.connect syncB2])) exAddr = [] ∧
    aget (exAddr.idx, exH exAddr.payload) (runB exH State.init (syncHist ++ [.connect syncB2])).bal = none := by decide +kernel
example : runB exH State.init [.ctl (.enable 5 2), .connect (syncB1.inState 6 6)] = runB exH State.init syncHist := rfl

/-! JOINT instance of the central theorem `balances_eq_projection_hash_inj`: ALL its hypotheses at once, on one history, with a
    hash that is not constant on the payloads in play (`jH` = byte sum: 20 for `exAddr`'s payload, 40 for the other P2WPKH
    payload) — two P2WPKH addresses, a P2SH script carrying exAddr's 20 bytes (other address type: no clash), an unrecognised
    script, a coinbase record; connect, spend two outputs, disconnect (undoDel + re-add), spend one again, switch the index off
    and on with another minimum. `hHinj` is discharged output by output of the final unspent set. -/
def jH : Bytes → Nat := fun b => b.foldl (fun a x => a + x.toNat) 0
def jScrB : Bytes := [0x00, 0x14] ++ List.replicate 20 2
def jScrSH : Bytes := [0xa9, 0x14] ++ List.replicate 20 1 ++ [0x87]
def jOutB : Out := { value := 20, script := jScrB }
def jOutSH : Out := { value := 7, script := jScrSH }
def jOut4 : Out := { value := 6, script := exScr }
def jRec : Rec := { txid := List.replicate 32 8, inBlock := 6, coinbase := true, outs := [some exOut0, some jOutB, some jOutSH, some exOut2, some jOut4] }
def jRecEnd : Rec := { txid := List.replicate 32 8, inBlock := 6, coinbase := true, outs := [some exOut0, some jOutB, some jOutSH, none, some jOut4] }
def jEvs : List Ev := [.enable 5 2, .add jRec, .del jRec.txid [false, false, false, true, true],
  .undoDel jRec.txid 5, .add jRec, .del jRec.txid [false, false, false, true, false], .disable, .enable 4 0]

example :
    let s := run jH State.init jEvs
    (getAllUnspent jH s exAddr).Nodup ∧
    (∀ x, x ∈ getAllUnspent jH s exAddr ↔ Pays s.cfg.min s.utxo exAddr x) ∧
    total jH s exAddr = sumValues (getAllUnspent jH s exAddr) := by
  apply balances_eq_projection_hash_inj jH jEvs
  · refine ⟨trivial, ?_, trivial, trivial, ?_, trivial, trivial, trivial, trivial⟩ <;> (show aget _ _ = none) <;> decide +kernel
  · decide +kernel
  · decide +kernel
  · decide +kernel
  · intro k r j o p hr ho hf hH
    have jEvs_utxo : (run jH State.init jEvs).utxo = [(jRec.key, jRecEnd)] := by decide +kernel
    rw [jEvs_utxo] at hr
    simp only [aget] at hr
    split at hr
    · cases hr
      match j, ho with
      | 0, ho => cases ho; have : scriptForm exOut0.script = some (2, List.replicate 20 1) := by decide +kernel
                 rw [this] at hf; cases hf; rfl
      | 1, ho => cases ho
                 have : scriptForm jOutB.script = some (2, List.replicate 20 2) := by decide +kernel
                 rw [this] at hf; cases hf
                 exact absurd hH (by decide +kernel)
      | 2, ho => cases ho
                 have : scriptForm jOutSH.script = some (1, List.replicate 20 1) := by decide +kernel
                 rw [this] at hf; cases hf
      | 3, ho => cases ho
      | 4, ho => cases ho; have : scriptForm jOut4.script = some (2, List.replicate 20 1) := by decide +kernel
                 rw [this] at hf; cases hf; rfl
      | (j + 5), ho => simp [outAt, jRecEnd] at ho
    · cases hr
  · decide +kernel

example : (getAllUnspent jH (run jH State.init jEvs) exAddr).map (fun u => (u.vout, u.value)) = [(0, 10), (4, 6)] ∧
    total jH (run jH State.init jEvs) exAddr = 16 ∧ jH exAddr.payload = 20 ∧ jH (List.replicate 20 2) = 40 := by decide +kernel
end GocoinV.Props.C17
