/-
  Props.C04 — property theorems for C04 "No connected block creates money or spends what is not spendable".
  Model: GocoinV.Connect (lib/chain commitTxs + CheckTransaction + sigop counters + UnspentGet/del/commit at record
  level, `Cfg.current` = /repo now, `Cfg.orig` = the pinned snapshot before the two fix: commits).
  Spec:  GocoinV.Spec.Connect.connectBlock (sequential ConnectBlock over OutPoint ⇀ Coin).
-/
import GocoinV.Proofs.C04Basic
import GocoinV.Proofs.C04Witness
import GocoinV.Proofs.C04Sums
import GocoinV.Proofs.C04NoDouble
import GocoinV.Proofs.C04Checks
import GocoinV.Proofs.C04Final
import GocoinV.Proofs.C04Cost
import GocoinV.Proofs.C04Wf
import GocoinV.Proofs.C04Equiv
import GocoinV.Proofs.C04Config
import GocoinV.Proofs.C04Round4
namespace GocoinV.Props.C04
open GocoinV GocoinV.Connect GocoinV.Proofs.C04
open GocoinV.Spec.Connect (connectBlock connectTxs addOuts absList absGet isOk failsWith subsidy seqLockOk Coin)

/-- The block reward of the code is the subsidy schedule: 50 BTC divided by 2^(height / 210000) (integer division),
    and it is 0 from the 64th halving on (where a C `>>` would be undefined and Go's gives 0). -/
theorem subsidy_halving (h : Nat) :
    getBlockReward h = 5000000000 / 2 ^ (h / 210000)
    ∧ (64 ≤ h / 210000 → getBlockReward h = 0)
    ∧ getBlockReward h = subsidy h :=
  ⟨reward_eq_div h, reward_zero_of_ge h, reward_eq_subsidy h⟩

/-- When the block is refused (any error of CheckTransactions / commitTxs), the observable chain state — unspent
    set, tip and block index — is exactly what it was before `AcceptBlock` (the node linked by AcceptHeader is
    unlinked again). `b.hash ∉ c.index` is what PreCheckBlock's "already in" test guarantees.
    `acceptBlock Cfg.current` is the function the oracle executes for every candidate block (Oracle/C04.lean, op `block`;
    its state IS a `Chain`), and the harness compares the model's tip and index size with the real chain's after every
    block (accepted or refused) and the model's set with the real set after accepted ones; it never submits a hash that
    is already in the real index, so `hnew` holds for every request. Independently of the model the harness checks the
    clause on the real code: tip, index size and full UTXO dump before = after for every refused block. -/
theorem refuse_unchanged (cfg : Cfg) (c : Chain) (b : Block) (e : Err) (c' : Chain)
    (hnew : b.hash ∉ c.index) (h : acceptBlock cfg c b = (c', .error e)) :
    c'.db = c.db ∧ c'.tip = c.tip ∧ c'.index = c.index := by
  unfold acceptBlock at h
  cases hc : connect cfg c.db b with
  | ok r => simp [hc] at h
  | error e' =>
    simp only [hc, hnew, ↓reduceIte, Prod.mk.injEq] at h
    obtain ⟨h1, _⟩ := h
    subst h1
    refine ⟨rfl, rfl, ?_⟩
    show List.filter (fun x => decide (x ≠ b.hash)) (b.hash :: c.index) = c.index
    rw [List.filter_cons_of_neg (by simp)]
    exact List.filter_eq_self.mpr (fun a ha => by
      simp only [ne_eq, decide_not, Bool.not_eq_eq_eq_not, Bool.not_true, decide_eq_false_iff_not]
      intro hc; exact hnew (hc ▸ ha))

example : ∃ c b c', b.hash ∉ c.index ∧ (acceptBlock Cfg.current c b).1 = c' ∧ failsWith (acceptBlock Cfg.current c b).2 Err.unknownInput = true :=
  ⟨⟨W.db0, W.idOf 0xb0, [W.idOf 0xb0]⟩, W.blockPrefix, _, by decide, rfl, by decide⟩

/-- and an accepted block makes its hash the tip and keeps it in the index -/
theorem accept_advances (cfg : Cfg) (c : Chain) (b : Block) (so : Nat) (c' : Chain)
    (h : acceptBlock cfg c b = (c', .ok so)) : c'.tip = b.hash ∧ b.hash ∈ c'.index := by
  unfold acceptBlock at h
  cases hc : connect cfg c.db b with
  | error e' => simp [hc] at h
  | ok r =>
    simp only [hc, Prod.mk.injEq] at h
    obtain ⟨h1, _⟩ := h
    subst h1
    by_cases hm : b.hash ∈ c.index <;> simp [hm]

/-! ### context-free checks agree with the specification -/

/-- `Tx.IsFinal` is Bitcoin's IsFinalTx (same verdict for every transaction, height and time cut-off). -/
theorem final_iff_spec (tx : Tx) (height cutoff : Nat) :
    isFinal tx height cutoff = GocoinV.Spec.Connect.isFinalTx tx height cutoff :=
  isFinal_eq tx height cutoff

/-- The output loop added to `CheckTransaction` accepts only what the specification's MoneyRange test accepts:
    every value and every running total within [0, MAX_MONEY]. -/
theorem amounts_in_range (outs : List TxOut) (h : checkOutValues outs 0 = .ok ()) :
    GocoinV.Spec.Connect.outsInRange outs 0 = true :=
  checkOut_spec outs 0 (by decide) h

example : checkOutValues [⟨2100000000000000, []⟩] 0 = .ok () := rfl

/-! ### no outpoint is spent twice inside one block -/

/-- If commitTxs succeeds on a block whose transactions have pairwise different txids (identical transactions would
    spend identical inputs), then the outpoints named by the inputs of its non-coinbase transactions are pairwise
    different: nothing is spent twice inside the block, whether the coin is a confirmed one (mark in DeledTxs) or was
    created earlier in the same block (nil slot in blUnsp).  Holds for the pinned snapshot as well: F3a is the
    spending of one COIN under two different NAMES, which this statement does not exclude — see
    `connect_sound_counterexample_prefix8`. -/
theorem no_double_spend_in_block (cfg : Cfg) (db : DB) (b : Block) (s : St)
    (hids : (b.txs.map (·.txid)).Nodup) (h : commitTxs cfg db b = .ok s) :
    (spentOps b.txs.tail).Nodup :=
  commitTxs_nodup cfg db b s hids h

example : (W.blockSeqLock.txs.map (·.txid)).Nodup ∧ isOk (commitTxs Cfg.current W.db0 W.blockSeqLock) = true := by
  refine ⟨by decide, by decide⟩

/-! ### under MoneyRange no uint64 sum wraps (the code after commit e713bf9d) -/

/-- CheckTransaction's output loop: when it passes, the uint64 output total that commitTxs computes (`sumOuts`) is the
    exact sum of the values and lies within MAX_MONEY. -/
theorem sums_no_wrap_outputs (outs : List TxOut) (h : checkOutValues outs 0 = .ok ()) :
    sumOuts outs = exactOut outs ∧ exactOut outs ≤ MAX_MONEY := by
  have := checkOutValues_exact outs 0 (by decide) h
  simp only [Nat.zero_add] at this
  exact ⟨this.2, this.1⟩

example : checkOutValues [⟨5, []⟩, ⟨7, []⟩] 0 = .ok () := rfl

/-- One pass of the input loop: the running input total grows by exactly the value of the coin that was resolved
    (no reduction mod 2^64) and stays within MAX_MONEY. -/
theorem sums_no_wrap_inputs (db : DB) (b : Block) (inp : TxIn) (s s' : St) (a a' : Nat) (ha : a ≤ MAX_MONEY)
    (h : procInput Cfg.current db b inp s a = .ok (s', a')) :
    ∃ s1 v pk, resolve Cfg.current db b inp s = .ok (s1, v, pk) ∧ a' = a + v ∧ a' ≤ MAX_MONEY :=
  procInput_sum db b inp s s' a a' ha h

/-- Whole block: when commitTxs succeeds, `sumblockin` is the block reward, the accumulated fees are within
    MAX_MONEY, reward + fees is computed without wrap-around, and the coinbase claims at most reward + fees — in
    exact arithmetic. -/
theorem sums_no_wrap (db : DB) (b : Block) (s : St) (h : commitTxs Cfg.current db b = .ok s) :
    s.sumIn = getBlockReward b.height ∧ s.fees ≤ MAX_MONEY ∧ s.sumIn + s.fees < 2 ^ 64
    ∧ s.sumOut ≤ getBlockReward b.height + s.fees :=
  commitTxs_sums db b s h

example : isOk (commitTxs Cfg.current W.db0 W.blockSeqLock) = true := by decide

/-- The pinned snapshot had no such property: the witness of F3b makes its `sumblockout` wrap. -/
theorem sums_wrap_orig_counterexample :
    ∃ s, commitTxs Cfg.orig W.db0 W.blockWrap = .ok s ∧ s.sumOut = 5000001000 := by
  refine ⟨_, rfl, ?_⟩
  decide

/-! ### `connect_sound`: the refinement, and why each exclusion is there

  connect_sound (the central statement):
     connect cfg db b = .ok (db', _)  →  connectBlock (abs db) b = .ok u' ∧ ∀ op, get u' op = absGet db' op
  It is proved below for `Cfg.current` under named hypotheses.  Without them it is FALSE of the code: the four
  `…_counterexample_…` theorems after it exhibit a set and a block that the model of the code connects while the
  specification refuses the block.  The first two are about `Cfg.orig` (the pinned snapshot); the corresponding
  `fix:` commits are in /repo and the same witnesses are refused by `Cfg.current`.  The last two hold for the
  current code, are recorded as known findings, and are exactly what `hseq` / `hret` exclude. -/

/-- **connect_sound** (central theorem). If the current code's block connection (`CheckBlock`'s transaction part +
    `commitTxs` + `UnspentDB.commit`, as modelled by `connect Cfg.current`) accepts a block on top of the record map
    `db`, then Bitcoin's sequential `connectBlock` accepts the same block on the abstract coin map of `db`, and the
    coin map it returns is, outpoint for outpoint, the abstraction of the new record map `db'`: every input named
    a coin that existed and was unspent at that point of the block, coinbase coins were 100 deep, every script
    verdict was true, all amounts in range, inputs cover outputs, coinbase ≤ subsidy + fees, consensus sigop cost
    ≤ 80000, and the resulting set is the right one.
    The sigop part is spelled out in the conclusion: the `SigopsCost` `so` that the code reports for the block EQUALS
    the consensus cost, written as its three summands — 4 × the signature operations in the coinbase transaction's
    INPUT script (`cbScriptSigOps cb`: Bitcoin's GetLegacySigOpCount reads the scriptSig of every input of every
    transaction, the coinbase's ≤ 100 "miner data" bytes included), 4 × those in the coinbase's output scripts, and
    the cost `r.sigops` that the sequential specification accumulates over the remaining transactions (scriptSigs,
    output scripts, P2SH redeem scripts, witness programs) when started from 0 — and that total is ≤ 80000.
    `coinbase_scriptsig_sigops_counted` below shows the first summand deciding a block.
    Hypotheses, each named:
      * `hwf`      representation invariant of UnspentDB.HashMap: records filed under the key of their txid, keys unique;
      * `hinj`     **hash-prefix injectivity inside the block**: the 8-byte keys of the block's txids are pairwise
                   different (otherwise `do_add` overwrites one new record by another — see
                   `connect_sound_needs_prefix_injectivity`);
      * `hbip30`   **hash-prefix injectivity block vs set** (this includes BIP30): no record of the set lives under the
                   8-byte key of a txid of the block;
      * `hseq`     exclusion of known finding F3c (BIP68 is not evaluated by the code), stated exactly: with CSV active,
                   every input of a version ≥ 2 transaction satisfies its relative lock against the coin it spends —
                   the confirmed coin of that outpoint, or a coin created in this very block (inputs with the
                   disable bit satisfy it outright: `seqlock_disabled_ok`);
      * `hret`     exclusion of known finding F3d, stated exactly: on every script a sigop counter reads, `GetSigOpCount`
                   (which stops at OP_RETURN) equals the consensus count; scripts without OP_RETURN, and the usual
                   `OP_RETURN <pushes>` carriers, satisfy it (`opreturn_free_counts_agree`);
      * `hheights`, `hb` chain invariant: no record is higher than the block, heights fit uint32 (maturity uses uint32 subtraction);
      * `hmtp`     the chain context `mtpOf` gives the block's own median-time-past for its height;
      * `hsize`, `hbytes` size facts that CheckBlock's weight limit (property C05) provides: `NoWitSize*4` does not wrap
                   uint32, and the scripts of the block have at most 4,000,000 bytes (so the uint32 sigop accumulator
                   cannot wrap). -/
theorem connect_sound (db : DB) (b : Block) (db' : DB) (so : Nat) (mtpOf : Nat → Nat)
    (hwf : WF db)
    (hinj : ((b.txs.map (·.txid)).map key8).Nodup)
    (hbip30 : ∀ tx ∈ b.txs, ∀ kr ∈ db, key8 kr.2.txid ≠ key8 tx.txid)
    (hseq : b.csv = true → ∀ tx ∈ b.txs, 2 ≤ tx.version → ∀ i ∈ tx.ins, ∀ c : Coin,
        (absGet mtpOf db i.prev = some c ∨ (absGet mtpOf db i.prev = none ∧ c.height = b.height ∧ c.mtpPrev = b.mtp)) → seqLockOk b.height b.mtp i c = true)
    (hret : ∀ tx ∈ b.txs, txCountsAgree tx = true)
    (hheights : ∀ kr ∈ db, kr.2.height ≤ b.height) (hb : b.height < 2 ^ 32)
    (hmtp : mtpOf b.height = b.mtp)
    (hsize : ∀ tx ∈ b.txs, tx.noWitSize * 4 < 2 ^ 32)
    (hbytes : blockScriptBytes b ≤ 4000000)
    (h : connect Cfg.current db b = .ok (db', so)) :
    ∃ u', connectBlock (absList mtpOf db) b = .ok u' ∧ (∀ op, aGet u' op = absGet mtpOf db' op)
      ∧ ∃ cb rest r, b.txs = cb :: rest
          ∧ connectTxs b rest ⟨addOuts (absList mtpOf db) cb.txid b true cb.outs 0, 0, 0⟩ = .ok r
          ∧ so = 4 * cbScriptSigOps cb + 4 * cbOutputSigOps cb + r.sigops
          ∧ so ≤ 80000 := by
  have hfree : ∀ tx ∈ b.txs, aGet db (key8 tx.txid) = none := by
    intro tx htx
    apply (aGet_none_iff db _).mpr
    intro hk
    obtain ⟨kr, hkr, e⟩ := List.mem_map.mp hk
    exact hbip30 tx htx kr hkr (by rw [← hwf.filed kr hkr, e])
  have hh : ∀ k r, aGet db k = some r → r.height ≤ b.height :=
    fun k r hg => hheights (k, r) (aGet_mem db k r hg)
  refine connect_sound_core_split mtpOf db b db' so hwf hinj hfree hseq hret hh hb hmtp hsize ?_ h
  intro cb rest a ht ha
  have h1 := connectTxs_sigops b rest _ a ha
  have h2 := legacy_le cb
  have h3 : blockScriptBytes b = txScriptBytes cb + (rest.map txScriptBytes).sum := by
    unfold blockScriptBytes; rw [ht]; simp
  simp only [] at h1
  omega

/-- non-vacuity: a state and a block with a version-2 transaction whose relative height lock (1 block) IS satisfied
    meet every hypothesis of `connect_sound`, and the code connects the block -/
example : ∃ (db : DB) (b : Block) (mtpOf : Nat → Nat), WF db ∧ ((b.txs.map (·.txid)).map key8).Nodup
    ∧ (∀ tx ∈ b.txs, ∀ kr ∈ db, key8 kr.2.txid ≠ key8 tx.txid)
    ∧ (b.csv = true → ∀ tx ∈ b.txs, 2 ≤ tx.version → ∀ i ∈ tx.ins, ∀ c : Coin,
        (absGet mtpOf db i.prev = some c ∨ (absGet mtpOf db i.prev = none ∧ c.height = b.height ∧ c.mtpPrev = b.mtp)) → seqLockOk b.height b.mtp i c = true)
    ∧ (∀ tx ∈ b.txs, txCountsAgree tx = true) ∧ (∀ kr ∈ db, kr.2.height ≤ b.height) ∧ b.height < 2 ^ 32
    ∧ mtpOf b.height = b.mtp ∧ (∀ tx ∈ b.txs, tx.noWitSize * 4 < 2 ^ 32) ∧ blockScriptBytes b ≤ 4000000
    ∧ isOk (connect Cfg.current db b) = true := by
  refine ⟨W.db0, W.blockLockOk, fun _ => 1990000, ⟨by decide, by decide⟩, by decide, by decide, ?_, by decide, by decide,
    by decide, rfl, by decide, by decide, by decide⟩
  intro _ tx htx hv i hi c hc
  simp only [W.blockLockOk, W.blk, List.mem_cons, List.not_mem_nil, or_false] at htx
  rcases htx with e | e
  · subst e; simp [W.cbTx] at hv
  · subst e
    simp only [W.spend, List.mem_cons, List.not_mem_nil, or_false] at hi
    subst hi
    have h0 : absGet (fun _ => 1990000) W.db0 ⟨W.h1, 0⟩ = some ⟨1000, [0x51], 150, false, 1990000⟩ := by decide
    rcases hc with hc | hc
    · have : c = ⟨1000, [0x51], 150, false, 1990000⟩ := by
        simp only [W.spend] at hc
        rw [h0] at hc
        exact (Option.some.inj hc).symm
      subst this
      decide
    · have := hc.1
      simp only [W.spend] at this
      rw [h0] at this
      cases this

/-- The coinbase INPUT script is part of the count, on both sides. `W.blockCbSigFull` has cost 79920 in a coinbase output
    and 80 (one OP_CHECKMULTISIG = 20 sigops) in the coinbase scriptSig: the specification connects it, the code connects it
    and reports SigopsCost = 80000. `W.blockCbSigOver` has one OP_CHECKSIG more in the coinbase scriptSig and nothing else
    changed (80004): code and specification both refuse it for its sigops. A counter that skipped the coinbase input
    script would report 79920 for both blocks and connect the second. -/
theorem coinbase_scriptsig_sigops_counted :
    (connect Cfg.current W.db0 W.blockCbSigFull).toOption.map (·.2) = some 80000
    ∧ isOk (connectBlock (absList W.mtp0 W.db0) W.blockCbSigFull) = true
    ∧ cbScriptSigOps (W.cbSig [1, 200, 0xae]) = 20 ∧ cbOutputSigOps (W.cbSig [1, 200, 0xae]) = 19980
    ∧ failsWith (connect Cfg.current W.db0 W.blockCbSigOver) Err.sigops = true
    ∧ failsWith (connectBlock (absList W.mtp0 W.db0) W.blockCbSigOver) .sigops = true := by
  refine ⟨by decide +kernel, by decide +kernel, by decide +kernel, by decide +kernel, by decide +kernel, by decide +kernel⟩

/-- An input whose sequence number has the BIP68 disable bit (bit 31) set satisfies `hseq` for every coin. -/
theorem seqlock_disabled_ok (height mtp : Nat) (inp : TxIn) (c : Coin) (h : inp.sequence / 2 ^ 31 % 2 = 1) :
    seqLockOk height mtp inp c = true := by
  unfold seqLockOk
  simp [Spec.Connect.SEQ_DISABLE, h]

example : (0xffffffff : Nat) / 2 ^ 31 % 2 = 1 := by decide

/-- A script in which the tokeniser meets no OP_RETURN satisfies `hret`'s condition: gocoin's counter and the consensus
    counter agree on it (in both accuracy modes). -/
theorem opreturn_free_counts_agree (scr : Bytes) (h : opReturnFree scr = true) : countsAgree scr = true :=
  countsAgree_of_opReturnFree scr h

example : opReturnFree [0x76, 0xa9, 0xac] = true ∧ countsAgree [0x6a, 0x02, 0xac, 0xac] = true
    ∧ countsAgree [0x6a, 0xac] = false := by decide

/-- `hwf` and `hheights` of `connect_sound` are invariants of the reachable states, not assumptions about them: the empty
    map satisfies them, and whenever the code connects a block on a map that satisfies them (for the block's height),
    the new map satisfies them again — so they hold for the next block at any height ≥ this one. -/
theorem connect_keeps_invariants (db : DB) (b : Block) (db' : DB) (so : Nat)
    (hwf : WF db) (hheights : ∀ kr ∈ db, kr.2.height ≤ b.height)
    (h : connect Cfg.current db b = .ok (db', so)) :
    (WF ([] : DB) ∧ ∀ kr ∈ ([] : DB), kr.2.height ≤ 0) ∧ WF db' ∧ ∀ kr ∈ db', kr.2.height ≤ b.height := by
  refine ⟨⟨⟨by simp, by simp [keys]⟩, by simp⟩, ?_⟩
  unfold connect at h
  cases hc : checkBlockTxs Cfg.current b with
  | error e => simp [hc, bind, Except.bind] at h
  | ok _ =>
    cases hs : commitTxs Cfg.current db b with
    | error e => simp [hc, hs, bind, Except.bind] at h
    | ok s =>
      simp only [hc, hs, bind, Except.bind, pure, Except.pure, Except.ok.injEq, Prod.mk.injEq] at h
      rw [← h.1]
      exact Good_applyChanges db b s ⟨hwf, hheights⟩

example : WF W.db0 ∧ (∀ kr ∈ W.db0, kr.2.height ≤ W.blockOk.height) ∧ isOk (connect Cfg.current W.db0 W.blockOk) = true :=
  ⟨⟨by decide, by decide⟩, by decide, by decide⟩

/-- Why `hinj` is there (an assumption, not a finding: the witness needs two txids with equal first 8 bytes, i.e. a
    2^32-work birthday collision on SHA-256d, which the check cannot and does not construct): on a model state with
    CHOSEN txids `W.idA`, `W.idB` sharing 8 bytes, the code connects the block and so does the specification, but
    `do_add` files B's record over A's, and the still-unspent coin (A,1) is gone from the new set. -/
theorem connect_sound_needs_prefix_injectivity :
    ∃ db' so u', connect Cfg.current W.db0 W.blockClash = .ok (db', so)
      ∧ connectBlock (absList W.mtp0 W.db0) W.blockClash = .ok u'
      ∧ (aGet u' ⟨W.idA, 1⟩).isSome = true ∧ absGet W.mtp0 db' ⟨W.idA, 1⟩ = none := by
  refine ⟨_, _, _, rfl, rfl, by decide, by decide⟩

/-- Facts about an accepted block that need none of `connect_sound`'s hypotheses except distinct txids: when the current code connects a block whose txids differ, then commitTxs
    succeeded with locals `s`, the new set is `applyChanges` of those locals, no outpoint is named twice by the
    block's inputs, the coinbase claims at most subsidy(height) + fees in exact arithmetic with fees ≤ MAX_MONEY,
    and the (gocoin-counted) sigop cost is at most 80000.
    (The full refinement is `connect_sound` above.) -/
theorem connect_sound_partial (db : DB) (b : Block) (db' : DB) (so : Nat)
    (hids : (b.txs.map (·.txid)).Nodup) (h : connect Cfg.current db b = .ok (db', so)) :
    ∃ s, commitTxs Cfg.current db b = .ok s ∧ db' = applyChanges Cfg.current db b s ∧ so = s.sigops
      ∧ (spentOps b.txs.tail).Nodup
      ∧ s.sumOut ≤ subsidy b.height + s.fees ∧ s.fees ≤ MAX_MONEY
      ∧ so ≤ MAX_BLOCK_SIGOPS_COST := by
  unfold connect at h
  cases hc : checkBlockTxs Cfg.current b with
  | error e => simp [hc, bind, Except.bind] at h
  | ok _ =>
    cases hs : commitTxs Cfg.current db b with
    | error e => simp [hc, hs, bind, Except.bind] at h
    | ok s =>
      simp only [hc, hs, bind, Except.bind, pure, Except.pure, Except.ok.injEq, Prod.mk.injEq] at h
      obtain ⟨h1, h2⟩ := h
      obtain ⟨_, f2, _, f4⟩ := commitTxs_sums db b s hs
      refine ⟨s, rfl, h1.symm, h2.symm, commitTxs_nodup _ db b s hids hs, ?_, f2, ?_⟩
      · rw [← reward_eq_subsidy]; exact f4
      · rw [← h2]; exact commitTxs_sigops _ db b s hs

example : (W.blockSeqLock.txs.map (·.txid)).Nodup ∧ isOk (connect Cfg.current W.db0 W.blockSeqLock) = true := by
  refine ⟨by decide, by decide⟩

/-- F3a (fixed by bd8dba45): with the 8-byte key comparison the coin (h1,0) is spent twice in one block, the second
    time under the name (h2,0) of a transaction that does not exist; the specification says "missing input". -/
theorem connect_sound_counterexample_prefix8 :
    isOk (connect Cfg.orig W.db0 W.blockPrefix) = true
    ∧ failsWith (connectBlock (absList W.mtp0 W.db0) W.blockPrefix) .missingInput = true
    ∧ failsWith (connect Cfg.current W.db0 W.blockPrefix) Err.unknownInput = true := by
  refine ⟨by decide, by decide, by decide⟩

/-- F3b (fixed by e713bf9d): 1000 satoshi in, outputs 2^63 and 2^63+1000; the uint64 sum wraps to 1000 and the block
    is connected; the specification refuses the out-of-range amounts. -/
theorem connect_sound_counterexample_wrap :
    isOk (connect Cfg.orig W.db0 W.blockWrap) = true
    ∧ failsWith (connectBlock (absList W.mtp0 W.db0) W.blockWrap) .voutRange = true
    ∧ failsWith (connect Cfg.current W.db0 W.blockWrap) Err.voutTooLarge = true := by
  refine ⟨by decide, by decide, by decide⟩

/-- F3c (known finding bip68-not-enforced): a version-2 transaction with an unsatisfied relative height lock is
    connected by the current code with CSV active. -/
theorem connect_sound_counterexample_bip68 :
    isOk (connect Cfg.current W.db0 W.blockSeqLock) = true
    ∧ failsWith (connectBlock (absList W.mtp0 W.db0) W.blockSeqLock) .seqLock = true := by
  refine ⟨by decide, by decide⟩

/-- F3d (known finding sigops-after-op-return): 1001 OP_CHECKMULTISIG behind an OP_RETURN cost 80080 > 80000 by the
    consensus definition and 0 by `GetSigOpCount`; the current code connects the block. -/
theorem connect_sound_counterexample_opreturn :
    isOk (connect Cfg.current W.db0 W.blockSigops) = true
    ∧ failsWith (connectBlock (absList W.mtp0 W.db0) W.blockSigops) .sigops = true := by
  refine ⟨by decide +kernel, by decide +kernel⟩

/-! ### the three Lean models of CheckTransaction / IsFinal / commitTxs say the same thing

  Property C05 (Model/BlockCheck.lean) and property C06 (Model/UtxoOps.lean) carry their own models of parts of what
  `Model/Connect.lean` models here. The lemmas of Proofs/C04Equiv.lean relate them. -/

/-- C05's `checkTransaction`, `isFinal` and `checkOneTx` (Model/BlockCheck.lean, whose constants MAX_MONEY, 4,000,000, 2, 100,
    500,000,000 are regenerated from /repo's source by gen_c05 on every run) ARE this property's `checkTransaction
    Cfg.current` / `isFinal` on the projected transaction `toBC tx`: same verdict, same error, for every transaction. -/
theorem c05_tx_checks_are_these (tx : Tx) (height time : Nat) :
    (BlockCheck.checkTransaction (toBC tx)).map ofBCErr = errOf (checkTransaction Cfg.current tx)
    ∧ BlockCheck.isFinal (toBC tx).lockTime ((toBC tx).ins.map (·.seq)) height time = isFinal tx height time
    ∧ (BlockCheck.checkOneTx (toBC tx) height time).map ofBCErr
        = errOf (do checkTransaction Cfg.current tx; if !isFinal tx height time then throw Err.nonFinal : Except Err Unit) :=
  ⟨c05_checkTransaction_eq tx, c05_isFinal_eq tx height time, c05_checkOneTx_eq tx height time⟩

example : (BlockCheck.checkTransaction (toBC (W.cbTx 50))).isNone = true ∧ isOk (checkTransaction Cfg.current (W.cbTx 50)) = true := by decide

/-- C06's reduced `commitTxs` (Model/UtxoOps.lean: whole txid as key, exact sums, no sigop cost, no MoneyRange tests, no
    coinbase-script-length test, with undo data) is the PROJECTION of this property's: whenever `connect Cfg.current`
    accepts a block on a well-formed record map whose records are not above the block, C06's `commitTxs` accepts the
    projected block on the projected map (with `trusted = false` and `reward = GetBlockReward`) and the delete list and
    add list it returns are the projections of `DeledTxs` and `AddList`. `enc` = any injective coding of txids as
    numbers (`encBytes` is one), `encS` = any coding of scripts. -/
theorem c06_commitTxs_is_projection (enc : Bytes → Nat) (encS : Bytes → String) (henc : ∀ a b, enc a = enc b → a = b)
    (db : DB) (hwf : WF db) (b : Block) (hheights : ∀ kr ∈ db, kr.2.height ≤ b.height) (hb : b.height < 2 ^ 32)
    (db' : DB) (so : Nat) (h : connect Cfg.current db b = .ok (db', so)) :
    ∃ s ch, commitTxs Cfg.current db b = .ok s ∧ db' = applyChanges Cfg.current db b s
      ∧ UtxoOps.commitTxs (pDB enc encS db) b.height (getBlockReward b.height) false (b.txs.map (pTx enc encS)) = .ok ch
      ∧ ch.deled = pDeled enc s.deled ∧ ch.addList = (addList b s).map (pRec enc encS) :=
  c06_commitTxs_projection henc db hwf b hheights hb db' so h

example : (∀ a b, encBytes a = encBytes b → a = b) ∧ WF W.db0 ∧ (∀ kr ∈ W.db0, kr.2.height ≤ W.blockSeqLock.height)
    ∧ W.blockSeqLock.height < 2 ^ 32 ∧ isOk (connect Cfg.current W.db0 W.blockSeqLock) = true :=
  ⟨encBytes_inj, ⟨by decide, by decide⟩, by decide, by decide, by decide⟩

/-- One input, both directions: C06's `procInput` on the projected map and locals fails with the corresponding error kind
    exactly when this property's coin look-up `resolve` fails (tx VOut too big / double spend / unknown input / vout too big
    / vout already spent / own coinbase / immature), and otherwise yields the same value and corresponding locals. -/
theorem c06_input_lookup_is_projection (enc : Bytes → Nat) (encS : Bytes → String) (henc : ∀ a b, enc a = enc b → a = b)
    (db : DB) (hwf : WF db) (b : Block) (hh : ∀ k r, aGet db k = some r → r.height ≤ b.height) (hb : b.height < 2 ^ 32)
    (inp : TxIn) (s : St) (c : UtxoOps.CState) (hR : RelC06 enc encS s c) :
    match resolve Cfg.current db b inp s with
    | .error e => UtxoOps.procInput (pDB enc encS db) b.height c (pIn enc inp) = .error (pErr e)
    | .ok (s1, v, _) => ∃ c1, UtxoOps.procInput (pDB enc encS db) b.height c (pIn enc inp) = .ok (c1, v) ∧ RelC06 enc encS s1 c1 :=
  c06_procInput_projection henc db hwf b hh hb inp s c hR

example : RelC06 encBytes (fun _ => "") (St.init W.blockOk) {} := ⟨rfl, rfl⟩

/-- The coinbase-script-length test inside commitTxs (`Err.cbScriptLen`) cannot fail once CheckTransaction has passed the
    coinbase: on the CheckBlock + AcceptBlock path it is dead code (the correspondence run reaches `cbLength` with a
    101-byte coinbase script, never `cbScriptLen`). -/
theorem coinbase_script_length_checked_before (db : DB) (b : Block) (cb : Tx) (s : St)
    (hc : checkTransaction Cfg.current cb = .ok ()) (hcb : cb.isCoinBase = true) :
    ∃ s1, txInputs Cfg.current db b true cb s = .ok (s1, 0) :=
  cbScriptLen_subsumed db b cb s hc hcb

example : isOk (checkTransaction Cfg.current (W.cbTx 50)) = true ∧ (W.cbTx 50).isCoinBase = true := by decide

/-! ### configurations of the client: the pool hook, the undo files, compressed records

  Three mechanisms that sit between commitTxs and the observable set, each with ONE structural fact of the source that
  decides whether the property survives it. The facts are regenerated from /repo on every run (go/cmd/gen_c04 →
  Gen/C04Facts.lean: `txTrustedPerTx`, `undoWrittenWheneverCollected`, `undoMissingPanics`, `scratchUnderLock`); the
  theorems below are about the models instantiated with them and stop checking when a fact changes; the harness
  (pool.go, walk.go, compr.go) searches the real code for a failing input in the same configurations. -/

/-- **Pool hook.** With `chain.TrustedTxChecker` installed (`connectT`, Model/ConnectTrust.lean: a transaction the hook
    vouches for gets no script verification; everything else is evaluated for it as for any other) and an HONEST hook —
    it vouches only for transactions all of whose script verdicts are true, `hhonest` — the conclusion of
    `connect_sound` holds unchanged: in particular every input script of the connected block verifies.  The proof needs
    the flag to be a variable of the loop body (`Gen.C04Facts.txTrustedPerTx = true`): one vouched transaction must
    not switch verification off for the transactions after it. -/
theorem connect_sound_pool_hook (chk : TxChecker) (db : DB) (b : Block) (db' : DB) (so : Nat) (mtpOf : Nat → Nat)
    (hhonest : ∀ tx ∈ b.txs.tail, chk.says tx = true → ∀ i ∈ tx.ins, i.scriptOk = true)
    (hwf : WF db)
    (hinj : ((b.txs.map (·.txid)).map key8).Nodup)
    (hbip30 : ∀ tx ∈ b.txs, ∀ kr ∈ db, key8 kr.2.txid ≠ key8 tx.txid)
    (hseq : b.csv = true → ∀ tx ∈ b.txs, 2 ≤ tx.version → ∀ i ∈ tx.ins, ∀ c : Coin,
        (absGet mtpOf db i.prev = some c ∨ (absGet mtpOf db i.prev = none ∧ c.height = b.height ∧ c.mtpPrev = b.mtp)) → seqLockOk b.height b.mtp i c = true)
    (hret : ∀ tx ∈ b.txs, txCountsAgree tx = true)
    (hheights : ∀ kr ∈ db, kr.2.height ≤ b.height) (hb : b.height < 2 ^ 32)
    (hmtp : mtpOf b.height = b.mtp)
    (hsize : ∀ tx ∈ b.txs, tx.noWitSize * 4 < 2 ^ 32)
    (hbytes : blockScriptBytes b ≤ 4000000)
    (h : connectT Cfg.current chk db b = .ok (db', so)) :
    ∃ u', connectBlock (absList mtpOf db) b = .ok u' ∧ (∀ op, aGet u' op = absGet mtpOf db' op)
      ∧ ∃ cb rest r, b.txs = cb :: rest
          ∧ connectTxs b rest ⟨addOuts (absList mtpOf db) cb.txid b true cb.outs 0, 0, 0⟩ = .ok r
          ∧ so = 4 * cbScriptSigOps cb + 4 * cbOutputSigOps cb + r.sigops
          ∧ so ≤ 80000 := by
  have hfact : Gen.C04Facts.txTrustedPerTx = true := by decide
  unfold connectT at h
  rw [hfact, effBlock_honest chk b hhonest] at h
  exact connect_sound db b db' so mtpOf hwf hinj hbip30 hseq hret hheights hb hmtp hsize hbytes h

/-- non-vacuity: the pool knows the (valid) transaction of `W.blockOk`; the hook is honest and the block is connected -/
example : (∀ tx ∈ W.blockOk.txs.tail, W.poolKnowsT1.says tx = true → ∀ i ∈ tx.ins, i.scriptOk = true)
    ∧ isOk (connectT Cfg.current W.poolKnowsT1 W.db0 W.blockOk) = true := by
  refine ⟨by decide, by decide⟩

/-- Without the hook (`TrustedTxChecker == nil`, plain library use) `connectT` IS `connect`. -/
theorem no_hook_is_connect (db : DB) (b : Block) : connectT Cfg.current none db b = connect Cfg.current db b := by
  unfold connectT; rw [effBlock_none]

/-- Why the flag must live inside the loop: `W.blockPoolBad` = [coinbase, T1, T2], the pool knows T1 (valid), T2 spends
    T1's output with a script that FAILS. With a per-transaction flag the code refuses the block for its scripts, as the
    specification does; with the flag declared once before the loop (`effBlock false`) the code connects it. -/
theorem pool_flag_must_be_per_transaction_counterexample :
    failsWith (connect Cfg.current W.db0 (effBlock true W.poolKnowsT1 W.blockPoolBad)) Err.scripts = true
    ∧ isOk (connect Cfg.current W.db0 (effBlock false W.poolKnowsT1 W.blockPoolBad)) = true
    ∧ failsWith (connectBlock (absList W.mtp0 W.db0) W.blockPoolBad) .script = true := by
  refine ⟨by decide, by decide, by decide⟩

/-- **Undo files.** Whatever undo/ held before (`dir` is arbitrary — a file written at this height by a block of another
    branch included), after CommitBlockTxs has run for a block at height `h` whose undo data were collected
    (`some recs`, possibly EMPTY), UndoBlockTxs at height `h` reads back exactly `recs`.  Needs
    `undoWrittenWheneverCollected` (the file is replaced even when there is nothing to undo). -/
theorem undo_reads_what_this_block_wrote (dir : UndoDir) (h : Nat) (recs : List Rec) :
    readUndo UndoCfg.current (writeUndo UndoCfg.current dir h (some recs)) h = some recs := by
  have hc : UndoCfg.current = ⟨true, true⟩ := by decide
  rw [hc]; exact readUndo_writeUndo dir h recs

/-- Hence undoing a block that spent no confirmed output puts NOTHING back into the set, whatever is lying in undo/:
    the result is the set without the records of the block's own transactions. -/
theorem undo_of_empty_block_adds_nothing_back (db : DB) (dir : UndoDir) (h : Nat) (txids : List Bytes) :
    undoBlockTxs UndoCfg.current db (writeUndo UndoCfg.current dir h (some [])) h txids
      = some (txids.foldl (fun d t => aDel d (key8 t)) db) := by
  unfold undoBlockTxs
  rw [undo_reads_what_this_block_wrote]
  rfl

/-- and a height for which no file exists stops the undo (panic) instead of being taken for "nothing to add back" -/
theorem undo_without_file_stops (db : DB) (dir : UndoDir) (h : Nat) (txids : List Bytes) (hm : aGet dir h = none) :
    undoBlockTxs UndoCfg.current db dir h txids = none := by
  have hc : UndoCfg.current = ⟨true, true⟩ := by decide
  unfold undoBlockTxs
  rw [hc, readUndo_missing dir h hm]

example : aGet ([] : UndoDir) 7 = none := rfl

/-- Why both facts are needed: with "no file for an empty undo map" + "a missing file means nothing to add back"
    (`⟨false, false⟩`) the undo of an empty block at height 151 replays the file a block of an abandoned branch left
    there and the coin (h1,0) — spent by an ancestor that is still connected — is back in the set. -/
theorem undo_stale_file_counterexample :
    let stale : UndoDir := [(151, [{ txid := W.h1, height := 150, coinbase := false, outs := [some ⟨1000, [0x51]⟩] }])]
    ∃ db', undoBlockTxs ⟨false, false⟩ [] (writeUndo ⟨false, false⟩ stale 151 (some [])) 151 [W.idOf 0xc0] = some db'
      ∧ unspentGet Cfg.current db' ⟨W.h1, 0⟩ ≠ none
      ∧ undoBlockTxs UndoCfg.current [] (writeUndo UndoCfg.current stale 151 (some [])) 151 [W.idOf 0xc0] = some [] := by
  refine ⟨_, rfl, by decide, by decide⟩

/-- **Compressed records.** SerializeC fills the shared pools in one pass and reads them back in a second one. With the
    mutex held over both passes (`Gen.C04Facts.scratchUnderLock`) the schedules of two concurrent serializations A and B
    that the source permits are the two sequential ones, and under each of them both records come out exact — whatever
    the pools held before (`pool` arbitrary, long enough: the allocation at the top of SerializeC). -/
theorem compressed_serializations_exact {α β : Type} (f : α → β) (d : β) (A B : List (Option α)) (pool : List β)
    (hA : A.length ≤ pool.length) (hB : B.length ≤ pool.length) (sched : List Scratch.Step)
    (hs : Scratch.permitted Gen.C04Facts.scratchUnderLock sched = true) :
    (Scratch.run f d A B pool sched).outA = Scratch.expected f A 0
    ∧ (Scratch.run f d A B pool sched).outB = Scratch.expected f B 0 := by
  have hfact : Gen.C04Facts.scratchUnderLock = true := by decide
  rw [hfact] at hs
  simp only [Scratch.permitted, ↓reduceIte, Bool.or_eq_true, decide_eq_true_eq] at hs
  rcases hs with e | e <;> subst e
  · exact run_seq_ab f d A B pool hA hB
  · exact run_seq_ba f d A B pool hA hB

example : Scratch.permitted Gen.C04Facts.scratchUnderLock [.a1, .a2, .b1, .b2] = true := by decide

/-- Why the lock must cover both passes: interleave pass 1 of B between the passes of A and record A comes out with
    B's amount at the common output index (50 BTC instead of 1 BTC — money from nowhere in the set). -/
theorem compressed_interleaving_counterexample :
    Scratch.permitted false [.a1, .b1, .a2, .b2] = true
    ∧ (Scratch.run (fun v : Nat => v) 0 [some 100000000] [some 5000000000] [0] [.a1, .b1, .a2, .b2]).outA = [(0, 5000000000)]
    ∧ Scratch.expected (fun v : Nat => v) [some 100000000] 0 = [(0, 100000000)] := by
  refine ⟨by decide, by decide, by decide⟩

/-! ### the client's own wiring: the REAL pool hook, the record allocator, the road of the block object

  Added after the fourth round of seeded changes. Again one structural fact of the source per mechanism, regenerated
  from /repo on every run (go/cmd/gen_c04 → Gen/C04Facts.lean: `hookComparesWitness`, `recordReleasedAfterLastRead`,
  `txListMarksCoinbaseHashed/Plain`); the harness (realpool.go, alloc.go, entry.go) drives the real code in the same
  configurations and searches for a failing input. -/

/-- **The real pool hook is honest.** `cacheChecker` = client/txpool's txChecker (Model/ConnectCache.lean): look the
    txid up, answer true only for a pooled, non-local entry whose WITNESS hash equals the transaction's.  If the pool
    verified what it holds (`hcache`: every non-local pooled entry has a true script verdict — processTx for untrusted
    sources; the verdict is a property of the whole transaction, identified by its wtxid) and the verdict of a wtxid is the
    verdict of the block's transaction with that wtxid (`hverd`), then the hook vouches only for transactions all of
    whose scripts verify: exactly the hypothesis `hhonest` of `connect_sound_pool_hook`.  Needs
    `Gen.C04Facts.hookComparesWitness`: the txid does not cover the witness. -/
theorem real_pool_hook_is_honest (cache : List CacheEntry) (wtxidOf : Tx → Bytes) (verdict : Bytes → Bool) (b : Block)
    (hcache : ∀ e ∈ cache, e.state = .toSend → e.localTx = false → verdict e.wtxid = true)
    (hverd : ∀ tx ∈ b.txs.tail, verdict (wtxidOf tx) = true → ∀ i ∈ tx.ins, i.scriptOk = true) :
    ∀ tx ∈ b.txs.tail, (cacheChecker HookCfg.current cache wtxidOf).says tx = true → ∀ i ∈ tx.ins, i.scriptOk = true := by
  have hfact : HookCfg.current = ⟨true⟩ := by decide
  intro tx htx hs
  rw [hfact] at hs
  simp only [cacheChecker, TxChecker.says] at hs
  obtain ⟨e, hm, _, hst, hl, hw⟩ := cacheSays_true cache tx.txid (wtxidOf tx) hs
  apply hverd tx htx
  rw [← hw]
  exact hcache e hm hst hl

/-- non-vacuity: the pool holds the transaction of `W.blockOk` under the witness hash the block carries; the hook vouches for it -/
example : (∀ e ∈ [(⟨W.idOf 1, [0x77], .toSend, false⟩ : CacheEntry)], e.state = .toSend → e.localTx = false → (fun w : Bytes => w == [0x77]) e.wtxid = true)
    ∧ (∀ tx ∈ W.blockOk.txs.tail, (fun w : Bytes => w == [0x77]) ((fun _ : Tx => ([0x77] : Bytes)) tx) = true → ∀ i ∈ tx.ins, i.scriptOk = true)
    ∧ (cacheChecker HookCfg.current [⟨W.idOf 1, [0x77], .toSend, false⟩] (fun _ => [0x77])).says (W.spend 1 1 W.h1 0xffffffff [⟨900, [0x51]⟩]) = true := by
  refine ⟨by decide, by decide, by decide⟩

/-- Hence, with client/txpool as the pool, the conclusion of `connect_sound` holds for every block the node connects:
    `connect_sound_pool_hook` with its honesty hypothesis discharged by `real_pool_hook_is_honest`. -/
theorem connect_sound_real_pool (cache : List CacheEntry) (wtxidOf : Tx → Bytes) (verdict : Bytes → Bool)
    (db : DB) (b : Block) (db' : DB) (so : Nat) (mtpOf : Nat → Nat)
    (hcache : ∀ e ∈ cache, e.state = .toSend → e.localTx = false → verdict e.wtxid = true)
    (hverd : ∀ tx ∈ b.txs.tail, verdict (wtxidOf tx) = true → ∀ i ∈ tx.ins, i.scriptOk = true)
    (hwf : WF db)
    (hinj : ((b.txs.map (·.txid)).map key8).Nodup)
    (hbip30 : ∀ tx ∈ b.txs, ∀ kr ∈ db, key8 kr.2.txid ≠ key8 tx.txid)
    (hseq : b.csv = true → ∀ tx ∈ b.txs, 2 ≤ tx.version → ∀ i ∈ tx.ins, ∀ c : Coin,
        (absGet mtpOf db i.prev = some c ∨ (absGet mtpOf db i.prev = none ∧ c.height = b.height ∧ c.mtpPrev = b.mtp)) → seqLockOk b.height b.mtp i c = true)
    (hret : ∀ tx ∈ b.txs, txCountsAgree tx = true)
    (hheights : ∀ kr ∈ db, kr.2.height ≤ b.height) (hb : b.height < 2 ^ 32)
    (hmtp : mtpOf b.height = b.mtp)
    (hsize : ∀ tx ∈ b.txs, tx.noWitSize * 4 < 2 ^ 32)
    (hbytes : blockScriptBytes b ≤ 4000000)
    (h : connectT Cfg.current (cacheChecker HookCfg.current cache wtxidOf) db b = .ok (db', so)) :
    ∃ u', connectBlock (absList mtpOf db) b = .ok u' ∧ (∀ op, aGet u' op = absGet mtpOf db' op)
      ∧ ∃ cb rest r, b.txs = cb :: rest
          ∧ connectTxs b rest ⟨addOuts (absList mtpOf db) cb.txid b true cb.outs 0, 0, 0⟩ = .ok r
          ∧ so = 4 * cbScriptSigOps cb + 4 * cbOutputSigOps cb + r.sigops
          ∧ so ≤ 80000 :=
  connect_sound_pool_hook _ db b db' so mtpOf (real_pool_hook_is_honest cache wtxidOf verdict b hcache hverd)
    hwf hinj hbip30 hseq hret hheights hb hmtp hsize hbytes h

/-- non-vacuity of `connect_sound_real_pool`: the pool holds the transaction of `W.blockOk` (non-local, under the witness
    hash the block carries, verdict true); both pool hypotheses hold, the hook vouches for that transaction and the block
    is connected through `connectT` with `cacheChecker` as the hook -/
example :
    let cache : List CacheEntry := [⟨W.idOf 1, [0x77], .toSend, false⟩]
    let verdict : Bytes → Bool := fun w => w == [0x77]
    let wtxidOf : Tx → Bytes := fun _ => [0x77]
    (∀ e ∈ cache, e.state = .toSend → e.localTx = false → verdict e.wtxid = true)
    ∧ (∀ tx ∈ W.blockOk.txs.tail, verdict (wtxidOf tx) = true → ∀ i ∈ tx.ins, i.scriptOk = true)
    ∧ (∃ tx ∈ W.blockOk.txs.tail, (cacheChecker HookCfg.current cache wtxidOf).says tx = true)
    ∧ isOk (connectT Cfg.current (cacheChecker HookCfg.current cache wtxidOf) W.db0 W.blockOk) = true := by
  refine ⟨by decide, by decide, by decide, by decide⟩

/-- The configuration theorems above are about `connectT` — a commitTxs that ASKS the hook. That it does is itself a
    regenerated fact (go/cmd/gen_c04: some function of chain_accept.go tests `TrustedTxChecker(tx)`); nothing more is
    claimed here than that this fact is `true` for the source the check ran against (the theorem stops checking when
    the call disappears; the oracle op `blockv` and the harness episodes with a hook would then exercise dead wiring). -/
theorem hook_is_consulted : Gen.C04Facts.hookConsulted = true := by decide

/-- Why the witness hash must be compared: the pool once verified T (wtxid w) and then replaced it; a block carries T'
    — the same txid under another witness w' whose script verdict is FALSE. A hook that answers on the txid for entries
    "whose scripts were verified once" vouches for T'; the one the source has now does not — neither for a replaced
    entry nor for a pooled one with another witness hash. -/
theorem pool_cache_must_compare_witness_counterexample :
    let cache : List CacheEntry := [⟨W.idOf 1, [0x77], .replaced, false⟩]
    let pooled : List CacheEntry := [⟨W.idOf 1, [0x77], .toSend, false⟩]
    let verdict : Bytes → Bool := fun w => w == [0x77]
    cacheSays ⟨false⟩ cache (W.idOf 1) [0x78] = true ∧ verdict [0x78] = false
    ∧ cacheSays HookCfg.current cache (W.idOf 1) [0x78] = false
    ∧ cacheSays HookCfg.current pooled (W.idOf 1) [0x78] = false
    ∧ cacheSays HookCfg.current pooled (W.idOf 1) [0x77] = true := by
  refine ⟨by decide, by decide, by decide, by decide, by decide⟩

/-- KNOWN FINDING pool-verdict-predates-soft-fork — why `hverd` is a hypothesis and not a theorem: the pool's verdict is
    the one under the script flags of the TIP at admission, the block's is under the flags of the block. A pooled
    transaction T2 that verified before a rule's activation height (`verdictPool`) and fails under the rule
    (`scriptOk = false` in `W.blockPoolBad`, whose flags the oracle Bool stands for) is vouched for by the hook — the
    witness hash matches — and the code model connects the block that the specification refuses.  Replayed on the real
    code by the harness (forkedge.go). -/
theorem pool_verdict_predates_soft_fork_counterexample :
    let cache : List CacheEntry := [⟨W.idOf 2, [0x99], .toSend, false⟩]
    let verdictPool : Bytes → Bool := fun _ => true
    (∀ e ∈ cache, e.state = .toSend → e.localTx = false → verdictPool e.wtxid = true)
    ∧ isOk (connectT Cfg.current (cacheChecker HookCfg.current cache (fun _ => [0x99])) W.db0 W.blockPoolBad) = true
    ∧ failsWith (connectBlock (absList W.mtp0 W.db0) W.blockPoolBad) .script = true := by
  refine ⟨by decide, by decide, by decide⟩

/-- **Ownership of record bytes.** UndoBlockTxs merges the outputs the set still holds into the record of the undo
    file through a VIEW of the stored record (scripts are slices of its bytes) and serializes the result; with
    `Gen.C04Facts.recordReleasedAfterLastRead` the stored record is released only after that, so on EVERY allocator —
    `junk` = whatever released memory reads as — the undo puts back exactly what the abstract `undoBlockTxs` does. -/
theorem undo_merge_reads_live_records (junk : Junk) (db : DB) (dir : UndoDir) (h : Nat) (txids : List Bytes) :
    undoBlockTxsOwn UndoCfg.current OwnCfg.current junk db dir h txids = undoBlockTxs UndoCfg.current db dir h txids := by
  have hfact : OwnCfg.current = ⟨true⟩ := by decide
  unfold undoBlockTxsOwn undoBlockTxs
  rw [hfact]
  cases readUndo UndoCfg.current dir h with
  | none => rfl
  | some recs => simp only [foldl_addBackOwn_live]

/-- Why the release must come last: the set holds output 1 of a transaction (script 0x51), the undone block had spent its
    output 0; release the stored record BEFORE the merged one is serialized and an allocator that reuses the slot
    (`junk`) leaves output 1 in the set with another script — a valid spend is refused, a spend satisfying the garbage
    would be connected. -/
theorem undo_release_before_serialize_counterexample :
    let db : DB := [(key8 W.h1, { txid := W.h1, height := 150, coinbase := false, outs := [none, some ⟨1000, [0x51]⟩] })]
    let back : Rec := { txid := W.h1, height := 150, coinbase := false, outs := [some ⟨500, [0x52]⟩, none] }
    let junk : Junk := fun _ => [0xdb]
    (unspentGet Cfg.current (addBackOwn ⟨false⟩ junk db back) ⟨W.h1, 1⟩).map (·.script) = some [0xdb]
    ∧ (unspentGet Cfg.current (addBack db back) ⟨W.h1, 1⟩).map (·.script) = some [0x51]
    ∧ (unspentGet Cfg.current (addBackOwn OwnCfg.current junk db back) ⟨W.h1, 1⟩).map (·.script) = some [0x51] := by
  refine ⟨by decide, by decide, by decide⟩

/-- **The road of the block object.** Whichever call built the transaction list of the object that reaches
    Chain.CommitBlock — BuildTxList (CheckBlock, re-organisations) or BuildTxListExt(false) (a block parked in the
    client's disk cache) — the outputs of transaction number i carry WasCoinbase exactly when i = 0, so the record
    commitTxs files for the coinbase has Coinbase = true and the model's "first transaction of the block" is what the
    code copies.  Needs `Gen.C04Facts.txListMarksCoinbaseHashed` and `…Plain`. -/
theorem block_object_paths_mark_coinbase (how : ListBuild) (height i : Nat) (txid : Bytes) (outs : List (Option TxOut)) :
    wasCoinbase ListCfg.current how i = (i == 0)
    ∧ (recOfListed ListCfg.current how height i txid outs).coinbase = (i == 0) := by
  have hfact : ListCfg.current = ⟨true, true⟩ := by decide
  rw [hfact]
  cases how <;> simp [wasCoinbase, recOfListed]

/-- Why both roads must mark: a list built without the mark files the coinbase of block 150 as an ordinary record, and
    the maturity test of commitTxs lets the next block spend it (depth 1); with the mark the same spend is refused as
    immature. -/
theorem unmarked_coinbase_spendable_at_once_counterexample :
    let recOf (cfg : ListCfg) : Rec := recOfListed cfg .plain 150 0 W.h1 [some ⟨5000000000, [0x51]⟩]
    let found (cfg : ListCfg) : Option Found := unspentGet Cfg.current [(key8 W.h1, recOf cfg)] ⟨W.h1, 0⟩
    (found ⟨true, false⟩).map (fun t => isOk (fromDb W.blockOk (St.init W.blockOk) W.h1 0 t)) = some true
    ∧ (found ListCfg.current).map (fun t => failsWith (fromDb W.blockOk (St.init W.blockOk) W.h1 0 t) Err.immature) = some true := by
  refine ⟨by decide, by decide⟩

end GocoinV.Props.C04
