/-
  Props.C04 — property theorems for C04 "No connected block creates money or spends what is not spendable".
  Model: GocoinV.Connect (lib/chain commitTxs + CheckTransaction + sigop counters + UnspentGet/del/commit at record
  level, `Cfg.current` = /repo now, `Cfg.orig` = the pinned snapshot before the two fix: commits).
  Spec:  GocoinV.Spec.Connect.connectBlock (sequential ConnectBlock over OutPoint ⇀ Coin).
-/
import GocoinV.Proofs.C04Basic
import GocoinV.Proofs.C04Witness
import GocoinV.Proofs.C04Sums
import GocoinV.Proofs.C04NoDouble
import GocoinV.Proofs.C04Checks
namespace GocoinV.Props.C04
open GocoinV GocoinV.Connect GocoinV.Proofs.C04
open GocoinV.Spec.Connect (connectBlock absList absGet isOk failsWith subsidy)

/-- The block reward of the code is the subsidy schedule: 50 BTC divided by 2^(height / 210000) (integer division),
    and it is 0 from the 64th halving on (where a C `>>` would be undefined and Go's gives 0). -/
theorem subsidy_halving (h : Nat) :
    getBlockReward h = 5000000000 / 2 ^ (h / 210000)
    ∧ (64 ≤ h / 210000 → getBlockReward h = 0)
    ∧ getBlockReward h = subsidy h :=
  ⟨reward_eq_div h, reward_zero_of_ge h, reward_eq_subsidy h⟩

/-- When the block is refused (any error of CheckTransactions / commitTxs), the observable chain state — unspent
    set, tip and block index — is exactly what it was before `AcceptBlock` (the node linked by AcceptHeader is
    unlinked again). `b.hash ∉ c.index` is what PreCheckBlock's "already in" test guarantees. -/
theorem refuse_unchanged (cfg : Cfg) (c : Chain) (b : Block) (e : Err) (c' : Chain)
    (hnew : b.hash ∉ c.index) (h : acceptBlock cfg c b = (c', .error e)) :
    c'.db = c.db ∧ c'.tip = c.tip ∧ c'.index = c.index := by
  unfold acceptBlock at h
  cases hc : connect cfg c.db b with
  | ok r => simp [hc] at h
  | error e' =>
    simp only [hc, hnew, ↓reduceIte, Prod.mk.injEq] at h
    obtain ⟨h1, _⟩ := h
    subst h1
    refine ⟨rfl, rfl, ?_⟩
    show List.filter (fun x => decide (x ≠ b.hash)) (b.hash :: c.index) = c.index
    rw [List.filter_cons_of_neg (by simp)]
    exact List.filter_eq_self.mpr (fun a ha => by
      simp only [ne_eq, decide_not, Bool.not_eq_eq_eq_not, Bool.not_true, decide_eq_false_iff_not]
      intro hc; exact hnew (hc ▸ ha))

example : ∃ c b c', b.hash ∉ c.index ∧ (acceptBlock Cfg.current c b).1 = c' ∧ failsWith (acceptBlock Cfg.current c b).2 Err.unknownInput = true :=
  ⟨⟨W.db0, W.idOf 0xb0, [W.idOf 0xb0]⟩, W.blockPrefix, _, by decide, rfl, by decide⟩

/-- and an accepted block makes its hash the tip and keeps it in the index -/
theorem accept_advances (cfg : Cfg) (c : Chain) (b : Block) (so : Nat) (c' : Chain)
    (h : acceptBlock cfg c b = (c', .ok so)) : c'.tip = b.hash ∧ b.hash ∈ c'.index := by
  unfold acceptBlock at h
  cases hc : connect cfg c.db b with
  | error e' => simp [hc] at h
  | ok r =>
    simp only [hc, Prod.mk.injEq] at h
    obtain ⟨h1, _⟩ := h
    subst h1
    by_cases hm : b.hash ∈ c.index <;> simp [hm]

/-! ### context-free checks agree with the specification -/

/-- `Tx.IsFinal` is Bitcoin's IsFinalTx (same verdict for every transaction, height and time cut-off). -/
theorem final_iff_spec (tx : Tx) (height cutoff : Nat) :
    isFinal tx height cutoff = GocoinV.Spec.Connect.isFinalTx tx height cutoff :=
  isFinal_eq tx height cutoff

/-- The output loop added to `CheckTransaction` accepts only what the specification's MoneyRange test accepts:
    every value and every running total within [0, MAX_MONEY]. -/
theorem amounts_in_range (outs : List TxOut) (h : checkOutValues outs 0 = .ok ()) :
    GocoinV.Spec.Connect.outsInRange outs 0 = true :=
  checkOut_spec outs 0 (by decide) h

example : checkOutValues [⟨2100000000000000, []⟩] 0 = .ok () := rfl

/-! ### no outpoint is spent twice inside one block -/

/-- If commitTxs succeeds on a block whose transactions have pairwise different txids (identical transactions would
    spend identical inputs), then the outpoints named by the inputs of its non-coinbase transactions are pairwise
    different: nothing is spent twice inside the block, whether the coin is a confirmed one (mark in DeledTxs) or was
    created earlier in the same block (nil slot in blUnsp).  Holds for the pinned snapshot as well: F3a is the
    spending of one COIN under two different NAMES, which this statement does not exclude — see
    `connect_sound_counterexample_prefix8`. -/
theorem no_double_spend_in_block (cfg : Cfg) (db : DB) (b : Block) (s : St)
    (hids : (b.txs.map (·.txid)).Nodup) (h : commitTxs cfg db b = .ok s) :
    (spentOps b.txs.tail).Nodup :=
  commitTxs_nodup cfg db b s hids h

example : (W.blockSeqLock.txs.map (·.txid)).Nodup ∧ isOk (commitTxs Cfg.current W.db0 W.blockSeqLock) = true := by
  refine ⟨by decide, by decide⟩

/-! ### under MoneyRange no uint64 sum wraps (the code after commit e713bf9d) -/

/-- CheckTransaction's output loop: when it passes, the uint64 output total that commitTxs computes (`sumOuts`) is the
    exact sum of the values and lies within MAX_MONEY. -/
theorem sums_no_wrap_outputs (outs : List TxOut) (h : checkOutValues outs 0 = .ok ()) :
    sumOuts outs = exactOut outs ∧ exactOut outs ≤ MAX_MONEY := by
  have := checkOutValues_exact outs 0 (by decide) h
  simp only [Nat.zero_add] at this
  exact ⟨this.2, this.1⟩

example : checkOutValues [⟨5, []⟩, ⟨7, []⟩] 0 = .ok () := rfl

/-- One pass of the input loop: the running input total grows by exactly the value of the coin that was resolved
    (no reduction mod 2^64) and stays within MAX_MONEY. -/
theorem sums_no_wrap_inputs (db : DB) (b : Block) (inp : TxIn) (s s' : St) (a a' : Nat) (ha : a ≤ MAX_MONEY)
    (h : procInput Cfg.current db b inp s a = .ok (s', a')) :
    ∃ s1 v pk, resolve Cfg.current db b inp s = .ok (s1, v, pk) ∧ a' = a + v ∧ a' ≤ MAX_MONEY :=
  procInput_sum db b inp s s' a a' ha h

/-- Whole block: when commitTxs succeeds, `sumblockin` is the block reward, the accumulated fees are within
    MAX_MONEY, reward + fees is computed without wrap-around, and the coinbase claims at most reward + fees — in
    exact arithmetic. -/
theorem sums_no_wrap (db : DB) (b : Block) (s : St) (h : commitTxs Cfg.current db b = .ok s) :
    s.sumIn = getBlockReward b.height ∧ s.fees ≤ MAX_MONEY ∧ s.sumIn + s.fees < 2 ^ 64
    ∧ s.sumOut ≤ getBlockReward b.height + s.fees :=
  commitTxs_sums db b s h

example : isOk (commitTxs Cfg.current W.db0 W.blockSeqLock) = true := by decide

/-- The pinned snapshot had no such property: the witness of F3b makes its `sumblockout` wrap. -/
theorem sums_wrap_orig_counterexample :
    ∃ s, commitTxs Cfg.orig W.db0 W.blockWrap = .ok s ∧ s.sumOut = 5000001000 := by
  refine ⟨_, rfl, ?_⟩
  decide

/-! ### `connect_sound` is FALSE of the code: four concrete witnesses

  connect_sound (the central statement):
     connect cfg db b = .ok (db', _)  →  connectBlock (abs db) b = .ok u' ∧ ∀ op, get u' op = absGet db' op
  Each theorem below exhibits a set and a block that the model of the code connects while the specification
  refuses the block.  The first two are about `Cfg.orig` (the pinned snapshot); the corresponding `fix:` commits
  are in /repo and the same witnesses are refused by `Cfg.current`.  The last two hold for the current code and
  are recorded as known findings. -/

/-
  -- OPEN: connect_sound (central theorem, NOT proved):
  --   theorem connect_sound (db : DB) (b : Block) (db' : DB) (so : Nat) (mtpOf : Nat → Nat)
  --       (hids  : (b.txs.map (·.txid)).Nodup)                                     -- txids of the block differ
  --       (hbip30: ∀ tx ∈ b.txs, ∀ kr ∈ db, key8 kr.2.txid ≠ key8 tx.txid)          -- BIP30 / no 8-byte key collision
  --       (hkeys : the 8-byte keys of the block's txids are pairwise different)
  --       (hseq  : b.csv = false ∨ ∀ tx ∈ b.txs, tx.version < 2 ∨ all inputs have the BIP68 disable bit)   -- F3c excluded
  --       (hret  : no script of the block contains OP_RETURN before a sigop)       -- F3d excluded
  --       (h : connect Cfg.current db b = .ok (db', so)) :
  --       ∃ u', connectBlock (absList mtpOf db) b = .ok u' ∧ ∀ op, aGet u' op = absGet mtpOf db' op
  -- What is proved of it is `connect_sound_partial` below (amount and double-spend part) together with
  -- `subsidy_halving`, `sums_no_wrap*`, `no_double_spend_in_block`; what is missing is the simulation of the coin
  -- lookups (UnspentGet / blUnsp against the sequential map), maturity, script flags, sigop-cost equality and the
  -- equality of the resulting sets.  The differential run of go/cmd/c04 stands in for that part.
-/

/-- The proved part of `connect_sound`: when the current code connects a block whose txids differ, then commitTxs
    succeeded with locals `s`, the new set is `applyChanges` of those locals, no outpoint is named twice by the
    block's inputs, the coinbase claims at most subsidy(height) + fees in exact arithmetic with fees ≤ MAX_MONEY,
    and the (gocoin-counted) sigop cost is at most 80000.
    Missing (see the OPEN statement above): existence/maturity of each spent coin in the abstract map, scripts,
    consensus sigop cost, BIP68, equality of the resulting abstract set. -/
theorem connect_sound_partial (db : DB) (b : Block) (db' : DB) (so : Nat)
    (hids : (b.txs.map (·.txid)).Nodup) (h : connect Cfg.current db b = .ok (db', so)) :
    ∃ s, commitTxs Cfg.current db b = .ok s ∧ db' = applyChanges Cfg.current db b s ∧ so = s.sigops
      ∧ (spentOps b.txs.tail).Nodup
      ∧ s.sumOut ≤ subsidy b.height + s.fees ∧ s.fees ≤ MAX_MONEY
      ∧ so ≤ MAX_BLOCK_SIGOPS_COST := by
  unfold connect at h
  cases hc : checkBlockTxs Cfg.current b with
  | error e => simp [hc, bind, Except.bind] at h
  | ok _ =>
    cases hs : commitTxs Cfg.current db b with
    | error e => simp [hc, hs, bind, Except.bind] at h
    | ok s =>
      simp only [hc, hs, bind, Except.bind, pure, Except.pure, Except.ok.injEq, Prod.mk.injEq] at h
      obtain ⟨h1, h2⟩ := h
      obtain ⟨_, f2, _, f4⟩ := commitTxs_sums db b s hs
      refine ⟨s, rfl, h1.symm, h2.symm, commitTxs_nodup _ db b s hids hs, ?_, f2, ?_⟩
      · rw [← reward_eq_subsidy]; exact f4
      · rw [← h2]; exact commitTxs_sigops _ db b s hs

example : (W.blockSeqLock.txs.map (·.txid)).Nodup ∧ isOk (connect Cfg.current W.db0 W.blockSeqLock) = true := by
  refine ⟨by decide, by decide⟩

/-- F3a (fixed by bd8dba45): with the 8-byte key comparison the coin (h1,0) is spent twice in one block, the second
    time under the name (h2,0) of a transaction that does not exist; the specification says "missing input". -/
theorem connect_sound_counterexample_prefix8 :
    isOk (connect Cfg.orig W.db0 W.blockPrefix) = true
    ∧ failsWith (connectBlock (absList W.mtp0 W.db0) W.blockPrefix) .missingInput = true
    ∧ failsWith (connect Cfg.current W.db0 W.blockPrefix) Err.unknownInput = true := by
  refine ⟨by decide, by decide, by decide⟩

/-- F3b (fixed by e713bf9d): 1000 satoshi in, outputs 2^63 and 2^63+1000; the uint64 sum wraps to 1000 and the block
    is connected; the specification refuses the out-of-range amounts. -/
theorem connect_sound_counterexample_wrap :
    isOk (connect Cfg.orig W.db0 W.blockWrap) = true
    ∧ failsWith (connectBlock (absList W.mtp0 W.db0) W.blockWrap) .voutRange = true
    ∧ failsWith (connect Cfg.current W.db0 W.blockWrap) Err.voutTooLarge = true := by
  refine ⟨by decide, by decide, by decide⟩

/-- F3c (known finding bip68-not-enforced): a version-2 transaction with an unsatisfied relative height lock is
    connected by the current code with CSV active. -/
theorem connect_sound_counterexample_bip68 :
    isOk (connect Cfg.current W.db0 W.blockSeqLock) = true
    ∧ failsWith (connectBlock (absList W.mtp0 W.db0) W.blockSeqLock) .seqLock = true := by
  refine ⟨by decide, by decide⟩

/-- F3d (known finding sigops-after-op-return): 1001 OP_CHECKMULTISIG behind an OP_RETURN cost 80080 > 80000 by the
    consensus definition and 0 by `GetSigOpCount`; the current code connects the block. -/
theorem connect_sound_counterexample_opreturn :
    isOk (connect Cfg.current W.db0 W.blockSigops) = true
    ∧ failsWith (connectBlock (absList W.mtp0 W.db0) W.blockSigops) .sigops = true := by
  refine ⟨by decide +kernel, by decide +kernel⟩

end GocoinV.Props.C04
