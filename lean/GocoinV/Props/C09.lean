/-
  Props.C09 — property theorems for C09 (transaction / block wire decoding is exact, canonical, total).
  Theorems ONLY (helper lemmas live in GocoinV/Proofs/C09.lean). All statements are about the definitions of
  Model/Wire.lean that oracle_c09 executes and the harness go/cmd/c09 compares with btc.NewTx & co.
-/
import GocoinV.Proofs.C09
namespace GocoinV.Props.C09
open GocoinV GocoinV.Wire GocoinV.CompactSize

/-- **decode_reencode.** Whatever `btc.NewTx` accepts re-encodes (`SerializeNew`) to exactly the bytes it
    consumed — for every byte string. (True of the code after the `fix:` commit; false before, see
    `prefix_decode_reencode_counterexample`.) -/
theorem decode_reencode (bs : Bytes) (tx : Tx) (n : Nat) (h : decodeTx bs = some (tx, n)) :
    encodeTx tx = bs.take n := by
  unfold decodeTx at h
  cases hd : decodeTxFull bs with
  | none => simp [hd] at h
  | some d =>
    simp only [hd, Option.map_some, Option.some.injEq, Prod.mk.injEq] at h
    obtain ⟨rfl, rfl⟩ := h
    obtain ⟨rest, hb, hc, _, _⟩ := decodeTxFull_spec hd
    rw [hc]
    conv => rhs; rw [hb]
    simp

example : ∃ tx n, decodeTx witCanonical = some (tx, n) := by
  cases h : decodeTx witCanonical with
  | none => have := fixed_refuses_witnesses.2.2.2; simp [h] at this
  | some p => exact ⟨p.1, p.2, rfl⟩

/-- **decode_total.** The decoder is a total function defined by structural recursion on the element counts
    (no fuel, no partiality: `decodeN`), every Go slice-bounds / makeslice panic is an explicit `none`, and an
    accepted input consumed a positive number of bytes that lies inside the buffer. -/
theorem decode_total (bs : Bytes) :
    decodeTx bs = none ∨ ∃ tx n, decodeTx bs = some (tx, n) ∧ 10 ≤ n ∧ n ≤ bs.length := by
  cases hd : decodeTxFull bs with
  | none => left; simp [decodeTx, hd]
  | some d =>
    right
    refine ⟨d.tx, d.consumed, by simp [decodeTx, hd], ?_⟩
    obtain ⟨rest, hb, hc, _, _⟩ := decodeTxFull_spec hd
    have hl := congrArg List.length hb
    simp only [List.length_append] at hl
    refine ⟨?_, by omega⟩
    rw [hc]
    have h1 := putULe_ne_nil d.tx.ins.length
    have h2 := putULe_ne_nil d.tx.outs.length
    unfold encodeTx
    split <;> simp only [encodeTxNoWit, encodeBody, List.length_append, leBytes_length, List.length_cons, List.length_nil] <;> omega

/-- **canonical.** The bytes consumed are a function of the decoded transaction: two accepted byte strings
    that decode to the same transaction have identical consumed prefixes (no malleability through the
    encoding of lengths, marker or witness section). -/
theorem decode_injective (b1 b2 : Bytes) (tx : Tx) (n1 n2 : Nat)
    (h1 : decodeTx b1 = some (tx, n1)) (h2 : decodeTx b2 = some (tx, n2)) :
    b1.take n1 = b2.take n2 := by
  rw [← decode_reencode b1 tx n1 h1, ← decode_reencode b2 tx n2 h2]

/-- An accepted witness-flagged transaction has one witness stack per input and at least one non-empty
    stack ("superfluous witness record" is refused, as Bitcoin's deserialiser does). -/
theorem witness_not_superfluous (bs : Bytes) (tx : Tx) (n : Nat) (w : List (List Bytes))
    (h : decodeTx bs = some (tx, n)) (hw : tx.witness = some w) :
    w.length = tx.ins.length ∧ noWitness w = false := by
  unfold decodeTx at h
  cases hd : decodeTxFull bs with
  | none => simp [hd] at h
  | some d =>
    simp only [hd, Option.map_some, Option.some.injEq, Prod.mk.injEq] at h
    obtain ⟨rfl, rfl⟩ := h
    obtain ⟨_, _, _, _, hwit⟩ := decodeTxFull_spec hd
    exact hwit w hw

/-- Every length / count field the decoders act on (it is the argument of the following `make`) is
    canonically encoded and bounded by the number of bytes that follow it: the allocation guard. -/
theorem length_fields_canonical_and_bounded (b r : Bytes) (v : Nat) (h : vlenWire b = some (v, r)) :
    b = putULe v ++ r ∧ v ≤ r.length ∧ v < 2^64 :=
  vlenWire_spec h

/-- **sizes_spec (NewTx).** `tx.NoWitSize` as `btc.NewTx` leaves it equals the length of the stripped
    serialisation (`Serialize`), and the bytes consumed equal the length of the full one (`SerializeNew`),
    for inputs below 4 GiB (uint32 fields). -/
theorem sizes_spec_newtx (bs : Bytes) (d : Decoded) (h : decodeTxFull bs = some d) (hl : bs.length < 2^32) :
    d.noWitSize = (encodeTxNoWit d.tx).length ∧ d.consumed = (encodeTx d.tx).length ∧
    (encodeTxNoWit d.tx).length ≤ (encodeTx d.tx).length := by
  obtain ⟨rest, hb, hc, hn, _⟩ := decodeTxFull_spec h
  have hlen := congrArg List.length hb
  simp only [List.length_append] at hlen
  have hle : (encodeTxNoWit d.tx).length ≤ (encodeTx d.tx).length := by
    unfold encodeTx
    split
    · exact Nat.le_refl _
    · simp only [encodeTxNoWit, List.length_append, leBytes_length, List.length_cons, List.length_nil]; omega
  refine ⟨?_, hc, hle⟩
  rw [hn]; apply Nat.mod_eq_of_lt; omega

/-- **sizes_spec (SetHash / Weight / VSize).** After `SetHash(raw)` on the consumed bytes: `Hash` is the
    BIP141 txid (hash of the stripped serialisation), `WTxID()` the wtxid (hash of the full serialisation),
    `Size`/`NoWitSize` the two lengths, `Weight() = 3·stripped + total` and `VSize() = ⌈weight/4⌉`.
    `H` is any hash function. -/
theorem sizes_spec (H : Bytes → Bytes) (bs : Bytes) (tx : Tx) (n : Nat)
    (h : decodeTx bs = some (tx, n)) (hl : bs.length < 2^32 - 1) :
    let ids := setHash H tx (bs.take n)
    ids.hash = txid H tx ∧ ids.wtxid = wtxid H tx ∧
    ids.size = (encodeTx tx).length ∧ ids.noWitSize = (encodeTxNoWit tx).length ∧
    weight ids.noWitSize ids.size = 3 * (encodeTxNoWit tx).length + (encodeTx tx).length ∧
    vsize ids.noWitSize ids.size = (weight ids.noWitSize ids.size + 3) / 4 := by
  have hre := decode_reencode bs tx n h
  unfold decodeTx at h
  cases hd : decodeTxFull bs with
  | none => simp [hd] at h
  | some d =>
    simp only [hd, Option.map_some, Option.some.injEq, Prod.mk.injEq] at h
    obtain ⟨rfl, rfl⟩ := h
    obtain ⟨hnw, hc, hle⟩ := sizes_spec_newtx bs d hd (by omega)
    obtain ⟨rest, hb, _, _, _⟩ := decodeTxFull_spec hd
    have hlen := congrArg List.length hb
    simp only [List.length_append] at hlen
    have hsz : (encodeTx d.tx).length % 2^32 = (encodeTx d.tx).length := Nat.mod_eq_of_lt (by omega)
    have hsz2 : (encodeTxNoWit d.tx).length % 2^32 = (encodeTxNoWit d.tx).length := Nat.mod_eq_of_lt (by omega)
    rw [← hre]
    cases hw : d.tx.witness with
    | none =>
      have e : encodeTx d.tx = encodeTxNoWit d.tx := by simp [encodeTx, hw]
      simp only [setHash, hw, txid, wtxid, weight, vsize, e, ↓reduceIte, true_and]
      omega
    | some w =>
      simp only [setHash, hw, txid, wtxid, weight, vsize, hsz, hsz2, true_and]
      split
      · rename_i heq; omega
      · have : ((encodeTxNoWit d.tx).length + 1) % 2^32 = (encodeTxNoWit d.tx).length + 1 :=
          Nat.mod_eq_of_lt (by omega)
        rw [this]; omega

/-- **Pre-fix counterexample (DESIGN §7 F4, confirmed on the real code before the `fix:` commit).**
    With the length reader the decoders used before (`btc.VLen`: any CompactSize form), `decode_reencode`
    is false: `01000000 fd0100 …` (input count 1 in the 3-byte form) is accepted, 62 bytes are consumed,
    the re-encoding differs from them, and it decodes to the same transaction as the canonical 60-byte
    string — two txids for one legacy transaction. -/
theorem prefix_decode_reencode_counterexample :
    ¬ (∀ bs tx n, decodeTxLax bs = some (tx, n) → encodeTx tx = bs.take n) := by
  intro hall
  have he := lax_nonminimal_eval
  cases hd : decodeTxLax witNonMinimal with
  | none => simp [hd] at he
  | some p =>
    have := hall witNonMinimal p.1 p.2 (by rw [hd])
    simp [hd, this] at he

/-- **Pre-fix counterexample, superfluous witness.** The old decoder accepted a witness-flagged transaction
    whose witness stacks are all empty (`01000000 0001 01 … 00 00000000`), which Bitcoin refuses. -/
theorem prefix_superfluous_witness_counterexample :
    ¬ (∀ bs tx n w, decodeTxLax bs = some (tx, n) → tx.witness = some w → noWitness w = false) := by
  intro hall
  have he : (decodeTxLax witSuperfluous).map (fun p => p.1.witness.map noWitness) = some (some true) := by
    decide +kernel
  cases hd : decodeTxLax witSuperfluous with
  | none => simp [hd] at he
  | some p =>
    simp only [hd, Option.map_some, Option.some.injEq] at he
    cases hw : p.1.witness with
    | none => simp [hw] at he
    | some w =>
      have := hall witSuperfluous p.1 p.2 w (by rw [hd]) hw
      simp [hw, this] at he

/-- The three F4 witnesses are refused by the decoder as it is now (and the canonical form is accepted). -/
theorem fixed_refuses_F4_witnesses :
    decodeTx witNonMinimal = none ∧ decodeTx witSuperfluous = none ∧ decodeTx witHugeCount = none ∧
    (decodeTx witCanonical).isSome = true :=
  fixed_refuses_witnesses

end GocoinV.Props.C09
