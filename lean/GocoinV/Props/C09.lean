/-
  Props.C09 — property theorems for C09 (transaction / block wire decoding is exact, canonical, total).
  Theorems ONLY (helper lemmas live in GocoinV/Proofs/C09.lean). All statements are about the definitions of
  Model/Wire.lean that oracle_c09 executes and the harness go/cmd/c09 compares with btc.NewTx & co.
-/
import GocoinV.Proofs.C09
namespace GocoinV.Props.C09
open GocoinV GocoinV.Wire GocoinV.CompactSize

/-- **decode_reencode.** Whatever `btc.NewTx` accepts re-encodes (`SerializeNew`) to exactly the bytes it
    consumed — for every byte string. (True of the code after the `fix:` commit; false before, see
    `prefix_decode_reencode_counterexample`.) -/
theorem decode_reencode (bs : Bytes) (tx : Tx) (n : Nat) (h : decodeTx bs = some (tx, n)) :
    encodeTx tx = bs.take n := by
  unfold decodeTx at h
  cases hd : decodeTxFull bs with
  | none => simp [hd] at h
  | some d =>
    simp only [hd, Option.map_some, Option.some.injEq, Prod.mk.injEq] at h
    obtain ⟨rfl, rfl⟩ := h
    obtain ⟨rest, hb, hc, _, _⟩ := decodeTxFull_spec hd
    rw [hc]
    conv => rhs; rw [hb]
    simp

example : ∃ tx n, decodeTx witCanonical = some (tx, n) := by
  cases h : decodeTx witCanonical with
  | none => have := fixed_refuses_witnesses.2.2.2; simp [h] at this
  | some p => exact ⟨p.1, p.2, rfl⟩

/-- **decode_total.** The decoder is a total function defined by structural recursion on the element counts
    (no fuel, no partiality: `decodeN`), every Go slice-bounds / makeslice panic is an explicit `none`, and an
    accepted input consumed a positive number of bytes that lies inside the buffer. -/
theorem decode_total (bs : Bytes) :
    decodeTx bs = none ∨ ∃ tx n, decodeTx bs = some (tx, n) ∧ 10 ≤ n ∧ n ≤ bs.length := by
  cases hd : decodeTxFull bs with
  | none => left; simp [decodeTx, hd]
  | some d =>
    right
    refine ⟨d.tx, d.consumed, by simp [decodeTx, hd], ?_⟩
    obtain ⟨rest, hb, hc, _, _⟩ := decodeTxFull_spec hd
    have hl := congrArg List.length hb
    simp only [List.length_append] at hl
    refine ⟨?_, by omega⟩
    rw [hc]
    have h1 := putULe_ne_nil d.tx.ins.length
    have h2 := putULe_ne_nil d.tx.outs.length
    unfold encodeTx
    split <;> simp only [encodeTxNoWit, encodeBody, List.length_append, leBytes_length, List.length_cons, List.length_nil] <;> omega

/-- **encode_decode.** For every well-formed transaction (field ranges; at least one input; a witness has one
    stack per input and one non-empty stack) `btc.NewTx` applied to `SerializeNew()` followed by arbitrary
    trailing bytes returns that transaction and consumes exactly the serialisation. -/
theorem encode_decode (tx : Tx) (hw : tx.WF) (rest : Bytes) :
    decodeTx (encodeTx tx ++ rest) = some (tx, (encodeTx tx).length) := by
  simp [decodeTx, decodeTxFull_encode tx hw rest]

example : ∃ tx : Tx, tx.WF ∧ tx.witness ≠ none :=
  ⟨{ version := 2, ins := [{ prevHash := List.replicate 32 7, prevIdx := 1, scriptSig := [], sequence := 0 }],
     outs := [{ value := 5, pkScript := [0x51] }], witness := some [[[1, 2]]], lockTime := 0 },
   { version := by decide, lockTime := by decide, ins_ne := by simp,
     ins := by intro i hi; simp at hi; subst hi; exact ⟨by decide, by decide, by decide, by decide⟩,
     outs := by intro o ho; simp at ho; subst ho; exact ⟨by decide, by decide⟩,
     nins := by decide, nouts := by decide,
     wit := by
       intro w hw; simp at hw; subst hw
       refine ⟨by decide, by decide, ?_⟩
       intro s hs; simp at hs; subst hs
       refine ⟨by decide, ?_⟩
       intro x hx; simp at hx; subst hx; decide },
   by simp⟩

/-- Both directions together: on well-formed transactions `decodeTx` is a left inverse of `encodeTx`, and on
    accepted inputs `encodeTx` is a left inverse of `decodeTx` — the accepted byte strings are exactly the
    serialisations, each with a single reading. -/
theorem accepted_iff_serialisation (bs : Bytes) (tx : Tx) (hw : tx.WF) :
    decodeTx bs = some (tx, (encodeTx tx).length) ↔ ∃ rest, bs = encodeTx tx ++ rest := by
  constructor
  · intro h
    have := decode_reencode bs tx _ h
    refine ⟨bs.drop (encodeTx tx).length, ?_⟩
    conv => rhs; arg 1; rw [this]
    exact (List.take_append_drop _ bs).symm
  · rintro ⟨rest, rfl⟩
    exact encode_decode tx hw rest

/-- **canonical.** The bytes consumed are a function of the decoded transaction: two accepted byte strings
    that decode to the same transaction have identical consumed prefixes (no malleability through the
    encoding of lengths, marker or witness section). -/
theorem decode_injective (b1 b2 : Bytes) (tx : Tx) (n1 n2 : Nat)
    (h1 : decodeTx b1 = some (tx, n1)) (h2 : decodeTx b2 = some (tx, n2)) :
    b1.take n1 = b2.take n2 := by
  rw [← decode_reencode b1 tx n1 h1, ← decode_reencode b2 tx n2 h2]

/-- An accepted witness-flagged transaction has one witness stack per input and at least one non-empty
    stack ("superfluous witness record" is refused, as Bitcoin's deserialiser does). -/
theorem witness_not_superfluous (bs : Bytes) (tx : Tx) (n : Nat) (w : List (List Bytes))
    (h : decodeTx bs = some (tx, n)) (hw : tx.witness = some w) :
    w.length = tx.ins.length ∧ noWitness w = false := by
  unfold decodeTx at h
  cases hd : decodeTxFull bs with
  | none => simp [hd] at h
  | some d =>
    simp only [hd, Option.map_some, Option.some.injEq, Prod.mk.injEq] at h
    obtain ⟨rfl, rfl⟩ := h
    obtain ⟨_, _, _, _, hwit⟩ := decodeTxFull_spec hd
    exact hwit w hw

/-- Every length / count field the decoders act on (it is the argument of the following `make`) is
    canonically encoded and bounded by the number of bytes that follow it: the allocation guard. -/
theorem length_fields_canonical_and_bounded (b r : Bytes) (v : Nat) (h : vlenWire b = some (v, r)) :
    b = putULe v ++ r ∧ v ≤ r.length ∧ v < 2^64 :=
  vlenWire_spec h

/-- **sizes_spec (NewTx).** `tx.NoWitSize` as `btc.NewTx` leaves it equals the length of the stripped
    serialisation (`Serialize`), and the bytes consumed equal the length of the full one (`SerializeNew`),
    for inputs below 4 GiB (uint32 fields). -/
theorem sizes_spec_newtx (bs : Bytes) (d : Decoded) (h : decodeTxFull bs = some d) (hl : bs.length < 2^32) :
    d.noWitSize = (encodeTxNoWit d.tx).length ∧ d.consumed = (encodeTx d.tx).length ∧
    (encodeTxNoWit d.tx).length ≤ (encodeTx d.tx).length := by
  obtain ⟨rest, hb, hc, hn, _⟩ := decodeTxFull_spec h
  have hlen := congrArg List.length hb
  simp only [List.length_append] at hlen
  have hle : (encodeTxNoWit d.tx).length ≤ (encodeTx d.tx).length := by
    unfold encodeTx
    split
    · exact Nat.le_refl _
    · simp only [encodeTxNoWit, List.length_append, leBytes_length, List.length_cons, List.length_nil]; omega
  refine ⟨?_, hc, hle⟩
  rw [hn]; apply Nat.mod_eq_of_lt; omega

/-- **sizes_spec (SetHash / Weight / VSize).** After `SetHash(raw)` on the consumed bytes: `Hash` is the
    BIP141 txid (hash of the stripped serialisation), `WTxID()` the wtxid (hash of the full serialisation),
    `Size`/`NoWitSize` the two lengths, `Weight() = 3·stripped + total` and `VSize() = ⌈weight/4⌉`.
    `H` is any hash function. -/
theorem sizes_spec (H : Bytes → Bytes) (bs : Bytes) (tx : Tx) (n : Nat)
    (h : decodeTx bs = some (tx, n)) (hl : bs.length < 2^32 - 1) :
    let ids := setHash H tx (bs.take n)
    ids.hash = txid H tx ∧ ids.wtxid = wtxid H tx ∧
    ids.size = (encodeTx tx).length ∧ ids.noWitSize = (encodeTxNoWit tx).length ∧
    weight ids.noWitSize ids.size = 3 * (encodeTxNoWit tx).length + (encodeTx tx).length ∧
    vsize ids.noWitSize ids.size = (weight ids.noWitSize ids.size + 3) / 4 := by
  have hre := decode_reencode bs tx n h
  unfold decodeTx at h
  cases hd : decodeTxFull bs with
  | none => simp [hd] at h
  | some d =>
    simp only [hd, Option.map_some, Option.some.injEq, Prod.mk.injEq] at h
    obtain ⟨rfl, rfl⟩ := h
    obtain ⟨hnw, hc, hle⟩ := sizes_spec_newtx bs d hd (by omega)
    obtain ⟨rest, hb, _, _, _⟩ := decodeTxFull_spec hd
    have hlen := congrArg List.length hb
    simp only [List.length_append] at hlen
    have hsz : (encodeTx d.tx).length % 2^32 = (encodeTx d.tx).length := Nat.mod_eq_of_lt (by omega)
    have hsz2 : (encodeTxNoWit d.tx).length % 2^32 = (encodeTxNoWit d.tx).length := Nat.mod_eq_of_lt (by omega)
    rw [← hre]
    cases hw : d.tx.witness with
    | none =>
      have e : encodeTx d.tx = encodeTxNoWit d.tx := by simp [encodeTx, hw]
      simp only [setHash, hw, txid, wtxid, weight, vsize, e, ↓reduceIte, true_and]
      omega
    | some w =>
      simp only [setHash, hw, txid, wtxid, weight, vsize, hsz, hsz2, true_and]
      split
      · rename_i heq; omega
      · have : ((encodeTxNoWit d.tx).length + 1) % 2^32 = (encodeTxNoWit d.tx).length + 1 :=
          Nat.mod_eq_of_lt (by omega)
        rw [this]; omega

/-- **block_weight_spec.** When `btc.NewBlock` + `BuildTxList` succeed on a block below 1 GiB, as many
    transactions were built as the count field says and `Block.BlockWeight` equals the BIP141 weight
    (3 · base size + total size) of header, count and the transactions built. -/
theorem block_weight_spec (H : Bytes → Bytes) (raw : Bytes) (hl : raw.length < 2^30)
    (hok : (decodeBlock H raw).err = none) :
    (decodeBlock H raw).weight = blockWeightSpec ((decodeBlock H raw).txs.map (·.tx)) ∧
    (decodeBlock H raw).txs.length = (decodeBlock H raw).txCount := by
  have h80 : ¬ raw.length < 80 := by
    intro h; simp [decodeBlock, h] at hok
  unfold decodeBlock at hok ⊢
  simp only [h80, ↓reduceIte] at hok ⊢
  cases hv : vlenWire (raw.drop 80) with
  | none => simp [hv] at hok
  | some pr =>
  obtain ⟨cnt, rest⟩ := pr
  simp only [hv] at hok ⊢
  have hc0 : ¬ cnt = 0 := by
    intro h; simp [h] at hok
  simp only [hc0, ↓reduceIte] at hok ⊢
  obtain ⟨hr, _, _⟩ := vlenWire_spec hv
  have hrl : rest.length ≤ raw.length := by
    have := congrArg List.length hr
    simp only [List.length_drop, List.length_append] at this
    omega
  cases hd : decodeTxs cnt rest with
  | mk l ok =>
    rw [hd] at hok
    simp only at hok ⊢
    have hokt : ok = true := by
      cases ok with
      | true => rfl
      | false => simp at hok
    obtain ⟨g, sl, k⟩ := decodeTxs_spec cnt rest (by omega) l ok hd
    have k' := k hokt
    have hmap := mkBlockTxs_map H l true
    have hlen : (mkBlockTxs H true l).length = l.length := by
      have := congrArg List.length hmap
      simpa using this
    have e1 : (mkBlockTxs H true l).map (fun t => (3 * t.ids.noWitSize + t.ids.size) % 2^32) =
        l.map (fun p => (3 * p.1.noWitSize + p.2.length % 2^32) % 2^32) := by
      have := congrArg (List.map (fun (q : Nat × Nat × Tx) => (3 * q.1 + q.2.1) % 2^32)) hmap
      simpa [List.map_map, Function.comp_def] using this
    have e2 : ((mkBlockTxs H true l).map (·.tx)).map (fun t => (encodeTxNoWit t).length) =
        l.map (fun p => (encodeTxNoWit p.1.tx).length) := by
      have := congrArg (List.map (fun (q : Nat × Nat × Tx) => (encodeTxNoWit q.2.2).length)) hmap
      simpa [List.map_map, Function.comp_def] using this
    have e3 : ((mkBlockTxs H true l).map (·.tx)).map (fun t => (encodeTx t).length) =
        l.map (fun p => (encodeTx p.1.tx).length) := by
      have := congrArg (List.map (fun (q : Nat × Nat × Tx) => (encodeTx q.2.2).length)) hmap
      simpa [List.map_map, Function.comp_def] using this
    have ws := weight_sum raw.length hl l g (by omega)
    have ⟨s1, s2⟩ := sum_le_of_weight l g
    refine ⟨?_, by rw [hlen, k']⟩
    unfold blockWeightSpec
    simp only [List.length_map, hlen, k', e1, e2, e3, ws]
    have hvs : CompactSize.vlenSize cnt ≤ 9 := by
      unfold CompactSize.vlenSize; split; · omega
      split; · omega
      split <;> omega
    rw [Nat.mod_eq_of_lt (by omega)]
    omega

example : (decodeBlock (fun _ => []) (List.replicate 80 0 ++ [1] ++ witCanonical)).err = none := by
  decide +kernel

/-- **Pre-fix counterexample (DESIGN §7 F4, confirmed on the real code before the `fix:` commit).**
    With the length reader the decoders used before (`btc.VLen`: any CompactSize form), `decode_reencode`
    is false: `01000000 fd0100 …` (input count 1 in the 3-byte form) is accepted, 62 bytes are consumed,
    the re-encoding differs from them, and it decodes to the same transaction as the canonical 60-byte
    string — two txids for one legacy transaction. -/
theorem prefix_decode_reencode_counterexample :
    ¬ (∀ bs tx n, decodeTxLax bs = some (tx, n) → encodeTx tx = bs.take n) := by
  intro hall
  have he := lax_nonminimal_eval
  cases hd : decodeTxLax witNonMinimal with
  | none => simp [hd] at he
  | some p =>
    have := hall witNonMinimal p.1 p.2 (by rw [hd])
    simp [hd, this] at he

/-- **Pre-fix counterexample, superfluous witness.** The old decoder accepted a witness-flagged transaction
    whose witness stacks are all empty (`01000000 0001 01 … 00 00000000`), which Bitcoin refuses. -/
theorem prefix_superfluous_witness_counterexample :
    ¬ (∀ bs tx n w, decodeTxLax bs = some (tx, n) → tx.witness = some w → noWitness w = false) := by
  intro hall
  have he : (decodeTxLax witSuperfluous).map (fun p => p.1.witness.map noWitness) = some (some true) := by
    decide +kernel
  cases hd : decodeTxLax witSuperfluous with
  | none => simp [hd] at he
  | some p =>
    simp only [hd, Option.map_some, Option.some.injEq] at he
    cases hw : p.1.witness with
    | none => simp [hw] at he
    | some w =>
      have := hall witSuperfluous p.1 p.2 w (by rw [hd]) hw
      simp [hw, this] at he

/-- The three F4 witnesses are refused by the decoder as it is now (and the canonical form is accepted). -/
theorem fixed_refuses_F4_witnesses :
    decodeTx witNonMinimal = none ∧ decodeTx witSuperfluous = none ∧ decodeTx witHugeCount = none ∧
    (decodeTx witCanonical).isSome = true :=
  fixed_refuses_witnesses

-- OPEN: alloc_bounded — `∀ bs, allocated (NewTx bs) ≤ c·|bs| + c'` for REJECTED inputs as well. The model carries no
--   allocation counter; what is proved is the guard every `make` sits behind
--   (`length_fields_canonical_and_bounded`: the count is ≤ the bytes left) and, for accepted inputs, that all
--   elements lie inside the consumed bytes (`decode_reencode`). The byte-level bound is measured on the real code
--   by the harness (child process with a 3 GiB address-space limit; runtime.MemStats delta ≤ 64·len + 8192).
-- OPEN: txsize_spec — `decodeTx bs = some (tx, n) → txSize bs = n` and `txSize bs ≤ bs.length`. `Wire.txSize`
--   is compared with btc.TxSize on every harness case and the predicate is evaluated on the real code; no Lean proof yet.
-- OPEN: accepts_iff_core — exact equality with Bitcoin Core's accept set. `accepted_iff_serialisation` gives it for
--   well-formed transactions (≥ 1 input). The decoder additionally accepts zero-input transactions in legacy form whose
--   output count byte is not 01 (Core: "unknown optional data" for 02…ff); such a transaction re-encodes identically
--   (`decode_reencode` covers it) and is refused by CheckTransaction. Not repaired (documented deviation).
-- OPEN: merkle — `Block.GetMerkle` / `MerkleRootMatch` are not in the model.

end GocoinV.Props.C09
