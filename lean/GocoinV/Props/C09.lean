/-
  Props.C09 — property theorems for C09 (transaction / block wire decoding is exact, canonical, total).
  Theorems ONLY (helper lemmas live in GocoinV/Proofs/C09.lean). All statements are about the definitions of
  Model/Wire.lean that oracle_c09 executes and the harness go/cmd/c09 compares with btc.NewTx & co.
-/
import GocoinV.Proofs.C09
import GocoinV.Proofs.C09WF
import GocoinV.Proofs.C09Size
import GocoinV.Proofs.C09Alloc
import GocoinV.Proofs.C09Block
import GocoinV.Proofs.C09Obj
import GocoinV.Proofs.C09Client
namespace GocoinV.Props.C09
open GocoinV GocoinV.Wire GocoinV.CompactSize

/-- **decode_reencode.** Whatever `btc.NewTx` accepts re-encodes (`SerializeNew`) to exactly the bytes it
    consumed — for every byte string. (True of the code after the `fix:` commit; false before, see
    `prefix_decode_reencode_counterexample`.) -/
theorem decode_reencode (bs : Bytes) (tx : Tx) (n : Nat) (h : decodeTx bs = some (tx, n)) :
    encodeTx tx = bs.take n := by
  unfold decodeTx at h
  cases hd : decodeTxFull bs with
  | none => simp [hd] at h
  | some d =>
    simp only [hd, Option.map_some, Option.some.injEq, Prod.mk.injEq] at h
    obtain ⟨rfl, rfl⟩ := h
    obtain ⟨rest, hb, hc, _, _⟩ := decodeTxFull_spec hd
    rw [hc]
    conv => rhs; rw [hb]
    simp

example : ∃ tx n, decodeTx witCanonical = some (tx, n) := by
  cases h : decodeTx witCanonical with
  | none => have := fixed_refuses_witnesses.2.2.2; simp [h] at this
  | some p => exact ⟨p.1, p.2, rfl⟩

/-- **decode_total.** The decoder is a total function defined by structural recursion on the element counts
    (no fuel, no partiality: `decodeN`), every Go slice-bounds / makeslice panic is an explicit `none`, and an
    accepted input consumed a positive number of bytes that lies inside the buffer. -/
theorem decode_total (bs : Bytes) :
    decodeTx bs = none ∨ ∃ tx n, decodeTx bs = some (tx, n) ∧ 10 ≤ n ∧ n ≤ bs.length := by
  cases hd : decodeTxFull bs with
  | none => left; simp [decodeTx, hd]
  | some d =>
    right
    refine ⟨d.tx, d.consumed, by simp [decodeTx, hd], ?_⟩
    obtain ⟨rest, hb, hc, _, _⟩ := decodeTxFull_spec hd
    have hl := congrArg List.length hb
    simp only [List.length_append] at hl
    refine ⟨?_, by omega⟩
    rw [hc]
    have h1 := putULe_ne_nil d.tx.ins.length
    have h2 := putULe_ne_nil d.tx.outs.length
    unfold encodeTx
    split <;> simp only [encodeTxNoWit, encodeBody, List.length_append, leBytes_length, List.length_cons, List.length_nil] <;> omega

/-- **encode_decode.** For every well-formed transaction (field ranges; at least one input; a witness has one
    stack per input and one non-empty stack) `btc.NewTx` applied to `SerializeNew()` followed by arbitrary
    trailing bytes returns that transaction and consumes exactly the serialisation. -/
theorem encode_decode (tx : Tx) (hw : tx.WF) (rest : Bytes) :
    decodeTx (encodeTx tx ++ rest) = some (tx, (encodeTx tx).length) := by
  simp [decodeTx, decodeTxFull_encode tx hw rest]

example : ∃ tx : Tx, tx.WF ∧ tx.witness ≠ none :=
  ⟨{ version := 2, ins := [{ prevHash := List.replicate 32 7, prevIdx := 1, scriptSig := [], sequence := 0 }],
     outs := [{ value := 5, pkScript := [0x51] }], witness := some [[[1, 2]]], lockTime := 0 },
   { version := by decide, lockTime := by decide, ins_ne := by simp,
     ins := by intro i hi; simp at hi; subst hi; exact ⟨by decide, by decide, by decide, by decide⟩,
     outs := by intro o ho; simp at ho; subst ho; exact ⟨by decide, by decide⟩,
     nins := by decide, nouts := by decide,
     wit := by
       intro w hw; simp at hw; subst hw
       refine ⟨by decide, by decide, ?_⟩
       intro s hs; simp at hs; subst hs
       refine ⟨by decide, ?_⟩
       intro x hx; simp at hx; subst hx; decide },
   by simp⟩

/-- Both directions together: on well-formed transactions `decodeTx` is a left inverse of `encodeTx`, and on
    accepted inputs `encodeTx` is a left inverse of `decodeTx` — the accepted byte strings are exactly the
    serialisations, each with a single reading. -/
theorem accepted_iff_serialisation (bs : Bytes) (tx : Tx) (hw : tx.WF) :
    decodeTx bs = some (tx, (encodeTx tx).length) ↔ ∃ rest, bs = encodeTx tx ++ rest := by
  constructor
  · intro h
    have := decode_reencode bs tx _ h
    refine ⟨bs.drop (encodeTx tx).length, ?_⟩
    conv => rhs; arg 1; rw [this]
    exact (List.take_append_drop _ bs).symm
  · rintro ⟨rest, rfl⟩
    exact encode_decode tx hw rest

/-- **canonical.** The bytes consumed are a function of the decoded transaction: two accepted byte strings
    that decode to the same transaction have identical consumed prefixes (no malleability through the
    encoding of lengths, marker or witness section). -/
theorem decode_injective (b1 b2 : Bytes) (tx : Tx) (n1 n2 : Nat)
    (h1 : decodeTx b1 = some (tx, n1)) (h2 : decodeTx b2 = some (tx, n2)) :
    b1.take n1 = b2.take n2 := by
  rw [← decode_reencode b1 tx n1 h1, ← decode_reencode b2 tx n2 h2]

/-- An accepted witness-flagged transaction has one witness stack per input and at least one non-empty
    stack ("superfluous witness record" is refused, as Bitcoin's deserialiser does). -/
theorem witness_not_superfluous (bs : Bytes) (tx : Tx) (n : Nat) (w : List (List Bytes))
    (h : decodeTx bs = some (tx, n)) (hw : tx.witness = some w) :
    w.length = tx.ins.length ∧ noWitness w = false := by
  unfold decodeTx at h
  cases hd : decodeTxFull bs with
  | none => simp [hd] at h
  | some d =>
    simp only [hd, Option.map_some, Option.some.injEq, Prod.mk.injEq] at h
    obtain ⟨rfl, rfl⟩ := h
    obtain ⟨_, _, _, _, hwit⟩ := decodeTxFull_spec hd
    exact hwit w hw

/-- Every length / count field the decoders act on (it is the argument of the following `make`) is
    canonically encoded and bounded by the number of bytes that follow it: the allocation guard. -/
theorem length_fields_canonical_and_bounded (b r : Bytes) (v : Nat) (h : vlenWire b = some (v, r)) :
    b = putULe v ++ r ∧ v ≤ r.length ∧ v < 2^64 :=
  vlenWire_spec h

/-- **sizes_spec (NewTx).** `tx.NoWitSize` as `btc.NewTx` leaves it equals the length of the stripped
    serialisation (`Serialize`), and the bytes consumed equal the length of the full one (`SerializeNew`),
    for inputs below 4 GiB (uint32 fields). -/
theorem sizes_spec_newtx (bs : Bytes) (d : Decoded) (h : decodeTxFull bs = some d) (hl : bs.length < 2^32) :
    d.noWitSize = (encodeTxNoWit d.tx).length ∧ d.consumed = (encodeTx d.tx).length ∧
    (encodeTxNoWit d.tx).length ≤ (encodeTx d.tx).length := by
  obtain ⟨rest, hb, hc, hn, _⟩ := decodeTxFull_spec h
  have hlen := congrArg List.length hb
  simp only [List.length_append] at hlen
  have hle : (encodeTxNoWit d.tx).length ≤ (encodeTx d.tx).length := by
    unfold encodeTx
    split
    · exact Nat.le_refl _
    · simp only [encodeTxNoWit, List.length_append, leBytes_length, List.length_cons, List.length_nil]; omega
  refine ⟨?_, hc, hle⟩
  rw [hn]; apply Nat.mod_eq_of_lt; omega

/-- **sizes_spec (SetHash / Weight / VSize).** After `SetHash(raw)` on the consumed bytes: `Hash` is the
    BIP141 txid (hash of the stripped serialisation), `WTxID()` the wtxid (hash of the full serialisation),
    `Size`/`NoWitSize` the two lengths, `Weight() = 3·stripped + total` and `VSize() = ⌈weight/4⌉`.
    `H` is any hash function. -/
theorem sizes_spec (H : Bytes → Bytes) (bs : Bytes) (tx : Tx) (n : Nat)
    (h : decodeTx bs = some (tx, n)) (hl : bs.length < 2^32 - 1) :
    let ids := setHash H tx (bs.take n)
    ids.hash = txid H tx ∧ ids.wtxid = wtxid H tx ∧
    ids.size = (encodeTx tx).length ∧ ids.noWitSize = (encodeTxNoWit tx).length ∧
    weight ids.noWitSize ids.size = 3 * (encodeTxNoWit tx).length + (encodeTx tx).length ∧
    vsize ids.noWitSize ids.size = (weight ids.noWitSize ids.size + 3) / 4 := by
  have hre := decode_reencode bs tx n h
  unfold decodeTx at h
  cases hd : decodeTxFull bs with
  | none => simp [hd] at h
  | some d =>
    simp only [hd, Option.map_some, Option.some.injEq, Prod.mk.injEq] at h
    obtain ⟨rfl, rfl⟩ := h
    obtain ⟨hnw, hc, hle⟩ := sizes_spec_newtx bs d hd (by omega)
    obtain ⟨rest, hb, _, _, _⟩ := decodeTxFull_spec hd
    have hlen := congrArg List.length hb
    simp only [List.length_append] at hlen
    have hsz : (encodeTx d.tx).length % 2^32 = (encodeTx d.tx).length := Nat.mod_eq_of_lt (by omega)
    have hsz2 : (encodeTxNoWit d.tx).length % 2^32 = (encodeTxNoWit d.tx).length := Nat.mod_eq_of_lt (by omega)
    rw [← hre]
    cases hw : d.tx.witness with
    | none =>
      have e : encodeTx d.tx = encodeTxNoWit d.tx := by simp [encodeTx, hw]
      simp only [setHash, hw, txid, wtxid, weight, vsize, e, ↓reduceIte, true_and]
      omega
    | some w =>
      simp only [setHash, hw, txid, wtxid, weight, vsize, hsz, hsz2, true_and]
      split
      · rename_i heq; omega
      · have : ((encodeTxNoWit d.tx).length + 1) % 2^32 = (encodeTxNoWit d.tx).length + 1 :=
          Nat.mod_eq_of_lt (by omega)
        rw [this]; omega

/-- **block_weight_spec.** When `btc.NewBlock` + `BuildTxList` succeed on a block below 1 GiB, as many
    transactions were built as the count field says and `Block.BlockWeight` equals the BIP141 weight
    (3 · base size + total size) of header, count and the transactions built. -/
theorem block_weight_spec (H : Bytes → Bytes) (raw : Bytes) (hl : raw.length < 2^30)
    (hok : (decodeBlock H raw).err = none) :
    (decodeBlock H raw).weight = blockWeightSpec ((decodeBlock H raw).txs.map (·.tx)) ∧
    (decodeBlock H raw).txs.length = (decodeBlock H raw).txCount := by
  have h80 : ¬ raw.length < 80 := by
    intro h; simp [decodeBlock, h] at hok
  unfold decodeBlock at hok ⊢
  simp only [h80, ↓reduceIte] at hok ⊢
  cases hv : vlenWire (raw.drop 80) with
  | none => simp [hv] at hok
  | some pr =>
  obtain ⟨cnt, rest⟩ := pr
  simp only [hv] at hok ⊢
  have hc0 : ¬ cnt = 0 := by
    intro h; simp [h] at hok
  simp only [hc0, ↓reduceIte] at hok ⊢
  obtain ⟨hr, _, _⟩ := vlenWire_spec hv
  have hrl : rest.length ≤ raw.length := by
    have := congrArg List.length hr
    simp only [List.length_drop, List.length_append] at this
    omega
  cases hd : decodeTxs cnt rest with
  | mk l ok =>
    rw [hd] at hok
    simp only at hok ⊢
    have hokt : ok = true := by
      cases ok with
      | true => rfl
      | false => simp at hok
    obtain ⟨g, sl, k⟩ := decodeTxs_spec cnt rest (by omega) l ok hd
    have k' := k hokt
    have hmap := mkBlockTxs_map H l true
    have hlen : (mkBlockTxs H true l).length = l.length := by
      have := congrArg List.length hmap
      simpa using this
    have e1 : (mkBlockTxs H true l).map (fun t => (3 * t.ids.noWitSize + t.ids.size) % 2^32) =
        l.map (fun p => (3 * p.1.noWitSize + p.2.length % 2^32) % 2^32) := by
      have := congrArg (List.map (fun (q : Nat × Nat × Tx) => (3 * q.1 + q.2.1) % 2^32)) hmap
      simpa [List.map_map, Function.comp_def] using this
    have e2 : ((mkBlockTxs H true l).map (·.tx)).map (fun t => (encodeTxNoWit t).length) =
        l.map (fun p => (encodeTxNoWit p.1.tx).length) := by
      have := congrArg (List.map (fun (q : Nat × Nat × Tx) => (encodeTxNoWit q.2.2).length)) hmap
      simpa [List.map_map, Function.comp_def] using this
    have e3 : ((mkBlockTxs H true l).map (·.tx)).map (fun t => (encodeTx t).length) =
        l.map (fun p => (encodeTx p.1.tx).length) := by
      have := congrArg (List.map (fun (q : Nat × Nat × Tx) => (encodeTx q.2.2).length)) hmap
      simpa [List.map_map, Function.comp_def] using this
    have ws := weight_sum raw.length hl l g (by omega)
    have ⟨s1, s2⟩ := sum_le_of_weight l g
    refine ⟨?_, by rw [hlen, k']⟩
    unfold blockWeightSpec
    simp only [List.length_map, hlen, k', e1, e2, e3, ws]
    have hvs : CompactSize.vlenSize cnt ≤ 9 := by
      unfold CompactSize.vlenSize; split; · omega
      split; · omega
      split <;> omega
    rw [Nat.mod_eq_of_lt (by omega)]
    omega

example : (decodeBlock (fun _ => []) (List.replicate 80 0 ++ [1] ++ witCanonical)).err = none := by
  decide +kernel

/-- **Pre-fix counterexample (DESIGN §7 F4, confirmed on the real code before the `fix:` commit).**
    With the length reader the decoders used before (`btc.VLen`: any CompactSize form), `decode_reencode`
    is false: `01000000 fd0100 …` (input count 1 in the 3-byte form) is accepted, 62 bytes are consumed,
    the re-encoding differs from them, and it decodes to the same transaction as the canonical 60-byte
    string — two txids for one legacy transaction. -/
theorem prefix_decode_reencode_counterexample :
    ¬ (∀ bs tx n, decodeTxLax bs = some (tx, n) → encodeTx tx = bs.take n) := by
  intro hall
  have he := lax_nonminimal_eval
  cases hd : decodeTxLax witNonMinimal with
  | none => simp [hd] at he
  | some p =>
    have := hall witNonMinimal p.1 p.2 (by rw [hd])
    simp [hd, this] at he

/-- **Pre-fix counterexample, superfluous witness.** The old decoder accepted a witness-flagged transaction
    whose witness stacks are all empty (`01000000 0001 01 … 00 00000000`), which Bitcoin refuses. -/
theorem prefix_superfluous_witness_counterexample :
    ¬ (∀ bs tx n w, decodeTxLax bs = some (tx, n) → tx.witness = some w → noWitness w = false) := by
  intro hall
  have he : (decodeTxLax witSuperfluous).map (fun p => p.1.witness.map noWitness) = some (some true) := by
    decide +kernel
  cases hd : decodeTxLax witSuperfluous with
  | none => simp [hd] at he
  | some p =>
    simp only [hd, Option.map_some, Option.some.injEq] at he
    cases hw : p.1.witness with
    | none => simp [hw] at he
    | some w =>
      have := hall witSuperfluous p.1 p.2 w (by rw [hd]) hw
      simp [hw, this] at he

/-- The three F4 witnesses are refused by the decoder as it is now (and the canonical form is accepted). -/
theorem fixed_refuses_F4_witnesses :
    decodeTx witNonMinimal = none ∧ decodeTx witSuperfluous = none ∧ decodeTx witHugeCount = none ∧
    (decodeTx witCanonical).isSome = true :=
  fixed_refuses_witnesses

/-- **decode_wf.** Every transaction `btc.NewTx` returns is well-formed: fields in range, one witness stack per
    input with at least one non-empty stack, and no outputs when there are no inputs. -/
theorem decode_wf (bs : Bytes) (tx : Tx) (n : Nat) (h : decodeTx bs = some (tx, n)) : tx.WF := by
  unfold decodeTx at h
  cases hd : decodeTxFull bs with
  | none => simp [hd] at h
  | some d =>
    simp only [hd, Option.map_some, Option.some.injEq, Prod.mk.injEq] at h
    obtain ⟨rfl, rfl⟩ := h
    exact decodeTxFull_wf hd

/-- **accepts_iff_spec.** The accept set of `btc.NewTx`, exactly: `bs` decodes to `(tx, n)` iff `tx` is
    well-formed, `bs` starts with the BIP144 serialisation of `tx` and `n` is its length. (`Tx.WF` is Bitcoin's
    deserialiser's image: ranges, non-superfluous witness, no "unknown optional data".) -/
theorem accepts_iff_spec (bs : Bytes) (tx : Tx) (n : Nat) :
    decodeTx bs = some (tx, n) ↔ tx.WF ∧ n = (encodeTx tx).length ∧ ∃ rest, bs = encodeTx tx ++ rest := by
  constructor
  · intro h
    have hw := decode_wf bs tx n h
    have hre := decode_reencode bs tx n h
    have hn : n = (encodeTx tx).length := by
      obtain ⟨_, _, h1, _, h2⟩ := (decode_total bs).resolve_left (by simp [h])
      rw [h] at h1
      simp only [Option.some.injEq, Prod.mk.injEq] at h1
      obtain ⟨rfl, rfl⟩ := h1
      rw [hre]; simp; omega
    refine ⟨hw, hn, bs.drop n, ?_⟩
    rw [hre]; exact (List.take_append_drop _ bs).symm
  · rintro ⟨hw, rfl, rest, rfl⟩
    exact encode_decode tx hw rest

/-- **Unknown optional data is refused** (Bitcoin: an empty input vector is followed by a flags byte; only 00 and
    01 are defined). Every byte string `version · 00 · x · …` with `x ∉ {00, 01}` is refused by `btc.NewTx`. -/
theorem unknown_optional_data_refused (ver rest : Bytes) (x : UInt8) (hv : ver.length = 4) (h0 : x ≠ 0) (h1 : x ≠ 1) :
    decodeTx (ver ++ 0 :: x :: rest) = none := by
  cases h : decodeTx (ver ++ 0 :: x :: rest) with
  | none => rfl
  | some p =>
    exfalso
    obtain ⟨tx, n⟩ := p
    obtain ⟨hw, _, r, hb⟩ := (accepts_iff_spec _ tx n).1 h
    have hvl : (leBytes 4 tx.version).length = ver.length := by rw [leBytes_length, hv]
    cases hwit : tx.witness with
    | some w =>
      simp only [encodeTx, hwit, List.append_assoc] at hb
      have := (List.append_inj hb hvl.symm).2
      simp only [List.cons_append, List.cons.injEq] at this
      exact h1 this.2.1
    | none =>
      simp only [encodeTx, hwit, encodeTxNoWit, encodeBody, List.append_assoc] at hb
      have hb2 := (List.append_inj hb hvl.symm).2
      by_cases hin : tx.ins = []
      · have hout := hw.ins_ne hin
        have hp0 : putULe 0 = [0] := by decide
        simp only [hin, hout, List.length_nil, hp0, encodeList, List.nil_append, List.cons_append, List.cons.injEq] at hb2
        exact h0 hb2.2.1
      · have hne : tx.ins.length ≠ 0 := fun hh => hin (List.length_eq_zero_iff.mp hh)
        obtain ⟨y, tl, hput, hy0⟩ := putULe_head_ne_zero tx.ins.length hne hw.nins
        rw [hput] at hb2
        simp only [List.cons_append, List.cons.injEq] at hb2
        exact hy0 hb2.1.symm

example : ∃ (ver : Bytes) (x : UInt8), ver.length = 4 ∧ x ≠ 0 ∧ x ≠ 1 := ⟨[1,0,0,0], 2, by decide, by decide, by decide⟩

/-- **Pre-fix counterexample, unknown optional data (confirmed on the real code before the `fix:` commit).**
    Without the rule, `01000000 00 02 <out> <out> 00000000` is read as a legacy transaction with no inputs and two
    outputs (Bitcoin: "Unknown transaction optional data"); the decoder as it is now refuses it. -/
theorem prefix_unknown_optional_data_counterexample :
    (decodeTxWith vlenWire false witZeroInputs).isSome = true ∧ decodeTx witZeroInputs = none := by
  decide +kernel

/-- **txSize_spec.** `btc.TxSize` returns exactly the number of bytes the decoder without the two non-length rules
    (superfluous witness, unknown optional data — TxSize has neither) consumes, 0 when that decoder fails; it never
    exceeds the buffer. -/
theorem txSize_spec (bs : Bytes) :
    txSize bs = ((decodeTxWith vlenWire false bs).map (·.consumed)).getD 0 ∧ txSize bs ≤ bs.length := by
  refine ⟨txSize_eq bs, ?_⟩
  rw [txSize_eq]
  cases h : decodeTxWith vlenWire false bs with
  | none => simp
  | some d =>
    simp only [Option.map_some, Option.getD_some]
    -- consumed = |bs| − |rest|
    have : ∃ r : Nat, d.consumed = bs.length - r := by
      unfold decodeTxWith at h
      repeat' split at h
      all_goals first
        | (simp at h; done)
        | (simp only [Option.some.injEq] at h; subst h; exact ⟨_, rfl⟩)
    obtain ⟨r, hr⟩ := this
    omega

/-- **txSize_eq_consumed.** On every input `btc.NewTx` accepts, `btc.TxSize` equals the bytes consumed. -/
theorem txSize_eq_consumed (bs : Bytes) (tx : Tx) (n : Nat) (h : decodeTx bs = some (tx, n)) : txSize bs = n := by
  unfold decodeTx at h
  cases hd : decodeTxFull bs with
  | none => simp [hd] at h
  | some d =>
    simp only [hd, Option.map_some, Option.some.injEq, Prod.mk.injEq] at h
    obtain ⟨_, rfl⟩ := h
    rw [txSize_eq, decodeTxWith_strict_imp hd]
    rfl

/-- **alloc_bounded.** For EVERY byte string — accepted, refused, cut off anywhere, with any counts — the bytes
    `btc.NewTx` requests from the allocator (`Wire.allocTx`: `new(Tx)`, the pointer slices `make([]*TxIn, n)` /
    `make([]*TxOut, n)`, each `new(TxIn)`/`new(TxOut)`, each script, the witness slice headers and items, counted
    up to the statement at which decoding stops) are at most `sizeof(Tx) + (sizeof(TxIn) + sizeof(TxOut) + 67)·|bs|`. -/
theorem alloc_bounded (K : AllocK) (bs : Bytes) :
    allocTx K bs ≤ K.tx + (K.txIn + K.txOut + 67) * bs.length :=
  allocTx_le K bs

/-- **block_txids_spec.** For a block below 4 GiB: every transaction `BuildTxList` builds carries as `Hash` the
    BIP141 txid of the decoded transaction and as `Raw` its BIP144 serialisation (all but the first also its wtxid);
    when the build succeeds, as many were built as the count says and they are exactly the serialisations that
    follow the count in the block, in order — `Txs[i].Hash` is the txid of the i-th transaction of the block. -/
theorem block_txids_spec (H : Bytes → Bytes) (raw : Bytes) (hl : raw.length < 2^32) :
    let r := decodeBlock H raw
    r.txs.map (·.ids.hash) = r.txs.map (fun t => txid H t.tx) ∧
    r.txs.map (·.raw) = r.txs.map (fun t => encodeTx t.tx) ∧
    (r.txs.drop 1).map (·.ids.wtxid) = (r.txs.drop 1).map (fun t => wtxid H t.tx) ∧
    (r.err = none → r.txs.length = r.txCount ∧ r.txCount ≠ 0 ∧
      ∃ rest, raw.drop 80 = putULe r.txCount ++ ((r.txs.map (fun t => encodeTx t.tx)).flatten ++ rest)) := by
  intro r
  obtain ⟨l, g, htx, hok⟩ := decodeBlock_txs H raw hl
  have hr : r.txs = mkBlockTxs H true l := htx
  have ⟨f1, f2⟩ := mkBlockTxs_fields H l true
  have hraw : l.map (·.2) = l.map (fun p => encodeTx p.1.tx) :=
    List.map_congr_left (fun p hp => (g p hp).1)
  have htxmap : ∀ (f : Tx → Bytes), r.txs.map (fun t => f t.tx) = l.map (fun p => f p.1.tx) := by
    intro f
    have := congrArg (List.map f) f1
    rw [hr]
    simpa [List.map_map, Function.comp_def] using this
  refine ⟨?_, ?_, ?_, ?_⟩
  · rw [htxmap (txid H), hr]; exact mkBlockTxs_hash H l true g
  · rw [htxmap encodeTx, hr, f2, hraw]
  · rw [hr]
    cases l with
    | nil => simp [mkBlockTxs]
    | cons p l' =>
      simp only [mkBlockTxs, List.drop_succ_cons, List.drop_zero]
      have ⟨f1', _⟩ := mkBlockTxs_fields H l' false
      rw [mkBlockTxs_wtxid H l' (fun q hq => g q (by simp [hq]))]
      have := congrArg (List.map (wtxid H)) f1'
      simpa [List.map_map, Function.comp_def] using this.symm
  · intro he
    obtain ⟨h1, h2, rest, h3⟩ := hok he
    refine ⟨by rw [hr, mkBlockTxs_length]; exact h1, h2, rest, ?_⟩
    rw [htxmap encodeTx, ← hraw]; exact h3

/-- **merkle_root_spec.** For a block below 4 GiB, `Block.MerkleRootMatch()` after `NewBlock` + `BuildTxList` is
    true exactly when the build succeeded, the header's Merkle-root field (`Raw[36:68]`) is the root of the
    pairwise-hash tree over the txids (BIP141) of the block's decoded transactions, and no level of that tree has
    two equal nodes hashed together (CVE-2012-2459; C05's `calcMerkle_spec`). -/
theorem merkle_root_spec (H : Bytes → Bytes) (raw : Bytes) (hl : raw.length < 2^32) :
    let r := decodeBlock H raw
    let ids := r.txs.map (fun t => txid H t.tx)
    merkleRootMatch H raw = true ↔
      r.err = none ∧ (Spec.Merkle.root H ids.length ids).head? = some (headerMerkleRoot raw) ∧
      ¬ ∃ lv ∈ Spec.Merkle.levels H ids.length ids, ∃ j, 2 * j + 1 < lv.length ∧ lv[2 * j]? = lv[2 * j + 1]? := by
  intro r ids
  have hids : r.txs.map (·.ids.hash) = ids := (block_txids_spec H raw hl).1
  have herr := decodeBlock_err_none_iff H raw
  unfold merkleRootMatch getMerkle
  simp only
  by_cases hc : (decodeBlock H raw).txCount = 0 ∨ (decodeBlock H raw).txs.length ≠ (decodeBlock H raw).txCount
  · simp only [hc, ↓reduceIte, Bool.false_eq_true, false_iff]
    rintro ⟨he, _⟩
    have := herr.1 he
    rcases hc with h | h
    · exact this.1 h
    · exact h this.2
  · simp only [hc, ↓reduceIte]
    have hc' : (decodeBlock H raw).txCount ≠ 0 ∧ (decodeBlock H raw).txs.length = (decodeBlock H raw).txCount := by
      constructor
      · intro h; exact hc (Or.inl h)
      · exact Classical.byContradiction (fun h => hc (Or.inr h))
    have he : r.err = none := herr.2 hc'
    have hne : ids ≠ [] := by
      intro h
      have : ids.length = 0 := by rw [h]; rfl
      simp only [ids, List.length_map] at this
      exact hc'.1 (by rw [← hc'.2]; exact this)
    rw [hids]
    have hs := Proofs.C05.calcMerkle_isSome H ids hne
    cases hm : BlockCheck.calcMerkle H ids with
    | none => simp [hm] at hs
    | some p =>
      obtain ⟨root, mutated⟩ := p
      obtain ⟨s1, s2⟩ := Proofs.C05.calcMerkle_spec H ids root mutated hm
      simp only [Bool.and_eq_true, Bool.not_eq_eq_eq_not, Bool.not_true, beq_iff_eq]
      constructor
      · rintro ⟨hmu, hroot⟩
        refine ⟨he, by rw [s2, hroot], ?_⟩
        intro hex
        have := s1.2 hex
        rw [hmu] at this; simp at this
      · rintro ⟨_, hroot, hno⟩
        constructor
        · cases hmv : mutated with
          | false => rfl
          | true => exact absurd (s1.1 hmv) hno
        · rw [s2] at hroot; simpa using hroot

example : merkleRootMatch (fun x => x.take 32)
    (List.replicate 36 (0 : UInt8) ++ witCanonical.take 32 ++ List.replicate 12 (0 : UInt8) ++ [1] ++ witCanonical) = true := by
  decide +kernel

/-! ### one `btc.Block` OBJECT through a history of calls (Model/WireBlockObj.lean)

The Go object is stateful: `BuildTxListExt` re-uses `TxCount/TxOffset` when `TxCount ≠ 0`, `UpdateContent` replaces
`Raw`, the client resets the fields by hand when a block turned out corrupt. The theorems below say that none of this
history reaches the result of a build: it is the pure decode of the bytes the object holds at that moment. -/

/-- **block_object_history_independent.** Take `btc.NewBlock(data)` (at least a header) and ANY sequence `ops` of
    `UpdateContent(d)`, `BuildTxListExt(false/true)`, `Clean()` and the client's reset (with a former `Raw`, i.e.
    ≥ 80 bytes) on that one object — whatever these calls returned (errors, recovered panics of `Clean`). Then
    `Raw` is the last content installed (`currentRaw`), and a following `BuildTxListExt(dohash)`
    * never panics,
    * returns exactly the error class of the pure decode `decodeBlockExt H dohash Raw` of the CURRENT `Raw`
      (a fresh `NewBlock(Raw)` + one `BuildTxListExt(dohash)`),
    * and, unless that is the count error (where it leaves `Txs`/`BlockWeight` as they were and `TxCount = 0`),
      leaves `TxCount`, `TxOffset`, `Txs` (transactions, their `Raw`, `Hash`, `wTxID`, `Size`, `NoWitSize`) and
      `BlockWeight` equal to those of the pure decode: nothing of an earlier content, an earlier hash-less build or
      an earlier failed build survives. -/
theorem block_object_history_independent (H : Bytes → Bytes) (data : Bytes) (hd : 80 ≤ data.length)
    (ops : List Op) (hw : ∀ op ∈ ops, op.WF) (dohash : Bool) :
    let s := run H ops (updateContent data emptyObj).1
    let r := decodeBlockExt H dohash (currentRaw ops data)
    let res := buildTxListExt H dohash s
    s.raw = currentRaw ops data ∧
    res.2 = outcomeOf r.err ∧ res.2 ≠ .panic ∧ res.2 ≠ .tooShort ∧
    (res.2 = .badCount → res.1.txCount = 0 ∧ res.1.txs = s.txs ∧ res.1.weight = s.weight) ∧
    (res.2 ≠ .badCount → res.1.txCount = r.txCount ∧ res.1.txOffset = 80 + vlenSize r.txCount ∧
        res.1.txs = some r.txs ∧ res.1.weight = r.weight) := by
  intro s r res
  have hinv : s.Inv := inv_run H ops hw _ (inv_update data emptyObj (Or.inr hd))
  have hraw : s.raw = currentRaw ops data := by
    show (run H ops (updateContent data emptyObj).1).raw = _
    rw [raw_run, raw_update]
    have : ¬ data.length < 80 := by omega
    simp [this]
  refine ⟨hraw, ?_⟩
  have := build_pure H dohash s hinv
  rw [hraw] at this
  exact this

example : ∃ (data : Bytes) (ops : List Op), 80 ≤ data.length ∧ (∀ op ∈ ops, op.WF) ∧ ops.length = 4 :=
  ⟨List.replicate 80 0, [.build false, .update (List.replicate 81 0), .discard (List.replicate 80 0), .clean],
   by decide, by intro op h; simp at h; rcases h with rfl | rfl | rfl | rfl <;> simp [Op.WF], rfl⟩

/-- a history that matters (kernel-evaluated): a two-transaction block is built without hashes, replaced by a list that
    ends inside its declared count of 5 (the build fails and leaves a partial list), reset by the client, replaced by
    the block again, cleaned; the hypotheses hold, and the following `BuildTxList()` returns `ok` with both transactions
    and the ids of the CURRENT bytes (not the zero ids of the first, hash-less build) -/
example :
    let ops : List Op := [.build false, .update (Example.hdr ++ [5] ++ Example.tx 2), .build true, .discard Example.hdr,
      .update Example.blk, .clean]
    let s := run Example.H ops (updateContent Example.blk emptyObj).1
    let res := buildTxListExt Example.H true s
    80 ≤ Example.blk.length ∧ (∀ op ∈ ops, op.WF) ∧ currentRaw ops Example.blk = Example.blk ∧
    (buildTxListExt Example.H true (run Example.H (ops.take 2) (updateContent Example.blk emptyObj).1)).2 = .txFailed ∧
    res.2 = .ok ∧ res.1.txCount = 2 ∧
    (res.1.txs.map fun l => l.map (·.ids.hash)) = some [Example.H (Example.tx 1), Example.H (Example.tx 2)] := by
  refine ⟨by decide +kernel, ?_, by decide +kernel, by decide +kernel, by decide +kernel, by decide +kernel, by decide +kernel⟩
  intro op h
  simp only [List.mem_cons, List.mem_nil_iff, or_false] at h
  rcases h with rfl | rfl | rfl | rfl | rfl | rfl <;> simp [Op.WF] <;> decide +kernel

/-- **block_object_pure_is_decodeBlock.** The pure reference of `block_object_history_independent` for
    `BuildTxList()` (`dohash = true`) IS `Wire.decodeBlock` — the function `block_weight_spec`, `block_txids_spec`
    and `merkle_root_spec` speak about; so after any history `BuildTxList()` leaves `Txs[i].Hash` = BIP141 txid of
    the i-th transaction of the CURRENT content (never the zero value of a previous hash-less build) and
    `BlockWeight` = its BIP141 weight. -/
theorem block_object_pure_is_decodeBlock (H : Bytes → Bytes) (raw : Bytes) :
    (decodeBlockExt H true raw).err = (decodeBlock H raw).err ∧
    (decodeBlockExt H true raw).txCount = (decodeBlock H raw).txCount ∧
    (decodeBlockExt H true raw).txs = (decodeBlock H raw).txs ∧
    (decodeBlockExt H true raw).weight = (decodeBlock H raw).weight :=
  decodeBlockExt_true H raw

/-- **block_object_txids_after_history.** Spelled out: any history on one object, then `BuildTxList()` that does
    not report the count error, on a content below 4 GiB: every `Txs[i].Hash` is the txid of the transaction it
    carries and `Txs[i].Raw` its BIP144 serialisation. -/
theorem block_object_txids_after_history (H : Bytes → Bytes) (data : Bytes) (hd : 80 ≤ data.length)
    (ops : List Op) (hw : ∀ op ∈ ops, op.WF) (hl : (currentRaw ops data).length < 2^32)
    (hok : (buildTxListExt H true (run H ops (updateContent data emptyObj).1)).2 ≠ .badCount) :
    ∃ txs, (buildTxListExt H true (run H ops (updateContent data emptyObj).1)).1.txs = some txs ∧
      txs.map (·.ids.hash) = txs.map (fun t => txid H t.tx) ∧
      txs.map (·.raw) = txs.map (fun t => encodeTx t.tx) := by
  obtain ⟨_, _, _, _, _, h⟩ := block_object_history_independent H data hd ops hw true
  obtain ⟨_, _, htx, _⟩ := h hok
  obtain ⟨_, _, e, _⟩ := decodeBlockExt_true H (currentRaw ops data)
  obtain ⟨b1, b2, _⟩ := block_txids_spec H (currentRaw ops data) hl
  refine ⟨_, htx, ?_, ?_⟩
  · rw [e]; exact b1
  · rw [e]; exact b2

/-- **block_object_dohash_false_same_weight.** `BuildTxListExt(false)` ("you do not need TxIDs") decodes the same
    transactions with the same `Raw`/`Size`/`NoWitSize`, reports the same error class and the same `BlockWeight` as
    `BuildTxListExt(true)`; every `Hash` it leaves is the all-zero value. -/
theorem block_object_dohash_false_same_weight (H : Bytes → Bytes) (raw : Bytes) :
    (decodeBlockExt H false raw).err = (decodeBlockExt H true raw).err ∧
    (decodeBlockExt H false raw).txCount = (decodeBlockExt H true raw).txCount ∧
    (decodeBlockExt H false raw).weight = (decodeBlockExt H true raw).weight ∧
    (decodeBlockExt H false raw).txs.map (fun t => (t.tx, t.raw, t.ids.size, t.ids.noWitSize)) =
      (decodeBlockExt H true raw).txs.map (fun t => (t.tx, t.raw, t.ids.size, t.ids.noWitSize)) ∧
    ∀ t ∈ (decodeBlockExt H false raw).txs, t.ids.hash = List.replicate 32 0 :=
  decodeBlockExt_false H raw

/-- **compactsize_accept_iff.** In ALL FOUR CompactSize ranges (1, 3, 5 and 9 bytes — any value below 2^64) the strict
    reader `btc.vlenWire` accepts a byte string exactly when it starts with what the writer (`WriteVlen` / `PutULe`,
    model `putULe`) writes for that value and at least that many bytes follow; it then returns that value and the bytes
    after the prefix. Reader and writer agree on where the ranges begin (0xfd, 2^16, 2^32) and on every byte of the
    prefix — the statement the direct sweep of `WriteVlen`/`PutULe`/`VLenSize`/`VULe` in the harness (all four ranges) and
    the transactions with one length field at 252..253 / 65535..65537 / inside the 5-byte range tie to the code. -/
theorem compactsize_accept_iff (b r : Bytes) (v : Nat) :
    vlenWire b = some (v, r) ↔ (b = putULe v ++ r ∧ v ≤ r.length ∧ v < 2^64) := by
  constructor
  · exact vlenWire_spec
  · rintro ⟨rfl, hb, hv⟩
    exact vlenWire_putULe v r hv hb

/-- the writer at the first value of each range and the last value of the previous one -/
example : putULe 252 = [0xfc] ∧ putULe 253 = [0xfd, 0xfd, 0x00] ∧ putULe 65535 = [0xfd, 0xff, 0xff] ∧
    putULe 65536 = [0xfe, 0x00, 0x00, 0x01, 0x00] ∧ putULe 0x12345678 = [0xfe, 0x78, 0x56, 0x34, 0x12] ∧
    putULe (2^32 - 1) = [0xfe, 0xff, 0xff, 0xff, 0xff] ∧ putULe (2^32) = [0xff, 0, 0, 0, 0, 1, 0, 0, 0] ∧
    putULe (2^64 - 1) = [0xff, 0xff, 0xff, 0xff, 0xff, 0xff, 0xff, 0xff, 0xff] := by decide

/-- **compactsize_sizes.** The writer's output has exactly `VLenSize` bytes — 1, 3, 5 or 9 by range — and the lax reader
    `VULe` gives back value and size on it, whatever follows (values below 2^64). -/
theorem compactsize_sizes (v : Nat) (hv : v < 2^64) (rest : Bytes) :
    (putULe v).length = vlenSize v ∧ vule (putULe v ++ rest) = (v, vlenSize v) ∧
    (vlenSize v = 1 ↔ v < 0xfd) ∧ (vlenSize v = 3 ↔ 0xfd ≤ v ∧ v < 2^16) ∧
    (vlenSize v = 5 ↔ 2^16 ≤ v ∧ v < 2^32) ∧ (vlenSize v = 9 ↔ 2^32 ≤ v) := by
  refine ⟨putULe_length v, vule_putULe v hv rest, ?_, ?_, ?_, ?_⟩ <;>
  · unfold vlenSize
    repeat' split
    all_goals omega

example : ∃ v : Nat, v < 2^64 ∧ vlenSize v = 5 := ⟨65536, by decide, by decide⟩

/-! ### the decoder inside the node: copies of a wanted block, the disk cache (Model/WireClient.lean)

The statement LISTS of the places that install a copy of a wanted block in its `btc.Block` object and that discard a
refused copy are regenerated from client/network/data.go and cblk.go on every run (`Gen/C09Client.lean`); the theorems
below are checked against whatever was generated. -/

/-- **client_statement_lists_reset.** For each of the three entry paths (`block`, `cmpctblock` complete, `blocktxn`):
    the discard branch — run on the object in ANY state — leaves `Raw` = the bare header, `TxCount = 0` ("count not
    parsed", the condition under which `BuildTxListExt` reads the count of the next `Raw`) and `Txs = nil` (the condition
    under which `PostCheckBlock` parses at all); the install place — run on such an object — leaves `Raw` = the copy with
    `(TxCount, TxOffset)` unparsed or belonging to the copy, and `Txs` still nil. Decided by evaluating an abstract
    interpretation of the generated lists, which `abs_sound` proves sound for the statement semantics. -/
theorem client_statement_lists_reset (v : Via) :
    discardOK (discardOf v) = true ∧ installOK (installOf v) = true :=
  client_lists_ok v

/-- **client_copies_exact.** A wanted block whose header `hdr` is known (`NewBlock(hdr)`), ANY sequence of copies that
    were refused and discarded — through any of the three entry paths, with any content of at least 80 bytes, whatever
    PostCheckBlock's parse made of them — and then a copy `c` (at least 81 bytes, through any entry path): the parse
    `PostCheckBlock` performs on it never panics, returns the error class of the pure decode `decodeBlock H c.data` of
    THESE bytes, and (unless that is the count error) leaves `Raw` = the copy and `TxCount`, `Txs` (with `Hash`, `wTxID`,
    `Size`, `NoWitSize` of every transaction) and `BlockWeight` equal to that decode — nothing of a refused copy
    (its transaction count, the offset behind its count field, its transactions) reaches the decode of the next one. -/
theorem client_copies_exact (H : Bytes → Bytes) (hdr : Bytes) (hh : hdr.length = 80)
    (bad : List Copy) (hb : ∀ c ∈ bad, 80 ≤ c.data.length) (c : Copy) (hc : 81 ≤ c.data.length) :
    let s := clientRun H bad (updateContent hdr emptyObj).1
    let r := decodeBlock H c.data
    let res := deliver H c s
    res.1.raw = c.data ∧ res.2 = outcomeOf r.err ∧ res.2 ≠ .panic ∧
    (res.2 ≠ .badCount → res.1.txCount = r.txCount ∧ res.1.txs = some r.txs ∧ res.1.weight = r.weight) := by
  intro s r res
  have hidle : Idle hdr s := idle_run H hdr bad hb _ (idle_new hdr hh)
  obtain ⟨h1, h2, h3, _, h5⟩ := deliver_idle H hdr c hc s hidle
  obtain ⟨e1, e2, e3, e4⟩ := decodeBlockExt_true H c.data
  refine ⟨h1, ?_, h3, ?_⟩
  · rw [h2]; exact congrArg outcomeOf e1
  · intro hne
    obtain ⟨a, _, b, d⟩ := h5 hne
    exact ⟨a.trans e2, by rw [b]; exact congrArg some e3, d.trans e4⟩

example : ∃ (hdr : Bytes) (bad : List Copy) (c : Copy), hdr.length = 80 ∧ (∀ x ∈ bad, 80 ≤ x.data.length) ∧
    81 ≤ c.data.length ∧ bad.length = 2 :=
  ⟨List.replicate 80 0, [⟨.cmpctB, List.replicate 90 1⟩, ⟨.full, List.replicate 100 2⟩], ⟨.full, List.replicate 81 3⟩,
   by decide, by intro x h; simp at h; rcases h with rfl | rfl <;> decide, by decide, rfl⟩

/-- an informative instance (kernel-evaluated, `H` = first 32 bytes): the hypotheses hold; the first refused copy is a
    complete, decodable one-transaction block (there IS something to discard), the second ends inside its list; after both
    the object is the bare header with nothing parsed; the two-transaction block is then parsed `ok` with the ids, the
    count and the weight of ITS bytes — the non-count-error branch of the conclusion -/
example :
    let s0 := (updateContent Example.hdr emptyObj).1
    let s := clientRun Example.H Example.bad s0
    let res := deliver Example.H ⟨.cmpctA, Example.blk⟩ s
    Example.hdr.length = 80 ∧ (∀ x ∈ Example.bad, 80 ≤ x.data.length) ∧ 81 ≤ Example.blk.length ∧
    (deliver Example.H Example.bad[0] s0).2 = .ok ∧ (deliver Example.H Example.bad[0] s0).1.txCount = 1 ∧
    (deliver Example.H Example.bad[1] (refusedCopy Example.H Example.bad[0] s0)).2 = .txFailed ∧
    s.raw = Example.hdr ∧ s.txCount = 0 ∧ s.txs = none ∧
    res.2 = .ok ∧ res.2 ≠ .badCount ∧ res.1.txCount = 2 ∧ res.1.raw = Example.blk ∧
    (res.1.txs.map fun l => l.map (·.ids.hash)) = some [Example.H (Example.tx 1), Example.H (Example.tx 2)] ∧
    res.1.weight = (decodeBlock Example.H Example.blk).weight ∧ res.1.weight = 4 * (81 + 60 + 60) := by decide +kernel

/-- **disk_cache_exact.** `get_block_from_disk_cache` (client/main.go; block file content `d`, side file content `h`,
    `none` = no side file) for a 32-byte hash function: when the side file is missing, is exactly what netBlockReceived
    writes for the block (`hashesFile` of the block decoded with hashing), or has ANY OTHER LENGTH than that (cut short
    at any point by a failed write, empty, or too long), the function panics exactly when the block file does not decode
    completely, and otherwise returns a block whose `TxCount`, `Txs` (`Hash`, `wTxID`, `Size`, `NoWitSize` of every
    transaction) and `BlockWeight` are those of `decodeBlock H d` — `Txs[i].Hash` is the txid, never the zero value of the
    hash-less parse. (A side file of the right length with other CONTENT is outside the statement: the disk is trusted
    to return what was written or a prefix of it.) -/
theorem disk_cache_exact (H : Bytes → Bytes) (hH : ∀ b, (H b).length = 32) (d : Bytes) (h : Option Bytes)
    (hh : ∀ x, h = some x → x = hashesFile (decodeBlock H d).txs ∨ x.length ≠ (hashesFile (decodeBlock H d).txs).length) :
    match diskCacheGet H (some d) h with
    | none => (decodeBlock H d).err ≠ none
    | some s => (decodeBlock H d).err = none ∧ s.raw = d ∧ s.txCount = (decodeBlock H d).txCount ∧
        s.txs = some (decodeBlock H d).txs ∧ s.weight = (decodeBlock H d).weight :=
  disk_cache_get_spec H hH d h hh

example : ∃ (H : Bytes → Bytes) (d : Bytes) (h : Option Bytes), (∀ b, (H b).length = 32) ∧
    (∀ x, h = some x → x = hashesFile (decodeBlock H d).txs ∨ x.length ≠ (hashesFile (decodeBlock H d).txs).length) ∧
    h ≠ none :=
  ⟨fun _ => List.replicate 32 0, [], some [1], by intro b; simp, by
    intro x hx
    cases hx
    right
    simp [decodeBlock, hashesFile], by simp⟩

/-- the restore branch and its neighbours on a real block (kernel-evaluated, `H` = first 32 bytes, a 32-byte hash): with
    (i) the complete 64-byte side file, (ii) that file minus its last byte (the class fixed in /repo 06ce6a22), (iii) an
    empty one, (iv) none, `get_block_from_disk_cache` returns TxCount 2 and `Txs` equal — ids, sizes, raw bytes — to
    `decodeBlock`, the last `Hash` being the non-zero id; every one of these side files satisfies the hypothesis of
    `disk_cache_exact`; a block file cut inside its last transaction is a loud failure -/
example :
    (∀ b, (Example.H b).length = 32) ∧
    (hashesFile (decodeBlock Example.H Example.blk).txs).length = 64 ∧
    (∀ h ∈ [some Example.side, some Example.side.dropLast, some [], none], ∀ x, h = some x →
      x = hashesFile (decodeBlock Example.H Example.blk).txs ∨
      x.length ≠ (hashesFile (decodeBlock Example.H Example.blk).txs).length) ∧
    Example.got (some Example.side) = some (2, some [Example.H (Example.tx 1), Example.H (Example.tx 2)], true) ∧
    Example.got (some Example.side.dropLast) = some (2, some [Example.H (Example.tx 1), Example.H (Example.tx 2)], true) ∧
    Example.got (some []) = some (2, some [Example.H (Example.tx 1), Example.H (Example.tx 2)], true) ∧
    Example.got none = some (2, some [Example.H (Example.tx 1), Example.H (Example.tx 2)], true) ∧
    Example.H (Example.tx 2) ≠ List.replicate 32 0 ∧
    diskCacheGet Example.H (some Example.blk.dropLast) (some Example.side) = none := by
  refine ⟨by intro b; simp [Example.H], by decide +kernel, ?_, by decide +kernel, by decide +kernel, by decide +kernel,
    by decide +kernel, by decide +kernel, by decide +kernel⟩
  intro h hh x hx
  simp only [List.mem_cons, List.mem_nil_iff, or_false] at hh
  rcases hh with rfl | rfl | rfl | rfl
  · exact Or.inl (Option.some.inj hx).symm
  · right; rw [← Option.some.inj hx]; decide +kernel
  · right; rw [← Option.some.inj hx]; decide +kernel
  · exact absurd hx (by simp)

-- OPEN: alloc_bounded_runtime — the bound is about the bytes REQUESTED (`Wire.allocTx`, proved above for every input);
--   what the Go runtime adds (size-class rounding ≤ 2×, the panic value of a failed slice expression, `println`) is
--   not modelled: the harness checks `allocTx ≤ measured ≤ 2·allocTx + 2048` (runtime.MemStats) on every exactly
--   measured case and a 3 GiB address-space limit in a child process on all of them. Block level
--   (`make([]*Tx, TxCount)` + per-transaction NewTx) is guarded by the same `vlenWire` bound; no Lean theorem.
-- OPEN: accepts_iff_core — `accepts_iff_spec` characterises the accept set as {serialisations of WF transactions};
--   that `Tx.WF` + BIP144 serialisation IS Bitcoin Core's accept set (up to Core's MAX_SIZE = 32 MiB limit on a single
--   CompactSize, which gocoin replaces by "≤ bytes left") is established by the harness's independent Core-style
--   reference parser on every case, not by a Lean model of Core's UnserializeTransaction.

end GocoinV.Props.C09
