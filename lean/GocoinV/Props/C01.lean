/-
  Props.C01 — property theorems for C01 (script verification accepts exactly what Bitcoin consensus accepts).
  Theorems ONLY; helper lemmas live in GocoinV/Proofs/C01*.lean. Every theorem is about the definitions the
  oracle executes and the harness compares with the Go code (Model/Script*.lean) and the reference semantics
  (Spec/Script.lean). `TotalOracles` = every total instance of the cryptography.
-/
import GocoinV.Proofs.C01Decode
import GocoinV.Proofs.C01Num
import GocoinV.Proofs.C01Ops
import GocoinV.Proofs.C01NoPanic
namespace GocoinV.Props.C01
open GocoinV GocoinV.Script GocoinV.Proofs.C01

/-! ## (i) interleaved decoding ≡ pre-parsing -/

/-- `btc.GetOpcode` and the spec's `GetScriptOp` fail on exactly the same byte strings (including every
    truncated push), and otherwise agree on opcode, push data and on where the next instruction starts;
    a decoded instruction always consumes between 1 and len(b) bytes (the loops terminate). -/
theorem getOpcode_eq_parse (b : Bytes) :
    match getOpcode b, ScriptSpec.parseOne b with
    | none, none => True
    | some op, some i =>
        i.op = op.opcode ∧ i.data = op.push.getD [] ∧ i.after = b.drop op.n ∧
        (op.push.isSome = decide (op.opcode ≤ 0x4e)) ∧ 1 ≤ op.n ∧ op.n ≤ b.length
    | _, _ => False :=
  getOpcode_parseOne b

/-- `btc.IsPushOnly` (decode while scanning, stop at the first error) is `CScript::IsPushOnly` of the parsed script. -/
theorem isPushOnly_eq_spec (s : Bytes) : isPushOnly s = ScriptSpec.isPushOnly s := by
  unfold isPushOnly ScriptSpec.isPushOnly ScriptSpec.parse
  rw [isPushOnlyAux_eq]

/-- The OP_SUCCESSx pre-scan of `ExecuteWitnessScript`: an OP_SUCCESS before any decode error wins, a decode
    error before any OP_SUCCESS loses, exactly as scanning the parsed instruction list says (BIP342). -/
theorem opSuccessScan_eq_spec (s : Bytes) :
    opSuccessScan s.length s =
      (match ScriptSpec.scanOpSuccess (ScriptSpec.parse s).1 (ScriptSpec.parse s).2 with
       | some true => ScanRes.opSuccess
       | some false => ScanRes.decodeError
       | none => ScanRes.clean) := by
  unfold ScriptSpec.parse
  exact opSuccessScan_eq s.length s

/-! ## (ii) script numbers -/

/-- `bts2int`: panics above 4 bytes, otherwise returns CScriptNum's value of the bytes. -/
theorem bts2int_eq_scriptnum (d : Bytes) :
    bts2int d = if d.length > 4 then Res.panic else Res.ok (ScriptSpec.ScriptNum.decode d) := by
  unfold bts2int nMaxNumSize
  rw [numOfBytes_eq_decode]

/-- `bts2int_ext(d, max, forcemin)` = CScriptNum(d, forcemin, max): a panic exactly where Core throws. -/
theorem bts2intExt_eq_scriptnum (d : Bytes) (mx : Nat) (fm : Bool) :
    bts2intExt d mx fm =
      match ScriptSpec.ScriptNum.read d fm mx with
      | Except.ok v => Res.ok v
      | Except.error _ => Res.panic := by
  unfold bts2intExt ScriptSpec.ScriptNum.read
  rw [numOfBytes_eq_decode, isMinimal_eq]
  by_cases h1 : d.length > mx
  · simp [h1, throw, throwThe, MonadExceptOf.throw]
  · by_cases h2 : d.length = 0
    · have : d = [] := List.eq_nil_of_length_eq_zero h2
      subst this
      simp [ScriptSpec.ScriptNum.minimal, ScriptSpec.ScriptNum.decode, pure, Except.pure]
    · by_cases h3 : (fm && !ScriptSpec.ScriptNum.minimal d) = true
      · simp [h1, h2, h3, throw, throwThe, MonadExceptOf.throw]
      · simp [h1, h2, h3, pure, Except.pure]

/-- `is_minimal` is Core's minimal-encoding rule. -/
theorem isMinimal_eq_core (d : Bytes) : isMinimal d = ScriptSpec.ScriptNum.minimal d := isMinimal_eq d

/-- `bts2bool` is Core's `CastToBool` (negative zero is false). -/
theorem bts2bool_eq_castToBool (d : Bytes) : bts2bool d = ScriptSpec.castToBool d := bts2bool_eq d

/-- `pushInt` pushes `CScriptNum::serialize(v)` for every value an int64 can hold. -/
theorem pushInt_eq_serialize (v : Int) (hv : v.natAbs < 2 ^ 63) : intBytes v = ScriptSpec.ScriptNum.encode v :=
  intBytes_eq_encode v (by have : (2:Nat) ^ 63 < 256 ^ 9 := by decide
                           omega)

/-- `bts2int ∘ pushInt = id`: reading back what `pushInt` pushed gives the number (no length check involved). -/
theorem numOfBytes_pushInt (v : Int) (hv : v.natAbs < 2 ^ 63) : numOfBytes (intBytes v) = v := by
  rw [numOfBytes_eq_decode, pushInt_eq_serialize v hv, decode_encode]

/-- Core's round trip, for every integer. -/
theorem scriptnum_decode_encode (v : Int) : ScriptSpec.ScriptNum.decode (ScriptSpec.ScriptNum.encode v) = v := decode_encode v

/-! ## (iii) where a panic can escape -/

/-- `evalScript` never panics: every run-time panic of the interpreter loop (pop on an empty stack, a number
    longer than 4 bytes, unbalanced ELSE/ENDIF, index out of range) is turned into `false` by its `recover()`. -/
theorem no_panic_escapes_eval (O : Oracles) (tx : TxCtx) (flags : Nat) (p : Bytes) (stack : Stack)
    (sv : SigVersion) (ed : ExecData) : evalScript O tx flags p stack sv ed ≠ .panic := by
  unfold evalScript
  split
  · simp
  · generalize (do
      let c : Ctx := ⟨O, tx, flags, sv, p⟩
      let st ← evalLoop c p.length p 0 { stack := stack, ed := { ed with codesepPos := 0xFFFFFFFF } }
      if st.exe.length > 0 then Res.fail else pure st.stack : Res Stack) = r
    cases r <;> simp [recoverPanic]

/-- The only unprotected `stack.pop()` of `VerifyTxScript` (P2SH branch) cannot hit an empty stack: a P2SH
    scriptPubKey evaluated on the empty stack returns false, so verification has already returned. -/
theorem p2sh_pop_never_reached_empty (O : Oracles) (tx : TxCtx) (flags : Nat) (pk : Bytes) (ed : ExecData)
    (h : isPayToScript pk = true) : evalScript O tx flags pk [] .base ed = .fail :=
  p2sh_on_empty_stack_fails O tx flags pk ed h

/-- "Evaluation always terminates with a verdict instead of crashing": for every flag set that satisfies Core's
    flag dependencies, every scriptSig / scriptPubKey / witness / transaction context and EVERY instance of the
    cryptography (even a partial one), `VerifyTxScript` does not panic. (Termination is by construction: every
    loop of the model is structurally recursive on fuel = script length.) -/
theorem verifyTxScript_never_panics (O : Oracles) (tx : TxCtx) (pk : Bytes) (flags : Nat)
    (hf : ScriptSpec.FlagsOk (ScriptSpec.Flags.ofMask flags)) : verifyTxScript O tx pk flags ≠ .panic :=
  NP_verifyTxScript O tx pk flags hf

/-- non-vacuity: the consensus flag set P2SH|DERSIG|NULLDUMMY|CLTV|CSV|WITNESS|TAPROOT is FlagsOk -/
example : ScriptSpec.FlagsOk (ScriptSpec.Flags.ofMask (VER_P2SH ||| VER_DERSIG ||| VER_NULLDUMMY ||| VER_CLTV ||| VER_CSV ||| VER_WITNESS ||| VER_TAPROOT)) := by
  decide

/-- `VerifyWitnessProgram` (and with it ExecuteWitnessScript, CheckSchnorrSignature, VerifyTaprootCommitment)
    never panics, for any witness stack, version, program and flags. -/
theorem verifyWitnessProgram_never_panics (O : Oracles) (tx : TxCtx) (witness : List Bytes) (ver : Nat) (prog : Bytes)
    (flags : Nat) (isP2sh : Bool) : verifyWitnessProgram O tx witness ver prog flags isP2sh ≠ .panic :=
  NP_verifyWitnessProgram O tx witness ver prog flags isP2sh

/-! ## (iv) limits -/

/-- 10000-byte limit: a longer script fails at once under base and witness-v0 rules (not under tapscript). -/
theorem limit_script_size (O : Oracles) (tx : TxCtx) (flags : Nat) (p : Bytes) (stack : Stack) (sv : SigVersion)
    (ed : ExecData) (hsv : sv = .base ∨ sv = .witnessV0) (hlen : p.length > 10000) :
    evalScript O tx flags p stack sv ed = .fail := by
  unfold evalScript MAX_SCRIPT_SIZE
  rcases hsv with h | h <;> simp [h, hlen]

/-- 520-byte limit: an instruction whose push data exceeds 520 bytes fails, executed or not. -/
theorem limit_push_size (c : Ctx) (st : St) (op : Op) (idx pos : Nat) (pv : Bytes)
    (hp : op.push = some pv) (hlen : pv.length > 520) : stepAt c st op idx pos = .fail := by
  unfold stepAt MAX_SCRIPT_ELEMENT_SIZE
  simp [hp, hlen]

/-- 201-operation limit: under base / witness-v0 rules the 202nd counted opcode (> OP_16) fails, executed or not. -/
theorem limit_op_count (c : Ctx) (st : St) (op : Op) (idx pos : Nat)
    (hsv : c.sv = .base ∨ c.sv = .witnessV0) (hop : op.opcode > 0x60) (hcnt : st.opcnt ≥ 201) :
    stepAt c st op idx pos = .fail := by
  unfold stepAt MAX_OPS
  have h1 : ((c.sv == SigVersion.base || c.sv == SigVersion.witnessV0) && decide (op.opcode > 0x60)) = true := by
    rcases hsv with h | h <;> simp [h, hop]
  split
  · rfl
  · simp only [h1, ↓reduceIte]
    have : st.opcnt + 1 > 201 := by omega
    simp [this]

/-- 1000-element limit: whatever an instruction does, it only succeeds with at most 1000 elements on stack
    plus altstack. -/
theorem limit_stack_size (c : Ctx) (st st' : St) (op : Op) (idx pos : Nat)
    (h : stepAt c st op idx pos = .ok st') : st'.stack.length + st'.alt.length ≤ 1000 := by
  have key : ∀ (X : Res St), (X >>= fun s => if s.stack.length + s.alt.length > 1000 then Res.fail else pure s) = .ok st' →
      st'.stack.length + st'.alt.length ≤ 1000 := by
    intro X hx
    cases X with
    | ok a =>
      simp only [Res.ok_bind] at hx
      split at hx
      · simp at hx
      · simp only [Res.pure_eq, Res.ok.injEq] at hx; subst hx; omega
    | fail => simp at hx
    | panic => simp at hx
    | need q => simp at hx
  unfold stepAt at h
  dsimp only at h
  repeat' (split at h)
  all_goals first | (simp at h; done) | exact key _ h

/-! ## (v) step / script equivalence between model and reference semantics

`provedOp`: every push opcode 0x00–0x4e (all four push forms, with the MINIMALDATA rule), OP_1NEGATE, OP_1…OP_16,
OP_NOP, OP_VERIFY, OP_RETURN, OP_TOALTSTACK, OP_FROMALTSTACK, OP_2DROP, OP_2DUP, OP_3DUP, OP_2OVER, OP_2ROT, OP_2SWAP,
OP_IFDUP, OP_DROP, OP_DUP, OP_NIP, OP_OVER, OP_ROT, OP_SWAP, OP_TUCK, OP_EQUAL, OP_EQUALVERIFY, OP_RIPEMD160, OP_SHA1,
OP_SHA256, OP_HASH160, OP_HASH256, OP_NOP1, OP_NOP4…OP_NOP10 — plus, inside the frame lemma, the checks that apply
to EVERY opcode (520-byte push size, 201-op count, disabled opcodes, CONST_SCRIPTCODE's OP_CODESEPARATOR rule,
1000-element stack limit). -/

/-- One interpreter iteration: for a proved opcode, the model's loop body (after `GetOpcode`) and the spec's
    `execInstr` on the corresponding parsed instruction either both fail, or both succeed in related states
    (same stack, altstack, op count, script code, codeseparator position, sigop budget). All flag sets, all
    signature versions, every total instance of the cryptography. -/
theorem step_equiv_partial (T : TotalOracles) (c : Ctx) (hO : c.O = T.toOracles) (leaf : Bytes) (annex : Option Bytes)
    (st : St) (s : ScriptSpec.State) (op : Op) (i : ScriptSpec.Instr) (idx pos : Nat)
    (hop : i.op = op.opcode) (hdata : i.data = op.push.getD []) (hR : Rel c st s) (hp : provedOp i.op = true) :
    Agree c (stepAt c st op idx pos) (ScriptSpec.execInstr (envOf T c leaf annex) s i pos) :=
  stepAt_agree T c hO leaf annex st s op i idx pos hop hdata hR hp

/-- The checks made for EVERY opcode (push size, op count, disabled opcodes, CONST_SCRIPTCODE, pushes incl.
    MINIMALDATA, final stack-size check) agree between model and spec, whatever the opcode-specific parts do —
    so each remaining opcode only needs its `execOp`/`execOpcode` case. -/
theorem step_frame_equiv (T : TotalOracles) (c : Ctx) (hO : c.O = T.toOracles) (leaf : Bytes) (annex : Option Bytes)
    (st : St) (s : ScriptSpec.State) (op : Op) (i : ScriptSpec.Instr) (idx pos : Nat)
    (hop : i.op = op.opcode) (hdata : i.data = op.push.getD []) (hR : Rel c st s)
    (H : op.opcode > 0x4e → ∀ st1 s1, Rel c st1 s1 →
        Agree c (execOp c st1 op.opcode idx pos true) (ScriptSpec.execOpcode (envOf T c leaf annex) s1 i true pos)) :
    Agree c (stepAt c st op idx pos) (ScriptSpec.execInstr (envOf T c leaf annex) s i pos) :=
  stepAt_frame T c hO leaf annex st s op i idx pos hop hdata hR H

/-- `evalScript` ≡ `EvalScript` on every script that consists of proved opcodes (any length, any push forms,
    truncated tail included): both return false / an error, or both return true with the SAME final stack.
    Holds for every flag set, signature version, initial stack and total crypto instance; the model never panics. -/
theorem evalScript_equiv_partial (T : TotalOracles) (tx : TxCtx) (flags : Nat) (p : Bytes) (stack : Stack)
    (sv : SigVersion) (ed : ExecData) (hall : ∀ i ∈ (ScriptSpec.parse p).1, provedOp i.op = true) :
    match evalScript T.toOracles tx flags p stack sv ed,
          ScriptSpec.evalScript (envOf T ⟨T.toOracles, tx, flags, sv, p⟩ ed.tapleafHash ed.annexHash) p stack ed.weightLeft with
    | .ok s1, .ok s2 => s1 = s2
    | .fail, .error _ => True
    | _, _ => False :=
  evalScript_agree T tx flags p stack sv ed hall

/-- non-vacuity: `OP_1 OP_DUP OP_EQUAL`, a 2-byte push, `OP_HASH160 <20 bytes> OP_EQUAL` (the P2SH template)
    and a script with a truncated push all satisfy the hypothesis of `evalScript_equiv_partial` -/
example : ∀ i ∈ (ScriptSpec.parse [0x51, 0x76, 0x87]).1, provedOp i.op = true := by decide
example : ∀ i ∈ (ScriptSpec.parse ([0xa9, 0x14] ++ List.replicate 20 7 ++ [0x87])).1, provedOp i.op = true := by decide
example : ∀ i ∈ (ScriptSpec.parse [0x02, 0xaa, 0xbb, 0x75, 0x51, 0x4c]).1, provedOp i.op = true := by decide

-- OPEN: the central theorem at full strength (DESIGN.md §6 C01):
--   theorem script_equiv (T : TotalOracles) (tx : TxCtx) (pk : Bytes) (flags : Nat)
--       (hf : ScriptSpec.FlagsOk (ScriptSpec.Flags.ofMask flags)) :
--       verifyTxScript T.toOracles tx pk flags =
--         (match ScriptSpec.verifyScript T.toOracles tx pk (ScriptSpec.Flags.ofMask flags) with
--          | .ok () => .ok () | .error _ => .fail)
-- What is missing: (a) the `execOp`/`execOpcode` cases of the opcodes outside `provedOp` — IF/NOTIF/ELSE/ENDIF
-- (needs the list ↔ counter condition-stack relation in `Rel`), DEPTH/SIZE/PICK/ROLL and the arithmetic group
-- (popInt ↔ CScriptNum: `bts2int_eq_scriptnum`, `isMinimal_eq_core`, `pushInt_eq_serialize` are the lemmas they
-- need), CLTV/CSV (`bts2intExt_eq_scriptnum`), CODESEPARATOR, CHECKSIG(VERIFY/ADD) and CHECKMULTISIG(VERIFY)
-- (delSig vs FindAndDelete, cursor arithmetic vs list form) — each plugs into `step_frame_equiv`;
-- (b) the wrappers VerifyTxScript / VerifyWitnessProgram / ExecuteWitnessScript / VerifyTaprootCommitment
-- (straight-line code; `isPushOnly_eq_spec`, `opSuccessScan_eq_spec` are their decode parts).
-- Until then every opcode and the wrappers are covered by the differential run (implementation vs model vs spec).

end GocoinV.Props.C01
