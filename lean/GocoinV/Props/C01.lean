/-
  Props.C01 — property theorems for C01 (script verification accepts exactly what Bitcoin consensus accepts).
  Theorems ONLY; helper lemmas live in GocoinV/Proofs/C01*.lean. Every theorem is about the definitions the
  oracle executes and the harness compares with the Go code (Model/Script*.lean) and the reference semantics
  (Spec/Script.lean). `TotalOracles` = every total instance of the cryptography.
-/
import GocoinV.Proofs.C01Decode
import GocoinV.Proofs.C01Num
import GocoinV.Proofs.C01Ops
import GocoinV.Proofs.C01NoPanic
import GocoinV.Proofs.C01Loop
import GocoinV.Proofs.C01Wrap
import GocoinV.Proofs.C01SigRef
import GocoinV.Base.Sha256
namespace GocoinV.Props.C01
open GocoinV GocoinV.Script GocoinV.Proofs.C01

/-! ## (i) interleaved decoding ≡ pre-parsing -/

/-- `btc.GetOpcode` and the spec's `GetScriptOp` fail on exactly the same byte strings (including every
    truncated push), and otherwise agree on opcode, push data and on where the next instruction starts;
    a decoded instruction always consumes between 1 and len(b) bytes (the loops terminate). -/
theorem getOpcode_eq_parse (b : Bytes) :
    match getOpcode b, ScriptSpec.parseOne b with
    | none, none => True
    | some op, some i =>
        i.op = op.opcode ∧ i.data = op.push.getD [] ∧ i.after = b.drop op.n ∧
        (op.push.isSome = decide (op.opcode ≤ 0x4e)) ∧ 1 ≤ op.n ∧ op.n ≤ b.length
    | _, _ => False :=
  getOpcode_parseOne b

/-- `btc.IsPushOnly` (decode while scanning, stop at the first error) is `CScript::IsPushOnly` of the parsed script. -/
theorem isPushOnly_eq_spec (s : Bytes) : isPushOnly s = ScriptSpec.isPushOnly s := by
  unfold isPushOnly ScriptSpec.isPushOnly ScriptSpec.parse
  rw [isPushOnlyAux_eq]

/-- The OP_SUCCESSx pre-scan of `ExecuteWitnessScript`: an OP_SUCCESS before any decode error wins, a decode
    error before any OP_SUCCESS loses, exactly as scanning the parsed instruction list says (BIP342). -/
theorem opSuccessScan_eq_spec (s : Bytes) :
    opSuccessScan s.length s =
      (match ScriptSpec.scanOpSuccess (ScriptSpec.parse s).1 (ScriptSpec.parse s).2 with
       | some true => ScanRes.opSuccess
       | some false => ScanRes.decodeError
       | none => ScanRes.clean) := by
  unfold ScriptSpec.parse
  exact opSuccessScan_eq s.length s

/-! ## (ii) script numbers -/

/-- `bts2int`: panics above 4 bytes, otherwise returns CScriptNum's value of the bytes. -/
theorem bts2int_eq_scriptnum (d : Bytes) :
    bts2int d = if d.length > 4 then Res.panic else Res.ok (ScriptSpec.ScriptNum.decode d) := by
  unfold bts2int nMaxNumSize
  rw [numOfBytes_eq_decode]

/-- `bts2int_ext(d, max, forcemin)` = CScriptNum(d, forcemin, max): a panic exactly where Core throws. -/
theorem bts2intExt_eq_scriptnum (d : Bytes) (mx : Nat) (fm : Bool) :
    bts2intExt d mx fm =
      match ScriptSpec.ScriptNum.read d fm mx with
      | Except.ok v => Res.ok v
      | Except.error _ => Res.panic :=
  bts2intExt_eq d mx fm

/-- `is_minimal` is Core's minimal-encoding rule. -/
theorem isMinimal_eq_core (d : Bytes) : isMinimal d = ScriptSpec.ScriptNum.minimal d := isMinimal_eq d

/-- `bts2bool` is Core's `CastToBool` (negative zero is false). -/
theorem bts2bool_eq_castToBool (d : Bytes) : bts2bool d = ScriptSpec.castToBool d := bts2bool_eq d

/-- `pushInt` pushes `CScriptNum::serialize(v)`, for every integer. -/
theorem pushInt_eq_serialize (v : Int) : intBytes v = ScriptSpec.ScriptNum.encode v :=
  intBytes_eq_encode v

/-- `bts2int ∘ pushInt = id`: reading back what `pushInt` pushed gives the number (no length check involved). -/
theorem numOfBytes_pushInt (v : Int) : numOfBytes (intBytes v) = v := by
  rw [numOfBytes_eq_decode, pushInt_eq_serialize v, decode_encode]

/-- Core's round trip, for every integer. -/
theorem scriptnum_decode_encode (v : Int) : ScriptSpec.ScriptNum.decode (ScriptSpec.ScriptNum.encode v) = v := decode_encode v

/-! ## (iii) where a panic can escape -/

/-- `evalScript` never panics: every run-time panic of the interpreter loop (pop on an empty stack, a number
    longer than 4 bytes, unbalanced ELSE/ENDIF, index out of range) is turned into `false` by its `recover()`. -/
theorem no_panic_escapes_eval (O : Oracles) (tx : TxCtx) (flags : Nat) (p : Bytes) (stack : Stack)
    (sv : SigVersion) (ed : ExecData) : evalScript O tx flags p stack sv ed ≠ .panic := by
  unfold evalScript
  split
  · simp
  · generalize (do
      let c : Ctx := ⟨O, tx, flags, sv, p⟩
      let st ← evalLoop c p.length p 0 { stack := stack, ed := { ed with codesepPos := 0xFFFFFFFF } }
      if st.exe.length > 0 then Res.fail else pure st.stack : Res Stack) = r
    cases r <;> simp [recoverPanic]

/-- The only unprotected `stack.pop()` of `VerifyTxScript` (P2SH branch) cannot hit an empty stack: a P2SH
    scriptPubKey evaluated on the empty stack returns false, so verification has already returned. -/
theorem p2sh_pop_never_reached_empty (O : Oracles) (tx : TxCtx) (flags : Nat) (pk : Bytes) (ed : ExecData)
    (h : isPayToScript pk = true) : evalScript O tx flags pk [] .base ed = .fail :=
  p2sh_on_empty_stack_fails O tx flags pk ed h

/-- "Evaluation always terminates with a verdict instead of crashing": for every flag set that satisfies Core's
    flag dependencies, every scriptSig / scriptPubKey / witness / transaction context and EVERY instance of the
    cryptography (even a partial one), `VerifyTxScript` does not panic. (Termination is by construction: every
    loop of the model is structurally recursive on fuel = script length.) -/
theorem verifyTxScript_never_panics (O : Oracles) (tx : TxCtx) (pk : Bytes) (flags : Nat)
    (hf : ScriptSpec.FlagsOk (ScriptSpec.Flags.ofMask flags)) : verifyTxScript O tx pk flags ≠ .panic :=
  NP_verifyTxScript O tx pk flags hf

/-- non-vacuity: the consensus flag set P2SH|DERSIG|NULLDUMMY|CLTV|CSV|WITNESS|TAPROOT is FlagsOk -/
example : ScriptSpec.FlagsOk (ScriptSpec.Flags.ofMask (VER_P2SH ||| VER_DERSIG ||| VER_NULLDUMMY ||| VER_CLTV ||| VER_CSV ||| VER_WITNESS ||| VER_TAPROOT)) := by
  decide

/-- `VerifyWitnessProgram` (and with it ExecuteWitnessScript, CheckSchnorrSignature, VerifyTaprootCommitment)
    never panics, for any witness stack, version, program and flags. -/
theorem verifyWitnessProgram_never_panics (O : Oracles) (tx : TxCtx) (witness : List Bytes) (ver : Nat) (prog : Bytes)
    (flags : Nat) (isP2sh : Bool) : verifyWitnessProgram O tx witness ver prog flags isP2sh ≠ .panic :=
  NP_verifyWitnessProgram O tx witness ver prog flags isP2sh

/-! ## (iv) limits -/

/-- 10000-byte limit: a longer script fails at once under base and witness-v0 rules (not under tapscript). -/
theorem limit_script_size (O : Oracles) (tx : TxCtx) (flags : Nat) (p : Bytes) (stack : Stack) (sv : SigVersion)
    (ed : ExecData) (hsv : sv = .base ∨ sv = .witnessV0) (hlen : p.length > 10000) :
    evalScript O tx flags p stack sv ed = .fail := by
  unfold evalScript MAX_SCRIPT_SIZE
  rcases hsv with h | h <;> simp [h, hlen]

/-- 520-byte limit: an instruction whose push data exceeds 520 bytes fails, executed or not. -/
theorem limit_push_size (c : Ctx) (st : St) (op : Op) (idx pos : Nat) (pv : Bytes)
    (hp : op.push = some pv) (hlen : pv.length > 520) : stepAt c st op idx pos = .fail := by
  unfold stepAt MAX_SCRIPT_ELEMENT_SIZE
  simp [hp, hlen]

/-- 201-operation limit: under base / witness-v0 rules the 202nd counted opcode (> OP_16) fails, executed or not. -/
theorem limit_op_count (c : Ctx) (st : St) (op : Op) (idx pos : Nat)
    (hsv : c.sv = .base ∨ c.sv = .witnessV0) (hop : op.opcode > 0x60) (hcnt : st.opcnt ≥ 201) :
    stepAt c st op idx pos = .fail := by
  unfold stepAt MAX_OPS
  have h1 : ((c.sv == SigVersion.base || c.sv == SigVersion.witnessV0) && decide (op.opcode > 0x60)) = true := by
    rcases hsv with h | h <;> simp [h, hop]
  split
  · rfl
  · simp only [h1, ↓reduceIte]
    have : st.opcnt + 1 > 201 := by omega
    simp [this]

/-- 1000-element limit: whatever an instruction does, it only succeeds with at most 1000 elements on stack
    plus altstack. -/
theorem limit_stack_size (c : Ctx) (st st' : St) (op : Op) (idx pos : Nat)
    (h : stepAt c st op idx pos = .ok st') : st'.stack.length + st'.alt.length ≤ 1000 := by
  have key : ∀ (X : Res St), (X >>= fun s => if s.stack.length + s.alt.length > 1000 then Res.fail else pure s) = .ok st' →
      st'.stack.length + st'.alt.length ≤ 1000 := by
    intro X hx
    cases X with
    | ok a =>
      simp only [Res.ok_bind] at hx
      split at hx
      · simp at hx
      · simp only [Res.pure_eq, Res.ok.injEq] at hx; subst hx; omega
    | fail => simp at hx
    | panic => simp at hx
    | need q => simp at hx
  unfold stepAt at h
  dsimp only at h
  repeat' (split at h)
  all_goals first | (simp at h; done) | exact key _ h

/-! ## (v) step / script equivalence between model and reference semantics — EVERY opcode

Side conditions (explicit hypotheses, both about things outside lib/script):
  * `TapSigHashOk T tx` — the taproot signature-hash oracle answers "no digest" (nil, modelled as the empty string)
    exactly where BIP341 defines none (undefined hash type; SIGHASH_SINGLE without a matching output). This is
    property C02's statement about `Tx.TaprootSigHash`; script verification turns "no digest" into "signature
    check fails" (`checkSchnorrSignature` of the model, `CheckSchnorrSignature` of the code).
  * `NopsOk flags` — DISCOURAGE_UPGRADABLE_NOPS only together with CHECKLOCKTIMEVERIFY and CHECKSEQUENCEVERIFY:
    excludes the known policy-only difference `cltv-csv-discouraged-nop` (known_findings.txt). -/

/-- One interpreter iteration, for EVERY opcode (pushes, constants, flow control with the vector ↔ counter condition
    stack, stack and numeric opcodes, hashes, CODESEPARATOR, CLTV/CSV, CHECKSIG(VERIFY/ADD), CHECKMULTISIG(VERIFY),
    reserved / disabled / unknown opcodes): the model's loop body (after `GetOpcode`) and the spec's `execInstr` on the
    corresponding parsed instruction either both fail, or both succeed in related states (same stack, altstack,
    condition stack, op count, script code, codeseparator position, sigop budget). All flag sets subject to `NopsOk`,
    all signature versions, every total instance of the cryptography subject to `TapSigHashOk`. `hidx`/`hwfa` say that
    `idx` is the offset behind the instruction; `hgood`: for the four legacy signature opcodes the script has no
    decode error (with one, `delSig` and `FindAndDelete` differ — and the script fails as a whole, see
    `evalScript_equiv`). No separate non-vacuity `example`: the whole hypothesis bundle (`Rel`, `Side`, `hidx`, `hwfa`,
    `hgood`) is constructed for EVERY script, stack and flag set inside the proof of `evalScript_equiv`
    (`evalScript_agree_all`, Proofs/C01Loop.lean), which has no such hypotheses — so it is satisfiable at every
    reachable state. -/
theorem step_equiv (T : TotalOracles) (c : Ctx) (hO : c.O = T.toOracles) (leaf : Bytes) (annex : Option Bytes)
    (st : St) (s : ScriptSpec.State) (op : Op) (i : ScriptSpec.Instr) (idx pos : Nat)
    (hop : i.op = op.opcode) (hdata : i.data = op.push.getD []) (hR : Rel c leaf annex st s) (hside : Side T c)
    (hidx : c.p.drop idx = i.after)
    (hwfa : c.sv = .base → (ScriptSpec.parse c.p).2 = false → (ScriptSpec.parse i.after).2 = false ∧ i.after.length < 2 ^ 32)
    (hgood : isSigOp i.op = true → c.sv = .base → (ScriptSpec.parse c.p).2 = false) :
    Agree c leaf annex (stepAt c st op idx pos) (ScriptSpec.execInstr (envOf T c leaf annex) s i pos) :=
  stepAt_agree_all T c hO leaf annex st s op i idx pos hop hdata hR hside hidx hwfa hgood

/-- The checks made for EVERY opcode (push size, op count, disabled opcodes, CONST_SCRIPTCODE, pushes incl.
    MINIMALDATA, executed / not executed, final stack-size check) agree between model and spec, whatever the
    opcode-specific parts do. -/
theorem step_frame_equiv (T : TotalOracles) (c : Ctx) (hO : c.O = T.toOracles) (leaf : Bytes) (annex : Option Bytes)
    (st : St) (s : ScriptSpec.State) (op : Op) (i : ScriptSpec.Instr) (idx pos : Nat)
    (hop : i.op = op.opcode) (hdata : i.data = op.push.getD []) (hR : Rel c leaf annex st s)
    (H : op.opcode > 0x4e → ∀ st1 s1, Rel c leaf annex st1 s1 →
        (st1.exe.all id = true ∨ (0x63 ≤ op.opcode ∧ op.opcode ≤ 0x68)) →
        Agree c leaf annex (execOp c st1 op.opcode idx pos (st1.exe.all id))
          (ScriptSpec.execOpcode (envOf T c leaf annex) s1 i (st1.exe.all id) pos)) :
    Agree c leaf annex (stepAt c st op idx pos) (ScriptSpec.execInstr (envOf T c leaf annex) s i pos) :=
  stepAt_frame T c hO leaf annex st s op i idx pos hop hdata hR H

/-- gocoin's `delSig` = Core's `FindAndDelete(script, CScript() << sig)` (new script code and number of deletions) on
    every script without a decode error shorter than 2^32 bytes. -/
theorem delSig_eq_findAndDelete (code sig : Bytes) (hw : (ScriptSpec.parse code).2 = false) (hL : code.length < 2 ^ 32) :
    delSig code sig = ScriptSpec.findAndDelete code (ScriptSpec.pushEncoding sig) :=
  delSig_eq code sig hw hL

/-- `evalScript` ≡ `EvalScript` on EVERY script (any opcodes, any length, any push forms, decode errors included):
    both return false / an error, or both return true with the SAME final stack. Holds for every signature version,
    initial stack, execution data, every flag set with `NopsOk` and every total crypto instance with `TapSigHashOk`. -/
theorem evalScript_equiv (T : TotalOracles) (tx : TxCtx) (flags : Nat) (p : Bytes) (stack : Stack)
    (sv : SigVersion) (ed : ExecData) (hT : TapSigHashOk T tx) (hq : NopsOk flags) :
    match ScriptSpec.evalScript (envOf T ⟨T.toOracles, tx, flags, sv, p⟩ ed.tapleafHash ed.annexHash) p stack ed.weightLeft with
    | .ok s2 => evalScript T.toOracles tx flags p stack sv ed = .ok s2
    | .error _ => evalScript T.toOracles tx flags p stack sv ed = .fail :=
  evalScript_agree_all T tx flags p stack sv ed hT hq

/-! ## (vi) the wrappers and the central theorem -/

/-- `ExecuteWitnessScript` (OP_SUCCESSx pre-scan with DISCOURAGE_OP_SUCCESS, 1000-element / 520-byte limits on the
    initial stack, evaluation, exactly-one-true-element rule) returns true exactly where the rules raise no error —
    witness v0 and tapscript, the latter with tapleaf hash, annex hash and validation-weight budget `ed.weightLeft`. -/
theorem executeWitnessScript_equiv (T : TotalOracles) (tx : TxCtx) (stack : Stack) (script : Bytes) (flags : Nat)
    (sv : SigVersion) (ed : ExecData) (hT : TapSigHashOk T tx) (hq : NopsOk flags) :
    match ScriptSpec.executeWitnessScript T.toOracles tx (ScriptSpec.Flags.ofMask flags) {} stack script sv ed.tapleafHash ed.annexHash ed.weightLeft with
    | .ok _ => executeWitnessScript T.toOracles tx stack script flags sv ed = .ok ()
    | .error _ => executeWitnessScript T.toOracles tx stack script flags sv ed = .fail :=
  executeWitnessScript_agree T tx stack script flags sv ed hT hq

/-- `VerifyWitnessProgram` ≡ the rules: v0 P2WPKH / P2WSH (program lengths, witness-script hash), v1 taproot key path
    (annex, Schnorr check with the "no digest ⇒ fail" rule) and script path (control block sizes 33+32k ≤ 4129,
    tapleaf hash, merkle path in lexicographic order, tweak check with parity, leaf version 0xc0 ⇒ tapscript with the
    validation-weight budget 50 + serialized size of the WHOLE witness — annex, control block and script included —,
    other leaf versions and DISCOURAGE_UPGRADABLE_TAPROOT_VERSION), unknown versions and
    DISCOURAGE_UPGRADABLE_WITNESS_PROGRAM, P2SH-wrapped v1 not being taproot. -/
theorem verifyWitnessProgram_equiv (T : TotalOracles) (tx : TxCtx) (witness : List Bytes) (ver : Nat) (prog : Bytes)
    (flags : Nat) (isP2sh : Bool) (hT : TapSigHashOk T tx) (hq : NopsOk flags) :
    match ScriptSpec.verifyWitnessProgram T.toOracles tx (ScriptSpec.Flags.ofMask flags) {} witness ver prog isP2sh with
    | .ok _ => verifyWitnessProgram T.toOracles tx witness ver prog flags isP2sh = .ok ()
    | .error _ => verifyWitnessProgram T.toOracles tx witness ver prog flags isP2sh = .fail :=
  verifyWitnessProgram_agree T tx witness ver prog flags isP2sh hT hq

/-- CENTRAL THEOREM (DESIGN.md §6 C01). For every spending input — any scriptSig, scriptPubKey, witness stack and
    transaction context `tx`, every flag set that satisfies Core's flag dependencies (`FlagsOk`) and `NopsOk`, and every
    total instance of the cryptography whose taproot signature hash is defined exactly where BIP341 defines it
    (`TapSigHashOk`) — the verdict of the model of `script.VerifyTxScript` IS the verdict of the Bitcoin script rules
    (`ScriptSpec.verifyScript`: legacy, P2SH, segwit v0, taproot key path and script path, tapscript): it returns true
    where the rules raise no error, false where they raise one, and never panics. -/
theorem script_equiv (T : TotalOracles) (tx : TxCtx) (pk : Bytes) (flags : Nat)
    (hf : ScriptSpec.FlagsOk (ScriptSpec.Flags.ofMask flags)) (hq : NopsOk flags) (hT : TapSigHashOk T tx) :
    verifyTxScript T.toOracles tx pk flags =
      (match ScriptSpec.verifyScript T.toOracles tx pk (ScriptSpec.Flags.ofMask flags) with
       | .ok () => .ok ()
       | .error _ => .fail) := by
  have h := verifyTxScript_agree T tx pk flags hf hq hT
  unfold UnitMatch at h
  cases hs : ScriptSpec.verifyScript T.toOracles tx pk (ScriptSpec.Flags.ofMask flags) with
  | error e => rw [hs] at h; exact h
  | ok u => rw [hs] at h; cases u; exact h

/-- "nothing is accepted that the rules reject" — the soundness direction alone -/
theorem accept_sound (T : TotalOracles) (tx : TxCtx) (pk : Bytes) (flags : Nat)
    (hf : ScriptSpec.FlagsOk (ScriptSpec.Flags.ofMask flags)) (hq : NopsOk flags) (hT : TapSigHashOk T tx)
    (hacc : verifyTxScript T.toOracles tx pk flags = .ok ()) :
    ScriptSpec.verifyScript T.toOracles tx pk (ScriptSpec.Flags.ofMask flags) = .ok () := by
  have h := script_equiv T tx pk flags hf hq hT
  rw [hacc] at h
  cases hs : ScriptSpec.verifyScript T.toOracles tx pk (ScriptSpec.Flags.ofMask flags) with
  | error e => rw [hs] at h; cases h
  | ok u => cases u; rfl

/-- non-vacuity: a crypto instance satisfying `TapSigHashOk` exists for every transaction context, and the consensus
    and the standard flag sets satisfy `NopsOk` -/
example (tx : TxCtx) : ∃ T : TotalOracles, TapSigHashOk T tx :=
  ⟨⟨id, id, id, id, id, fun _ _ => [], fun _ _ => [], fun _ _ _ ht _ => if ScriptSpec.tapHashTypeDefined tx ht then [1] else [],
    fun _ _ _ => false, fun _ _ _ => false, fun _ _ _ _ => false⟩,
   by intro a l csp ht scr; simp only; cases ScriptSpec.tapHashTypeDefined tx ht <;> simp⟩
example : NopsOk (VER_P2SH ||| VER_DERSIG ||| VER_NULLDUMMY ||| VER_CLTV ||| VER_CSV ||| VER_WITNESS ||| VER_TAPROOT) := by
  unfold NopsOk; decide
example : NopsOk (VER_P2SH ||| VER_BLOCK_OPS ||| VER_CLTV ||| VER_CSV) := by unfold NopsOk; decide

/-! ## (viii) the signature digests of the reference side -/

/-- CENTRAL THEOREM in the form the correspondence run evaluates it. The run does not hand the reference semantics the
    digests of the tree's own sighash functions: the reference computes the legacy / BIP143 / BIP341 digest of the
    spending transaction `F` from the specification's message (`SigRef.withRefSigHash`, Spec/ScriptSigRef.lean). For
    every crypto instance that answers the digest queries of this input with those digests (`SigHashIsRef` — what the
    run checks of the real functions query by query, and what property C02 proves of their model, see below), the
    verdict of the model of `script.VerifyTxScript` on the instance is the verdict of the rules on the rules' own
    digests: true where they raise no error, false where they raise one, never a panic. -/
theorem script_equiv_ref_digests (T : TotalOracles) (tx : TxCtx) (pk : Bytes) (flags : Nat) (F : SigRef.FullTx)
    (hf : ScriptSpec.FlagsOk (ScriptSpec.Flags.ofMask flags)) (hq : NopsOk flags) (hT : TapSigHashOk T tx)
    (hR : SigHashIsRef T F tx.witness) :
    verifyTxScript T.toOracles tx pk flags =
      (match ScriptSpec.verifyScript (SigRef.withRefSigHash T.toOracles F tx.witness) tx pk (ScriptSpec.Flags.ofMask flags) with
       | .ok () => .ok ()
       | .error _ => .fail) := by
  rw [withRef_eq T F tx.witness hR]
  exact script_equiv T tx pk flags hf hq hT

/-- The hypothesis `TapSigHashOk` of the central theorems is DISCHARGED for the reference digests: if every taproot
    digest the instance returns is the BIP341 reference digest of `F` (for some annex), `F` is the transaction the
    interpreter's context was cut from (same input index, same number of outputs, index in range, one spent output per
    input) and SHA-256 never returns the empty string, then the digest is absent exactly where
    `ScriptSpec.tapHashTypeDefined` says BIP341 defines none (hash type outside {0,1,2,3,0x81,0x82,0x83}, SIGHASH_SINGLE
    without a matching output). -/
theorem tapSigHashOk_of_reference (T : TotalOracles) (tx : TxCtx) (F : SigRef.FullTx) (hc : Consistent F tx)
    (hsha : ∀ b, T.sha256 b ≠ [])
    (h : ∀ a l c ht s, ∃ annex, T.sigHashTap a l c ht s = SigRef.tapDigest T.sha256 F annex l c ht s) :
    TapSigHashOk T tx := by
  intro a l csp ht scr
  obtain ⟨annex, he⟩ := h a l csp ht scr
  rw [he]
  exact tapDigest_defined T.sha256 hsha F tx hc annex l csp ht scr

/-- an instance with the reference digests of `F` (for the non-vacuity example) -/
def refInstance (T0 : TotalOracles) (F : SigRef.FullTx) (w : List Bytes) : TotalOracles :=
  { T0 with
    sigHashLegacy := fun sc ht => (SigRef.legacyDigest T0.hash256 F sc ht).getD []
    sigHashWitV0 := fun sc ht => (SigRef.witV0Digest T0.hash256 F sc ht).getD []
    sigHashTap := fun _ l c h s => SigRef.tapDigest T0.sha256 F (SigRef.annexOf w) l c h s }

/-- non-vacuity, jointly: for every consistent (F, tx) and hash function without empty outputs there is an instance
    satisfying BOTH `SigHashIsRef` and `TapSigHashOk` (the hypotheses of `script_equiv_ref_digests`) … -/
example (T0 : TotalOracles) (tx : TxCtx) (F : SigRef.FullTx) (hc : Consistent F tx) (hsha : ∀ b, T0.sha256 b ≠ []) :
    SigHashIsRef (refInstance T0 F tx.witness) F tx.witness ∧ TapSigHashOk (refInstance T0 F tx.witness) tx := by
  refine ⟨⟨?_, ?_, ?_⟩, ?_⟩
  · intro sc ht d h
    have h' : SigRef.legacyDigest T0.hash256 F sc ht = some d := h
    show (SigRef.legacyDigest T0.hash256 F sc ht).getD [] = d
    rw [h']; rfl
  · intro sc ht d h
    have h' : SigRef.witV0Digest T0.hash256 F sc ht = some d := h
    show (SigRef.witV0Digest T0.hash256 F sc ht).getD [] = d
    rw [h']; rfl
  · intro l c h s; rfl
  · exact tapSigHashOk_of_reference _ tx F hc hsha (fun a l c ht s => ⟨SigRef.annexOf tx.witness, rfl⟩)
/-- … and a consistent pair exists (two inputs, one output, second input under verification) -/
example : Consistent ⟨Props.C02.exTx, Props.C02.exSpent, 1⟩
    { version := 2, lockTime := 7, sequence := 5, idx := 1, nOuts := 1, sigScript := [], witness := [] } :=
  ⟨rfl, rfl, by decide, rfl⟩

/-- Property C02's model of `Tx.WitnessSigHash` (every cache state reachable on the transaction object) returns the
    BIP143 reference digest — for EVERY 32-bit hash type: NONE / SINGLE are selected by `hashType & 0x1f`, every other
    value hashes all sequences and all outputs. -/
theorem sighash_model_is_reference_witv0 (H : Bytes → Bytes) (F : SigRef.FullTx) (hi : F.idx < F.tx.ins.length)
    (c : SigHash.Cache) (hc : SigHash.Cache.OK H F.tx F.spent c) (sc : Bytes) (ht : Nat) :
    (SigHash.witnessSigHash H F.tx c sc F.amount F.idx ht).1.digest? = SigRef.witV0Digest (fun b => H (H b)) F sc ht :=
  c02_witV0_is_ref H F hi c hc sc ht

/-- Property C02's model of `Tx.SignatureHash` returns the reference digest of the original algorithm wherever that
    algorithm defines one (index in range, script code that decodes). -/
theorem sighash_model_is_reference_legacy (H : Bytes → Bytes) (F : SigRef.FullTx) (sc : Bytes) (ht : Nat) (d : Bytes)
    (h : SigRef.legacyDigest (fun b => H (H b)) F sc ht = some d) :
    (SigHash.signatureHash H F.tx sc F.idx ht).digest? = some d :=
  c02_legacy_is_ref H F sc ht d h

/-- Property C02's model of `Tx.TaprootSigHash` (as fixed: nil where BIP341 defines no message), called with the
    execution data the interpreter passes (annex hash, leaf hash, code separator position; key path or script path),
    returns the BIP341 reference digest, and no digest (`[]`) exactly where the reference has none. -/
theorem sighash_model_is_reference_taproot (H : Bytes → Bytes) (F : SigRef.FullTx)
    (hs : F.spent.length = F.tx.ins.length) (hi : F.idx < F.tx.ins.length) (c : SigHash.Cache)
    (hc : SigHash.Cache.OK H F.tx F.spent c) (annex : Option Bytes) (l : Bytes) (cs ht : Nat) (s : Bool) :
    ((SigHash.taprootSigHash true H F.tx F.spent c
        { annexHash := annex.map (SigRef.annexHash H), tapleafHash := l, codesepPos := cs } F.idx ht s).1.digest?).getD []
      = SigRef.tapDigest H F annex l cs ht s :=
  c02_tap_is_ref H F hs hi c hc annex l cs ht s
/-- non-vacuity: the empty cache is a reachable cache state, and the legacy reference is defined on a concrete input -/
example (H : Bytes → Bytes) (F : SigRef.FullTx) : SigHash.Cache.OK H F.tx F.spent {} := SigHash.Cache.OK_empty H F.tx F.spent
example : ∃ d, SigRef.legacyDigest (fun b => b) ⟨Props.C02.exTx, Props.C02.exSpent, 1⟩ [0x51] 3 = some d := ⟨_, rfl⟩

/-! ## (viii-b) the two properties joined: C02's model of the sighash functions as the crypto instance -/

/-- CENTRAL THEOREM WITH PROPERTY C02's MODEL OF THE TREE'S SIGHASH FUNCTIONS PLUGGED IN — neither `SigHashIsRef` nor
    `TapSigHashOk` is a hypothesis any more. Take any hash function without empty outputs, any transaction `F` that is
    the one the interpreter's context `tx` was cut from (`Consistent`), and let the three signature-digest answers be
    what C02's Lean model of `Tx.SignatureHash` / `Tx.WitnessSigHash` / `Tx.TaprootSigHash` returns on `F` (`c02Instance`:
    every query may find the per-transaction hash cache in a different state, as long as each state is one the cache can
    be in — `SigHash.Cache.OK`; nil is the empty string; the double hash is the hash applied twice). Then the model of
    `script.VerifyTxScript` on those answers gives the verdict of the rules on the rules' OWN digests: true where they
    raise no error, false where they raise one, never a panic. What remains outside is exactly the two ties: that
    lib/script behaves as its model (this property's run) and lib/btc's sighash functions as theirs (property C02's run,
    and the per-query comparison `sighash-vs-reference` here). -/
theorem script_equiv_c02_model (T0 : TotalOracles) (tx : TxCtx) (pk : Bytes) (flags : Nat) (F : SigRef.FullTx)
    (cw : Bytes → Nat → SigHash.Cache) (ct : Option Bytes → Bytes → Nat → Nat → Bool → SigHash.Cache)
    (hf : ScriptSpec.FlagsOk (ScriptSpec.Flags.ofMask flags)) (hq : NopsOk flags) (hc : Consistent F tx)
    (hsha : ∀ b, T0.sha256 b ≠ [])
    (hcw : ∀ sc ht, SigHash.Cache.OK T0.sha256 F.tx F.spent (cw sc ht))
    (hct : ∀ a l cs ht s, SigHash.Cache.OK T0.sha256 F.tx F.spent (ct a l cs ht s)) :
    verifyTxScript (c02Instance T0 F cw ct).toOracles tx pk flags =
      (match ScriptSpec.verifyScript (SigRef.withRefSigHash (c02Instance T0 F cw ct).toOracles F tx.witness) tx pk
          (ScriptSpec.Flags.ofMask flags) with
       | .ok () => .ok ()
       | .error _ => .fail) :=
  script_equiv_ref_digests _ tx pk flags F hf hq (c02Instance_tapOk T0 F tx cw ct hc hsha hct)
    (c02Instance_isRef T0 F cw ct tx.witness hc.spent hc.inRange hcw hct)

/-- a hash function without empty outputs (for the non-vacuity examples; the theorems are parametric in the hash) -/
def exT0 : TotalOracles :=
  ⟨fun _ => [0], id, id, id, id, fun _ _ => [], fun _ _ => [], fun _ _ _ _ _ => [], fun _ _ _ => false, fun _ _ _ => false,
   fun _ _ _ _ => false⟩
def exF : SigRef.FullTx := ⟨Props.C02.exTx, Props.C02.exSpent, 1⟩
def exCtx : TxCtx := { version := 2, lockTime := 7, sequence := 5, idx := 1, nOuts := 1, sigScript := [], witness := [] }

def exCw : Bytes → Nat → SigHash.Cache := fun _ _ => {}
def exCt : Option Bytes → Bytes → Nat → Nat → Bool → SigHash.Cache := fun _ _ _ _ _ => {}

/-- non-vacuity of `script_equiv_c02_model`, all hypotheses jointly on a concrete input (two inputs, one output, second
    input under verification, consensus flags, every query on the empty cache) -/
example :
    ScriptSpec.FlagsOk (ScriptSpec.Flags.ofMask (VER_P2SH ||| VER_DERSIG ||| VER_NULLDUMMY ||| VER_CLTV ||| VER_CSV ||| VER_WITNESS ||| VER_TAPROOT)) ∧
    NopsOk (VER_P2SH ||| VER_DERSIG ||| VER_NULLDUMMY ||| VER_CLTV ||| VER_CSV ||| VER_WITNESS ||| VER_TAPROOT) ∧
    Consistent exF exCtx ∧ (∀ b, exT0.sha256 b ≠ []) ∧
    (∀ sc ht, SigHash.Cache.OK exT0.sha256 exF.tx exF.spent (exCw sc ht)) ∧
    (∀ a l cs ht s, SigHash.Cache.OK exT0.sha256 exF.tx exF.spent (exCt a l cs ht s)) :=
  ⟨by decide, by unfold NopsOk; decide, ⟨rfl, rfl, by decide, rfl⟩, fun _ => by simp [exT0],
   fun _ _ => SigHash.Cache.OK_empty _ _ _, fun _ _ _ _ _ => SigHash.Cache.OK_empty _ _ _⟩

/-- non-vacuity of `tapSigHashOk_of_reference`, all hypotheses jointly and concretely (the earlier example leaves the
    hash function and the pair (F, tx) universally quantified) -/
example : Consistent exF exCtx ∧ (∀ b, exT0.sha256 b ≠ []) ∧
    (∀ a l c ht s, ∃ annex, (refInstance exT0 exF exCtx.witness).sigHashTap a l c ht s =
        SigRef.tapDigest (refInstance exT0 exF exCtx.witness).sha256 exF annex l c ht s) :=
  ⟨⟨rfl, rfl, by decide, rfl⟩, fun _ => by simp [exT0], fun _ _ _ _ _ => ⟨_, rfl⟩⟩
/-- the double hash of the instance the oracle runs (Oracle/C01.lean `mkOracles`: `hash256 := sha256d`) is SHA-256
    applied twice, the form the C02 links above are stated in -/
example : sha256d = fun b => sha256 (sha256 b) := rfl

/-! ## (ix) the words of the spending transaction that evaluation reads are UNSIGNED -/

/-- BIP68/112's version test reads the 32-bit version field as an unsigned number: `CheckSequence` (the model of
    lib/script/misc.go, and with it the reference) fails for the versions 0 and 1 and for NO other value - any two
    versions ≥ 2, in particular 2 and every value 2^31 … 2^32-1 of the field (negative if it were read as an int32),
    give the same answer for every operand, sequence and lock time. -/
theorem csv_version_is_unsigned (tx : TxCtx) (v n : Nat) (hv : 2 ≤ v) (ht : 2 ≤ tx.version) :
    checkSequence { tx with version := v } n = checkSequence tx n ∧
    checkSequence { tx with version := v } n = ScriptSpec.checkSequence tx n ∧
    (∀ tx0 : TxCtx, tx0.version < 2 → checkSequence tx0 n = false) := by
  refine ⟨?_, ?_, ?_⟩
  · unfold checkSequence
    have h1 : ¬ v < 2 := by omega
    have h2 : ¬ tx.version < 2 := by omega
    simp only [h1, h2, if_false]
  · rw [← checkSequence_eq]
    unfold checkSequence
    have h1 : ¬ v < 2 := by omega
    have h2 : ¬ tx.version < 2 := by omega
    simp only [h1, h2, if_false]
  · intro tx0 h0
    unfold checkSequence
    simp only [h0, if_true]
/-- non-vacuity, and the boundary itself: version 0x80000000 with sequence 10 satisfies `10 CSV`, version 1 does not -/
example : checkSequence { version := 0x80000000, lockTime := 0, sequence := 10, idx := 0, nOuts := 1, sigScript := [], witness := [] } 10 = true := by decide
example : checkSequence { version := 0xffffffff, lockTime := 0, sequence := 10, idx := 0, nOuts := 1, sigScript := [], witness := [] } 10 = true := by decide
example : checkSequence { version := 1, lockTime := 0, sequence := 10, idx := 0, nOuts := 1, sigScript := [], witness := [] } 10 = false := by decide

end GocoinV.Props.C01
