/-
  Props.C01 — property theorems for C01 (script verification accepts exactly what Bitcoin consensus accepts).
  Theorems ONLY; helper lemmas live in GocoinV/Proofs/C01*.lean. Every theorem is about the definitions the
  oracle executes and the harness compares with the Go code (Model/Script*.lean) and the reference semantics
  (Spec/Script.lean). `TotalOracles` = every total instance of the cryptography.
-/
import GocoinV.Proofs.C01Decode
import GocoinV.Proofs.C01Num
namespace GocoinV.Props.C01
open GocoinV GocoinV.Script GocoinV.Proofs.C01

/-! ## (i) interleaved decoding ≡ pre-parsing -/

/-- `btc.GetOpcode` and the spec's `GetScriptOp` fail on exactly the same byte strings (including every
    truncated push), and otherwise agree on opcode, push data and on where the next instruction starts;
    a decoded instruction always consumes between 1 and len(b) bytes (the loops terminate). -/
theorem getOpcode_eq_parse (b : Bytes) :
    match getOpcode b, ScriptSpec.parseOne b with
    | none, none => True
    | some op, some i =>
        i.op = op.opcode ∧ i.data = op.push.getD [] ∧ i.after = b.drop op.n ∧
        (op.push.isSome = decide (op.opcode ≤ 0x4e)) ∧ 1 ≤ op.n ∧ op.n ≤ b.length
    | _, _ => False :=
  getOpcode_parseOne b

/-- `btc.IsPushOnly` (decode while scanning, stop at the first error) is `CScript::IsPushOnly` of the parsed script. -/
theorem isPushOnly_eq_spec (s : Bytes) : isPushOnly s = ScriptSpec.isPushOnly s := by
  unfold isPushOnly ScriptSpec.isPushOnly ScriptSpec.parse
  rw [isPushOnlyAux_eq]

/-- The OP_SUCCESSx pre-scan of `ExecuteWitnessScript`: an OP_SUCCESS before any decode error wins, a decode
    error before any OP_SUCCESS loses, exactly as scanning the parsed instruction list says (BIP342). -/
theorem opSuccessScan_eq_spec (s : Bytes) :
    opSuccessScan s.length s =
      (match ScriptSpec.scanOpSuccess (ScriptSpec.parse s).1 (ScriptSpec.parse s).2 with
       | some true => ScanRes.opSuccess
       | some false => ScanRes.decodeError
       | none => ScanRes.clean) := by
  unfold ScriptSpec.parse
  exact opSuccessScan_eq s.length s

/-! ## (ii) script numbers -/

/-- `bts2int`: panics above 4 bytes, otherwise returns CScriptNum's value of the bytes. -/
theorem bts2int_eq_scriptnum (d : Bytes) :
    bts2int d = if d.length > 4 then Res.panic else Res.ok (ScriptSpec.ScriptNum.decode d) := by
  unfold bts2int nMaxNumSize
  rw [numOfBytes_eq_decode]

/-- `bts2int_ext(d, max, forcemin)` = CScriptNum(d, forcemin, max): a panic exactly where Core throws. -/
theorem bts2intExt_eq_scriptnum (d : Bytes) (mx : Nat) (fm : Bool) :
    bts2intExt d mx fm =
      match ScriptSpec.ScriptNum.read d fm mx with
      | Except.ok v => Res.ok v
      | Except.error _ => Res.panic := by
  unfold bts2intExt ScriptSpec.ScriptNum.read
  rw [numOfBytes_eq_decode, isMinimal_eq]
  by_cases h1 : d.length > mx
  · simp [h1, throw, throwThe, MonadExceptOf.throw]
  · by_cases h2 : d.length = 0
    · have : d = [] := List.eq_nil_of_length_eq_zero h2
      subst this
      simp [ScriptSpec.ScriptNum.minimal, ScriptSpec.ScriptNum.decode, pure, Except.pure]
    · by_cases h3 : (fm && !ScriptSpec.ScriptNum.minimal d) = true
      · simp [h1, h2, h3, throw, throwThe, MonadExceptOf.throw]
      · simp [h1, h2, h3, pure, Except.pure]

/-- `is_minimal` is Core's minimal-encoding rule. -/
theorem isMinimal_eq_core (d : Bytes) : isMinimal d = ScriptSpec.ScriptNum.minimal d := isMinimal_eq d

/-- `bts2bool` is Core's `CastToBool` (negative zero is false). -/
theorem bts2bool_eq_castToBool (d : Bytes) : bts2bool d = ScriptSpec.castToBool d := bts2bool_eq d

/-- `pushInt` pushes `CScriptNum::serialize(v)` for every value an int64 can hold. -/
theorem pushInt_eq_serialize (v : Int) (hv : v.natAbs < 2 ^ 63) : intBytes v = ScriptSpec.ScriptNum.encode v :=
  intBytes_eq_encode v (by have : (2:Nat) ^ 63 < 256 ^ 9 := by decide
                           omega)

/-- `bts2int ∘ pushInt = id`: reading back what `pushInt` pushed gives the number (no length check involved). -/
theorem numOfBytes_pushInt (v : Int) (hv : v.natAbs < 2 ^ 63) : numOfBytes (intBytes v) = v := by
  rw [numOfBytes_eq_decode, pushInt_eq_serialize v hv, decode_encode]

/-- Core's round trip, for every integer. -/
theorem scriptnum_decode_encode (v : Int) : ScriptSpec.ScriptNum.decode (ScriptSpec.ScriptNum.encode v) = v := decode_encode v

/-! ## (iii) where a panic can escape -/

/-- `evalScript` never panics: every run-time panic of the interpreter loop (pop on an empty stack, a number
    longer than 4 bytes, unbalanced ELSE/ENDIF, index out of range) is turned into `false` by its `recover()`. -/
theorem no_panic_escapes_eval (O : Oracles) (tx : TxCtx) (flags : Nat) (p : Bytes) (stack : Stack)
    (sv : SigVersion) (ed : ExecData) : evalScript O tx flags p stack sv ed ≠ .panic := by
  unfold evalScript
  split
  · simp
  · generalize (do
      let c : Ctx := ⟨O, tx, flags, sv, p⟩
      let st ← evalLoop c p.length p 0 { stack := stack, ed := { ed with codesepPos := 0xFFFFFFFF } }
      if st.exe.length > 0 then Res.fail else pure st.stack : Res Stack) = r
    cases r <;> simp [recoverPanic]

/-! ## (iv) limits -/

/-- 10000-byte limit: a longer script fails at once under base and witness-v0 rules (not under tapscript). -/
theorem limit_script_size (O : Oracles) (tx : TxCtx) (flags : Nat) (p : Bytes) (stack : Stack) (sv : SigVersion)
    (ed : ExecData) (hsv : sv = .base ∨ sv = .witnessV0) (hlen : p.length > 10000) :
    evalScript O tx flags p stack sv ed = .fail := by
  unfold evalScript MAX_SCRIPT_SIZE
  rcases hsv with h | h <;> simp [h, hlen]

/-- 520-byte limit: an instruction whose push data exceeds 520 bytes fails, executed or not. -/
theorem limit_push_size (c : Ctx) (st : St) (op : Op) (idx pos : Nat) (pv : Bytes)
    (hp : op.push = some pv) (hlen : pv.length > 520) : stepAt c st op idx pos = .fail := by
  unfold stepAt MAX_SCRIPT_ELEMENT_SIZE
  simp [hp, hlen]

/-- 201-operation limit: under base / witness-v0 rules the 202nd counted opcode (> OP_16) fails, executed or not. -/
theorem limit_op_count (c : Ctx) (st : St) (op : Op) (idx pos : Nat)
    (hsv : c.sv = .base ∨ c.sv = .witnessV0) (hop : op.opcode > 0x60) (hcnt : st.opcnt ≥ 201) :
    stepAt c st op idx pos = .fail := by
  unfold stepAt MAX_OPS
  have h1 : ((c.sv == SigVersion.base || c.sv == SigVersion.witnessV0) && decide (op.opcode > 0x60)) = true := by
    rcases hsv with h | h <;> simp [h, hop]
  split
  · rfl
  · simp only [h1, ↓reduceIte]
    have : st.opcnt + 1 > 201 := by omega
    simp [this]

/-- 1000-element limit: whatever an instruction does, it only succeeds with at most 1000 elements on stack
    plus altstack. -/
theorem limit_stack_size (c : Ctx) (st st' : St) (op : Op) (idx pos : Nat)
    (h : stepAt c st op idx pos = .ok st') : st'.stack.length + st'.alt.length ≤ 1000 := by
  have key : ∀ (X : Res St), (X >>= fun s => if s.stack.length + s.alt.length > 1000 then Res.fail else pure s) = .ok st' →
      st'.stack.length + st'.alt.length ≤ 1000 := by
    intro X hx
    cases X with
    | ok a =>
      simp only [Res.ok_bind] at hx
      split at hx
      · simp at hx
      · simp only [Res.pure_eq, Res.ok.injEq] at hx; subst hx; omega
    | fail => simp at hx
    | panic => simp at hx
    | need q => simp at hx
  unfold stepAt at h
  dsimp only at h
  repeat' (split at h)
  all_goals first | (simp at h; done) | exact key _ h

end GocoinV.Props.C01
