/-
  Props.C06 — property theorems for C06 (tip = most-work valid chain, UTXO = replay, undo leaves no residue),
  about the definitions of Model/UtxoOps.lean and Model/ChainTree.lean that the oracle executes and the
  harness compares with lib/chain + lib/utxo after every delivery.

  Proved here:
    * `commitTxs_valid` — every block `commitTxs` accepts yields changes satisfying `ValidChanges` (invariant of the
      input loop), hence `undo_commitTxs`: committing and undoing ANY accepted block restores every record
      (no side hypothesis besides BIP30 freshness of the block's txids);
    * the record-level core lemma `undo_commit` and the output-list algebra behind it;
    * the chain-level invariant `PathOK` (Spec/ChainReplay: unspent map = replay of the active branch as a partial
      function, tip/LastBlockHeight/tree links/stored blocks consistent, undo file of every active height above the
      floor = undo data of the active block) holds initially and is preserved by every primitive step that touches the
      unspent map: CommitBlock's tip extension (`replay_inv_extend`), UndoLastBlock (`replay_inv_undoLast`, incl.
      "does not panic"), the disconnect loop of MoveToBlock (`failed_reorg_no_residue_partial`), one successful
      iteration of ParseTillBlock (`replay_inv_connect`); DeleteBranch does not touch map / undo files / tip
      (`deleteBranch_keeps_map`); and for the model's actual `deliver`: `reorg_inv_partial` — the invariant holds after
      EVERY fork-free delivery sequence (each block on the then-current tip: accepted, rejected as invalid, or duplicate)
      — superseded by `reorg_inv` below, kept because its hypotheses are weaker (no block-tree assumption);
    * decision logic of deliveries (known block, orphan, extension accepted / rejected), exactness/asymmetry of the
      work comparison, and the counterexample showing that the tie-break after a failed reorganisation is NOT
      "first seen" (known finding, reproduced on the real code).

    * ALL HISTORIES (third pass): `reorg_inv` — after ANY finite sequence of deliveries drawn from a block tree `U`
      (`BlockTree`: ids determine blocks, no empty block, valid bits, BIP30 freshness along every branch of `U`, no branch
      longer than the 2560-block unwind window) the state satisfies `ChainInv`: tree well-formed (`TreeWF`), unspent map =
      replay of the active branch with every undo file in place (`PathOK`, floor 0), and the tip is a maximum-work node
      (`MaxWork`, exact rationals; `tip_has_max_work`); `deliver_keeps_invariant` — one delivery of any kind keeps the
      invariant, never panics (incl. never exhausting `fuelOf`), and moves the tip only to the delivered block or in the
      fall-back of a failed reorganisation; `tie_keeps_first_seen` — a side block without strictly more work never moves
      the tip; `failed_reorg_no_residue` — MoveToBlock from any invariant state to any node: no panic, map = replay of the
      branch it ends on, target reached with the tree untouched or (after a failure) tip = maximum-work node of the
      remaining tree; `morePOW_compares_work`, `farthest_is_max_work`.
      Proof: Proofs/C06Tree (tree as a partial function, ancestors, heights < #nodes), C06Work (Q in ℚ), C06MorePow,
      C06Farthest, C06Climb (MoveToBlock's loops, FindPathTo), C06Wf + C06Delete (TreeWF preserved; `subtree` = descendants),
      C06Reorg (mutual induction over the fuel for ParseTillBlock / fall-back / MoveToBlock with a quadratic fuel measure),
      C06Deliver (one delivery; induction over the history).
    * SIBLING ORDER (fourth pass): `deleteBranch_keeps_sibling_order` / `deleteBranch_parent_keeps_order` — DeleteBranch leaves
      every surviving node's child list unchanged except that the parent of the removed block loses exactly that block, the
      others keeping their (arrival) order (`filter` = `erase`; a swap-remove does not satisfy this);
      `sibling_order_after_delete_example` — a concrete run (4 siblings, the 2nd invalid, the 3rd and 4th tie) where that
      order decides the fall-back tip. Proofs/C06Order.
    * VALIDITY (fifth pass, after the independent audit): the invariant `ChainInv U E c` now carries (a) COMPLETENESS w.r.t. the
      ghost list `E` of admitted deliveries — an admitted block is a node of the tree unless it or an ancestor fails `commitTxs`
      with the scripts checked on the replay of its parent's branch (`Excused`, `InvalidOnReplay`; step form
      `only_invalid_blocks_are_removed`; `tip_beats_every_valid_admitted_block` = `tip_has_max_work` over the admitted blocks
      whose branch is valid) — and (b) SCRIPT VALIDITY of the active branch (`active_branch_scripts_valid`,
      `commitTxs_checked_iff`); `failed_reorg_no_residue` gained both. Proofs/C06Ext; the reorganisation specs of
      Proofs/C06Reorg and the delivery lemmas of Proofs/C06Deliver were extended in place.
    * BLOCK LOOK-UPS: `deliverIdx` (8-byte `BlockIndex` key + whole-hash comparison, as the code since fix 533896f3; run by
      the oracle) equals `deliver` under `KeyOK` (`deliverIdx_is_deliver`); `prefix_only_parent_is_unknown`. Proofs/C06Idx.
    * HEADER-FIRST DELIVERY (pass after the second audit): the client receives every block header first — AcceptHeader on the
      80 header bytes (`header`), later CommitBlock on the node that exists already (`commitNode`, after the client's
      HasAllParents test) — so the tree holds nodes WITHOUT DATA (`txCount = 0`, nothing stored). `TreeWF` now allows them
      (`hdr`: not stored; `anc`: the nodes with data are closed under "parent"), `MaxWork` ranges over the nodes that HAVE
      their data, and ParseTillBlock's fall-back is `farthestS` = findFarthestWithData (fix c3d926ba; FindFarthestNode also
      returns header-only leaves, which MoveToBlock cannot reach: endless recursion / stuck on the fork point in the code).
      `step_keeps_invariant`, `reorg_inv_ops`, `tip_has_max_work_ops`, `tip_beats_every_valid_admitted_block_ops` — the
      all-histories theorems for histories of the three operations `header` / `commit` / `block` (`Op`, `step`), under the
      side conditions `OpOK` / `ClientLike`; `header_changes_only_the_tree`; `fallback_target_has_data`; `stepIdx_is_step`
      (the oracle's 8-byte look-ups); kernel-checked runs `header_only_leaf_misleads_old_fallback_example`,
      `commit_outcomes_example`. A block refused on the tip is unlinked while its header-only descendants stay in
      BlockIndex: the model keeps them in `limbo`, never looked at by tip selection. The theorems about `deliver` alone are
      the special case without header-only nodes (`blocks_only_no_header_only_node`); their step forms carry the side
      condition "the parent, if known, has its data". Proofs/C06FarthestS, C06HasAll, C06Header, C06CommitNode, C06Ops,
      C06IdxOps; C06Wf (TreeWF_header / TreeWF_filled), C06Climb, C06Delete, C06Reorg, C06Deliver extended in place.
  What the statement does NOT cover (assumptions of `BlockTree`, all explicit): branches longer than 2560 blocks (undo data
  not written for the early blocks of a long ParseTillBlock, undo files pruned and keyed by height only); blocks re-using a
  txid that is still unspent on their own branch; the code's float64 work sums (the model compares exact rationals — known
  finding float-work-exact-tie); "first seen" among equal-work leaves after a FAILED reorganisation (FindFarthestNode takes
  the first child — `tie_after_failed_reorg_counterexample`, known finding).
-/
import GocoinV.Model.ChainTree
import GocoinV.Proofs.C06Utxo
import GocoinV.Proofs.C06Chain
import GocoinV.Proofs.C06Commit
import GocoinV.Proofs.C06Path
import GocoinV.Proofs.C06Deliver
import GocoinV.Proofs.C06Idx
import GocoinV.Proofs.C06Order
import GocoinV.Proofs.C06TxOrder
import GocoinV.Proofs.C06Example
import GocoinV.Proofs.C06Ops
import GocoinV.Proofs.C06IdxOps
import GocoinV.Proofs.C06IdxAll
namespace GocoinV.Props.C06
open GocoinV.UtxoOps GocoinV.ChainTree

/-- **Core lemma (record level).** If `ch` is what `commitTxs` produced for a block with transaction ids `txids`
on the unspent map `u` (delete list with distinct, present keys; undo data = the spent outputs of exactly those
records; the block's own txids not in `u`; added records belong to the block), then committing the block and
undoing it with that undo data gives back, under EVERY key, exactly the record that was there before — including
partially spent multi-output records (merged back into the surviving record), fully spent records (re-created
from the undo record alone) and records created and spent inside the block (removed). -/
theorem undo_commit (u : DB) (txids : List Nat) (ch : Changes) (hv : ValidChanges u txids ch) :
    ∀ k, (undoBlock (commit u ch) txids ch.undo).get k = u.get k :=
  fun k => undo_commit_get u txids ch hv k

/-- The same at the level of the abstraction `abs : DB → (OutPoint ⇀ Coin)`: disconnecting a block restores every
output it spent and removes every output it created. -/
theorem undo_commit_abs (u : DB) (txids : List Nat) (ch : Changes) (hv : ValidChanges u txids ch) :
    ∀ t v, UtxoOps.abs (undoBlock (commit u ch) txids ch.undo) t v = UtxoOps.abs u t v := by
  intro t v
  unfold UtxoOps.abs unspentGet
  rw [undo_commit u txids ch hv t]

/-- `undo_commit` with its hypothesis in the executable form that the oracle evaluates for every block the model
connects during the correspondence run (`Chain.vcBad` counts failures; the harness requires 0). -/
theorem undo_commit_checked (u : DB) (txids : List Nat) (ch : Changes)
    (h : validChangesB u txids ch = true) :
    ∀ k, (undoBlock (commit u ch) txids ch.undo).get k = u.get k :=
  undo_commit u txids ch (validChangesB_sound u txids ch h)

/-- **`commitTxs` produces valid changes.** Whenever `commitTxs` accepts a block's transactions on the unspent map `u`
(for any height, reward and trusted flag) and none of the block's txids is in `u` (BIP30), the delete list has distinct
keys that are all present in `u`, the undo data is exactly the spent outputs of exactly those records (delete list and
undo list aligned), and every added record belongs to the block — the hypothesis of `undo_commit`. -/
theorem commitTxs_valid (u : DB) (h rwd : Nat) (tr : Bool) (txs : List Tx) (ch : Changes)
    (hok : commitTxs u h rwd tr txs = .ok ch) (hfresh : ∀ t ∈ txs.map (·.txid), u.get t = none) :
    ValidChanges u (txs.map (·.txid)) ch :=
  commitTxs_validChanges u h rwd tr txs ch hok hfresh

/-- **Disconnecting any accepted block restores the map** — `undo_commit` without a side hypothesis on the changes:
for every block `commitTxs` accepts, committing its changes and then running `UndoBlockTxs` with the undo data it
produced gives back, under every key, exactly the record that was there before. -/
theorem undo_commitTxs (u : DB) (h rwd : Nat) (tr : Bool) (txs : List Tx) (ch : Changes)
    (hok : commitTxs u h rwd tr txs = .ok ch) (hfresh : ∀ t ∈ txs.map (·.txid), u.get t = none) :
    ∀ k, (undoBlock (commit u ch) (txs.map (·.txid)) ch.undo).get k = u.get k :=
  undo_commit u _ ch (commitTxs_valid u h rwd tr txs ch hok hfresh)

/-- Partially spent record: merging the undo record (spent outputs only) into what `del` left gives the original
output list, for any spent-flag list. -/
theorem merge_restores_record (outs : List (Option Out)) (rm : List Bool) :
    mergeOuts (maskOuts outs rm) (delOuts outs rm) = outs :=
  merge_mask_del outs rm

/-- Fully spent record: when `del` removed the record (no output left), the undo record alone IS the original. -/
theorem undo_record_is_whole_when_all_spent (outs : List (Option Out)) (rm : List Bool)
    (h : (delOuts outs rm).any Option.isSome = false) : maskOuts outs rm = outs :=
  mask_eq_of_del_empty outs rm h

/-- The exact work comparison is asymmetric: two branches can never each have "more" work than the other
(so equal work never triggers `MoveToBlock` in the model; the code's float sums can differ here only by rounding). -/
theorem work_gt_asymm (a b : Q) (h : a.gt b = true) : b.gt a = false := by
  unfold Q.gt at *
  simp only [decide_eq_true_eq, decide_eq_false_iff_not] at *
  omega

/-- and irreflexive: a branch never has more work than itself. -/
theorem work_gt_irrefl (a : Q) : a.gt a = false := by
  unfold Q.gt; simp

/-- A block that is already in the tree is refused as duplicate and nothing changes. -/
theorem deliver_known_is_noop (c : Chain) (b : Block) (h : (getNode c b.id).isSome = true) :
    deliver c b = (c, Outcome.dup) := by
  unfold deliver; simp [h]

/-- A block whose parent is not in the tree is refused ("maybe later") and nothing changes — children delivered
before their parents never enter the tree. -/
theorem deliver_orphan_is_refused (c : Chain) (b : Block) (h1 : getNode c b.id = none)
    (h2 : getNode c b.parent = none) : deliver c b = (c, Outcome.later) := by
  unfold deliver; simp [h1, h2]

/-- **Extending the tip.** A block on the current tip whose transactions `commitTxs` accepts becomes the tip, and the
unspent map is exactly `commit` of the changes `commitTxs` computed (no other effect on the map). -/
theorem commitBlock_extends (c : Chain) (b : Block) (h : Nat) (ch : Changes)
    (htip : c.tip = b.parent)
    (hok : commitTxs c.utxo h (reward h) false b.txs = .ok ch) :
    (commitBlock c b h).2 = Outcome.ok ∧ (commitBlock c b h).1.tip = b.id ∧
    (commitBlock c b h).1.utxo = commit c.utxo ch ∧ (commitBlock c b h).1.lastHeight = h := by
  unfold commitBlock
  simp only [modNode, htip, beq_self_eq_true, if_true, hok]
  refine ⟨trivial, trivial, ?_, ?_⟩
  · exact (cbt_fields _ h true _ ch).1
  · exact (cbt_fields _ h true _ ch).2.1

/-- **Invalid extension.** A block on the current tip that `commitTxs` rejects leaves tip and unspent map untouched
and is removed from the tree again (so its descendants are refused as orphans). -/
theorem commitBlock_rejects (c : Chain) (b : Block) (h : Nat) (e : Err)
    (htip : c.tip = b.parent)
    (herr : commitTxs c.utxo h (reward h) false b.txs = .error e) :
    (commitBlock c b h).2 = Outcome.rejected e ∧ (commitBlock c b h).1.tip = c.tip ∧
    (commitBlock c b h).1.utxo = c.utxo ∧ (getNode (commitBlock c b h).1 b.id) = none := by
  unfold commitBlock
  simp only [modNode, htip, beq_self_eq_true, if_true, herr]
  refine ⟨trivial, trivial, trivial, ?_⟩
  unfold getNode
  simp only
  rw [List.find?_eq_none]
  intro x hx
  simp only [List.mem_filter] at hx
  simpa using hx.2

/-- **Disconnecting a block leaves no residue (chain level, one block).** After a block was connected on the tip
(`commitBlock`, extension branch), `UndoLastBlock` succeeds — it finds the stored block and the undo file that
`CommitBlockTxs` wrote under that height — and gives back the previous tip, the previous `LastBlockHeight` and, under
every key, the previous unspent record. -/
theorem extend_then_undo (c : Chain) (b : Block) (h : Nat) (ch : Changes) (n : Node)
    (htip : c.tip = b.parent)
    (hok : commitTxs c.utxo h (reward h) false b.txs = .ok ch)
    (hfresh : ∀ t ∈ b.txs.map (·.txid), c.utxo.get t = none)
    (hn : getNode (commitBlock c b h).1 b.id = some n) (hp : n.parent = b.parent) :
    ∃ c2, undoLast (commitBlock c b h).1 = .ok c2 ∧ c2.tip = c.tip ∧
      (∀ k, c2.utxo.get k = c.utxo.get k) ∧ c2.lastHeight = h - 1 := by
  have hv := commitTxs_valid c.utxo h (reward h) false b.txs ch hok hfresh
  have hid := getNode_id hn
  rw [commitBlock_ok_eq c b h ch htip hok] at hn ⊢
  have hst := cbt_store (preCommit c b) h true (b.txs.map (·.txid)) ch
  have hf := cbt_fields (preCommit c b) h true (b.txs.map (·.txid)) ch
  have hu := cbt_undo_file (preCommit c b) h (b.txs.map (·.txid)) ch
  have hs : alookup n.id (preCommit c b).store = some { txs := b.txs, trusted := true } := by
    rw [hid]; exact alookup_aset _ _ _
  refine ⟨_, undoLast_ok _ n { txs := b.txs, trusted := true } ch.undo hn ?_ ?_, ?_, ?_, ?_⟩
  · simp only [hst]; exact hs
  · simp only [hf.2.1]; exact hu
  · simp only [hp, htip]
  · intro k
    simp only [hf.1]
    exact undo_commit_get c.utxo _ ch hv k
  · simp only [hf.2.1]

-- ------------------------------------------------------------------------------------------ UTXO = replay of the active branch

/-- the invariant holds in the initial state (empty branch, empty map) -/
theorem replay_inv_init (r bits : Nat) : PathOK (ChainTree.init r bits) 0 [] := init_path r bits

/-- **Tip extension keeps "UTXO = replay".** If the invariant holds for the active branch `path` and a block on the tip
(its node already added by AcceptHeader, id not on the path) is accepted by `commitTxs` at height |path|+1 with fresh
txids, then after `CommitBlock` the invariant holds for the branch extended by that block: the unspent map is the
replay of the longer branch and its undo file is in place. -/
theorem replay_inv_extend (c : Chain) (fl : Nat) (path : List PE) (h : PathOK c fl path) (b : Block) (ch : Changes)
    (htip : c.tip = b.parent) (hnode : ∃ n, getNode c b.id = some n ∧ n.parent = b.parent)
    (hnew : ∀ e ∈ path, e.id ≠ b.id)
    (hok : commitTxs c.utxo (path.length + 1) (reward (path.length + 1)) false b.txs = .ok ch)
    (hfresh : ∀ t ∈ b.txs.map (·.txid), c.utxo.get t = none) :
    PathOK (commitBlock c b (path.length + 1)).1 (max fl (path.length + 1 - UnwindBufLen)) (⟨b.id, b.txs⟩ :: path) :=
  commitBlock_path c fl path h b ch htip hnode hnew hok hfresh

/-- **UndoLastBlock keeps "UTXO = replay" and cannot panic under the invariant**: tip node, stored block and undo file
are found, and afterwards the invariant holds for the branch without its tip (map = replay of the shorter branch). -/
theorem replay_inv_undoLast (c : Chain) (fl : Nat) (e : PE) (rest : List PE) (h : PathOK c fl (e :: rest))
    (hfl : rest.length + 1 > fl) : ∃ c', undoLast c = .ok c' ∧ PathOK c' fl rest := by
  obtain ⟨c', h1, h2, _⟩ := undoLast_path c fl e rest h hfl
  exact ⟨c', h1, h2⟩

/-- **One successful iteration of ParseTillBlock keeps "UTXO = replay".** `parseTill (f+1) c e`, when the next block
`nx` on the way to `e` hangs below the tip at height |path|+1, is stored, is accepted by `commitTxs` (scripts skipped
iff stored as trusted) with fresh txids and lies within UnwindBufLen of the target, continues as `parseTill f c' e`
with a state `c'` that satisfies the invariant for the branch extended by `nx`. -/
theorem replay_inv_connect (f : Nat) (c : Chain) (fl : Nat) (path : List PE) (h : PathOK c fl path)
    (e nx : Nat) (last en nxt : Node) (blk : Stored) (ch : Changes)
    (hne : c.tip ≠ e) (hlast : getNode c c.tip = some last) (hen : getNode c e = some en)
    (hpath : findPathTo c last en = .ok (some nx)) (hnxt : getNode c nx = some nxt) (htx : nxt.txCount ≠ 0)
    (hpar : nxt.parent = c.tip) (hh : nxt.height = path.length + 1) (hw : nxt.height + UnwindBufLen ≥ en.height)
    (hblk : alookup nx c.store = some blk)
    (hok : commitTxs c.utxo nxt.height (reward nxt.height) blk.trusted blk.txs = .ok ch)
    (hfresh : ∀ t ∈ blk.txs.map (·.txid), c.utxo.get t = none) :
    ∃ c', parseTill (f + 1) c e = parseTill f c' e ∧
      PathOK c' (max fl (path.length + 1 - UnwindBufLen)) (⟨nx, blk.txs⟩ :: path) := by
  refine ⟨_, parseTill_step f c e nx last en nxt blk ch hne hlast hen hpath hnxt htx hblk hok, ?_⟩
  have : decide (nxt.height + UnwindBufLen ≥ en.height) = true := by simpa using hw
  rw [this]
  exact parseStep_path c fl path h nx nxt blk ch hnxt hpar hh hblk hok hfresh

/-- **A reorganisation's disconnect phase leaves no residue** (proved part of failed_reorg_no_residue). If the
invariant holds for the active branch `pre ++ post`, where `post` ends in the common block `anc` that MoveToBlock's
three climbing loops find, then `MoveToBlock` does not panic while disconnecting the blocks `pre`, and continues as
ParseTillBlock from a state whose unspent map is exactly the replay of `post` (tip = common block, LastBlockHeight =
|post|, undo files of `post` intact, tree and block store untouched). Together with `replay_inv_connect` (each block
connected afterwards) and `deleteBranch_keeps_map` (a block that fails) this covers every step of a completed or
failed reorganisation; they are composed through the mutual recursion in `failed_reorg_no_residue` below. -/
theorem failed_reorg_no_residue_partial (f : Nat) (c : Chain) (fl : Nat) (pre post : List PE) (dst : Nat)
    (d lb cur lb2 anc : Node)
    (h : PathOK c fl (pre ++ post)) (hfl : post.length ≥ fl)
    (hd : getNode c dst = some d) (hlb : getNode c c.tip = some lb)
    (h1 : climbChecked c lb.height (d.height + 1) d = .ok (some cur))
    (h2 : climbChecked c cur.height (lb.height + 1) lb = .ok (some lb2))
    (h3 : commonAnc c (cur.height + 2) lb2 cur = .ok (some anc))
    (hanc : anc.id = headId c post) (hne : ∀ e ∈ pre, e.id ≠ anc.id) (hh : lb.height + 1 ≥ pre.length) :
    ∃ c1, PathOK c1 fl post ∧ c1.nodes = c.nodes ∧ c1.store = c.store ∧
      moveTo (f + 1) c dst = parseTill f c1 dst := by
  obtain ⟨c1, hp, hn, hs, _, hm⟩ := moveTo_unwind f c fl pre post dst d lb cur lb2 anc h hfl hd hlb h1 h2 h3 hanc hne hh
  exact ⟨c1, hp, hn, hs, hm⟩

/-- **reorg_inv for fork-free histories** (proved part of reorg_inv, about the model's actual `deliver`). For every
sequence of deliveries in which each block names the then-current tip as its parent and re-uses no txid still in the map
(BIP30) — whether the block is then accepted, rejected as invalid by `commitTxs` (any of its error kinds) or refused as a
duplicate — the state after the whole sequence satisfies the invariant for some active branch: the unspent map equals the
replay of that branch from the empty map, tip / LastBlockHeight / tree links / stored blocks are consistent with it, every
undo file above the floor holds the undo data of the active block at that height, and the tip node's height is the
branch length. (All histories, incl. side branches and reorganisations: `reorg_inv` below, under the `BlockTree` assumptions.) -/
theorem reorg_inv_partial (r bits : Nat) (bs : List Block) (h : OnTip (ChainTree.init r bits) bs) :
    ∃ fl path, PathOKH (bs.foldl (fun c b => (deliver c b).1) (ChainTree.init r bits)) fl path :=
  deliver_all_on_tip bs _ 0 [] (init_pathH r bits) h

/-- One delivery on the tip keeps the invariant, whatever the outcome (accepted / rejected / duplicate). -/
theorem replay_inv_deliver_on_tip (c : Chain) (fl : Nat) (path : List PE) (h : PathOKH c fl path) (b : Block)
    (hpar : b.parent = c.tip) (hfresh : ∀ t ∈ b.txs.map (·.txid), c.utxo.get t = none) :
    ∃ fl' path', PathOKH (deliver c b).1 fl' path' :=
  deliver_on_tip c fl path h b hpar hfresh

/-- DeleteBranch (a block that fails when connected, with its descendants) touches neither the unspent map nor the
undo files, the tip or LastBlockHeight. -/
theorem deleteBranch_keeps_map (c : Chain) (id : Nat) :
    (deleteBranch c id).utxo = c.utxo ∧ (deleteBranch c id).undoFiles = c.undoFiles ∧
    (deleteBranch c id).tip = c.tip ∧ (deleteBranch c id).lastHeight = c.lastHeight := by
  have := deleteBranch_fields c id
  exact ⟨this.1, this.2.1, this.2.2.1, this.2.2.2.1⟩

-- ------------------------------------------------------------------------------------------ all histories

/-- the invariant of the chain state w.r.t. the block tree `U` the deliveries are drawn from and the GHOST list `E` of the
ids admitted so far (`Outcome.admitted`: every delivery that was not turned away as duplicate / orphan / too deep): the
tree is well-formed (`TreeWF`); the unspent map is the replay of the active branch with tip / LastBlockHeight / links /
stored blocks / every undo file consistent (`PathOK` with floor 0, tip node height = branch length); EVERY BLOCK OF THE
ACTIVE BRANCH PASSED ITS SCRIPT ORACLE (`scripts`; maintained through `ext`: every block of the branch is stored with the
trusted mark, and that mark is only ever set after `commitTxs` ran with the scripts checked); the tip is a maximum-work
node (`MaxWork`, exact rational work); and the tree is COMPLETE (`complete`): every admitted block is a node of the
tree, unless it or one of its ancestors fails `commitTxs` (scripts checked) on the replay of its parent's branch
(`Excused` / `InvalidOnReplay`) — so `MaxWork`'s "every node of the tree" ranges over every admitted block whose
whole branch is valid on replay (`tip_beats_every_valid_admitted_block`). -/
structure ChainInv (U : List Block) (E : List Nat) (c : Chain) : Prop where
  wf : TreeWF U c
  path : ∃ path, PathOK c 0 path ∧ (∃ t, getNode c c.tip = some t ∧ t.height = path.length) ∧
    (∀ e ∈ path, scriptsPass e.txs = true) ∧ Ext c path
  maxw : MaxWork c
  complete : Complete U c.root E c

theorem chainInv_iff {U : List Block} {E : List Nat} {c : Chain} (hU : BlockTree c.root U) :
    ChainInv U E c ↔ Inv U c ∧ Complete U c.root E c := by
  constructor
  · rintro ⟨w, ⟨path, hp, ht, _, hx⟩, hm, hc⟩; exact ⟨⟨w, ⟨path, ⟨hp, ht⟩, hx⟩, (MaxW_iff w hU).mp hm⟩, hc⟩
  · rintro ⟨⟨w, ⟨path, ⟨hp, ht⟩, hx⟩, hm⟩, hc⟩
    exact ⟨w, ⟨path, hp, ht, hx.scripts hp.linked, hx⟩, (MaxW_iff w hU).mpr hm, hc⟩

/-- **One delivery, any kind.** From a state satisfying the invariant, delivering ANY block of the block tree — a
duplicate, an orphan, a block too deep below the tip, a tip extension (accepted, or rejected by any `commitTxs` error), a
side block that is stored aside, or a side block with more work that triggers MoveToBlock and is reached, or whose
branch turns out invalid while being connected (DeleteBranch + fall-back to FindFarthestNode) — (a) never panics (no nil
node, no missing block or undo file, and the fuel `fuelOf` is never exhausted), (b) gives a state that again satisfies the
whole invariant: well-formed tree, unspent map = replay of the active branch, tip = a maximum-work node of the tree, and
(c) moves the tip only to the delivered block itself or — outcome `moveFailed` — in the fall-back after a failed
reorganisation. -/
theorem deliver_keeps_invariant (U : List Block) (E : List Nat) (c : Chain) (hi : ChainInv U E c) (hU : BlockTree c.root U)
    (b : Block) (hb : b ∈ U) (hpd : ∀ p, getNode c b.parent = some p → HasData c b.parent p) :
    ChainInv U (deliverG (c, E) b).2 (deliver c b).1 ∧ (∀ s, (deliver c b).2 ≠ Outcome.panic s) ∧
    ((deliver c b).1.tip = c.tip ∨ (deliver c b).1.tip = b.id ∨ (deliver c b).2 = Outcome.moveFailed) := by
  obtain ⟨hi', hc⟩ := (chainInv_iff hU).mp hi
  obtain ⟨h1, h2, h3, h4, _⟩ := deliver_inv hi' hU b hb hpd
  have hc1 := deliverG_complete hi' hU b hb hpd E hc
  exact ⟨(chainInv_iff (by rw [h2]; exact hU)).mpr ⟨h1, by rw [h2]; exact hc1⟩, h3, h4⟩

-- OPEN: two Go panics have no counterpart in the model, so "never panics" above does not cover them:
--   (1) BlockDB.BlockInvalid → "Trusted block cannot be invalid" when DeleteBranch (or delAllChildren) flags a block whose
--       store record carries the trusted mark. Full statement: in every state reached by a history (`ChainInv`), whenever
--       ParseTillBlock's `commitTxs` refuses the stored block `nx`, no block of `subtree nx` is stored with `trusted = true`.
--       Informal argument: the mark is set only after `commitTxs` accepted the block on the replay of its own branch
--       (`Ext` / `TrustedOK`), ids determine branches, `commitTxs` is a function of (map, height, block) — so a marked block
--       and every ancestor of it connect again. Needs an invariant "every marked block is valid on the replay of its
--       branch" carried through PSpec/ASpec/MSpec; not done. The harness observes this panic as an outcome (corpus
--       scenario invalid-parent-with-child-after-idle is the witness of the fix of one such case).
--   (2) BlockTreeNode.delChild → "Child not found" unless the node occurs EXACTLY once in its parent's `Childs`. `TreeWF.par`
--       gives "at least once"; "at most once" (`Nodup` of every child list: AcceptHeader appends a node only when its id is
--       not in BlockIndex) is not part of `TreeWF` — `deleteBranch_keeps_sibling_order` takes it as a hypothesis.

/-- **Only invalid blocks and their descendants are ever removed, and an admitted block is in the tree or excused** (one
delivery; part (a) of the invariant, stated for the step): from a state satisfying the invariant, (1) every node of the
tree that is no longer a node after the delivery is `Excused` — it, or one of its ancestors in the block tree, fails
`commitTxs` with the scripts checked on the replay of its parent's branch; (2) if the delivered block itself is not a node
afterwards then it was turned away as an orphan (`later`: its parent was not a node) or as too deep, or it is excused
(this covers a tip extension that `commitTxs` refuses, and a block deleted again together with an invalid ancestor in
the reorganisation it triggered). -/
theorem only_invalid_blocks_are_removed (U : List Block) (E : List Nat) (c : Chain) (hi : ChainInv U E c)
    (hU : BlockTree c.root U) (b : Block) (hb : b ∈ U) (hpd : ∀ p, getNode c b.parent = some p → HasData c b.parent p) :
    (∀ x, (getNode c x).isSome = true → getNode (deliver c b).1 x = none → Excused U c.root x) ∧
    (getNode (deliver c b).1 b.id = none →
      (deliver c b).2 = Outcome.later ∨ (deliver c b).2 = Outcome.tooDeep ∨ Excused U c.root b.id) := by
  obtain ⟨_, _, _, _, h5, _⟩ := deliver_inv ((chainInv_iff hU).mp hi).1 hU b hb hpd
  exact h5

/-- **reorg_inv — after ANY sequence of deliveries.** Let `U` be a block tree (`BlockTree`: ids determine blocks, no
empty block, valid bits, BIP30 freshness along every branch, no branch longer than the 2560-block unwind window) and `ds`
ANY finite sequence of deliveries of blocks of `U` — any order, repetitions, children before parents, competing branches,
branches that turn out invalid only when they are connected. Then the state reached from the initial one satisfies the
invariant: the tree is well-formed, the unspent map equals (as a partial function) the replay from the empty map of an
active branch that is linked from the tip to the root, with LastBlockHeight = its length, every block stored and every
undo file in place — and the tip is a maximum-work node: no node of the tree (i.e. no known, fully stored block not yet
found invalid) has more cumulative work, compared exactly. -/
theorem reorg_inv (r bits : Nat) (U ds : List Block) (hbits : bits % 0x1000000 ≠ 0) (hU : BlockTree r U)
    (hds : ∀ b ∈ ds, b ∈ U) :
    ChainInv U (ds.foldl deliverG (ChainTree.init r bits, [])).2
      (ds.foldl (fun c b => (deliver c b).1) (ChainTree.init r bits)) := by
  obtain ⟨h1, h2, h3, _⟩ := deliverG_all ds (ChainTree.init r bits, []) (init_inv U r bits hbits) (init_allData r bits) hU hds
    (fun x hx => by cases hx)
  rw [foldl_deliverG_fst] at h1 h2 h3
  exact (chainInv_iff (by rw [h2]; exact hU)).mpr ⟨h1, by rw [h2]; exact h3⟩

/-- **A chain that was only ever fed whole blocks has no header-only node**: after any sequence of `deliver`s (CheckBlock +
AcceptBlock: header and data at once) every node of the tree has its data — so in `reorg_inv` / `tip_has_max_work` for such
histories "the nodes that have their data" are ALL nodes, and the side condition of the step theorems ("the parent, if
known, has its data") holds by itself. Header-first histories: `reorg_inv_ops`. -/
theorem blocks_only_no_header_only_node (r bits : Nat) (U ds : List Block) (hbits : bits % 0x1000000 ≠ 0) (hU : BlockTree r U)
    (hds : ∀ b ∈ ds, b ∈ U) (x : Nat) (n : Node)
    (hn : getNode (ds.foldl (fun c b => (deliver c b).1) (ChainTree.init r bits)) x = some n) :
    HasData (ds.foldl (fun c b => (deliver c b).1) (ChainTree.init r bits)) x n := by
  obtain ⟨_, _, _, h4⟩ := deliverG_all ds (ChainTree.init r bits, []) (init_inv U r bits hbits) (init_allData r bits) hU hds
    (fun x hx => by cases hx)
  rw [foldl_deliverG_fst] at h4
  exact h4 x n hn

/-- **The tip is a maximum-work valid leaf** (second half of the property, for the model's exact rational work): after
any sequence of deliveries drawn from a block tree, no node of the tree has more cumulative work than the tip. Which
blocks ARE nodes of the tree is the `complete` part of the invariant — see `tip_beats_every_valid_admitted_block`. (Work
grows strictly along a branch, so "every node" and "every leaf" are the same statement.) Ties: see `tie_keeps_first_seen`
and `tie_after_failed_reorg_counterexample`. -/
theorem tip_has_max_work (r bits : Nat) (U ds : List Block) (hbits : bits % 0x1000000 ≠ 0) (hU : BlockTree r U)
    (hds : ∀ b ∈ ds, b ∈ U) :
    MaxWork (ds.foldl (fun c b => (deliver c b).1) (ChainTree.init r bits)) :=
  (reorg_inv r bits U ds hbits hU hds).maxw

/-- **The tip has at least the work of every admitted block whose whole branch is valid** — `tip_has_max_work` restated
over the delivered blocks instead of "the nodes currently in the tree": after any sequence of deliveries drawn from a block
tree, every block `x` that was admitted on the way (its delivery was not turned away as duplicate / orphan / too deep) and
is not `Excused` — neither it nor any of its ancestors fails `commitTxs`, scripts checked, on the replay of its parent's
branch — is a node of the tree, and its cumulative work is not greater than the tip's. -/
theorem tip_beats_every_valid_admitted_block (r bits : Nat) (U ds : List Block) (hbits : bits % 0x1000000 ≠ 0)
    (hU : BlockTree r U) (hds : ∀ b ∈ ds, b ∈ U) (x : Nat)
    (hx : x ∈ (ds.foldl deliverG (ChainTree.init r bits, [])).2)
    (hvalid : ¬ Excused U (ds.foldl (fun c b => (deliver c b).1) (ChainTree.init r bits)).root x) :
    ∃ t n, getNode (ds.foldl (fun c b => (deliver c b).1) (ChainTree.init r bits))
             (ds.foldl (fun c b => (deliver c b).1) (ChainTree.init r bits)).tip = some t ∧
      getNode (ds.foldl (fun c b => (deliver c b).1) (ChainTree.init r bits)) x = some n ∧
      (workOf (ds.foldl (fun c b => (deliver c b).1) (ChainTree.init r bits)) n).gt
        (workOf (ds.foldl (fun c b => (deliver c b).1) (ChainTree.init r bits)) t) = false := by
  have hi := reorg_inv r bits U ds hbits hU hds
  obtain ⟨t, ht, hmax⟩ := hi.maxw
  rcases hi.complete x hx with h | h
  · cases hn : getNode (ds.foldl (fun c b => (deliver c b).1) (ChainTree.init r bits)) x with
    | none => rw [hn] at h; cases h
    | some n => exact ⟨t, n, ht, rfl, hmax x n hn (blocks_only_no_header_only_node r bits U ds hbits hU hds x n hn)⟩
  · exact absurd h hvalid

/-- **Every block of the active branch passed its script oracle** (part (b) of the invariant): after any sequence of
deliveries drawn from a block tree there is an active branch `path` — the one whose replay IS the unspent map — such that
every non-coinbase transaction of every block of it has `scriptsOk` (the result of VerifyTxScript over its inputs; an
input of this model, property C01). The replay itself (`replay`) skips scripts; this is what says they were run. -/
theorem active_branch_scripts_valid (r bits : Nat) (U ds : List Block) (hbits : bits % 0x1000000 ≠ 0) (hU : BlockTree r U)
    (hds : ∀ b ∈ ds, b ∈ U) :
    ∃ path, PathOK (ds.foldl (fun c b => (deliver c b).1) (ChainTree.init r bits)) 0 path ∧
      ∀ e ∈ path, scriptsPass e.txs = true := by
  obtain ⟨path, hp, _, hs, _⟩ := (reorg_inv r bits U ds hbits hU hds).path
  exact ⟨path, hp, hs⟩

/-- the replay with scripts skipped and `scriptsPass` together are the replay with scripts checked: a block that
`commitTxs` accepts with `trusted = true` and whose scripts all pass is accepted, with the same changes, with
`trusted = false`; and acceptance with the scripts checked implies `scriptsPass`. -/
theorem commitTxs_checked_iff (u : DB) (h rwd : Nat) (txs : List Tx) (ch : Changes) :
    commitTxs u h rwd false txs = .ok ch ↔ (commitTxs u h rwd true txs = .ok ch ∧ scriptsPass txs = true) :=
  commitTxs_checked_iff' u h rwd txs ch

/-- **The order of a block's transactions is part of its validity.** `commitTxs` refuses — with the scripts checked or
skipped (`tr`), on the tip and inside a reorganisation alike — every block in which a non-coinbase transaction `tx` has an
input whose source is neither an unspent output of the map nor an output of a transaction listed EARLIER in the block
(`pre`); what the block lists behind `tx` (`post`) does not matter. In the code: `blUnsp[tx.Hash.Hash] = …` is the last
statement of the loop body, so the map of the block's own outputs knows a transaction only once its inputs are done;
registering all transactions before the loop would let `tx` spend an output of `post`. -/
theorem commitTxs_refuses_spend_of_later_tx (u : DB) (h rwd : Nat) (tr : Bool) (pre : List Tx) (tx : Tx) (post : List Tx)
    (i : TxIn) (hi : i ∈ tx.ins) (hne : pre ≠ [])
    (hg : unspentGet u i.txid i.vout = none) (hpre : ∀ p ∈ pre, p.txid ≠ i.txid) :
    ∃ e, commitTxs u h rwd tr (pre ++ tx :: post) = .error e :=
  commitTxs_forward_spend u h rwd tr pre tx post i hi hne hg hpre

/-- … and therefore the replay of a branch (the meaning of "valid" in every theorem here) has no value as soon as one of
its blocks lists a transaction before the transaction of the same block that it spends from (or spends itself): with
BIP30 freshness the block's own txids are not in the map below it, so the source can only be an earlier transaction of
the block — and there is none with that txid. -/
theorem misordered_block_never_replays (e : PE) (rest : List PE) (pre post : List Tx) (tx : Tx) (i : TxIn)
    (htx : e.txs = pre ++ tx :: post) (hne : pre ≠ []) (hi : i ∈ tx.ins)
    (hlater : i.txid ∈ (tx :: post).map (·.txid)) (hpre : ∀ p ∈ pre, p.txid ≠ i.txid)
    (hf : Fresh (e :: rest)) : replay (e :: rest) = none := by
  unfold replay
  cases hu : replay rest with
  | none => rfl
  | some u =>
    have hget : u.get i.txid = none := by
      apply hf.1 u hu
      rw [htx, List.map_append]
      exact List.mem_append_right _ hlater
    have hg : unspentGet u i.txid i.vout = none := by simp [unspentGet, hget]
    obtain ⟨er, he⟩ := commitTxs_forward_spend u (rest.length + 1) (reward (rest.length + 1)) true pre tx post i hi hne hg hpre
    simp only [htx, he]

/-- **No block of the active branch is misordered**: after any sequence of deliveries drawn from a block tree, no block
of the active branch (the one whose replay IS the unspent map) contains a non-coinbase transaction with an input that
names a transaction listed at the same place or later in that block and no transaction listed earlier. -/
theorem active_branch_blocks_are_ordered (r bits : Nat) (U ds : List Block) (hbits : bits % 0x1000000 ≠ 0) (hU : BlockTree r U)
    (hds : ∀ b ∈ ds, b ∈ U) :
    ∃ path, PathOK (ds.foldl (fun c b => (deliver c b).1) (ChainTree.init r bits)) 0 path ∧
      ∀ e ∈ path, ∀ (pre post : List Tx) (tx : Tx) (i : TxIn), e.txs = pre ++ tx :: post → pre ≠ [] → i ∈ tx.ins →
        (∀ p ∈ pre, p.txid ≠ i.txid) → i.txid ∉ (tx :: post).map (·.txid) := by
  have aux : ∀ (path : List PE) (u : DB), replay path = some u → Fresh path →
      ∀ e ∈ path, ∀ (pre post : List Tx) (tx : Tx) (i : TxIn), e.txs = pre ++ tx :: post → pre ≠ [] → i ∈ tx.ins →
        (∀ p ∈ pre, p.txid ≠ i.txid) → i.txid ∉ (tx :: post).map (·.txid) := by
    intro path
    induction path with
    | nil => intro u _ _ e he; cases he
    | cons a rest ih =>
      intro u hu hfr e he pre post tx i htx hne hi hpre hlater
      rcases List.mem_cons.mp he with rfl | hin
      · rw [misordered_block_never_replays e rest pre post tx i htx hne hi hlater hpre hfr] at hu
        cases hu
      · cases hr : replay rest with
        | none => simp only [replay, hr] at hu; cases hu
        | some u' => exact ih u' hr hfr.2 e hin pre post tx i htx hne hi hpre hlater
  obtain ⟨path, hp, -⟩ := (reorg_inv r bits U ds hbits hU hds).path
  obtain ⟨u, hu, -⟩ := hp.utxo
  exact ⟨path, hp, aux path u hu hp.fresh⟩

/-- **First seen wins ties when a block is delivered**: a side block whose cumulative work (its parent's work plus its own
difficulty, exact) is NOT strictly greater than the tip's leaves the tip where it is — so among equal-work branches the
one that was there first stays, until a delivery with strictly more work arrives. (The only other way the tip moves is
the fall-back after a FAILED reorganisation, `deliver_keeps_invariant` (c); there FindFarthestNode's first-child rule
decides ties — `tie_after_failed_reorg_counterexample`, known finding; the code's float64 sums are outside the model —
known finding float-work-exact-tie.) -/
theorem tie_keeps_first_seen (U : List Block) (E : List Nat) (c : Chain) (hi : ChainInv U E c) (hU : BlockTree c.root U)
    (b : Block) (hb : b ∈ U) (p t : Node) (hnew : getNode c b.id = none) (hp : getNode c b.parent = some p)
    (hpd : HasData c b.parent p)
    (ht : getNode c c.tip = some t) (hside : c.tip ≠ b.parent)
    (hle : ((workOf c p).add (difficulty b.bits)).gt (workOf c t) = false) :
    (deliver c b).1.tip = c.tip :=
  deliver_keeps_tip ((chainInv_iff hU).mp hi).1 hU b hb p t hnew hp hpd ht hside hle

/-- **failed_reorg_no_residue (full).** From any state satisfying the invariant, `MoveToBlock(dst)` for any node `dst`
of the tree — run with the fuel a delivery gives it — does not panic, and the state it ends in satisfies "unspent map =
replay of the branch the node ends on" (every disconnected block's effects are gone, every connected block's effects
are there, nothing of a block that failed to connect or of its descendants remains: they are not on the branch), the
tree is well-formed, and either the target was reached with the tree untouched or — a block on the way failed, was
deleted with its descendants, and the fall-back ran — the tip is a maximum-work node of the remaining tree. -/
theorem failed_reorg_no_residue (U : List Block) (c : Chain) (w : TreeWF U c) (path : List PE)
    (hp : PathOK c 0 path) (hx : Ext c path) (t : Node) (ht : getNode c c.tip = some t) (hth : t.height = path.length)
    (hU : BlockTree c.root U) (dst : Nat) (d : Node) (hd : getNode c dst = some d) (hdd : HasData c dst d) :
    ∃ c' path', moveTo (fuelOf c) c dst = .ok c' ∧ PathOK c' 0 path' ∧ c'.tip = headId c' path' ∧ TreeWF U c' ∧
      ((c'.tip = dst ∧ c'.nodes = c.nodes) ∨ MaxWork c') ∧
      (∀ e ∈ path', scriptsPass e.txs = true) ∧ Lost U c.root c c' := by
  obtain ⟨c', path', g1, g2, g3, g4, g5, g6, g7, _⟩ :=
    (reorg_specs U (fuelOf c)).2.2 c dst d path w ⟨hp, t, ht, hth⟩ hx hU hd hdd (fuelOf_enough c)
  refine ⟨c', path', g1, g3.1, g3.1.tip, g2, ?_, g6.scripts g3.1.linked, g7⟩
  rcases g5 with h | h
  · exact Or.inl h
  · exact Or.inr ((MaxW_iff g2 (by rw [g4]; exact hU)).mpr h)

/-- **MorePOW compares exact cumulative work** (the comparison CommitBlock uses to decide on a reorganisation): in a
well-formed tree `b1.MorePOW(b2)` holds iff the cumulative work of `b1` is strictly greater than that of `b2`. -/
theorem morePOW_compares_work (U : List Block) (c : Chain) (w : TreeWF U c) (hU : BlockTree c.root U) (x1 x2 : Nat)
    (b1 b2 : Node) (h1 : getNode c x1 = some b1) (h2 : getNode c x2 = some b2) :
    morePOW c b1 b2 = (workOf c b1).gt (workOf c b2) := by
  have := morePOW_spec w hU h1 h2
  rw [← workOf_gt_iff w hU h1 h2] at this
  cases h : morePOW c b1 b2 <;> cases h' : (workOf c b1).gt (workOf c b2) <;> simp_all

/-- **FindFarthestNode (from the root) returns a maximum-work node**: the fall-back target after a failed reorganisation
is a node of the tree with at least the cumulative work of every node of the tree. -/
theorem farthest_is_max_work (U : List Block) (c : Chain) (w : TreeWF U c) (hU : BlockTree c.root U) (r : Node)
    (hr : getNode c c.root = some r) :
    ∃ nL, getNode c (farthest c (c.nodes.length + 1) r).1 = some nL ∧
      ∀ x n, getNode c x = some n → (workOf c n).gt (workOf c nL) = false := by
  obtain ⟨r', hr', _, hrb⟩ := w.root
  rw [hr] at hr'; cases hr'
  obtain ⟨nL, h1, h2⟩ := farthest_spec w hU hr hrb
  exact ⟨nL, h1, fun x n hn => (workOf_not_gt_iff w hU hn h1).mpr (h2 x n hn)⟩

-- ------------------------------------------------------------------------------------------ header-first delivery

/-- **A header alone changes nothing but the tree** (unconditionally, for every state and block): PreCheckBlock +
AcceptHeader on a header link a node without data (or answer dup / orphan / too deep) — tip, unspent map, block store, undo
files, LastBlockHeight and root are untouched. -/
theorem header_changes_only_the_tree (c : Chain) (b : Block) :
    (header c b).1.tip = c.tip ∧ (header c b).1.utxo = c.utxo ∧ (header c b).1.store = c.store ∧
    (header c b).1.undoFiles = c.undoFiles ∧ (header c b).1.lastHeight = c.lastHeight ∧ (header c b).1.root = c.root := by
  have hat : ∀ p t att, (headerAt c b p t att).1.tip = c.tip ∧ (headerAt c b p t att).1.utxo = c.utxo ∧
      (headerAt c b p t att).1.store = c.store ∧ (headerAt c b p t att).1.undoFiles = c.undoFiles ∧
      (headerAt c b p t att).1.lastHeight = c.lastHeight ∧ (headerAt c b p t att).1.root = c.root := by
    intro p t att
    unfold headerAt
    simp only
    split
    · exact ⟨rfl, rfl, rfl, rfl, rfl, rfl⟩
    · split <;> exact ⟨rfl, rfl, rfl, rfl, rfl, rfl⟩
  unfold header
  split
  · exact ⟨rfl, rfl, rfl, rfl, rfl, rfl⟩
  · split
    · exact ⟨rfl, rfl, rfl, rfl, rfl, rfl⟩
    · exact ⟨rfl, rfl, rfl, rfl, rfl, rfl⟩
    · exact hat _ _ _

/-- **One operation, any of the three kinds** (`header`: PreCheckBlock + AcceptHeader on the 80 header bytes; `commit`:
HasAllParents + CommitBlock(bl, node) on the node that a header created earlier — the way the client receives every block
from the network; `block`: CheckBlock + AcceptBlock, header and data at once) **keeps the invariant and never panics.**
From a state satisfying `ChainInv`, for an operation whose block is a block of the block tree other than the root, and —
for `block` only — whose parent, if known, has its data and is not an entry that has become unreachable from the root
(`OpOK`): the state afterwards satisfies `ChainInv` again (tree well-formed INCLUDING: nodes without data are not stored
and the nodes with data are closed under "parent"; unspent map = replay of the active branch; the tip is a maximum-work
node AMONG THE NODES THAT HAVE THEIR DATA; completeness w.r.t. the blocks whose data was admitted), no answer is a
panic — in particular HasAllParents / OnActiveBranch find every node they dereference, and the fall-back after a failed
reorganisation (findFarthestWithData, fix c3d926ba) always reaches a block that can be connected, so MoveToBlock /
ParseTillBlock never run out of the quadratic fuel —, and the tip moves only to the operation's block or, answer
`movefailed`, in that fall-back. -/
theorem step_keeps_invariant (U : List Block) (E : List Nat) (c : Chain) (hi : ChainInv U E c) (hU : BlockTree c.root U)
    (op : Op) (hok : OpOK U c op) :
    ChainInv U (stepG (c, E) op).2 (step c op).1 ∧ (∀ s, (step c op).2 ≠ Outcome.panic s) ∧
    ((step c op).1.tip = c.tip ∨ (step c op).1.tip = op.blk.id ∨ (step c op).2 = Outcome.moveFailed) := by
  obtain ⟨hi', hc⟩ := (chainInv_iff hU).mp hi
  obtain ⟨h1, h2, h3, h4, _⟩ := step_inv hi' hU op hok
  have hc1 := stepG_complete hi' hU op hok E hc
  exact ⟨(chainInv_iff (by rw [h2]; exact hU)).mpr ⟨h1, by rw [h2]; exact hc1⟩, h3, h4⟩

/-- **reorg_inv for header-first histories — after ANY history of the three operations.** Let `U` be a block tree
(`BlockTree`) and `ops` any finite history of `header` / `commit` / `block` operations on blocks of `U` — headers running
ahead of the data by any distance, data arriving in any order (a block whose parent has no data yet is answered
`notlinking` and changes nothing), repeated, for blocks that were removed as invalid, for blocks that turn out invalid only
when they are connected, on the tip or in a reorganisation, with header-only nodes anywhere in the tree (above the tip, on
side branches, below an invalid block) — such that every operation satisfies `OpOK` when it is applied (`ClientLike`: no
block has the root's id; `block` = AcceptBlock is used only on top of a parent that has its data — the client uses it for
locally mined blocks, which extend the tip). Then the state reached from the initial one satisfies `ChainInv U E`, `E` the
ghost list of the ids whose DATA was admitted on the way. -/
theorem reorg_inv_ops (r bits : Nat) (U : List Block) (ops : List Op) (hbits : bits % 0x1000000 ≠ 0) (hU : BlockTree r U)
    (hcl : ClientLike U (ChainTree.init r bits) ops) :
    ChainInv U (ops.foldl stepG (ChainTree.init r bits, [])).2
      (ops.foldl (fun c op => (step c op).1) (ChainTree.init r bits)) := by
  obtain ⟨h1, h2, h3, _⟩ := stepG_all ops (ChainTree.init r bits, []) (init_inv U r bits hbits) hU hcl
    (fun x hx => by cases hx) (fun x hx => by cases hx)
  rw [foldl_stepG_fst] at h1 h2 h3
  exact (chainInv_iff (by rw [h2]; exact hU)).mpr ⟨h1, by rw [h2]; exact h3⟩

/-- **The tip is a maximum-work block among the blocks the node could connect** (header-first histories): after any
history as in `reorg_inv_ops`, no node of the tree that has its data (hence, `TreeWF.anc`, the data of all its ancestors)
has more cumulative work than the tip. Announced blocks whose data has not arrived do not compete — and, since fix c3d926ba,
do not mislead the fall-back after a failed reorganisation either. -/
theorem tip_has_max_work_ops (r bits : Nat) (U : List Block) (ops : List Op) (hbits : bits % 0x1000000 ≠ 0)
    (hU : BlockTree r U) (hcl : ClientLike U (ChainTree.init r bits) ops) :
    MaxWork (ops.foldl (fun c op => (step c op).1) (ChainTree.init r bits)) :=
  (reorg_inv_ops r bits U ops hbits hU hcl).maxw

/-- **The tip has at least the work of every block whose data was admitted and whose whole branch is valid** (header-first
histories): every block `x` whose data was admitted on the way (`commit` / `block` answered ok, movefailed or with a
`commitTxs` error — not: no header, parked, duplicate, orphan, too deep) and that is not `Excused` is a node of the tree,
HAS ITS DATA, and its cumulative work is not greater than the tip's. -/
theorem tip_beats_every_valid_admitted_block_ops (r bits : Nat) (U : List Block) (ops : List Op)
    (hbits : bits % 0x1000000 ≠ 0) (hU : BlockTree r U) (hcl : ClientLike U (ChainTree.init r bits) ops) (x : Nat)
    (hx : x ∈ (ops.foldl stepG (ChainTree.init r bits, [])).2)
    (hvalid : ¬ Excused U (ops.foldl (fun c op => (step c op).1) (ChainTree.init r bits)).root x) :
    ∃ t n, getNode (ops.foldl (fun c op => (step c op).1) (ChainTree.init r bits))
             (ops.foldl (fun c op => (step c op).1) (ChainTree.init r bits)).tip = some t ∧
      getNode (ops.foldl (fun c op => (step c op).1) (ChainTree.init r bits)) x = some n ∧ n.txCount ≠ 0 ∧
      (workOf (ops.foldl (fun c op => (step c op).1) (ChainTree.init r bits)) n).gt
        (workOf (ops.foldl (fun c op => (step c op).1) (ChainTree.init r bits)) t) = false := by
  obtain ⟨_, h2, _, h4⟩ := stepG_all ops (ChainTree.init r bits, []) (init_inv U r bits hbits) hU hcl
    (fun x hx => by cases hx) (fun x hx => by cases hx)
  rw [foldl_stepG_fst] at h2 h4
  obtain ⟨t, ht, hmax⟩ := (reorg_inv_ops r bits U ops hbits hU hcl).maxw
  rcases h4 x hx with h | ⟨n, hn, hd⟩
  · exact absurd (by rw [h2]; exact h) hvalid
  · exact ⟨t, n, ht, hn, hd, hmax x n hn (Or.inr hd)⟩

/-- **The fall-back after a failed reorganisation always targets a block that can be connected** (fix c3d926ba):
findFarthestWithData from the root returns a node that HAS ITS DATA (so has every ancestor: MoveToBlock's three climbing
loops never answer "cannot continue" and ParseTillBlock never stops at "not yet commited") and whose cumulative work is
maximal among the nodes that have their data. `FindFarthestNode` (`farthest_is_max_work`) maximises over ALL nodes and may
return a header-only leaf — `header_only_leaf_misleads_old_fallback_example`. -/
theorem fallback_target_has_data (U : List Block) (c : Chain) (w : TreeWF U c) (hU : BlockTree c.root U) (r : Node)
    (hr : getNode c c.root = some r) :
    ∃ nL, getNode c (farthestS c (c.nodes.length + 1) r).1 = some nL ∧
      HasData c (farthestS c (c.nodes.length + 1) r).1 nL ∧
      ∀ x n, getNode c x = some n → HasData c x n → (workOf c n).gt (workOf c nL) = false := by
  obtain ⟨r', hr', _, hrb⟩ := w.root
  rw [hr] at hr'; cases hr'
  obtain ⟨nL, h1, h2, h3⟩ := farthestS_spec w hU hr hrb
  exact ⟨nL, h1, h2, fun x n hn hd => (workOf_not_gt_iff w hU hn h1).mpr (h3 x n hn hd)⟩

/-- **The code's look-ups are look-ups by whole hash, for all three operations**: `stepIdx` (what the oracle runs: every
`BlockIndex` access goes through the 8-byte key and then compares the whole hash) equals `step` whenever no entry of
`BlockIndex` — attached node or unreachable entry — shares the 8-byte key of the operation's block or of its
previous-block field without being that block. -/
theorem stepIdx_is_step (c : Chain) (op : Op) (h1 : KeyOKAll c op.blk.id) (h2 : KeyOKAll c op.blk.parent) :
    stepIdx c op = step c op :=
  stepIdx_eq_step c op h1 h2

-- ------------------------------------------------------------------------------------------ sibling order

/-- **DeleteBranch keeps the arrival order of the remaining children.** `childs` mirrors `BlockTreeNode.Childs` (addChild
appends: arrival order), and the fall-back after a failed reorganisation lets the FIRST child's subtree win an equal-work
tie, so the order is observable in the tip. When the block `nx` that failed to connect is removed with its descendants,
every surviving node `y` keeps its child list, except that the parent of `nx` loses exactly `nx`: the new list is the old
one with `nx` taken out and NOTHING ELSE MOVED (`filter`: a sublist in the same order; equal to `List.erase` since a child
list has no repetitions). A swap-remove (last child moved into the freed slot) does not satisfy this — the harness stream
`siblings` makes that difference visible on the real code. -/
theorem deleteBranch_keeps_sibling_order (U : List Block) (c : Chain) (w : TreeWF U c) (nx : Nat) (nxt : Node)
    (hn : getNode c nx = some nxt) (y : Nat) (p : Node) (hp : getNode c y = some p) (ha : ¬ Desc c nx y) :
    ∃ p', getNode (deleteBranch c nx) y = some p' ∧
      p'.childs = p.childs.filter (· != nx) ∧
      (y ≠ nxt.parent → p'.childs = p.childs) ∧
      (p.childs.Nodup → p'.childs = p.childs.erase nx) := by
  obtain ⟨p', h1, h2, h3⟩ := deleteBranch_childs w hn y p hp ha
  exact ⟨p', h1, h2, h3, fun hnd => by rw [h2]; exact filter_ne_eq_erase_of_nodup _ _ hnd⟩

/-- the parent of the removed block itself: it survives, it did list `nx`, and afterwards lists its other children in
their old order. -/
theorem deleteBranch_parent_keeps_order (U : List Block) (c : Chain) (w : TreeWF U c) (nx : Nat) (nxt : Node)
    (hn : getNode c nx = some nxt) (hx : nx ≠ c.root) :
    ∃ p p', getNode c nxt.parent = some p ∧ getNode (deleteBranch c nx) nxt.parent = some p' ∧ nx ∈ p.childs ∧
      p'.childs = p.childs.filter (· != nx) ∧ List.Sublist p'.childs p.childs := by
  obtain ⟨p, p', h1, h2, h3, h4⟩ := deleteBranch_parent_childs w hn hx
  exact ⟨p, p', h1, h2, h3, h4, by rw [h4]; exact List.filter_sublist⟩

-- ------------------------------------------------------------------------------------------ the tie-break counterexample

def easyBits : Nat := 0x207fffff

def cbTx (id : Nat) : Tx := { txid := id, ins := [], outs := [{ value := 5000000000, script := "51" }], scriptsOk := true }

/-- x1; b2 (first child of x1); a2; a3; b3; b4 — b4 spends an unknown output, so it is invalid once connected -/
def tieDeliveries : List Block :=
  [ { id := 1, parent := 100, bits := easyBits, txs := [cbTx 1001] },      -- x1
    { id := 2, parent := 1, bits := easyBits, txs := [cbTx 1002] },        -- b2
    { id := 3, parent := 1, bits := easyBits, txs := [cbTx 1003] },        -- a2
    { id := 4, parent := 3, bits := easyBits, txs := [cbTx 1004] },        -- a3  (becomes the tip)
    { id := 5, parent := 2, bits := easyBits, txs := [cbTx 1005] },        -- b3  (same work as a3, seen later)
    { id := 6, parent := 5, bits := easyBits,
      txs := [cbTx 1006, { txid := 2000, ins := [{ txid := 999, vout := 0 }], outs := [], scriptsOk := true }] } ]  -- b4

def runAll (bs : List Block) : Chain := bs.foldl (fun c b => (deliver c b).1) (ChainTree.init 100 easyBits)

/-- **The property's "first seen wins ties" is false after a failed reorganisation** (model and real code, corpus
scenario `tie-after-failed-reorg`): after the five valid deliveries the tip is a3 (id 4); b3 (id 5) has the same
work and was seen later; delivering the invalid b4 moves the tip to b3, because the fall-back `FindFarthestNode`
prefers the first child's subtree. -/
theorem tie_after_failed_reorg_counterexample :
    (runAll (tieDeliveries.take 5)).tip = 4 ∧ (runAll tieDeliveries).tip = 5 ∧
    (getNode (runAll tieDeliveries) 6).isNone = true := by
  decide +kernel

/-- P (id 1) on the root; its children 2, 3, 4, 5 in arrival order, 3 invalid once connected (spends an unknown output);
6 on 4, 7 on 5 (equal work, 6 seen first), 8 on 3 and 9 on 8 (the invalid sibling's branch becomes the heaviest) -/
def siblingDeliveries : List Block :=
  [ { id := 1, parent := 100, bits := easyBits, txs := [cbTx 1001] },
    { id := 2, parent := 1, bits := easyBits, txs := [cbTx 1002] },
    { id := 3, parent := 1, bits := easyBits,
      txs := [cbTx 1003, { txid := 2000, ins := [{ txid := 999, vout := 0 }], outs := [], scriptsOk := true }] },
    { id := 4, parent := 1, bits := easyBits, txs := [cbTx 1004] },
    { id := 5, parent := 1, bits := easyBits, txs := [cbTx 1005] },
    { id := 6, parent := 4, bits := easyBits, txs := [cbTx 1006] },
    { id := 7, parent := 5, bits := easyBits, txs := [cbTx 1007] },
    { id := 8, parent := 3, bits := easyBits, txs := [cbTx 1008] },
    { id := 9, parent := 8, bits := easyBits, txs := [cbTx 1009] } ]

/-- **The sibling order after a deletion decides the fall-back** (concrete run of the model's `deliver`): before the last
delivery the tip is 6 (first seen of the two equal-work leaves 6 and 7) and P lists [2, 3, 4, 5]; delivering 9 starts a
reorganisation that fails at 3; afterwards P lists [2, 4, 5] — 4 still before 5 — and the fall-back returns to 6. With the
last child moved into the freed slot the list would be [2, 5, 4] and the fall-back would end on 7. -/
theorem sibling_order_after_delete_example :
    (runAll (siblingDeliveries.take 8)).tip = 6 ∧
    (getNode (runAll (siblingDeliveries.take 8)) 1).map (·.childs) = some [2, 3, 4, 5] ∧
    (deliver (runAll (siblingDeliveries.take 8)) (siblingDeliveries.getD 8 default)).2.name = "movefailed" ∧
    (getNode (runAll siblingDeliveries) 1).map (·.childs) = some [2, 4, 5] ∧
    (runAll siblingDeliveries).tip = 6 ∧ (getNode (runAll siblingDeliveries) 3).isNone = true := by
  decide +kernel

-- ------------------------------------------------------------------------------------------ header-first delivery: concrete runs

/-- P = 1 on the root 100; A1 = 2 on P; A2 = 3 on A1; B1 = 4 on P, invalid once connected (spends an unknown output);
B2 = 5 on B1 -/
def hfBlocks : List Block :=
  [ { id := 1, parent := 100, bits := easyBits, txs := [cbTx 1001] },
    { id := 2, parent := 1, bits := easyBits, txs := [cbTx 1002] },
    { id := 3, parent := 2, bits := easyBits, txs := [cbTx 1003] },
    { id := 4, parent := 1, bits := easyBits,
      txs := [cbTx 1004, { txid := 2000, ins := [{ txid := 999, vout := 0 }], outs := [], scriptsOk := true }] },
    { id := 5, parent := 4, bits := easyBits, txs := [cbTx 1005] } ]

def hfB (i : Nat) : Block := hfBlocks.getD i default

/-- the witness of fix c3d926ba as a history of operations: P and A1 with data (tip A1), the header of A2 announced, B1
stored aside, B2 -/
def hfOps : List Op :=
  [.header (hfB 0), .commit (hfB 0), .header (hfB 1), .commit (hfB 1), .header (hfB 2),
   .header (hfB 3), .commit (hfB 3), .header (hfB 4), .commit (hfB 4)]

def runOps (ops : List Op) : Chain := ops.foldl (fun c op => (step c op).1) (ChainTree.init 100 easyBits)

/-- **A header-only leaf misleads `FindFarthestNode`, not `findFarthestWithData`** (kernel-checked run of the model; the
corpus scenario header-first-failed-reorg-one-header-ahead replays it on the real code): before the last operation the tip
is A1 (id 2) and A2 (id 3) is a node without data; the data of B2 starts a reorganisation that fails at B1; `farthest`
(FindFarthestNode, the fall-back's choice before the fix) names A2 — a node that cannot be connected: MoveToBlock(A2) /
ParseTillBlock(A2) / FindFarthestNode went round without end in the code —, `farthestS` names A1; the operation answers
`movefailed`, the tip is A1 again, B1 and B2 are gone, A2 is still an announced header. -/
theorem header_only_leaf_misleads_old_fallback_example :
    (runOps (hfOps.take 8)).tip = 2 ∧ ((getNode (runOps (hfOps.take 8)) 3).map (·.txCount)) = some 0 ∧
    (step (runOps (hfOps.take 8)) (hfOps.getD 8 default)).2.name = "movefailed" ∧
    (runOps hfOps).tip = 2 ∧
    ((getNode (runOps hfOps) 100).map fun r => (farthest (runOps hfOps) 10 r).1) = some 3 ∧
    ((getNode (runOps hfOps) 100).map fun r => (farthestS (runOps hfOps) 10 r).1) = some 2 ∧
    ((runOps hfOps).nodes.map (·.id)) = [100, 1, 2, 3] ∧ ((getNode (runOps hfOps) 3).map (·.txCount)) = some 0 := by
  decide +kernel

/-- the answers of the other outcomes of `commit`, and what a refused tip extension leaves behind (kernel-checked run):
the data of A1 before P's (`notlinking`), data without a header (`noheader`), data twice (`dup`); B1 announced on the tip P
with B2 announced below it: B1's data is refused (`err:unknown-input`), B1 leaves the tree, B2 is left in `limbo`; B2's
data is then `discarded`, its header "already in"; a header below B2 is accepted into `limbo`. -/
theorem commit_outcomes_example :
    let c0 := ChainTree.init 100 easyBits
    let c1 := (step (step c0 (.header (hfB 0))).1 (.header (hfB 1))).1
    let c2 := (step c1 (.commit (hfB 0))).1
    let c3 := (step (step c2 (.header (hfB 3))).1 (.header (hfB 4))).1
    let c4 := (step c3 (.commit (hfB 3))).1
    (step c1 (.commit (hfB 1))).2.name = "notlinking" ∧ (step c1 (.commit (hfB 2))).2.name = "noheader" ∧
    (step c2 (.commit (hfB 0))).2.name = "dup" ∧ c2.tip = 1 ∧
    (step c3 (.commit (hfB 3))).2.name = "err:unknown-input" ∧ c4.tip = 1 ∧
    (c4.nodes.map (·.id)) = [100, 1, 2] ∧ (c4.limbo.map (·.id)) = [5] ∧
    (step c4 (.commit (hfB 4))).2.name = "discarded" ∧ (step c4 (.header (hfB 4))).2.name = "dup" ∧
    (step c4 (.block (hfB 4))).2.name = "dup" ∧
    (step c4 (.header { id := 6, parent := 5, bits := easyBits, txs := [] })).2.name = "ok" ∧
    ((step c4 (.header { id := 6, parent := 5, bits := easyBits, txs := [] })).1.limbo.map (·.id)) = [5, 6] ∧
    (step c4 (.block { id := 6, parent := 5, bits := easyBits, txs := [cbTx 1006] })).2.name = "detached" := by
  decide +kernel

-- ------------------------------------------------------------------------------------------ block look-ups (8-byte index key)

/-- **The code's block look-ups are look-ups by whole hash.** `deliverIdx` is what the oracle runs and the harness compares
with CheckBlock + AcceptBlock: the "already in" test and the parent look-up of PreCheckBlock / AcceptHeader go through
`BlockIndex`, keyed by the first 8 bytes of a hash (`bidx`), and then compare the WHOLE hash (fix 533896f3). It equals
`deliver` — the definition all theorems above are about, which finds blocks by their whole id — whenever no node of the
tree shares the 8-byte key of the delivered block's hash, or of its previous-block field, without being that block
(`KeyOK`). What `KeyOK` excludes for the previous-block field is covered unconditionally by
`prefix_only_parent_is_unknown`; what it excludes for the block's own hash is two different BLOCKS with the same first 8 hash
bytes (about 2^64 hash evaluations on top of the proof of work; `deliverIdx` answers `index-collision`). -/
theorem deliverIdx_is_deliver (c : Chain) (b : Block) (h1 : KeyOK c b.id) (h2 : KeyOK c b.parent) :
    deliverIdx c b = deliver c b :=
  deliverIdx_eq_deliver c b h1 h2

/-- **… for whole histories**: if no two DIFFERENT hashes that can occur — the root, the ids of the blocks of `U`, their
previous-block fields — share their first 8 bytes (`KeysDistinct`), then for EVERY history of deliveries the state the
oracle computes with `deliverIdx` is the state `deliver` reaches: all theorems about `deliver` histories are theorems about
what the harness compares with the code. (Header-first operations: the step form `stepIdx_is_step`.) -/
theorem deliverIdx_history_is_deliver_history (r bits : Nat) (U ds : List Block) (hbits : bits % 0x1000000 ≠ 0)
    (hU : BlockTree r U) (hk : KeysDistinct r U) (hds : ∀ b ∈ ds, b ∈ U) :
    ds.foldl (fun c b => (deliverIdx c b).1) (ChainTree.init r bits) =
      ds.foldl (fun c b => (deliver c b).1) (ChainTree.init r bits) :=
  deliverIdx_all ds (ChainTree.init r bits) (init_inv U r bits hbits) (init_allData r bits) hU hk hds

/-- **A previous-block field that shares only its 8-byte index key with a known block names an unknown parent**: for any
state and any block whose own key is free, if the entry found under the key of its previous-block field has another
whole id, the block is turned away as an orphan (`later`) and the state is unchanged — it is NOT linked under that entry
(which is what the code did before fix 533896f3: the header field is free data, no hash grinding is needed). -/
theorem prefix_only_parent_is_unknown (c : Chain) (b : Block) (p : Node) (hnew : lookupIdx c b.id = none)
    (hp : lookupIdx c b.parent = some p) (hne : p.id ≠ b.parent) : deliverIdx c b = (c, Outcome.later) :=
  deliverIdx_prefix_only_parent c b p hnew hp hne

-- non-vacuity: root hash 5·2^192+7; a block naming 5·2^192+8 (same first 8 bytes) is an orphan, the same block naming the
-- root is connected; `KeyOK` holds for the latter
example :
    let c := ChainTree.init (5 * 2 ^ 192 + 7) easyBits
    let good : Block := { id := 9 * 2 ^ 192 + 1, parent := 5 * 2 ^ 192 + 7, bits := easyBits, txs := [cbTx 1001] }
    let twin : Block := { good with id := 9 * 2 ^ 192 + 2, parent := 5 * 2 ^ 192 + 8 }
    bidx twin.parent = bidx c.root ∧ (lookupIdx c twin.parent).map (·.id) = some c.root ∧ lookupIdx c twin.id = none ∧
    (deliverIdx c twin).2.name = "later" ∧ (deliverIdx c twin).1.tip = c.root ∧
    (deliverIdx c good).2.name = "ok" ∧ (deliverIdx c good).1.tip = good.id ∧
    (deliver c twin).2.name = "later" := by
  decide +kernel

example : KeyOK (ChainTree.init (5 * 2 ^ 192 + 7) easyBits) (9 * 2 ^ 192 + 1) ∧
    KeyOK (ChainTree.init (5 * 2 ^ 192 + 7) easyBits) (5 * 2 ^ 192 + 7) := by
  constructor <;> intro n hn hk <;> simp [ChainTree.init] at hn <;> subst hn <;> revert hk <;> decide

-- KeysDistinct is satisfiable (ids that differ in their first 8 bytes)
example : KeysDistinct (5 * 2 ^ 192 + 7) [{ id := 9 * 2 ^ 192 + 1, parent := 5 * 2 ^ 192 + 7, bits := easyBits, txs := [cbTx 1001] }] := by
  intro x y hx hy hb
  have occ : ∀ z, Occurs (5 * 2 ^ 192 + 7) [{ id := 9 * 2 ^ 192 + 1, parent := 5 * 2 ^ 192 + 7, bits := easyBits, txs := [cbTx 1001] }] z →
      z = 5 * 2 ^ 192 + 7 ∨ z = 9 * 2 ^ 192 + 1 := by
    intro z hz
    rcases hz with h | ⟨b, hb, h | h⟩
    · exact Or.inl h
    · simp only [List.mem_singleton] at hb; subst hb; exact Or.inr h.symm
    · simp only [List.mem_singleton] at hb; subst hb; exact Or.inl h.symm
  rcases occ x hx with rfl | rfl <;> rcases occ y hy with rfl | rfl <;> first | rfl | (revert hb; decide)

-- non-vacuity of the hypotheses used above
example : ∃ u txids ch, validChangesB u txids ch = true ∧ ch.deled ≠ [] :=
  ⟨[{ txid := 7, height := 1, coinbase := true, outs := [some ⟨50, "51"⟩, some ⟨60, "00"⟩] }], [8],
   { deled := [(7, [true, false])],
     undo := [{ txid := 7, height := 1, coinbase := true, outs := [some ⟨50, "51"⟩, none] }],
     addList := [{ txid := 8, height := 2, coinbase := false, outs := [some ⟨49, "51"⟩] }] }, by decide, by decide⟩

example : ∃ outs rm, (delOuts outs rm).any Option.isSome = false ∧ outs ≠ [] :=
  ⟨[some ⟨1, ""⟩, none], [true, false], by decide, by decide⟩

example : ∃ (c : Chain) (b : Block) (h : Nat) (ch : Changes), c.tip = b.parent ∧
    commitTxs c.utxo h (reward h) false b.txs = .ok ch :=
  ⟨ChainTree.init 100 easyBits, { id := 1, parent := 100, bits := easyBits, txs := [cbTx 1001] }, 1,
   { deled := [], undo := [], addList := [{ txid := 1001, height := 1, coinbase := true, outs := [some ⟨5000000000, "51"⟩] }] },
   by decide, by rfl⟩

example : ∃ (c : Chain) (b : Block) (h : Nat) (e : Err), c.tip = b.parent ∧
    commitTxs c.utxo h (reward h) false b.txs = .error e :=
  ⟨ChainTree.init 100 easyBits, { id := 1, parent := 100, bits := easyBits, txs := [] }, 1, .noCoinbase, by decide, by rfl⟩

def exChain : Chain :=
  { ChainTree.init 100 easyBits with
    nodes := [{ id := 100, parent := 100, height := 0, bits := easyBits, childs := [1], txCount := 0 },
              { id := 1, parent := 100, height := 1, bits := easyBits, childs := [], txCount := 0 }] }
def exBlock : Block := { id := 1, parent := 100, bits := easyBits, txs := [cbTx 1001] }
def exChanges : Changes :=
  { deled := [], undo := [], addList := [{ txid := 1001, height := 1, coinbase := true, outs := [some ⟨5000000000, "51"⟩] }] }

-- the hypotheses of `extend_then_undo` are satisfiable together
example : exChain.tip = exBlock.parent ∧
    commitTxs exChain.utxo 1 (reward 1) false exBlock.txs = .ok exChanges ∧
    (∀ t ∈ exBlock.txs.map (·.txid), exChain.utxo.get t = none) ∧
    getNode (commitBlock exChain exBlock 1).1 exBlock.id =
      some { id := 1, parent := 100, height := 1, bits := easyBits, childs := [], txCount := 1 } :=
  ⟨by decide, by rfl, fun _ _ => rfl, by rfl⟩

example : ∃ a b : Q, a.gt b = true := ⟨⟨2, 1⟩, ⟨1, 1⟩, by decide⟩

example : ∃ (c : Chain) (b : Block), (getNode c b.id).isSome = true :=
  ⟨ChainTree.init 100 easyBits, { id := 100, parent := 0, bits := 0, txs := [] }, by decide⟩

example : ∃ (c : Chain) (b : Block), getNode c b.id = none ∧ getNode c b.parent = none :=
  ⟨ChainTree.init 100 easyBits, { id := 5, parent := 4, bits := 0, txs := [] }, by decide, by decide⟩

-- non-vacuity of the all-histories theorems: the block tree `exU` (Proofs/C06Example: x1 on the root; a2 and b2 on x1; b3 on
-- b2; b2 invalid once connected) satisfies `BlockTree`; delivering x1, a2, b2, b3 stores b2 aside (tie), tries to reorganise
-- to b3, fails at b2 and falls back to a2

def exRun (ds : List Block) : Chain := ds.foldl (fun c b => (deliver c b).1) (ChainTree.init 0 exBits)

-- reorg_inv / tip_has_max_work: hypotheses hold, and the history contains a failed reorganisation
example : exBits % 0x1000000 ≠ 0 ∧ BlockTree 0 exU ∧ (∀ b ∈ exU, b ∈ exU) ∧
    (exRun (exU.take 3)).tip = 2 ∧ (deliver (exRun (exU.take 3)) (exU.getD 3 default)).2.name = "movefailed" ∧
    (exRun exU).tip = 2 ∧ ((exRun exU).nodes.map (·.id)) = [0, 1, 2] :=
  ⟨by decide, exU_blockTree, fun _ h => h, by decide +kernel, by decide +kernel, by decide +kernel, by decide +kernel⟩

theorem exInv (ds : List Block) (h : ∀ b ∈ ds, b ∈ exU) :
    ChainInv exU (ds.foldl deliverG (ChainTree.init 0 exBits, [])).2 (exRun ds) :=
  reorg_inv 0 exBits exU ds (by decide) exU_blockTree h

theorem exRoot (ds : List Block) (h : ∀ b ∈ ds, b ∈ exU) : (exRun ds).root = 0 :=
  (deliver_all_inv ds (ChainTree.init 0 exBits) (init_inv exU 0 exBits (by decide)) (init_allData 0 exBits) exU_blockTree h).2

theorem exTake (n : Nat) : ∀ b ∈ exU.take n, b ∈ exU := fun _ h => List.mem_of_mem_take h

-- deliver_keeps_invariant: a state with the invariant, the block tree, and a block that triggers the failed reorganisation
example : ∃ (E : List Nat) (c : Chain) (b : Block), ChainInv exU E c ∧ BlockTree c.root exU ∧ b ∈ exU ∧
    (∀ p, getNode c b.parent = some p → HasData c b.parent p) ∧ (deliver c b).2.name = "movefailed" :=
  ⟨_, exRun (exU.take 3), exU.getD 3 default, exInv _ (exTake 3), by rw [exRoot _ (exTake 3)]; exact exU_blockTree,
   by simp [exU], fun p hp => blocks_only_no_header_only_node 0 exBits exU (exU.take 3) (by decide) exU_blockTree (exTake 3) _ p hp,
   by decide +kernel⟩

-- non-vacuity of the header-first theorems (step_keeps_invariant, reorg_inv_ops, tip_has_max_work_ops,
-- tip_beats_every_valid_admitted_block_ops): a history over `exU` that satisfies `ClientLike` — x1 by CheckBlock + AcceptBlock
-- on the root; the headers of a2, b2, b3; the data of b2 (on the tip x1: refused, b2 leaves the tree, the announced b3 is
-- left unreachable), of b3 (discarded), of a2 (connected)
def exB (i : Nat) : Block := exU.getD i default
def exOps : List Op :=
  [.block (exB 0), .header (exB 1), .header (exB 2), .header (exB 3), .commit (exB 2), .commit (exB 3), .commit (exB 1)]
def exRunOps (ops : List Op) : Chain := ops.foldl (fun c op => (step c op).1) (ChainTree.init 0 exBits)

theorem exOps_clientLike : ClientLike exU (ChainTree.init 0 exBits) exOps := by
  refine ⟨⟨by simp [exB, exU, Op.blk], by decide, fun p _ => Or.inl rfl, fun h => by
      have : (step (ChainTree.init 0 exBits) (.block (exB 0))).2.name = "detached" := by rw [h]; rfl
      revert this; decide +kernel⟩,
    ⟨by simp [exB, exU, Op.blk], by decide +kernel, trivial⟩, ⟨by simp [exB, exU, Op.blk], by decide +kernel, trivial⟩,
    ⟨by simp [exB, exU, Op.blk], by decide +kernel, trivial⟩, ⟨by simp [exB, exU, Op.blk], by decide +kernel, trivial⟩,
    ⟨by simp [exB, exU, Op.blk], by decide +kernel, trivial⟩, ⟨by simp [exB, exU, Op.blk], by decide +kernel, trivial⟩, trivial⟩

example : exBits % 0x1000000 ≠ 0 ∧ BlockTree 0 exU ∧ ClientLike exU (ChainTree.init 0 exBits) exOps ∧
    (step (exRunOps (exOps.take 4)) (exOps.getD 4 default)).2.name = "err:unknown-input" ∧
    ((exRunOps (exOps.take 5)).limbo.map (·.id)) = [4] ∧
    (step (exRunOps (exOps.take 5)) (exOps.getD 5 default)).2.name = "discarded" ∧
    (exRunOps exOps).tip = 2 ∧ ((exRunOps exOps).nodes.map (·.id)) = [0, 1, 2] ∧
    (exOps.foldl stepG (ChainTree.init 0 exBits, [])).2 = [2, 3, 1] :=
  ⟨by decide, exU_blockTree, exOps_clientLike, by decide +kernel, by decide +kernel, by decide +kernel, by decide +kernel,
   by decide +kernel, by decide +kernel⟩

-- step_keeps_invariant: a state with the invariant reached header-first, and an operation satisfying OpOK whose block is
-- refused on the tip while a descendant of it is announced
example : ∃ (E : List Nat) (c : Chain) (op : Op), ChainInv exU E c ∧ BlockTree c.root exU ∧ OpOK exU c op ∧
    (step c op).2.name = "err:unknown-input" ∧ (step c op).1.limbo ≠ [] :=
  ⟨_, exRunOps (exOps.take 4), exOps.getD 4 default,
   reorg_inv_ops 0 exBits exU (exOps.take 4) (by decide) exU_blockTree
     ⟨exOps_clientLike.1, exOps_clientLike.2.1, exOps_clientLike.2.2.1, exOps_clientLike.2.2.2.1, trivial⟩,
   by rw [show (exRunOps (exOps.take 4)).root = 0 by decide +kernel]; exact exU_blockTree,
   exOps_clientLike.2.2.2.2.1, by decide +kernel, by decide +kernel⟩

-- completeness (`ChainInv.complete`, only_invalid_blocks_are_removed, tip_beats_every_valid_admitted_block): in the history
-- x1, a2, b2, b3 all four blocks are admitted; b2 (id 3) and b3 (id 4) are no longer nodes at the end — and they are excused:
-- b2 spends an unknown output, so it fails `commitTxs` on the replay of [x1]; b3 is its child
theorem exExcused3 : InvalidOnReplay exU 0 { id := 3, parent := 1, bits := exBits, txs := exT3 } :=
  ⟨[⟨1, exT1⟩], _, .unknownInput,
   ⟨⟨{ id := 1, parent := 0, bits := exBits, txs := exT1 }, by simp [exU], rfl, rfl, rfl⟩, trivial⟩, rfl, rfl, rfl⟩

example : (exU.foldl deliverG (ChainTree.init 0 exBits, [])).2 = [4, 3, 2, 1] ∧
    ((exRun exU).nodes.map (·.id)) = [0, 1, 2] ∧ Excused exU 0 3 ∧ Excused exU 0 4 :=
  ⟨by decide +kernel, by decide +kernel,
   ⟨_, by simp [exU], UAnc.refl, exExcused3⟩,
   ⟨{ id := 3, parent := 1, bits := exBits, txs := exT3 }, by simp [exU],
     UAnc.step (b := { id := 4, parent := 3, bits := exBits, txs := exT4 }) (by simp [exU]) UAnc.refl, exExcused3⟩⟩

-- … and x1 (id 1) is NOT excused (the hypothesis `¬ Excused` of tip_beats_every_valid_admitted_block is satisfiable): its
-- only ancestor-or-self in exU is x1 itself, whose branch below is empty, and `commitTxs` accepts it on the empty map
theorem exUAnc01 {a x : Nat} (h : UAnc exU a x) : (x = 1 ∨ x = 0) → (a = 1 ∨ a = 0) := by
  induction h with
  | refl => exact id
  | @step b hb _ ih =>
    intro hx
    simp only [exU, List.mem_cons, List.mem_nil_iff, or_false] at hb
    rcases hb with rfl | rfl | rfl | rfl
    · exact ih (Or.inr rfl)
    all_goals (rcases hx with hx | hx <;> simp at hx)

theorem exNotExcused1 : ¬ Excused exU 0 1 := by
  rintro ⟨b, hb, hanc, p, u, e, hp, hh, hr, herr⟩
  have hb1 := exUAnc01 hanc (Or.inl rfl)
  simp only [exU, List.mem_cons, List.mem_nil_iff, or_false] at hb
  rcases hb with rfl | rfl | rfl | rfl
  · have := exU_head0 hp hh
    subst this
    simp only [replay, Option.some.injEq] at hr
    subst hr
    have h2 : commitTxs ([] : DB) (([] : List PE).length + 1) (reward (([] : List PE).length + 1)) false exT1 = .ok _ := rfl
    rw [h2] at herr
    cases herr
  all_goals (rcases hb1 with h | h <;> simp at h)

example : ∃ x, x ∈ (exU.foldl deliverG (ChainTree.init 0 exBits, [])).2 ∧ ¬ Excused exU (exRun exU).root x :=
  ⟨1, by decide +kernel, by rw [exRoot exU (fun _ h => h)]; exact exNotExcused1⟩

-- scripts (`ChainInv.path … scripts`, active_branch_scripts_valid): a block whose second transaction fails its script oracle
-- is refused on the tip with `err:scripts` and does not become a node; delivered as a side block and then made the heavier
-- branch by a child, the reorganisation fails at it (`movefailed`), it is removed with the child, and the tip stays
def sxSpend (ok : Bool) : Tx := { txid := 2001, ins := [{ txid := 1001, vout := 0 }], outs := [{ value := 1, script := "51" }], scriptsOk := ok }
def sxBlocks : List Block :=
  [ { id := 1001, parent := 100, bits := easyBits, txs := [cbTx 1001] } ] ++
  (List.range 100).map (fun i => { id := 1002 + i, parent := 1001 + i, bits := easyBits, txs := [cbTx (1002 + i)] }) ++
  [ { id := 2000, parent := 1101, bits := easyBits, txs := [cbTx 5000, sxSpend false] } ]

theorem script_failure_example :
    (deliver (runAll (sxBlocks.take 101)) (sxBlocks.getD 101 default)).2.name = "err:scripts" ∧
    (getNode (runAll sxBlocks) 2000).isNone = true ∧ (runAll sxBlocks).tip = 1101 ∧
    scriptsPass [cbTx 5000, sxSpend false] = false ∧ scriptsPass [cbTx 5000, sxSpend true] = true ∧
    (deliver (runAll (sxBlocks.take 101)) { id := 2000, parent := 1101, bits := easyBits, txs := [cbTx 5000, sxSpend true] }).2.name = "ok" := by
  decide +kernel

-- tie_keeps_first_seen: after x1, a2 the block b2 (same work as the tip a2) arrives on the side branch
example : ∃ (E : List Nat) (c : Chain) (b : Block) (p t : Node), ChainInv exU E c ∧ BlockTree c.root exU ∧ b ∈ exU ∧
    getNode c b.id = none ∧ getNode c b.parent = some p ∧ getNode c c.tip = some t ∧ c.tip ≠ b.parent ∧
    ((workOf c p).add (difficulty b.bits)).gt (workOf c t) = false :=
  ⟨_, exRun (exU.take 2), exU.getD 2 default, _, _, exInv _ (exTake 2), by rw [exRoot _ (exTake 2)]; exact exU_blockTree,
   by simp [exU], by decide +kernel, by rfl, by rfl, by decide +kernel, by decide +kernel⟩

-- failed_reorg_no_residue / morePOW_compares_work / farthest_is_max_work: the state after x1, a2, b2, b3-less: MoveToBlock(b2)
example : ∃ (c : Chain) (path : List PE) (t d r : Node), TreeWF exU c ∧ PathOK c 0 path ∧ Ext c path ∧ getNode c c.tip = some t ∧
    t.height = path.length ∧ BlockTree c.root exU ∧ getNode c 3 = some d ∧ getNode c c.root = some r := by
  obtain ⟨w, ⟨path, hp, ⟨t, ht, hth⟩, _, hx⟩, _, _⟩ := exInv (exU.take 3) (exTake 3)
  exact ⟨exRun (exU.take 3), path, t, _, _, w, hp, hx, ht, hth, by rw [exRoot _ (exTake 3)]; exact exU_blockTree, by rfl, by rfl⟩

-- deleteBranch_keeps_sibling_order / deleteBranch_parent_keeps_order: the state after x1, a2, b2 (b2 = id 3 stored aside, x1 lists
-- [2, 3]); removing b2: hypotheses hold for y = root, and the parent x1 keeps [2]
example : ∃ (c : Chain) (nxt r : Node), TreeWF exU c ∧ getNode c 3 = some nxt ∧ 3 ≠ c.root ∧ getNode c c.root = some r ∧
    ¬ Desc c 3 c.root ∧ (getNode c 1).map (·.childs) = some [2, 3] ∧
    (getNode (deleteBranch c 3) 1).map (·.childs) = some [2] := by
  have hr := exRoot _ (exTake 3)
  refine ⟨exRun (exU.take 3), _, _, (exInv (exU.take 3) (exTake 3)).wf, by rfl, by rw [hr]; decide, by rfl,
    fun h => ?_, by decide +kernel, by decide +kernel⟩
  have := Desc.root_only h
  rw [hr] at this; cases this

-- non-vacuity of the hypotheses of the replay-invariant theorems


-- commitTxs_refuses_spend_of_later_tx / misordered_block_never_replays: a block [coinbase, child, parent] in which the
-- child (txid 9) spends output 0 of the parent (txid 10) listed behind it; the parent spends an unspent output of the map.
-- The same three transactions with the parent first are accepted.
def oxChild : Tx := { txid := 9, ins := [{ txid := 10, vout := 0 }], outs := [⟨30, "51"⟩], scriptsOk := true }
def oxParent : Tx := { txid := 10, ins := [{ txid := 7, vout := 0 }], outs := [⟨40, "51"⟩], scriptsOk := true }
def oxDB : DB := [{ txid := 7, height := 1, coinbase := false, outs := [some ⟨50, "51"⟩] }]
example : ∃ (u : DB) (pre post : List Tx) (tx : Tx) (i : TxIn), i ∈ tx.ins ∧ pre ≠ [] ∧
    unspentGet u i.txid i.vout = none ∧ (∀ p ∈ pre, p.txid ≠ i.txid) ∧ i.txid ∈ (tx :: post).map (·.txid) ∧
    (commitTxs u 2 (reward 2) false (pre ++ tx :: post)).toOption = none ∧
    (commitTxs u 2 (reward 2) false (pre ++ post ++ [tx])).toOption.isSome = true :=
  ⟨oxDB, [cbTx 8], [oxParent], oxChild, ⟨10, 0⟩, by decide, by decide, by decide, by decide, by decide, by decide, by decide⟩

-- commitTxs_valid / undo_commitTxs: a block that partially spends a two-output record
example : ∃ (u : DB) (txs : List Tx) (ch : Changes), commitTxs u 2 (reward 2) false txs = .ok ch ∧
    (∀ t ∈ txs.map (·.txid), u.get t = none) ∧ ch.deled ≠ [] :=
  ⟨[{ txid := 7, height := 1, coinbase := false, outs := [some ⟨50, "51"⟩, some ⟨60, "00"⟩] }],
   [cbTx 8, { txid := 9, ins := [{ txid := 7, vout := 0 }], outs := [⟨40, "51"⟩], scriptsOk := true }], _, rfl,
   by decide, by decide⟩

set_option linter.defProp false in
def exPath0 : PathOK exChain 0 [] :=
  ⟨rfl, rfl, trivial, ⟨[], rfl, fun _ => rfl⟩, trivial, trivial⟩

-- replay_inv_extend: all hypotheses hold for exChain / exBlock
example : PathOK exChain 0 [] ∧ exChain.tip = exBlock.parent ∧
    (∃ n, getNode exChain exBlock.id = some n ∧ n.parent = exBlock.parent) ∧
    commitTxs exChain.utxo 1 (reward 1) false exBlock.txs = .ok exChanges ∧
    (∀ t ∈ exBlock.txs.map (·.txid), exChain.utxo.get t = none) :=
  ⟨exPath0, by decide, ⟨_, rfl, rfl⟩, rfl, fun _ _ => rfl⟩

-- replay_inv_undoLast: a state with a non-empty active branch above the floor
example : ∃ (c : Chain) (fl : Nat) (e : PE) (rest : List PE), PathOK c fl (e :: rest) ∧ rest.length + 1 > fl :=
  ⟨_, _, _, _, replay_inv_extend exChain 0 [] exPath0 exBlock exChanges (by decide) ⟨_, rfl, rfl⟩
    (by intro e he; cases he) rfl (fun _ _ => rfl), by decide⟩

/-- a1 (id 1) is the tip; b1 (id 2) and b2 (id 3) form a stored side branch -/
def rxChain : Chain :=
  { nodes := [{ id := 100, parent := 100, height := 0, bits := easyBits, childs := [1, 2], txCount := 0 },
              { id := 1, parent := 100, height := 1, bits := easyBits, childs := [], txCount := 1 },
              { id := 2, parent := 100, height := 1, bits := easyBits, childs := [3], txCount := 1 },
              { id := 3, parent := 2, height := 2, bits := easyBits, childs := [], txCount := 1 }],
    root := 100, tip := 1,
    utxo := [{ txid := 1001, height := 1, coinbase := true, outs := [some ⟨5000000000, "51"⟩] }],
    store := [(1, { txs := [cbTx 1001], trusted := true }), (2, { txs := [cbTx 1002], trusted := false }),
              (3, { txs := [cbTx 1003], trusted := false })],
    undoFiles := [(1, [])], lastHeight := 1 }

set_option linter.defProp false in
def rxPath : PathOK rxChain 0 ([⟨1, [cbTx 1001]⟩] ++ []) :=
  ⟨rfl, rfl, ⟨⟨_, rfl, rfl⟩, ⟨_, rfl, rfl⟩, trivial⟩, ⟨_, rfl, fun _ => rfl⟩,
   ⟨fun _ => ⟨[], _, rfl, rfl, rfl⟩, trivial⟩, ⟨fun u hu t _ => by cases hu; rfl, trivial⟩⟩

-- failed_reorg_no_residue_partial: MoveToBlock(b2) from tip a1, common block = root
example : ∃ (d lb cur lb2 anc : Node), getNode rxChain 3 = some d ∧ getNode rxChain rxChain.tip = some lb ∧
    climbChecked rxChain lb.height (d.height + 1) d = .ok (some cur) ∧
    climbChecked rxChain cur.height (lb.height + 1) lb = .ok (some lb2) ∧
    commonAnc rxChain (cur.height + 2) lb2 cur = .ok (some anc) ∧
    anc.id = headId rxChain [] ∧ (∀ e ∈ [(⟨1, [cbTx 1001]⟩ : PE)], e.id ≠ anc.id) ∧ lb.height + 1 ≥ 1 :=
  ⟨_, _, _, _, _, rfl, rfl, rfl, rfl, rfl, rfl, by decide, by decide⟩


/-- rxChain after the disconnect phase: tip = root, empty map -/
def rxChain0 : Chain := { rxChain with tip := 100, utxo := [], lastHeight := 0 }

-- replay_inv_connect: ParseTillBlock(b2) connects b1 first
example : PathOK rxChain0 0 [] ∧ ∃ (last en nxt : Node) (blk : Stored) (ch : Changes),
    rxChain0.tip ≠ 3 ∧ getNode rxChain0 rxChain0.tip = some last ∧ getNode rxChain0 3 = some en ∧
    findPathTo rxChain0 last en = .ok (some 2) ∧ getNode rxChain0 2 = some nxt ∧ nxt.txCount ≠ 0 ∧
    nxt.parent = rxChain0.tip ∧ nxt.height = 0 + 1 ∧ nxt.height + UnwindBufLen ≥ en.height ∧
    alookup 2 rxChain0.store = some blk ∧
    commitTxs rxChain0.utxo nxt.height (reward nxt.height) blk.trusted blk.txs = .ok ch ∧
    (∀ t ∈ blk.txs.map (·.txid), rxChain0.utxo.get t = none) :=
  ⟨⟨rfl, rfl, trivial, ⟨[], rfl, fun _ => rfl⟩, trivial, trivial⟩,
   _, _, _, _, _, by decide, rfl, rfl, rfl, rfl, by decide, rfl, rfl, by decide, rfl, rfl, fun _ _ => rfl⟩


-- reorg_inv_partial: a fork-free history with an accepted and a rejected (no coinbase) delivery
example : OnTip (ChainTree.init 100 easyBits)
    [{ id := 1, parent := 100, bits := easyBits, txs := [cbTx 1001] },
     { id := 2, parent := 1, bits := easyBits, txs := [] },
     { id := 3, parent := 1, bits := easyBits, txs := [cbTx 1003] }] := by
  refine ⟨rfl, fun _ _ => rfl, by decide, ?_, by decide, ?_, trivial⟩
  · intro t ht; simp only [List.map_nil, List.not_mem_nil] at ht
  · decide

end GocoinV.Props.C06
