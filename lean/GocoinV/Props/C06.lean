/-
  Props.C06 — property theorems for C06 (tip = most-work valid chain, UTXO = replay, undo leaves no residue),
  about the definitions of Model/UtxoOps.lean and Model/ChainTree.lean that the oracle executes and the
  harness compares with lib/chain + lib/utxo after every delivery.

  Proved here: the chain-level one-block corollary `extend_then_undo`, the record-level core lemma `undo_commit` (with its hypothesis in the executable form the oracle
  checks on every connected block), the output-list algebra behind it, exactness/asymmetry of the work
  comparison, the delivery decision logic (known block, unknown parent), and the counterexample showing that the
  tie-break after a failed reorganisation is NOT "first seen" (known finding, reproduced on the real code).

  -- OPEN: commitTxs_valid :
  --   commitTxs u h (reward h) tr txs = .ok ch → (∀ t ∈ txs.map (·.txid), u.get t = none) → ValidChanges u (txs.map (·.txid)) ch
  --   (invariant of the input loop: delete list and undo list stay aligned).  Until it is proved the hypothesis of
  --   `undo_commit` is discharged per run by `validChangesB` inside the oracle (ghost counter `vcBad`).
  -- OPEN: reorg_inv : ∀ deliveries, Inv (run deliveries)  with
  --   Inv c := (∀ t v, abs c.utxo t v = replay (activePath c) t v) ∧ tip is a maximum-work valid leaf ∧
  --            undo file of every active height within the unwind window = undo data of the active block there
  --   (induction over deliveries; needs undo_commit + commitTxs_valid + an invariant of moveTo/parseTill).
  --   NOTE the "first seen" part of the property is false for the model and the code, see
  --   `tie_after_failed_reorg_counterexample`.
  -- OPEN: failed_reorg_no_residue (corollary of reorg_inv).
-/
import GocoinV.Model.ChainTree
import GocoinV.Proofs.C06Utxo
import GocoinV.Proofs.C06Chain
namespace GocoinV.Props.C06
open GocoinV.UtxoOps GocoinV.ChainTree

/-- **Core lemma (record level).** If `ch` is what `commitTxs` produced for a block with transaction ids `txids`
on the unspent map `u` (delete list with distinct, present keys; undo data = the spent outputs of exactly those
records; the block's own txids not in `u`; added records belong to the block), then committing the block and
undoing it with that undo data gives back, under EVERY key, exactly the record that was there before — including
partially spent multi-output records (merged back into the surviving record), fully spent records (re-created
from the undo record alone) and records created and spent inside the block (removed). -/
theorem undo_commit (u : DB) (txids : List Nat) (ch : Changes) (hv : ValidChanges u txids ch) :
    ∀ k, (undoBlock (commit u ch) txids ch.undo).get k = u.get k :=
  fun k => undo_commit_get u txids ch hv k

/-- The same at the level of the abstraction `abs : DB → (OutPoint ⇀ Coin)`: disconnecting a block restores every
output it spent and removes every output it created. -/
theorem undo_commit_abs (u : DB) (txids : List Nat) (ch : Changes) (hv : ValidChanges u txids ch) :
    ∀ t v, abs (undoBlock (commit u ch) txids ch.undo) t v = abs u t v := by
  intro t v
  unfold abs unspentGet
  rw [undo_commit u txids ch hv t]

/-- `undo_commit` with its hypothesis in the executable form that the oracle evaluates for every block the model
connects during the correspondence run (`Chain.vcBad` counts failures; the harness requires 0). -/
theorem undo_commit_checked (u : DB) (txids : List Nat) (ch : Changes)
    (h : validChangesB u txids ch = true) :
    ∀ k, (undoBlock (commit u ch) txids ch.undo).get k = u.get k :=
  undo_commit u txids ch (validChangesB_sound u txids ch h)

/-- Partially spent record: merging the undo record (spent outputs only) into what `del` left gives the original
output list, for any spent-flag list. -/
theorem merge_restores_record (outs : List (Option Out)) (rm : List Bool) :
    mergeOuts (maskOuts outs rm) (delOuts outs rm) = outs :=
  merge_mask_del outs rm

/-- Fully spent record: when `del` removed the record (no output left), the undo record alone IS the original. -/
theorem undo_record_is_whole_when_all_spent (outs : List (Option Out)) (rm : List Bool)
    (h : (delOuts outs rm).any Option.isSome = false) : maskOuts outs rm = outs :=
  mask_eq_of_del_empty outs rm h

/-- The exact work comparison is asymmetric: two branches can never each have "more" work than the other
(so equal work never triggers `MoveToBlock` in the model; the code's float sums can differ here only by rounding). -/
theorem work_gt_asymm (a b : Q) (h : a.gt b = true) : b.gt a = false := by
  unfold Q.gt at *
  simp only [decide_eq_true_eq, decide_eq_false_iff_not] at *
  omega

/-- and irreflexive: a branch never has more work than itself. -/
theorem work_gt_irrefl (a : Q) : a.gt a = false := by
  unfold Q.gt; simp

/-- A block that is already in the tree is refused as duplicate and nothing changes. -/
theorem deliver_known_is_noop (c : Chain) (b : Block) (h : (getNode c b.id).isSome = true) :
    deliver c b = (c, Outcome.dup) := by
  unfold deliver; simp [h]

/-- A block whose parent is not in the tree is refused ("maybe later") and nothing changes — children delivered
before their parents never enter the tree. -/
theorem deliver_orphan_is_refused (c : Chain) (b : Block) (h1 : getNode c b.id = none)
    (h2 : getNode c b.parent = none) : deliver c b = (c, Outcome.later) := by
  unfold deliver; simp [h1, h2]

/-- **Extending the tip.** A block on the current tip whose transactions `commitTxs` accepts becomes the tip, and the
unspent map is exactly `commit` of the changes `commitTxs` computed (no other effect on the map). -/
theorem commitBlock_extends (c : Chain) (b : Block) (h : Nat) (ch : Changes)
    (htip : c.tip = b.parent)
    (hok : commitTxs c.utxo h (reward h) false b.txs = .ok ch) :
    (commitBlock c b h).2 = Outcome.ok ∧ (commitBlock c b h).1.tip = b.id ∧
    (commitBlock c b h).1.utxo = commit c.utxo ch ∧ (commitBlock c b h).1.lastHeight = h := by
  unfold commitBlock
  simp only [modNode, htip, beq_self_eq_true, if_true, hok]
  refine ⟨trivial, trivial, ?_, ?_⟩
  · exact (cbt_fields _ h true _ ch).1
  · exact (cbt_fields _ h true _ ch).2.1

/-- **Invalid extension.** A block on the current tip that `commitTxs` rejects leaves tip and unspent map untouched
and is removed from the tree again (so its descendants are refused as orphans). -/
theorem commitBlock_rejects (c : Chain) (b : Block) (h : Nat) (e : Err)
    (htip : c.tip = b.parent)
    (herr : commitTxs c.utxo h (reward h) false b.txs = .error e) :
    (commitBlock c b h).2 = Outcome.rejected e ∧ (commitBlock c b h).1.tip = c.tip ∧
    (commitBlock c b h).1.utxo = c.utxo ∧ (getNode (commitBlock c b h).1 b.id) = none := by
  unfold commitBlock
  simp only [modNode, htip, beq_self_eq_true, if_true, herr]
  refine ⟨trivial, trivial, trivial, ?_⟩
  unfold getNode
  simp only
  rw [List.find?_eq_none]
  intro x hx
  simp only [List.mem_filter] at hx
  simpa using hx.2

/-- **Disconnecting a block leaves no residue (chain level, one block).** After a block was connected on the tip
(`commitBlock`, extension branch), `UndoLastBlock` succeeds — it finds the stored block and the undo file that
`CommitBlockTxs` wrote under that height — and gives back the previous tip, the previous `LastBlockHeight` and, under
every key, the previous unspent record. -/
theorem extend_then_undo (c : Chain) (b : Block) (h : Nat) (ch : Changes) (n : Node)
    (htip : c.tip = b.parent)
    (hok : commitTxs c.utxo h (reward h) false b.txs = .ok ch)
    (hv : ValidChanges c.utxo (b.txs.map (·.txid)) ch)
    (hn : getNode (commitBlock c b h).1 b.id = some n) (hp : n.parent = b.parent) :
    ∃ c2, undoLast (commitBlock c b h).1 = .ok c2 ∧ c2.tip = c.tip ∧
      (∀ k, c2.utxo.get k = c.utxo.get k) ∧ c2.lastHeight = h - 1 := by
  have hid := getNode_id hn
  rw [commitBlock_ok_eq c b h ch htip hok] at hn ⊢
  have hst := cbt_store (preCommit c b) h true (b.txs.map (·.txid)) ch
  have hf := cbt_fields (preCommit c b) h true (b.txs.map (·.txid)) ch
  have hu := cbt_undo_file (preCommit c b) h (b.txs.map (·.txid)) ch
  have hs : alookup n.id (preCommit c b).store = some { txs := b.txs, trusted := true } := by
    rw [hid]; exact alookup_aset _ _ _
  refine ⟨_, undoLast_ok _ n { txs := b.txs, trusted := true } ch.undo hn ?_ ?_, ?_, ?_, ?_⟩
  · simp only [hst]; exact hs
  · simp only [hf.2.1]; exact hu
  · simp only [hp, htip]
  · intro k
    simp only [hf.1]
    exact undo_commit_get c.utxo _ ch hv k
  · simp only [hf.2.1]

-- ------------------------------------------------------------------------------------------ the tie-break counterexample

def easyBits : Nat := 0x207fffff

def cbTx (id : Nat) : Tx := { txid := id, ins := [], outs := [{ value := 5000000000, script := "51" }], scriptsOk := true }

/-- x1; b2 (first child of x1); a2; a3; b3; b4 — b4 spends an unknown output, so it is invalid once connected -/
def tieDeliveries : List Block :=
  [ { id := 1, parent := 100, bits := easyBits, txs := [cbTx 1001] },      -- x1
    { id := 2, parent := 1, bits := easyBits, txs := [cbTx 1002] },        -- b2
    { id := 3, parent := 1, bits := easyBits, txs := [cbTx 1003] },        -- a2
    { id := 4, parent := 3, bits := easyBits, txs := [cbTx 1004] },        -- a3  (becomes the tip)
    { id := 5, parent := 2, bits := easyBits, txs := [cbTx 1005] },        -- b3  (same work as a3, seen later)
    { id := 6, parent := 5, bits := easyBits,
      txs := [cbTx 1006, { txid := 2000, ins := [{ txid := 999, vout := 0 }], outs := [], scriptsOk := true }] } ]  -- b4

def runAll (bs : List Block) : Chain := bs.foldl (fun c b => (deliver c b).1) (ChainTree.init 100 easyBits)

/-- **The property's "first seen wins ties" is false after a failed reorganisation** (model and real code, corpus
scenario `tie-after-failed-reorg`): after the five valid deliveries the tip is a3 (id 4); b3 (id 5) has the same
work and was seen later; delivering the invalid b4 moves the tip to b3, because the fall-back `FindFarthestNode`
prefers the first child's subtree. -/
theorem tie_after_failed_reorg_counterexample :
    (runAll (tieDeliveries.take 5)).tip = 4 ∧ (runAll tieDeliveries).tip = 5 ∧
    (getNode (runAll tieDeliveries) 6).isNone = true := by
  decide +kernel

-- non-vacuity of the hypotheses used above
example : ∃ u txids ch, validChangesB u txids ch = true ∧ ch.deled ≠ [] :=
  ⟨[{ txid := 7, height := 1, coinbase := true, outs := [some ⟨50, "51"⟩, some ⟨60, "00"⟩] }], [8],
   { deled := [(7, [true, false])],
     undo := [{ txid := 7, height := 1, coinbase := true, outs := [some ⟨50, "51"⟩, none] }],
     addList := [{ txid := 8, height := 2, coinbase := false, outs := [some ⟨49, "51"⟩] }] }, by decide, by decide⟩

example : ∃ outs rm, (delOuts outs rm).any Option.isSome = false ∧ outs ≠ [] :=
  ⟨[some ⟨1, ""⟩, none], [true, false], by decide, by decide⟩

example : ∃ (c : Chain) (b : Block) (h : Nat) (ch : Changes), c.tip = b.parent ∧
    commitTxs c.utxo h (reward h) false b.txs = .ok ch :=
  ⟨ChainTree.init 100 easyBits, { id := 1, parent := 100, bits := easyBits, txs := [cbTx 1001] }, 1,
   { deled := [], undo := [], addList := [{ txid := 1001, height := 1, coinbase := true, outs := [some ⟨5000000000, "51"⟩] }] },
   by decide, by rfl⟩

example : ∃ (c : Chain) (b : Block) (h : Nat) (e : Err), c.tip = b.parent ∧
    commitTxs c.utxo h (reward h) false b.txs = .error e :=
  ⟨ChainTree.init 100 easyBits, { id := 1, parent := 100, bits := easyBits, txs := [] }, 1, .noCoinbase, by decide, by rfl⟩

def exChain : Chain :=
  { ChainTree.init 100 easyBits with
    nodes := [{ id := 100, parent := 100, height := 0, bits := easyBits, childs := [1], txCount := 0 },
              { id := 1, parent := 100, height := 1, bits := easyBits, childs := [], txCount := 0 }] }
def exBlock : Block := { id := 1, parent := 100, bits := easyBits, txs := [cbTx 1001] }
def exChanges : Changes :=
  { deled := [], undo := [], addList := [{ txid := 1001, height := 1, coinbase := true, outs := [some ⟨5000000000, "51"⟩] }] }

-- the hypotheses of `extend_then_undo` are satisfiable together
example : exChain.tip = exBlock.parent ∧
    commitTxs exChain.utxo 1 (reward 1) false exBlock.txs = .ok exChanges ∧
    ValidChanges exChain.utxo (exBlock.txs.map (·.txid)) exChanges ∧
    getNode (commitBlock exChain exBlock 1).1 exBlock.id =
      some { id := 1, parent := 100, height := 1, bits := easyBits, childs := [], txCount := 1 } :=
  ⟨by decide, by rfl, validChangesB_sound _ _ _ (by decide), by rfl⟩

example : ∃ a b : Q, a.gt b = true := ⟨⟨2, 1⟩, ⟨1, 1⟩, by decide⟩

example : ∃ (c : Chain) (b : Block), (getNode c b.id).isSome = true :=
  ⟨ChainTree.init 100 easyBits, { id := 100, parent := 0, bits := 0, txs := [] }, by decide⟩

example : ∃ (c : Chain) (b : Block), getNode c b.id = none ∧ getNode c b.parent = none :=
  ⟨ChainTree.init 100 easyBits, { id := 5, parent := 4, bits := 0, txs := [] }, by decide, by decide⟩

end GocoinV.Props.C06
