/-
  Props.C11 — block processing is race-free and its result independent of scheduling (protocol level).
  Theorems are about the definitions of Model/Conc.lean (the ones the oracle executes) and about the
  synchronisation sequences regenerated from /repo into Gen/ConcFacts.lean. "For every schedule" is
  literal: `run st ls` for an arbitrary list `ls` of scheduler choices (disabled choices are skipped).
  Central theorems: `snapshot_atomic`, `no_deadlock`, `commit_schedule_independent`, `accessed_under_lock`
  (helpers: Proofs/C11.lean, C11Snap.lean — FileInv, C11Live.lean — CtlInv + progress, C11Fan.lean — counting).
-/
import GocoinV.Proofs.C11
import GocoinV.Proofs.C11Live
import GocoinV.Proofs.C11Fan
import GocoinV.Proofs.C11Own
import GocoinV.Proofs.C11Thread
namespace GocoinV.Props.C11
open GocoinV.Conc GocoinV.ConcEv GocoinV.Proofs.C11 GocoinV.Proofs.C11Own

/-- Every shared variable of the policy table (functions (a)–(f)) is, in the synchronisation sequence extracted
    from the CURRENT source, accessed inside the critical section of its mutex, or only by the spawning goroutine,
    or atomically / after `wg.Wait()` — up to the explicitly listed, separately justified exceptions. -/
theorem accessed_under_lock : allDisciplined = true := by decide +kernel

/-- sanity of the checker on hand-made sequences: a `frozen` variable written after the first spawn, a `workers` variable
    written plainly by the spawner while workers may run, and a captured local without a guard are all reported -/
example : unguarded [(1, .frozen)] [.wr 1, .goBegin, .rd 1, .goEnd, .wr 1] = [(1, true)] := by decide
example : unguarded [(1, .workers 2 0)] [.wr 1, .goBegin, .atomic 1, .wgDone 2, .goEnd, .wr 1, .wgWait 2, .rd 1] = [(1, true)] := by decide

/-- The 18 protocol-shape facts the transition systems were written for hold of the synchronisation sequences regenerated
    from the current source. What each one is: a decidable test on the FLATTENED event list of one function (source order,
    loop bodies once, block structure as `open`/`close`/`ret`, `neg` = the test of an `if` is a negation):
    the first `call abortWriting` of CommitBlockTxs / UndoBlockTxs / PurgeUnspendable comes before the first mutation event, is
    at nesting depth 0 with no `ret` before it (so it is not inside a conditional), and every such call has db.Mutex held;
    the WHOLE event lists of abortWriting and Save (with block structure and test polarity) equal the modelled shape or its
    early-return spelling; save waits for the previous file goroutine before it starts its own, touches WritingInProgress
    exactly once (the final Clr, depth 0) followed by its only writingDone.Done; every store into commitTxs' local output map is
    a clone; a deferred literal containing wg.Wait is installed before the first `go`; writeOne writes ipos last.
    NOT pinned by them: conditions other than the polarity of a negation (`if x&1 == 0` vs `if x > 0`), which index of
    MapMutex guards which bucket, the value assigned to commitTxs' wait flag, the exit test of the file goroutine's loop. -/
theorem source_protocol_facts : protoFacts = protoFactsOK := by decide +kernel

/-- Meaning of a passed mutex check: if the checker records no new unguarded access, the mutex is in the
    held set it tracks (exclusively for a write). -/
theorem checker_mutex_sound (pol : List (Nat × Guard)) (c : Chk) (x m r s : Nat) (w : Bool)
    (hp : pol.lookup x = some (.mutex m r s)) (hb : (access pol c x w).bad = c.bad) : holds c m w = true := by
  unfold access at hb
  rw [hp] at hb
  simp only at hb
  split at hb
  · assumption
  · simp at hb

/- an instance of the theorem: policy `x=7 ↦ mutex 3`, state after `lock 3`: the write is accepted (bad unchanged), and the
   conclusion is what the theorem says; without the lock the access is recorded -/
example : (access [(7, .mutex 3 0 0)] (chkStep [] {} (.lock 3)) 7 true).bad = (chkStep [] {} (.lock 3)).bad ∧
    holds (chkStep [] {} (.lock 3)) 3 true = true := by decide
example : (access [(7, .mutex 3 0 0)] {} 7 true).bad = [(7, true)] := by decide

/-- joins are pessimistic: a lock taken inside a conditional block is not counted as held after the block (`if c {Lock}; write;
    if c {Unlock}` is reported), a balanced critical section inside a block is fine, and a block that returns does not reach
    the join -/
example : unguarded [(7, .mutex 3 0 0)] [.open, .lock 3, .close, .wr 7, .open, .unlock 3, .close] = [(7, true)] := by decide
example : unguarded [(7, .mutex 3 0 0)] [.open, .lock 3, .wr 7, .unlock 3, .close, .lock 3, .open, .unlock 3, .ret, .close, .wr 7, .unlock 3] = [] := by decide

/-- `unconditional`: a call inside an `if` body, or after a possible return, is not unconditional -/
example : unconditional (.call 5) [.lock 1, .call 5, .wr 2] = true ∧
    unconditional (.call 5) [.lock 1, .open, .call 5, .close, .wr 2] = false ∧
    unconditional (.call 5) [.lock 1, .open, .ret, .close, .call 5] = false := by decide

/-- (c) For every program of the main goroutine (commits, Idle, AbortWriting, HurryUp, direct Save, Close), every
    program of an auxiliary goroutine (HurryUp, AbortWriting) and EVERY schedule: while the saver goroutine is
    between its start and `finito` (waiting for the previous file, reading the header, iterating the maps) the main
    goroutine is never inside the mutation part of CommitBlockTxs — abortWriting always completes first,
    also with stale/duplicate abort tokens and with HurryUp/Close racing. -/
theorem mutation_excludes_saving (mp : List Snap.MOp) (xp : List Snap.XOp) (cap : Nat) (ls : List Snap.Lab)
    (sv : Snap.Saver) (hs : (Snap.run (Snap.init mp xp cap) ls).s = some sv)
    (hm : (Snap.run (Snap.init mp xp cap) ls).mpc = .cMut1 ∨ (Snap.run (Snap.init mp xp cap) ls).mpc = .cMut2) :
    SnapP.reading sv = false := by
  have h := SnapP.inv_run _ ls (SnapP.inv_init mp xp cap)
  apply h.2.2.1 sv hs
  rcases hm with hm | hm <;> simp [hm, SnapP.mCrit]

example :
    let st := Snap.run (Snap.init [.commit, .idle, .commit] [] 2)
      (List.replicate 15 .m ++ [.sStep, .sBegin 1, .sStep, .sStep, .sStep, .sStep] ++ List.replicate 4 .m)
    st.mpc = .cMut1 ∧ st.s.isSome = true := by decide

/-- (c) In every reachable state in which the saver is about to read the header (height, hash) or is iterating
    the maps, the (maps, header) pair is block-consistent (no commit is half applied) and, by
    `mutation_excludes_saving`, stays untouched until `finito`. Hence header and every chunk are READ from one
    and the same block-consistent state. -/
theorem snapshot_reads_block_consistent (mp : List Snap.MOp) (xp : List Snap.XOp) (cap : Nat) (ls : List Snap.Lab)
    (sv : Snap.Saver) (hs : (Snap.run (Snap.init mp xp cap) ls).s = some sv) (hr : SnapP.reading sv = true) :
    (Snap.run (Snap.init mp xp cap) ls).stable = true := by
  have h := SnapP.inv_run _ ls (SnapP.inv_init mp xp cap)
  cases hst : (Snap.run (Snap.init mp xp cap) ls).stable with
  | true => rfl
  | false =>
    have hm := h.2.2.2.1 hst
    have := h.2.2.1 sv hs (by simp [hm, SnapP.mCrit])
    simp [this] at hr

/-- (c) `snapshot_atomic`: for every program of the main and the auxiliary goroutine, every data_channel capacity
    and EVERY schedule, every file that reaches the name UTXO.db (`visible`) is good: its header was read in a
    block-consistent state (`hst`), it holds exactly the `tot` chunks announced in the header, and every chunk was
    read at the version of the header (`content.all (· == hv)`) — i.e. the chunks WRITTEN by the file goroutine, in
    order, are exactly those read by the saver between header and `finito`; the rename happens only after the last
    chunk and never after an abort. Covers saves racing with commits, AbortWriting, HurryUp, Close, a second save
    starting while the previous file goroutine is still flushing, and the unordered `select` of the file goroutine. -/
theorem snapshot_atomic (mp : List Snap.MOp) (xp : List Snap.XOp) (cap : Nat) (ls : List Snap.Lab)
    (v : Snap.Visible) (hv : v ∈ (Snap.run (Snap.init mp xp cap) ls).visible) : v.good = true :=
  (SnapC.fileInv_run _ ls (SnapP.inv_init mp xp cap) (SnapC.fileInv_init mp xp cap)).vis v hv

/- non-vacuity: a schedule that makes a file visible (commit, Idle → save of 2 chunks → rename) -/
example :
    ((Snap.run (Snap.init [.commit, .idle] [] 2)
      (List.replicate 15 .m ++ [.sStep, .sBegin 2, .sStep, .sStep, .sStep, .sStep, .fStep, .fStep, .fStep, .fStep])).visible
        = [{ hv := 2, hst := true, tot := 2, content := [2, 2] }]) := by decide

/-- (c) `no_deadlock`: every reachable state of the snapshot protocol whose data_channel has capacity ≥ 1 (the
    source has `make(chan []byte, save_buffer_cnt)`, fact `dataChanBuffered`) is final (both programs finished,
    no saver, no file goroutine) or has an enabled step — for all programs and all schedules. In particular
    abortWriting's blocking send and its `writingDone.Wait()` under db.Mutex, Close's two waits, the saver waiting
    for the previous file goroutine and the full data_channel never wait for each other in a cycle. -/
theorem no_deadlock (st : Snap.St) (hr : Snap.Reachable st) (hcap : 0 < st.cap) :
    Snap.final st = true ∨ Snap.hasStep st = true := by
  obtain ⟨mp, xp, cap, ls, rfl⟩ := hr
  exact SnapL.progress _
    (SnapC.fileInv_run _ ls (SnapP.inv_init mp xp cap) (SnapC.fileInv_init mp xp cap))
    (SnapL.ctl_run _ ls (SnapL.ctl_init mp xp cap)) hcap

example : Snap.Reachable (Snap.run (Snap.init [.commit, .idle, .close] [.abort] 1) [.m, .m, .x]) ∧
    0 < (Snap.run (Snap.init [.commit, .idle, .close] [.abort] 1) [.m, .m, .x]).cap :=
  ⟨⟨_, _, _, _, rfl⟩, by decide⟩

/-- (c) the capacity hypothesis of `no_deadlock` is necessary in the model: with an unbuffered data_channel modelled
    as a queue of length 0 the saver can never hand over a chunk (the model has no rendez-vous). -/
theorem no_deadlock_needs_capacity :
    let st := Snap.run (Snap.init [.commit, .idle] [] 0) (List.replicate 15 .m ++ [.sStep, .sBegin 1])
    Snap.final st = false ∧ Snap.hasStep st = false := by decide

-- OPEN: snapshot_liveness — under a FAIR schedule every run of the snapshot protocol reaches a final state (Close
--   returns, every started save ends in a rename or a remove). `no_deadlock` only says that some step is always
--   enabled; a variant (measure) argument over the fair scheduler is not done. The saver's timed polling loop
--   (`time.After`) is abstracted to a non-deterministic choice.
-- OPEN: snap_refines_source — that Snap/Fan/Pub are abstractions of the Go functions is NOT a theorem: the tie is
--   the regenerated shape facts (`source_protocol_facts`, `accessed_under_lock`) plus the runtime monitor and the
--   differential runs of the harness.

/- non-vacuity of `snapshot_reads_block_consistent` on REACHABLE states: after an undo and Idle the saver is iterating the maps
   (`.loop`, one of three chunks read) of a block-consistent state at version 2; the same with the saver at `.hdr` after a commit -/
example :
    let st := Snap.run (Snap.init [.undo, .idle, .purge] [] 2) (List.replicate 15 .m ++ [.sStep, .sBegin 3, .sStep])
    (st.s.map (fun sv => (sv.pc, SnapP.reading sv))) = some (.loop, true) ∧ st.stable = true ∧ st.ver = 2 := by decide

example :
    let st := Snap.run (Snap.init [.commit, .idle] [] 2) (List.replicate 15 .m ++ [.sStep])
    (st.s.map (fun sv => (sv.pc, SnapP.reading sv))) = some (.hdr, true) ∧ st.stable = true := by decide

/- non-vacuity of `single_saver` on a REACHABLE state: the first saver has cleared WritingInProgress but has not yet done
   writingDone.Done() (`.done`), the main goroutine has committed another block and is inside the next Save (`sAdd`).
   NOTE (model ≠ code here): one step later (`sGo`) the MODEL makes the main goroutine wait until that old saver object is gone,
   whereas `go db.save()` never blocks in Go — the model serialises "old saver between WritingInProgress.Clr() and
   writingDone.Done()" with "new saver starts"; the old saver only does Done() there. -/
example :
    let st := Snap.run (Snap.init [.commit, .idle, .commit, .idle] [] 2)
      (List.replicate 15 .m ++ [.sStep, .sBegin 1, .sStep, .sStep, .sStep, .sStep] ++ List.replicate 12 .m)
    SnapP.inSave st.mpc = true ∧ st.s.map (·.pc) = some .done ∧ st.wip = true ∧ st.wdone = 1 := by decide

/-- (c) A goroutine that observed WritingInProgress = false in Save and is about to start the saver finds no
    earlier saver that could still clear the flag: two savers are never reading at the same time. -/
theorem single_saver (mp : List Snap.MOp) (xp : List Snap.XOp) (cap : Nat) (ls : List Snap.Lab)
    (sv : Snap.Saver) (hs : (Snap.run (Snap.init mp xp cap) ls).s = some sv)
    (hm : SnapP.inSave (Snap.run (Snap.init mp xp cap) ls).mpc = true) : sv.pc = .done :=
  (SnapP.inv_run _ ls (SnapP.inv_init mp xp cap)).2.2.2.2.2 sv hs hm

/-- (d) BlockDB: for every interleaving of BlockAdd, cache eviction, writeOne (store fields, then publish ipos,
    both inside db.mutex) and BlockGetInternal (lookup under db.mutex, field reads after Unlock): a reader that
    goes to disk never reads ipos/blen/fpos/… before they are final — unpublished blocks are never evicted from
    the cache, so the reader's critical section follows the publisher's. (Dismisses the candidate race.) -/
theorem pub_read_after_publish (ls : List Pub.Lab) : (Pub.run {} ls).badRead = false :=
  (PubP.inv_run {} ls PubP.inv_init).2.2.2.2.2.2.2.2

/-- (a) commitTxs with the clone (`blUnsp[h] = slices.Clone(tx.TxOut)`, fact `cloned`): under every schedule of
    the main loop and the script workers the output arrays the workers read are never modified, so every
    worker computes its verdict from the block as received. -/
theorem commit_workers_read_unmodified (f : Fan.Verify) (txs : List Fan.Tx) (ls : List Fan.Lab) :
    (Fan.run f (Fan.init txs true) ls).mem = (Fan.init txs true).mem :=
  FanP.run_mem f _ ls rfl

/-- (a) `commit_schedule_independent`: with the clone, whatever the script check `f` computes from what it reads,
    for every block and EVERY schedule of the main loop and the workers: once commitTxs has returned, its verdict
    (early error, ver_err_cnt) is `Fan.reference f txs` — the first transaction at which the main loop fails and
    the NUMBER of failing inputs before it, counted on the block as received. ver_err_cnt equals the number of
    failing inputs under every schedule (no lost update, no worker still running at the return, also on the
    early-return path with the deferred wg.Wait), so the verdict is a function of the input alone. -/
theorem commit_schedule_independent (f : Fan.Verify) (txs : List Fan.Tx) (ls : List Fan.Lab)
    (v : Option Nat × Nat) (h : (Fan.run f (Fan.init txs true) ls).verdict = some v) : v = Fan.reference f txs :=
  (FanC.inv_run f txs _ ls (FanC.inv_init f txs)).verdict v h

example :
    let f : Fan.Verify := fun t j _ => !(t == 1 && j == 0)
    let txs : List Fan.Tx := [⟨0, [], 1, false⟩, ⟨2, [], 1, false⟩, ⟨1, [(1, 0)], 1, false⟩]
    (Fan.run f (Fan.init txs true) [.main, .main, .worker 1, .main, .worker 0, .worker 0, .main]).verdict = some (none, 1) := by
  decide

/-- (a) corollary: two schedules of the same block that both let commitTxs return give the same verdict. -/
theorem commit_verdicts_agree (f : Fan.Verify) (txs : List Fan.Tx) (ls₁ ls₂ : List Fan.Lab)
    (v₁ v₂ : Option Nat × Nat) (h₁ : (Fan.run f (Fan.init txs true) ls₁).verdict = some v₁)
    (h₂ : (Fan.run f (Fan.init txs true) ls₂).verdict = some v₂) : v₁ = v₂ := by
  rw [commit_schedule_independent f txs ls₁ v₁ h₁, commit_schedule_independent f txs ls₂ v₂ h₂]

example : (Fan.run (fun _ _ _ => true) (Fan.init [] true) [.main]).verdict = some (none, 0) := by decide

/-- (a) Without the clone the verdict DOES depend on the schedule: two schedules of the same block, one counts
    no script failure, the other one. -/
theorem unclone_counterexample :
    let f : Fan.Verify := fun _ _ view => view.all id
    let txs : List Fan.Tx := [⟨0, [], 1, false⟩, ⟨1, [], 1, false⟩, ⟨1, [(1, 0)], 1, false⟩]
    (Fan.run f (Fan.init txs false) [.main, .main, .worker 0, .main, .worker 0, .main]).verdict = some (none, 0) ∧
    (Fan.run f (Fan.init txs false) [.main, .main, .main, .worker 0, .worker 0, .main]).verdict = some (none, 1) := by
  decide

/- HYPOTHESIS NOT TIED TO THE SOURCE: `(us.map (·.1)).Nodup` below.  UnspentDB.commit buckets its updates by UtxoKeyType = the FIRST
   8 BYTES of the txid (changes.DeledTxs is keyed by the full 32-byte txid, AddList holds full records, but the map the workers write
   is keyed by the prefix).  Two different transactions created or spent by ONE block whose txids share 8 bytes would make two
   workers (do_add / do_del run concurrently) write the same key: the lemma then says nothing.  Such a collision needs about 2^32
   hash evaluations; it is an ASSUMPTION of the check (named in the manifest), checked only on the blocks the harness runs
   (histogram commit:update-keys-distinct).  The lemma itself is algebra about `applyAll`; the oracle does not execute it. -/
/-- (b) UnspentDB.commit: add/delete workers touch pairwise different keys, each under its bucket mutex, so every
    order in which the critical sections are executed yields the same maps. -/
theorem disjoint_updates_commute (us vs : List (Nat × Option Nat)) (hp : us.Perm vs)
    (hd : (us.map (·.1)).Nodup) (m : Nat → Option Nat) : applyAll m us = applyAll m vs :=
  GocoinV.Proofs.C11.disjoint_updates_commute us vs hp hd m

example : ([(1, some 5), (2, none)] : List (Nat × Option Nat)).Perm [(2, none), (1, some 5)] ∧
    (([(1, some 5), (2, none)] : List (Nat × Option Nat)).map (·.1)).Nodup := ⟨List.Perm.swap _ _ _, by decide⟩
/- without Nodup the conclusion fails: two updates of ONE key in the two orders -/
example : applyAll (fun _ => none) [(1, some 5), (1, none)] 1 ≠ applyAll (fun _ => none) [(1, none), (1, some 5)] 1 := by decide

/-- (e) BuildTxListExt: the block weight accumulated with atomic adds is the same for every completion order. -/
theorem atomic_sum_order_independent (ws vs : List Nat) (h : ws.Perm vs) (b : Nat) :
    ws.foldl (· + ·) b = vs.foldl (· + ·) b :=
  GocoinV.Proofs.C11.atomic_sum ws vs h b

example : ([3, 4] : List Nat).Perm [4, 3] := List.Perm.swap _ _ _

/-- (f) a sighash cache cell under Tx.hashLock: whoever comes second finds the cell filled and gets the same
    value, and leaves the cell unchanged. -/
theorem cache_compute_once (v : Nat) (c : Option Nat) :
    (cacheStep v (cacheStep v c).1).1 = (cacheStep v c).1 ∧ (cacheStep v (cacheStep v c).1).2 = (cacheStep v c).2 :=
  GocoinV.Proofs.C11.cache_once v c

/-! ## ownership of memory handed to another goroutine (Model/ConcOwn.lean) -/

/-- The ownership facts hold of the CURRENT source (regenerated by gen_c11, own.go): no goroutine is started while its spawner
    still writes a field of the same object that the goroutine reads (the script workers of commitTxs read `Tx.Spent_outputs`,
    which is complete before the first of them starts); every chunk buffer UnspentDB.save sends to the file goroutine is given
    up for a freshly allocated one (or comes from a pool of at least capacity + 2 buffers); no slice of a stored UTXO record's
    memory is stored into the change set (undo data, add list) that commitTxs hands to CommitBlockTxs. -/
theorem source_ownership_facts : Own.ownFacts = Own.ownFactsOK := by decide +kernel

/-- (g) chunk buffers: with a fresh buffer per chunk (`n = 0`), or a ring of `n ≥ cap + 1` buffers where the serialiser checks
    for room in the channel before every write into its current buffer (as save() does), under EVERY schedule of serialiser and
    file goroutine no buffer is written while its chunk is in flight, every chunk reaches the file intact, in order. -/
theorem chunk_buffers_not_rewritten_in_flight (n cap total : Nat) (h : n = 0 ∨ cap + 1 ≤ n) (ls : List Own.Ring.Lab) :
    (Own.Ring.run (Own.Ring.init n cap total) ls).dirty = [] ∧
    (Own.Ring.run (Own.Ring.init n cap total) ls).written.all (·.2) = true ∧
    (Own.Ring.run (Own.Ring.init n cap total) ls).written.map (·.1) = List.range (Own.Ring.run (Own.Ring.init n cap total) ls).flushed :=
  let i := RingP.inv_run _ ls h (RingP.inv_init n cap total)
  ⟨i.clean, i.ok, i.order⟩

example : (Own.Ring.run (Own.Ring.init 0 1 2) [.fill, .send, .recv, .fill, .send, .flush, .recv, .flush]).written = [(0, true), (1, true)] := by decide
/- the non-trivial branch `cap + 1 ≤ n`: a ring of 3 buffers, channel of 2, 5 chunks, the serialiser running as far ahead as it can -/
example : (2 : Nat) + 1 ≤ 3 ∧
    (Own.Ring.run (Own.Ring.init 3 2 5) [.fill, .send, .fill, .send, .recv, .fill, .send, .flush, .recv, .fill, .send, .flush, .recv,
      .fill, .send, .flush, .recv, .flush, .recv, .flush]).written = [(0, true), (1, true), (2, true), (3, true), (4, true)] := by decide

/-- (g) the bound is tight: with as many buffers as the channel has slots (the "obvious" pool size) there is a schedule in
    which the serialiser refills the buffer whose chunk the file goroutine is still writing — the file gets a damaged chunk. -/
theorem chunk_pool_of_capacity_counterexample :
    (Own.Ring.run (Own.Ring.init 2 2 4) [.fill, .send, .fill, .send, .recv, .fill, .flush]).written = [(0, false)] := by decide

/-- (h) undo data: if every undo entry OWNS a copy of the spent script, the undo file is the list of spent scripts under every
    interleaving of the undo writer with the delete workers (which free the spent records) and the insert workers (which reuse
    the freed slots) — whatever the allocator does with the memory. -/
theorem undo_copies_schedule_independent (vs : List Nat) (mem dels adds : List Nat) (ls : List Own.Undo.Lab)
    (hdone : (Own.Undo.run { mem := mem, dels := dels, adds := adds, todo := vs.map .copy } ls).todo = []) :
    (Own.Undo.run { mem := mem, dels := dels, adds := adds, todo := vs.map .copy } ls).out = vs := by
  have i := UndoP.inv_run vs { mem := mem, dels := dels, adds := adds, todo := vs.map .copy } ls
    ⟨by simp [List.filterMap_map, Function.comp_def, UndoP.val], by
      intro e he
      simp only [List.mem_map] at he
      obtain ⟨v, _, rfl⟩ := he
      exact ⟨v, rfl⟩⟩
  have := i.1
  rw [hdone] at this
  simpa using this

example : (Own.Undo.run { mem := [7, 8], dels := [0, 1], adds := [5], todo := [.copy 7, .copy 8] } [.del, .add, .ser, .del, .ser]).todo = [] := by decide

/-- (h) an undo entry that ALIASES the record's memory makes the undo file depend on the schedule: serialised before the slot
    is freed and reused it holds the spent script, afterwards the script of a record created by the same block. -/
theorem undo_alias_counterexample :
    (Own.Undo.run { mem := [7], dels := [0], adds := [5], todo := [.alias 0] } [.ser, .del, .add]).out = [7] ∧
    (Own.Undo.run { mem := [7], dels := [0], adds := [5], todo := [.alias 0] } [.del, .add, .ser]).out = [5] := by decide

/-- (i) start order: when the script workers of a transaction are started after ALL its spent outputs are resolved, every
    worker finds the complete array under every schedule. -/
theorem workers_see_complete_inputs (nin : Nat) (ls : List Own.Collect.Lab) (v : Nat × Nat)
    (hv : v ∈ (Own.Collect.run (Own.Collect.init nin false) ls).views) : v.2 = nin :=
  (CollectP.inv_run nin _ ls ⟨rfl, rfl, Nat.zero_le _, fun h => absurd h (Nat.lt_irrefl 0), fun _ h => by simp [Own.Collect.init] at h⟩).2.2.2.2 v hv

example : (Own.Collect.run (Own.Collect.init 2 false) [.main, .main, .main, .worker 0]).views = [(0, 2)] := by decide

/-- (i) started as soon as its own input is resolved, a worker can read the array while later entries are still missing. -/
theorem early_spawn_counterexample :
    (Own.Collect.run (Own.Collect.init 2 true) [.main, .worker 0, .main]).views = [(0, 1)] := by decide

/-! ## which goroutine may start a snapshot (Model/ConcThread.lean) -/

/-- The snapshot protocol is proved for saves that are started by the goroutine that commits.  That this is how the node uses
    it is a fact about the CALLERS, regenerated from the whole client on every run (gen_c11, thread.go): no call site of
    UnspentDB.Save / Idle / Close / CommitBlockTxs / UndoBlockTxs / PurgeUnspendable / DefragMap / AbortWriting can be executed by a goroutine other
    than the main one — not through a `go` statement, an HTTP / timer callback, nor through an entry of the text UI's command
    table whose flag lets the UI goroutine run the handler itself — and the analysis does reach the block path, the idle timer,
    the operator's save command and Close on the main goroutine. -/
theorem source_thread_facts : Thread.threadFacts = Thread.threadFactsOK := by decide +kernel

/-- sanity of the fact on hand-made lists: one call site that another goroutine can reach fails it -/
example : (Thread.threadFactsOf [("Save", 0), ("Idle", 0), ("Close", 0), ("CommitBlockTxs", 0), ("UndoBlockTxs", 0), ("Save", 1)]).committerOnly = false := by decide

/-- (c') The snapshot protocol extended by a foreign goroutine that may call `Save()` directly at any point of the schedule:
    as long as that goroutine never does (`foreignSaves = 0` — fact `committerOnly` of the source), every file that reaches the
    name UTXO.db is good under EVERY schedule — the extended system then is `Snap` and this is `snapshot_atomic`. -/
theorem committer_started_saves_atomic (mp : List Snap.MOp) (xp : List Snap.XOp) (cap : Nat) (ls : List Thread.Lab)
    (v : Snap.Visible) (hv : v ∈ (Thread.run (Thread.init mp xp cap 0) ls).base.visible) : v.good = true := by
  have h := (GocoinV.Proofs.C11Thread.run_no_foreign (Thread.init mp xp cap 0) ls rfl rfl).1
  rw [h] at hv
  exact snapshot_atomic mp xp cap (Thread.baseLabs ls) v hv

example : ((Thread.run (Thread.init [.commit, .idle] [] 2 0)
      ((List.replicate 15 (.base .m)) ++ [.foreign, .base .sStep, .base (.sBegin 2), .foreign] ++
        (List.replicate 4 (.base .sStep)) ++ (List.replicate 4 (.base .fStep)))).base.visible
        = [{ hv := 2, hst := true, tot := 2, content := [2, 2] }]) := by decide

/-- (c') ONE direct Save() by another goroutine breaks it: the commit has passed its abortWriting (no save was running) and has
    applied the first half of the block when the foreign goroutine starts a saver; the saver reads the header in that
    half-applied state, the chunk after the commit finished, nobody aborts it, and the file is renamed to UTXO.db — header
    of one state, content of another. -/
theorem foreign_save_counterexample :
    (Thread.run (Thread.init [.commit] [] 2 1)
      (List.replicate 5 (.base .m) ++ List.replicate 5 .foreign ++ [.base .sStep, .base (.sBegin 1), .base .m] ++
        List.replicate 5 (.base .sStep) ++ List.replicate 3 (.base .fStep))).base.visible
      = [{ hv := 1, hst := false, tot := 1, content := [2] }] ∧
    Snap.Visible.good { hv := 1, hst := false, tot := 1, content := [2] } = false := by decide

end GocoinV.Props.C11
