/-
  Props.C16 — the block store returns exactly the blocks that were stored (lib/chain/blockdb.go,
  lib/others/snappy). Property theorems about the executable models `Model/BlockDB.lean` and
  `Model/Snappy.lean` (the definitions `oracle_c16` runs and the harness compares with the Go code).
  `Gen/BlockDBFacts.lean` is regenerated from the source on every run; `fixed_code` below breaks when
  LoadBlockIndex stops advancing `maxidxfilepos` past invalid-flagged records.
-/
import GocoinV.Proofs.C16Inv
import GocoinV.Proofs.C16Snappy
import GocoinV.Proofs.C16Walk
import GocoinV.Proofs.C16Main
import GocoinV.Proofs.C16Live
import GocoinV.Proofs.C16Listing
import GocoinV.Proofs.C16SnappyLen
import GocoinV.Proofs.C16Trust
import GocoinV.Proofs.C16Window
import GocoinV.Proofs.C16Top
import GocoinV.Proofs.C16Stale
import GocoinV.Proofs.C16Files
import GocoinV.Proofs.C16NC
namespace GocoinV.Props.C16
open GocoinV GocoinV.BlockDB

/-! ## the F5 witness (DESIGN §7): LoadBlockIndex that does not advance past an invalid record -/

/-- a model environment with trivial codec / hash (the counterexample does not depend on them) -/
def toyEnv (adv : Bool) : Env := { enc := id, dec := some, hash := fun h => h.take 32, advInvalid := adv }
def mkBlock (tag : UInt8) (n : Nat) : Bytes := tag :: List.replicate (n - 1) 7
def blkA := mkBlock 1 81
def blkB := mkBlock 2 82
def blkC := mkBlock 3 83
def optsW : Opts := ⟨2, 0, 0, false, false⟩
def hashW (b : Bytes) : Bytes := (b.take 80).take 32
/-- add A, add B, flush, mark A invalid, close; restart; add C; close; restart; get B -/
def witness : List Op :=
  [.reopen optsW, .add (hashW blkA) 10 1 false blkA, .add (hashW blkB) 11 2 false blkB, .idle, .invalid (hashW blkA), .close,
   .reopen optsW, .add (hashW blkC) 12 3 false blkC, .close, .reopen optsW, .get (hashW blkB)]

set_option maxRecDepth 100000 in
/-- For the model of the code BEFORE the fix (`advInvalid = false`): block B was stored, never marked
    invalid, nothing was configured to expire — and after the second restart it is not in the index any more
    (C's record was written over B's). This is the negation of `reopen_index` on a concrete history. -/
theorem reopen_index_counterexample :
    (run (toyEnv false) init witness).2.getLast? = some (.getErr .notInIndex false) := by decide

set_option maxRecDepth 100000 in
/-- The same history on the model of the fixed code returns B's bytes. -/
theorem reopen_index_witness_fixed :
    (run (toyEnv true) init witness).2.getLast? = some (.data blkB false) := by decide

/-- The regenerated structural fact: the current source advances past invalid records. Everything below that
    speaks about "the fixed code" is stated for environments that agree with this generated constant. -/
theorem fixed_code : Gen.BlockDBFacts.advInvalid = true := by decide

/-- The regenerated constants agree: `writeOne` advances the index position by the same number of bytes (`writeRecSize`, its
    `db.maxidxfilepos += n`) as LoadBlockIndex does per record (`recSize`, also the length of its `var b [n]byte` — checked by
    the generator). The model's `writeRecord` uses `RECSIZE = recSize` for both. -/
theorem write_advance_is_record_size : Gen.BlockDBFacts.writeRecSize = Gen.BlockDBFacts.recSize ∧ RECSIZE = 136 := by decide

/-! ## reopen_index, the position part: appending never overwrites a stored record -/

/-- After ANY history of add/get/length/trusted/invalid/idle/close/reopen on the fixed code:
    the index file consists of whole 136-byte records; while the store is open its append position is the end
    of the index file (so the next record is written behind every stored one — none is overwritten); and every
    record position kept in memory (`ipos`, where flag bytes are rewritten) is the start of a whole record
    inside the file. -/
theorem append_position_invariant (env : Env) (hfix : env.advInvalid = Gen.BlockDBFacts.advInvalid) (ops : List Op) :
    let s := (run env init ops).1
    s.fs.idx.length % 136 = 0 ∧
    (s.isOpen = true → s.maxidxfilepos = s.fs.idx.length) ∧
    (∀ k r p, AL.get s.index k = some r → r.ipos = some p → p + 136 ≤ s.fs.idx.length ∧ p % 136 = 0) := by
  have h := run_inv env (by rw [hfix]; exact fixed_code) ops init init_inv
  exact ⟨h.len_mod, h.pos, h.ipos⟩

example : ∃ env : Env, env.advInvalid = Gen.BlockDBFacts.advInvalid := ⟨toyEnv true, rfl⟩

/-- A restart (NewBlockDBExt + LoadBlockIndex) on ANY directory whose index file is a whole number of records —
    whatever their flags — puts the append position at the end of the file and gives every listed block the true
    offset range of a whole record. -/
theorem reopen_append_position (env : Env) (hfix : env.advInvalid = Gen.BlockDBFacts.advInvalid)
    (fs : FS) (o : Opts) (hm : fs.idx.length % 136 = 0) :
    let s := (reopen env fs o).1
    s.maxidxfilepos = fs.idx.length ∧ s.fs.idx = fs.idx ∧
    (∀ k r p, AL.get s.index k = some r → r.ipos = some p → p + 136 ≤ fs.idx.length ∧ p % 136 = 0) := by
  obtain ⟨h, ho⟩ := reopen_inv env (by rw [hfix]; exact fixed_code) fs o hm
  have e := reopen_fs_idx env fs o
  refine ⟨?_, e, ?_⟩
  · have := h.pos ho; rw [e] at this; exact this
  · intro k r p h1 h2; have := h.ipos k r p h1 h2; rw [e] at this; exact this

example : ({} : FS).idx.length % 136 = 0 := by decide

/-- `writeOne`'s record write: on a state satisfying the invariant the index file grows by exactly the
    136-byte record, appended at its end (the old contents are a prefix of the new file). -/
theorem write_appends_record (s : State) (b2w : B2W) (r0 : Rec) (cbts : Bytes)
    (hpos : s.maxidxfilepos = s.fs.idx.length) (hb : b2w.data.length ≥ 80) :
    ∃ record : Bytes, record.length = 136 ∧ (writeRecord s b2w r0 cbts).fs.idx = s.fs.idx ++ record := by
  refine ⟨mkRecord (flagsOf s.opts.compress r0.trusted) s.maxdatfileidx b2w.data.length b2w.height
    s.maxdatfilepos cbts.length b2w.txcount b2w.data, mkRecord_length _ _ _ _ _ _ _ _ hb, ?_⟩
  unfold writeRecord
  simp only [hpos, pwrite_at_end]

example : ∃ s : State, s.maxidxfilepos = s.fs.idx.length := ⟨init, rfl⟩

/-! ## reopen_index, the listing part (record level) -/

/-- After a restart on ANY directory, LoadBlockIndex's walk callback sees exactly the full 136-byte records of
    the index file that are not flagged invalid, once each, in file order, with hash / header / height / size /
    transaction count decoded from the record (`walkOf`). Holds for the fixed and the unfixed code alike. -/
theorem reopen_lists_noninvalid_records (env : Env) (fs : FS) (o : Opts) :
    (reopen env fs o).2 = .walk (((chunks (fs.idx.length / 136 + 1) fs.idx).filter (fun b => !isInvalidRec b)).map (walkOf env)) :=
  reopen_walk env fs o

/-- Record round trip: the record `writeOne` writes for a block (any compression / trusted flag, any file
    position) is not flagged invalid and is listed at the next restart as (hash of the block's header, header,
    the height given to BlockAdd, the block's uncompressed size, its transaction count). -/
theorem written_record_listed (env : Env) (c tr : Bool) (di ol he fp bl tx : Nat) (data : Bytes)
    (hd : data.length ≥ 80) (h1 : he < 2^32) (h2 : ol < 2^32) (h3 : tx < 2^32) :
    isInvalidRec (mkRecord (flagsOf c tr) di ol he fp bl tx data) = false ∧
    walkOf env (mkRecord (flagsOf c tr) di ol he fp bl tx data)
      = ⟨env.hash (data.take 80), data.take 80, he, ol, tx⟩ :=
  walkOf_mkRecord env c tr di ol he fp bl tx data hd h1 h2 h3

example := written_record_listed (toyEnv true) true false 0 81 5 0 81 1 blkA (by decide) (by decide) (by decide) (by decide)

/-! ## snappy: emit-level lemmas (each emitted element extends the decoded prefix correctly) -/

/-- The bytes written by `emitLiteral lit` (1..65536 bytes), followed by anything, make one decoder step
    append exactly `lit` and continue with what follows. -/
theorem snappy_literal_step (dLen : Nat) (lit rest : Bytes) (dst : Array UInt8)
    (h1 : 1 ≤ lit.length) (h2 : lit.length ≤ 65536) (hroom : dst.size + lit.length ≤ dLen) :
    Snappy.decodeStep dLen (Snappy.emitLiteral lit ++ rest) dst = .ok (rest, dst ++ lit.toArray) :=
  Snappy.decodeStep_emitLiteral dLen lit rest dst h1 h2 hroom

example := snappy_literal_step 3 [1, 2, 3] [9] #[] (by decide) (by decide) (by decide)

/-- A 3-byte copy tag as written by `emitCopy` (length 1..64, offset 1..65535 not beyond the decoded prefix)
    makes one decoder step perform exactly that forward copy. -/
theorem snappy_copy2_step (dLen offset length : Nat) (rest : Bytes) (dst : Array UInt8)
    (hl1 : 1 ≤ length) (hl2 : length ≤ 64) (ho1 : 1 ≤ offset) (ho2 : offset < 65536)
    (hback : offset ≤ dst.size) (hroom : dst.size + length ≤ dLen) :
    Snappy.decodeStep dLen (Snappy.copy2 offset length ++ rest) dst = .ok (rest, Snappy.copyFwd dst offset length) :=
  Snappy.decodeStep_copy2 dLen offset length rest dst hl1 hl2 ho1 ho2 hback hroom

example := snappy_copy2_step 5 1 4 [] #[7] (by decide) (by decide) (by decide) (by decide) (by decide) (by decide)

/-- The 2-byte copy tag as written by `emitCopy` (length 4..11, offset 1..2047) makes one decoder step
    perform exactly that forward copy. -/
theorem snappy_copy1_step (dLen offset length : Nat) (rest : Bytes) (dst : Array UInt8)
    (hl1 : 4 ≤ length) (hl2 : length < 12) (ho1 : 1 ≤ offset) (ho2 : offset < 2048)
    (hback : offset ≤ dst.size) (hroom : dst.size + length ≤ dLen) :
    Snappy.decodeStep dLen ([UInt8.ofNat ((offset / 256) * 32 + (length - 4) * 4 + 1), UInt8.ofNat (offset % 256)] ++ rest) dst
      = .ok (rest, Snappy.copyFwd dst offset length) :=
  Snappy.decodeStep_copy1 dLen offset length rest dst hl1 hl2 ho1 ho2 hback hroom

example := snappy_copy1_step 5 1 4 [] #[7] (by decide) (by decide) (by decide) (by decide) (by decide) (by decide)

/-- A long match emitted as several copy tags with the same offset (`emitCopy`'s 64/60/rest split) reproduces
    the single forward copy: forward copies with one offset compose. -/
theorem snappy_copy_split (dst : Array UInt8) (offset a c : Nat) :
    Snappy.copyFwd dst offset (a + c) = Snappy.copyFwd (Snappy.copyFwd dst offset a) offset c :=
  Snappy.copyFwd_add dst offset a c

/-- End-to-end on a concrete input (kernel evaluation of the model's encoder and decoder): inputs below
    `minNonLiteralBlockSize` are one literal and decode to themselves. -/
theorem snappy_roundtrip_sample :
    (Snappy.decode (Snappy.encode [1, 2, 3, 4, 5])).toOption = some [1, 2, 3, 4, 5] := by decide

/-- snappy, all inputs: decoding the encoder's output gives back the source, for every byte string whose length fits
    the format's 32-bit length header (`Encode` panics with ErrTooLarge above that). This is about the model's real
    encoder — hash table, skip heuristic, 64 KiB pieces, 64/60 copy splitting — not an abstraction of it: the proof
    carries the loop invariant "what was emitted so far expands to src[0..nextEmit)", every candidate is below `s`
    and verified byte by byte before a copy is emitted (Proofs/C16SnappyRT.lean). -/
theorem snappy_roundtrip (src : Bytes) (h : src.length ≤ 0xffffffff) :
    Snappy.decode (Snappy.encode src) = .ok src :=
  Snappy.snappy_roundtrip src h

example : ([1, 2, 3] : Bytes).length ≤ 0xffffffff := by decide

/-! ## store_refines_map: the store against the durable-map specification (`Spec/BlockStoreMap.lean`) -/

/-- One session on a fresh directory, any codec that round-trips: for EVERY sequence of add / get / length /
    mark-trusted / mark-invalid / idle-flush / close (blocks below 4 GiB; cache size, compression, maximum data-file
    size arbitrary — roll-over included; `keep = 0`, i.e. no data file is ever removed), every `get` of a key that was
    added and never marked invalid returns the bytes of its first add and the latest trusted flag, and every `length`
    returns that block's size — from the cache or from disk, compressed or not, written or still queued
    (`specRun` lists the claims, `AllHold` says each reply satisfies its claim).
    `_partial`: one session, retention off — the special case of `store_refines_map` below in which the retention-aware
    claim is the unconditional one (`FS.lost` stays empty: Proofs/C16NoLoss.lean). -/
theorem store_refines_map_partial (env : Env)
    (hrt : ∀ x : Bytes, x.length ≤ 0xffffffff → env.dec (env.enc x) = some x) (hne : ∀ x, env.enc x ≠ [])
    (o : Opts) (hk : o.keep = 0) (ops : List Op) (hops : ∀ op ∈ ops, op.isReopen = false ∧ op.sizeOK) :
    AllHold (specRun env init {} (.reopen o :: ops)) (run env init (.reopen o :: ops)).2 :=
  session_refines env ⟨hrt, hne⟩ o hk ops hops

/-- the specification makes real claims: on this history it demands A's bytes from the `get` and 81 from `length` -/
example : specRun (toyEnv true) init {} [.reopen optsW, .add (hashW blkA) 10 1 false blkA, .idle, .get (hashW blkA), .length (hashW blkA) true]
    = [.nothing, .nothing, .nothing, .data blkA false, .len 81] := by decide

/-- The same with the codec the store really uses — the snappy model, exactly the environment `oracle_c16` runs and the
    harness compares with the Go code (any header-hash function): no hypothesis about the codec is left. -/
theorem store_refines_map_snappy_partial (hash : Bytes → Bytes) (adv : Bool)
    (o : Opts) (hk : o.keep = 0) (ops : List Op) (hops : ∀ op ∈ ops, op.isReopen = false ∧ op.sizeOK) :
    AllHold (specRun (snappyEnv hash adv) init {} (.reopen o :: ops)) (run (snappyEnv hash adv) init (.reopen o :: ops)).2 :=
  session_refines _ (snappyEnv_ok hash adv) o hk ops hops

example : ∀ op ∈ [Op.add (hashW blkA) 10 1 false blkA, .idle, .get (hashW blkA)], op.isReopen = false ∧ op.sizeOK := by
  intro op h
  simp only [List.mem_cons, List.not_mem_nil, or_false] at h
  rcases h with h | h | h <;> subst h <;> exact ⟨rfl, by simp [Op.sizeOK, blkA, mkBlock]⟩

/-- The data-file half of the invariant, as a statement of its own (`Ref`, every option combination): every key that was
    added and never marked invalid has an index record; while it is unwritten its block is in the cache (and the cache
    never evicts it); once written — and unless its data-file number is in `FS.lost` — the record's [fpos, fpos+blen) lies
    inside the file `BlockGet` opens for it (main directory, then oldat/), at or below the append position of the current
    file, and decodes to the block; the current data file exists in the main directory. Every operation other than
    a restart preserves it (the restart: `reopen_ref` in Proofs/C16Restart.lean). -/
theorem data_file_invariant (env : Env)
    (hrt : ∀ x : Bytes, x.length ≤ 0xffffffff → env.dec (env.enc x) = some x) (hne : ∀ x, env.enc x ≠ [])
    (s : State) (sp : Spec) (h : Ref env s sp) (op : Op) (hno : op.isReopen = false) (hsz : op.sizeOK) :
    Ref env (step env s op).1 (specStep s sp op) :=
  (step_ref env ⟨hrt, hne⟩ s sp h op hno hsz).1

/-- Nothing stays queued: after ANY history (restarts, every option combination, any codec) the flush that Idle and
    Close perform — `writeAll`, also run by BlockAdd at its thresholds — empties the write queue and leaves every
    record of the in-memory index written to disk (`ipos` set): a block that was marked invalid while queued is dropped,
    a stale entry of a re-added hash is discarded, every other queued block is written exactly once. -/
theorem flush_writes_everything (env : Env) (ops : List Op) :
    let s := (run env init ops).1
    (flush env s).queue = [] ∧ ∀ k r, AL.get (flush env s).index k = some r → r.ipos.isSome = true := by
  intro s
  have hl := run_live env ops init init_live
  exact ⟨(writeAll_live env s.queue.length s hl (Nat.le_refl _)).2, (flush_all_written env s hl).2⟩

/-! ## across close + reopen: the index-file half of the invariant (`Proofs/C16Disk*.lean`, `C16Restart.lean`) -/

/-- what the restart theorems ask of a history: the hash handed to BlockAdd is the hash of the block's 80-byte header (this
    is how LoadBlockIndex recomputes it), the block, its stored (compressed) form and the height fit the record's 32-bit
    fields (`Op.wf`); fewer than 2^31 operations (data-file numbers and 64-bit offsets in the record cannot wrap) -/
example : Op.wf (toyEnv true) (.add (hashW blkA) 10 1 false blkA) := by
  refine ⟨by decide, by decide, by decide, by decide⟩

/-- store_refines_map ACROSS RESTARTS, retention off: for EVERY history from the empty directory — add / get / length /
    mark-trusted / mark-invalid / idle-flush / close / reopen in any order and number, options changing from session to
    session (cache size, compression, maximum data-file size; `keep = 0` in every session) — every `get` of a key that was
    added and never marked invalid returns the bytes of its first add and the latest trusted flag, every `length` its size:
    from the cache, from the queue, or from disk after any number of restarts. The proof carries, next to the data-file
    half (`Ref`), the index-file half `Disk`: every written record's 136 bytes at `ipos` describe it (file number, offset,
    stored length, flag bits incl. later trusted / invalid updates), no two non-invalid records of the file share a key,
    LoadBlockIndex rebuilds exactly these records with the same positions and an append position at or above each of
    them, and so re-establishes `Ref`. -/
theorem store_refines_map_restarts (env : Env)
    (hrt : ∀ x : Bytes, x.length ≤ 0xffffffff → env.dec (env.enc x) = some x) (hne : ∀ x, env.enc x ≠ [])
    (hfix : env.advInvalid = Gen.BlockDBFacts.advInvalid) (ops : List Op)
    (hops : ∀ op ∈ ops, Op.wf env op ∧ op.keep0) (hlen : ops.length < 2^31) :
    AllHold (specRun env init {} ops) (run env init ops).2 :=
  restart_refines env ⟨hrt, hne⟩ (by rw [hfix]; exact fixed_code) ops hops hlen

/-- the claims survive the restart: on this history the specification demands A's bytes after close + reopen -/
example : specRun (toyEnv true) init {} [.reopen optsW, .add (hashW blkA) 10 1 false blkA, .close, .reopen optsW, .get (hashW blkA)]
    = [.nothing, .nothing, .nothing, .nothing, .data blkA false] := by decide

/-- well-formed operations for the real codec, without reference to the encoder: the hash is the hash of the header, the
    block is at most 2^29 bytes (blocks are ≤ 4 MB), the height fits 32 bits -/
def Op.wfPlain (hash : Bytes → Bytes) : Op → Prop
  | .add h height _ _ raw => h = hash (raw.take 80) ∧ raw.length ≤ 2^29 ∧ height < 2^32
  | _ => True

/-- The same with the snappy model as codec — the environment `oracle_c16` runs (any header-hash function): no hypothesis
    about the codec is left; that the stored form fits the 32-bit length field follows from
    `(Snappy.encode x).length ≤ 11 + 6·x.length` (Proofs/C16SnappyLen.lean, from the decoder's side). -/
theorem store_refines_map_restarts_snappy (hash : Bytes → Bytes) (ops : List Op)
    (hops : ∀ op ∈ ops, Op.wfPlain hash op ∧ op.keep0) (hlen : ops.length < 2^31) :
    AllHold (specRun (snappyEnv hash Gen.BlockDBFacts.advInvalid) init {} ops) (run (snappyEnv hash Gen.BlockDBFacts.advInvalid) init ops).2 := by
  refine restart_refines _ (snappyEnv_ok hash _) fixed_code ops ?_ hlen
  intro op hop
  obtain ⟨h1, h2⟩ := hops op hop
  refine ⟨?_, h2⟩
  cases op with
  | add h height tx tr raw =>
    obtain ⟨a1, a2, a3⟩ := h1
    refine ⟨a1, by omega, ?_, a3⟩
    have := Snappy.encode_length_le raw (by omega)
    show (Snappy.encode raw).length ≤ 0xffffffff
    omega
  | _ => trivial

example : Op.wfPlain (fun h => h.take 32) (.add (hashW blkA) 10 1 false blkA) := ⟨by decide, by decide, by decide⟩

/-- reopen_index, history level, EVERY option combination (retention and backup included — the index file is never
    pruned): after any history that leaves the store closed, NewBlockDBExt + LoadBlockIndex hands the walk callback, for
    every key that was added and never marked invalid, exactly ONE entry, and it carries the hash of the block's header,
    the header, the height and transaction count given to the first BlockAdd and the block's size; every listed entry
    belongs to a key that was added; and the append position is the end of the index file (appending continues behind
    every listed record). `specFinal env init {} ops` is the durable map after the history (an entry that was marked invalid while its block was
    still queued is gone from it; a block stored again under that hash is a new entry and is listed with ITS fields). -/
theorem reopen_index (env : Env) (hfix : env.advInvalid = Gen.BlockDBFacts.advInvalid) (ops : List Op)
    (hops : ∀ op ∈ ops, Op.wf env op) (hlen : ops.length < 2^31)
    (hclosed : (run env init ops).1.isOpen = false) (o : Opts) :
    ∃ ws, (step env (run env init ops).1 (.reopen o)).2 = .walk ws ∧
      (∀ k e, AL.get (specFinal env init {} ops).m k = some e → e.tainted = false →
        ws.filter (fun w => decide (keyOf w.hash = k)) =
          [⟨env.hash (e.raw.take 80), e.raw.take 80, e.height, e.raw.length, e.txcount⟩]) ∧
      (∀ w ∈ ws, ∃ e, AL.get (specFinal env init {} ops).m (keyOf w.hash) = some e) ∧
      (step env (run env init ops).1 (.reopen o)).1.maxidxfilepos = (run env init ops).1.fs.idx.length := by
  have hadv : env.advInvalid = true := by rw [hfix]; exact fixed_code
  have hC := run_core env hadv ops init {} 0 (init_core env) hops (by omega)
  have e : step env (run env init ops).1 (.reopen o) = reopen env (run env init ops).1.fs o := by
    unfold step; simp [hclosed]
  rw [e]
  exact reopen_lists env hadv _ _ _ hC (by omega) hclosed o

example : (run (toyEnv true) init [.reopen optsW, .add (hashW blkA) 10 1 false blkA, .close]).1.isOpen = false := by decide

/-- … and the trusted flags, EVERY option combination: after that restart the rebuilt index record of every key that was
    added and never marked invalid has the LATEST trusted flag of the history (raised by BlockTrusted or a trusted BlockAdd,
    before or after the record was written — `specFinal` tracks it), the block's size, and the data-file number / offset /
    stored length the record had before the restart. -/
theorem reopen_index_trusted (env : Env) (hfix : env.advInvalid = Gen.BlockDBFacts.advInvalid) (ops : List Op)
    (hops : ∀ op ∈ ops, Op.wf env op) (hlen : ops.length < 2^31)
    (hclosed : (run env init ops).1.isOpen = false) (o : Opts) :
    ∀ k e, AL.get (specFinal env init {} ops).m k = some e → e.tainted = false →
      ∃ r0 r, AL.get (run env init ops).1.index k = some r0 ∧
        AL.get (reopen env (run env init ops).1.fs o).1.index k = some r ∧ r.trusted = e.trusted ∧
        r.olen = e.raw.length ∧ r.fpos = r0.fpos ∧ r.blen = r0.blen ∧ r.datfileidx = r0.datfileidx := by
  have hadv : env.advInvalid = true := by rw [hfix]; exact fixed_code
  have hC := run_core env hadv ops init {} 0 (init_core env) hops (by omega)
  have hT := run_trust env hadv ops init {} 0 (init_core env) init_trust hops (by omega)
  intro k e he ht
  obtain ⟨r0, a1⟩ := hC.disk.ent k e he ht
  obtain ⟨r, b1, b2, b3, b4, b5, b6⟩ := reopen_index_flags env hadv _ _ _ hC (by omega) hclosed o k e r0 he ht a1
  exact ⟨r0, r, a1, b1, by rw [b2]; exact hT k e r0 he ht a1, b3, b4, b5, b6⟩

/-- … and ONLY the non-invalid blocks (second audit, item 1b): a block that `BlockInvalid` flagged AFTER it was written
    (`flagsInvalid`: in the index, untrusted, written — `setBlockFlag` ORs BLOCK_INVALID into the record on disk) and that was
    not handed to `BlockAdd` again since is NOT listed by the restart. `staleFinal env init [] ops` is that ghost list of
    keys along the history (Proofs/C16Stale.lean; it reads the model state like `forgets` does). Together with `reopen_index`:
    the walk has exactly one entry for every stored, never-invalidated key, none for an invalidated one, and nothing else but
    keys that were added. (A key that is marked invalid, survives a restart and is then stored AGAIN gets a new record and is
    listed with the new fields — the specification keeps its entry tainted and claims nothing for it: `relisted_after_restart_witness`.) -/
theorem reopen_index_excludes_invalid (env : Env) (hfix : env.advInvalid = Gen.BlockDBFacts.advInvalid) (ops : List Op)
    (hops : ∀ op ∈ ops, Op.wf env op) (hlen : ops.length < 2^31)
    (hclosed : (run env init ops).1.isOpen = false) (o : Opts) (ws : List WalkRec)
    (hws : (step env (run env init ops).1 (.reopen o)).2 = .walk ws) :
    ∀ w ∈ ws, keyOf w.hash ∉ staleFinal env init [] ops := by
  have hadv : env.advInvalid = true := by rw [hfix]; exact fixed_code
  have hC := run_core env hadv ops init {} 0 (init_core env) hops (by omega)
  have hS := run_stale env hadv ops init {} 0 [] (fun k hk => by cases hk) (init_core env) hops (by omega)
  have e : step env (run env init ops).1 (.reopen o) = reopen env (run env init ops).1.fs o := by
    unfold step; simp [hclosed]
  rw [e] at hws
  exact reopen_lists_no_stale env _ _ _ _ hS hC o ws hws

def optsW4 : Opts := ⟨4, 0, 0, false, false⟩
/-- add A, add B, flush, BlockInvalid(A) (A is written: its record is flagged on disk), close -/
def invalidatedHistory : List Op :=
  [.reopen optsW4, .add (hashW blkA) 10 1 false blkA, .add (hashW blkB) 11 2 false blkB, .idle, .invalid (hashW blkA), .close]

set_option maxRecDepth 1000000 in
/-- non-vacuity: the ghost list holds A's key, the restart lists B only; the specification has A tainted -/
example : staleFinal (toyEnv true) init [] invalidatedHistory = [keyOf (hashW blkA)] ∧
    (step (toyEnv true) (run (toyEnv true) init invalidatedHistory).1 (.reopen optsW4)).2
      = .walk [⟨hashW blkB, blkB.take 80, 11, 82, 2⟩] ∧
    ((AL.get (specFinal (toyEnv true) init {} invalidatedHistory).m (keyOf (hashW blkA))).map (fun e => e.tainted)) = some true ∧
    (run (toyEnv true) init invalidatedHistory).1.isOpen = false := by decide

/-- same header as `blkA`, other body -/
def blkA' : Bytes := blkA.take 80 ++ List.replicate 15 4
set_option maxRecDepth 1000000 in
/-- … the invalidated block survives a restart as a flagged record, the same hash is stored again (a new record), and the
    next restart lists the NEW block; the key left the ghost list with the second BlockAdd, the specification keeps the
    entry tainted (no claim for `get`) -/
theorem relisted_after_restart_witness :
    let h := invalidatedHistory ++ [.reopen optsW4, .add (hashW blkA') 12 3 false blkA', .close]
    hashW blkA' = hashW blkA ∧ staleFinal (toyEnv true) init [] h = [] ∧
    (step (toyEnv true) (run (toyEnv true) init h).1 (.reopen optsW4)).2
      = .walk [⟨hashW blkB, blkB.take 80, 11, 82, 2⟩, ⟨hashW blkA, blkA.take 80, 12, 95, 3⟩] ∧
    ((AL.get (specFinal (toyEnv true) init {} h).m (keyOf (hashW blkA))).map (fun e => e.tainted)) = some true := by decide

/-- `reopen_index` + `reopen_index_excludes_invalid` with the codec the store really uses (the snappy model, the environment
    `oracle_c16` runs): the only hypotheses left are `Op.wfPlain` (hash of the header, block ≤ 2^29 bytes, height < 2^32) and
    fewer than 2^31 operations. -/
theorem reopen_index_snappy (hash : Bytes → Bytes) (ops : List Op)
    (hops : ∀ op ∈ ops, Op.wfPlain hash op) (hlen : ops.length < 2^31)
    (hclosed : (run (snappyEnv hash Gen.BlockDBFacts.advInvalid) init ops).1.isOpen = false) (o : Opts) :
    let env := snappyEnv hash Gen.BlockDBFacts.advInvalid
    ∃ ws, (step env (run env init ops).1 (.reopen o)).2 = .walk ws ∧
      (∀ k e, AL.get (specFinal env init {} ops).m k = some e → e.tainted = false →
        ws.filter (fun w => decide (keyOf w.hash = k)) =
          [⟨env.hash (e.raw.take 80), e.raw.take 80, e.height, e.raw.length, e.txcount⟩]) ∧
      (∀ w ∈ ws, ∃ e, AL.get (specFinal env init {} ops).m (keyOf w.hash) = some e) ∧
      (∀ w ∈ ws, keyOf w.hash ∉ staleFinal env init [] ops) ∧
      (step env (run env init ops).1 (.reopen o)).1.maxidxfilepos = (run env init ops).1.fs.idx.length := by
  intro env
  have hwf : ∀ op ∈ ops, Op.wf env op := by
    intro op hop
    have h1 := hops op hop
    cases op with
    | add h height tx tr raw =>
      obtain ⟨a1, a2, a3⟩ := h1
      refine ⟨a1, by omega, ?_, a3⟩
      have := Snappy.encode_length_le raw (by omega)
      show (Snappy.encode raw).length ≤ 0xffffffff
      omega
    | _ => trivial
  obtain ⟨ws, w1, w2, w3, w4⟩ := reopen_index env rfl ops hwf hlen hclosed o
  exact ⟨ws, w1, w2, w3, reopen_index_excludes_invalid env rfl ops hwf hlen hclosed o ws w1, w4⟩

/-! ## retention (DataFilesKeep ≠ 0, backup of old files): store_refines_map at full strength -/

/-- store_refines_map, EVERY history and EVERY option combination: from the empty directory, any sequence of add / get /
    length / mark-trusted / mark-invalid / idle-flush / close / reopen, the options changing from session to session (cache
    size, compression, maximum data-file size, `DataFilesKeep` = any number, `DataFilesBackup` on or off) — every `get` of a
    key that was added, never marked invalid and whose data is WITHIN THE CONFIGURED RETENTION returns the bytes of its first add
    and the latest trusted flag, every `length` its size: from the cache, from the queue, from the data file in the main
    directory or from its backup in oldat/, after any number of roll-overs and restarts.
    "Within the configured retention" (`claimR` / `keyLost`, Spec/BlockStoreMap.lean): no claim is made for a key whose written
    record points into a data file whose number is in the ghost list `FS.lost`. That list is bounded by the CONFIGURED policy —
    `lost_outside_keep_window` below: a number enters it only when `removeDatFile` deletes the file in a session with
    `keep ≠ 0` and no backup, and then it is below `maxdatfileidx − keep`. Nothing else is excluded (the former second case,
    a backup shadowed by the O_CREATE of LoadBlockIndex, is repaired: `backup_restored_witness`).
    "Never marked invalid": an entry that `BlockInvalid` FORGETS (still queued, untrusted: `forgets`) is removed from the
    durable map, a later add of the same hash is a new entry and is claimed (`readd_after_queued_invalid_claimed`); an entry
    marked invalid after it was written carries no claim from then on.
    The proof carries `Ref` (Proofs/C16Refine.lean) with the data file resolved as `BlockGet` does (`fileOf`: main directory,
    then oldat/), "the current data file exists in the main directory", and `Keeps` (Proofs/C16Retain.lean): roll-over,
    `removeDatFile`, `loadCleanup` and the O_CREATE leave every number that is not lost afterwards resolving to the same
    bytes; `keyLost` is monotone, so a block cached from a lost file is never claimed later. -/
theorem store_refines_map (env : Env)
    (hrt : ∀ x : Bytes, x.length ≤ 0xffffffff → env.dec (env.enc x) = some x) (hne : ∀ x, env.enc x ≠ [])
    (hfix : env.advInvalid = Gen.BlockDBFacts.advInvalid) (ops : List Op)
    (hops : ∀ op ∈ ops, Op.wf env op) (hlen : ops.length < 2^31) :
    AllHold (specRunR env init {} ops) (run env init ops).2 :=
  restart_refinesR env ⟨hrt, hne⟩ (by rw [hfix]; exact fixed_code) ops hops hlen

/-- The same with the codec the store really uses — the snappy model, exactly the environment `oracle_c16` runs and the
    harness compares with the Go code (any header-hash function): no hypothesis about the codec is left. -/
theorem store_refines_map_snappy (hash : Bytes → Bytes) (ops : List Op)
    (hops : ∀ op ∈ ops, Op.wfPlain hash op) (hlen : ops.length < 2^31) :
    AllHold (specRunR (snappyEnv hash Gen.BlockDBFacts.advInvalid) init {} ops)
      (run (snappyEnv hash Gen.BlockDBFacts.advInvalid) init ops).2 := by
  refine restart_refinesR _ (snappyEnv_ok hash _) fixed_code ops ?_ hlen
  intro op hop
  have h1 := hops op hop
  cases op with
  | add h height tx tr raw =>
    obtain ⟨a1, a2, a3⟩ := h1
    refine ⟨a1, by omega, ?_, a3⟩
    have := Snappy.encode_length_le raw (by omega)
    show (Snappy.encode raw).length ≤ 0xffffffff
    omega
  | _ => trivial

def blk200 (tag : UInt8) : Bytes := mkBlock tag 200
def optsK : Opts := ⟨1, 200, 1, false, false⟩
/-- keep = 1, no backup: three 200-byte blocks go to data files 0, 1, 2; the second roll-over deletes file 0 -/
def retentionHistory : List Op :=
  [.reopen optsK, .add (hashW (blk200 1)) 1 1 false (blk200 1), .add (hashW (blk200 2)) 2 1 false (blk200 2),
   .add (hashW (blk200 3)) 3 1 false (blk200 3), .idle, .get (hashW (blk200 1)), .get (hashW (blk200 2)),
   .length (hashW (blk200 3)) true, .close, .reopen optsK, .get (hashW (blk200 2))]

set_option maxRecDepth 1000000 in
/-- the retention-aware specification makes real claims under retention: on this history (file 0 deleted by the second
    roll-over) nothing is demanded for block 1, and blocks 2 and 3 — within `keep = 1` — are demanded in full, also after
    the restart -/
example : specRunR (toyEnv true) init {} retentionHistory
    = [.nothing, .nothing, .nothing, .nothing, .nothing, .nothing, .data (blk200 2) false, .len 200, .nothing, .nothing,
       .data (blk200 2) false] ∧ (run (toyEnv true) init retentionHistory).1.fs.lost = [0] := by decide

/-! ## the retention POLICY: what `FS.lost` can contain (audit item: "within the configured retention" was circular) -/

/-- The regenerated structural fact: LoadBlockIndex moves the current data file back from oldat/ before it opens it with
    O_CREATE (the repair of the former finding `backup-shadowed-by-new-file`). With it the only writer of the ghost list
    `FS.lost` is `removeDatFile` without backup. -/
theorem fixed_code_restore : Gen.BlockDBFacts.restoresBackup = true := by decide

/-- The exclusion of `store_refines_map` is bounded by the CONFIGURED retention, for every history and every option
    combination: every data-file number `i` in the ghost list `FS.lost` after a history was put there by one operation
    `op` of the history (`ops = pre ++ op :: suf`, `i` not lost before it), and in the state right after that operation
    `OutsideWindow` holds: `DataFilesKeep ≠ 0`, `DataFilesBackup = false` and `i + keep < maxdatfileidx` — the file was
    below the current file minus `keep` at the moment it was lost (roll-over: file `old − keep` with new current file
    `old + 1`; LoadBlockIndex clean-up: files `max − keep − 1 … max − keep − 3`). A store that removes one file too many
    (file `maxdatfileidx − keep` itself), removes a file although a backup is configured, or loses a file in any other
    operation contradicts this theorem — not only the harness. -/
theorem lost_outside_keep_window (env : Env) (ops : List Op) (i : Nat)
    (h : i ∈ (run env init ops).1.fs.lost) :
    ∃ pre op suf, ops = pre ++ op :: suf ∧ i ∉ (run env init pre).1.fs.lost ∧
      i ∈ (run env init (pre ++ [op])).1.fs.lost ∧ OutsideWindow (run env init (pre ++ [op])).1 i := by
  rcases run_lost env fixed_code_restore ops init i h with h0 | h1
  · simp [init] at h0
  · exact h1

/-- … per operation: a number that is lost after an operation was lost before it or is outside the window configured in
    the state after it; and within a session the window only moves up (`Grows`: same options, `maxdatfileidx` does not
    decrease), so a number outside the window stays outside until the next restart. -/
theorem lost_step (env : Env) (s : State) (op : Op) (i : Nat) (h : i ∈ (step env s op).1.fs.lost) :
    i ∈ s.fs.lost ∨ OutsideWindow (step env s op).1 i :=
  step_lost env fixed_code_restore s op i h

/-- the claim of `store_refines_map` is dropped (`keyLost`) only for a key whose written record points into a data file that
    left the configured window at some operation of the history -/
theorem claim_dropped_only_outside_window (env : Env) (ops : List Op) (k : Key)
    (h : keyLost (run env init ops).1 k = true) :
    ∃ r, AL.get (run env init ops).1.index k = some r ∧ r.ipos.isSome = true ∧
      ∃ pre op suf, ops = pre ++ op :: suf ∧ r.datfileidx ∉ (run env init pre).1.fs.lost ∧
        OutsideWindow (run env init (pre ++ [op])).1 r.datfileidx := by
  unfold keyLost at h
  split at h
  · rename_i r hr
    simp only [Bool.and_eq_true, List.contains_eq_mem, decide_eq_true_eq] at h
    obtain ⟨pre, op, suf, e1, e2, _, e4⟩ := lost_outside_keep_window env ops r.datfileidx h.2
    exact ⟨r, hr, h.1, pre, op, suf, e1, e2, e4⟩
  · cases h

set_option maxRecDepth 1000000 in
/-- non-vacuity: in `retentionHistory` (keep = 1, no backup) file 0 is lost by the `idle` flush whose second roll-over makes
    file 2 the current one: 0 + 1 < 2 -/
example : (run (toyEnv true) init retentionHistory).1.fs.lost = [0] ∧
    (run (toyEnv true) init (retentionHistory.take 4)).1.fs.lost = [] ∧
    (run (toyEnv true) init (retentionHistory.take 5)).1.fs.lost = [0] ∧
    (run (toyEnv true) init (retentionHistory.take 5)).1.maxdatfileidx = 2 := by decide

def optsKB : Opts := ⟨1, 200, 1, true, false⟩
/-- the FORMER finding `backup-shadowed-by-new-file` as a model history: three 200-byte blocks in data files 0, 1, 2 (file 0
    is moved to oldat/), B and C marked invalid, restart, get A -/
def shadowHistory : List Op :=
  [.reopen optsKB, .add (hashW (blk200 1)) 1 1 false (blk200 1), .add (hashW (blk200 2)) 2 1 false (blk200 2),
   .add (hashW (blk200 3)) 3 1 false (blk200 3), .idle, .invalid (hashW (blk200 2)), .invalid (hashW (blk200 3)), .close,
   .reopen optsKB, .get (hashW (blk200 1))]

set_option maxRecDepth 1000000 in
/-- Regression witness of the repair (`fix:` commits in /repo; corpus/C16/backup-fallback-after-invalid.json and
    corpus/C16/file-number-reused-*.json replay it on the real code): the invalid records of files 1 and 2 still count, so
    LoadBlockIndex keeps appending to file 2 instead of falling back to file 0; file 0 stays in oldat/ and A is read back
    from there; nothing is lost. (Before the repair: `maxdatfileidx = 0`, a new empty file 0 in the main directory
    shadowed the backup — short read, `lost = [0]`; without backup the number 0 was reused and a later read of A returned
    the bytes of another block or zeros.) -/
theorem backup_restored_witness :
    (specRunR (toyEnv true) init {} shadowHistory).getLast? = some (.data (blk200 1) false) ∧
    (run (toyEnv true) init shadowHistory).2.getLast? = some (.data (blk200 1) false) ∧
    (run (toyEnv true) init shadowHistory).1.fs.lost = [] ∧
    (run (toyEnv true) init shadowHistory).1.maxdatfileidx = 2 ∧
    (AL.get (run (toyEnv true) init shadowHistory).1.fs.dats 0).isSome = false ∧
    (AL.get (run (toyEnv true) init shadowHistory).1.fs.olds 0).isSome = true := by decide

/-- The regenerated structural fact: the invalid-record branch of LoadBlockIndex raises `maxdatfileidx` to the record's
    data-file number, so the file to append to never goes back to a lower number after a restart. -/
theorem fixed_code_invalid_counts : Gen.BlockDBFacts.invalidCountsFile = true := by decide

/-! ## data-file numbers are never reused (second audit, item 1a) -/

/-- EVERY history, every option combination: each data-file number in the ghost list `FS.lost` is strictly BELOW the current
    file number `maxdatfileidx` — in open and in closed states, after any number of restarts. Since `writeOne` stores a
    block into the file `maxdatfileidx` (after a possible roll-over to `maxdatfileidx + 1`), no block is ever stored into a
    file whose number was lost: the exclusion of `store_refines_map` (`keyLost`) cannot swallow a block that was stored
    AFTER its file number left retention. The proof needs the regenerated fact `invalidCountsFile` (`fixed_code_invalid_counts`):
    across close + reopen LoadBlockIndex recomputes `maxdatfileidx` as the maximum over ALL records of the index file,
    invalid-flagged ones included (`loadRecord_mdi`); for a source without the repair 72419de0 the fact is `false`, this
    theorem does not compile, and indeed the statement is false there (corpus/C16/file-number-reused-*.json). -/
theorem lost_below_current (env : Env) (hfix : env.advInvalid = Gen.BlockDBFacts.advInvalid) (ops : List Op)
    (hops : ∀ op ∈ ops, Op.wf env op) (hlen : ops.length < 2^31) (i : Nat)
    (h : i ∈ (run env init ops).1.fs.lost) : i < (run env init ops).1.maxdatfileidx := by
  have hadv : env.advInvalid = true := by rw [hfix]; exact fixed_code
  exact (run_top env hadv fixed_code_invalid_counts fixed_code_restore ops init {} 0 init_top (init_core env) hops
    (by omega)).1.below i h

/-- The current file number never goes down: not within a session, and not across close + reopen (where it is recomputed
    from the index file). `pre ++ suf` is any continuation of the history `pre`. -/
theorem current_file_never_decreases (env : Env) (hfix : env.advInvalid = Gen.BlockDBFacts.advInvalid) (pre suf : List Op)
    (hops : ∀ op ∈ pre ++ suf, Op.wf env op) (hlen : (pre ++ suf).length < 2^31) :
    (run env init pre).1.maxdatfileidx ≤ (run env init (pre ++ suf)).1.maxdatfileidx := by
  have hadv : env.advInvalid = true := by rw [hfix]; exact fixed_code
  simp only [List.length_append] at hlen
  have hp : ∀ op ∈ pre, Op.wf env op := fun op h => hops op (by simp [h])
  have hs : ∀ op ∈ suf, Op.wf env op := fun op h => hops op (by simp [h])
  have t := (run_top env hadv fixed_code_invalid_counts fixed_code_restore pre init {} 0 init_top (init_core env) hp (by omega)).1
  have c := run_core env hadv pre init {} 0 (init_core env) hp (by omega)
  rw [run_append]
  exact (run_top env hadv fixed_code_invalid_counts fixed_code_restore suf _ _ _ t c hs (by omega)).2

/-- No reuse, per operation: after any history `ops` and one more operation `op`, every WRITTEN index record `r'` either was
    written before `op` with the same data-file number, or its number is at least the file number that was current before
    `op` — and therefore (by `lost_below_current`) not a number that was lost before `op`. -/
theorem written_record_file_is_fresh (env : Env) (hfix : env.advInvalid = Gen.BlockDBFacts.advInvalid) (ops : List Op) (op : Op)
    (hops : ∀ o ∈ ops, Op.wf env o) (hlen : ops.length < 2^31) (k : Key) (r' : Rec)
    (h1 : AL.get (step env (run env init ops).1 op).1.index k = some r') (h2 : r'.ipos.isSome = true) :
    (∃ r, AL.get (run env init ops).1.index k = some r ∧ r.ipos.isSome = true ∧ r.datfileidx = r'.datfileidx) ∨
    ((run env init ops).1.maxdatfileidx ≤ r'.datfileidx ∧ r'.datfileidx ∉ (run env init ops).1.fs.lost) := by
  have hadv : env.advInvalid = true := by rw [hfix]; exact fixed_code
  have t := (run_top env hadv fixed_code_invalid_counts fixed_code_restore ops init {} 0 init_top (init_core env) hops (by omega)).1
  have c := run_core env hadv ops init {} 0 (init_core env) hops (by omega)
  rcases (step_fresh env hadv fixed_code_invalid_counts fixed_code_restore _ _ _ t c op (by omega)).2 k r' h1 h2 with a | a
  · exact .inl a
  · refine .inr ⟨a, fun hl => ?_⟩
    have := t.below _ hl
    omega

/-- A lost data file is GONE and stays gone, EVERY history, every option combination: a number in `FS.lost` names a file
    that is in neither the main directory nor oldat/ — the store never creates a file with that number again (new files get
    the numbers `maxdatfileidx + 1` at a roll-over and `maxdatfileidx' ≥ maxdatfileidx` in LoadBlockIndex, both above every
    lost number by `lost_below_current`). -/
theorem lost_file_is_gone (env : Env) (hfix : env.advInvalid = Gen.BlockDBFacts.advInvalid) (ops : List Op)
    (hops : ∀ op ∈ ops, Op.wf env op) (hlen : ops.length < 2^31) (i : Nat)
    (h : i ∈ (run env init ops).1.fs.lost) :
    AL.get (run env init ops).1.fs.dats i = none ∧ AL.get (run env init ops).1.fs.olds i = none := by
  have hadv : env.advInvalid = true := by rw [hfix]; exact fixed_code
  exact (run_files env hadv fixed_code_invalid_counts fixed_code_restore ops init {} 0 init_files init_top (init_core env) hops
    (by omega)).lost_gone i h

/-- What an out-of-retention read answers (the Lean counterpart of the harness key
    `out-of-retention-read-returns-other-bytes`): after EVERY history, `BlockGet` of a key for which `store_refines_map` drops
    its claim (`keyLost`: the record points into a lost data file) reads NO data file — it returns the block held in the
    cache, or the error `noFile` (`purged` for a zero-length record). It never returns bytes found in some other file of
    that number. (Not proved here: that the cached bytes of such a key are the stored block — they were cached by BlockAdd or
    by a read made while the file was still there, `Ref.cachedata` covers them only up to the moment the file is lost; the
    harness compares them on every run.) -/
theorem out_of_retention_get_reads_no_file (env : Env) (hfix : env.advInvalid = Gen.BlockDBFacts.advInvalid) (ops : List Op)
    (hops : ∀ op ∈ ops, Op.wf env op) (hlen : ops.length < 2^31) (hash : Bytes)
    (hl : keyLost (run env init ops).1 (keyOf hash) = true) :
    let s := (run env init ops).1
    (∃ c r, AL.get s.cache (keyOf hash) = some c ∧ AL.get s.index (keyOf hash) = some r ∧
        (blockGet env s hash).2 = .data c.data r.trusted) ∨
    (AL.get s.cache (keyOf hash) = none ∧ ∃ e t, (blockGet env s hash).2 = .getErr e t ∧ (e = .noFile ∨ e = .purged)) := by
  have hadv : env.advInvalid = true := by rw [hfix]; exact fixed_code
  exact blockGet_lost env _ hash (run_files env hadv fixed_code_invalid_counts fixed_code_restore ops init {} 0 init_files
    init_top (init_core env) hops (by omega)) hl

set_option maxRecDepth 1000000 in
/-- non-vacuity: in `retentionHistory` block 1's record points into the lost file 0 and is not cached (cache size 1) -/
example : keyLost (run (toyEnv true) init retentionHistory).1 (keyOf (hashW (blk200 1))) = true ∧
    AL.get (run (toyEnv true) init retentionHistory).1.cache (keyOf (hashW (blk200 1))) = none ∧
    (blockGet (toyEnv true) (run (toyEnv true) init retentionHistory).1 (hashW (blk200 1))).2 = .getErr .noFile false := by decide

set_option maxRecDepth 1000000 in
/-- non-vacuity of the three theorems above on `retentionHistory` (keep = 1, no backup; file 0 is lost): the lost number 0 is
    below the current number 2 — also after the restart —, and the record of block 3, written by the `idle` flush, carries
    the number 2 ≥ 0 = the number that was current before the flush -/
example : (run (toyEnv true) init retentionHistory).1.fs.lost = [0] ∧
    (run (toyEnv true) init retentionHistory).1.maxdatfileidx = 2 ∧
    (run (toyEnv true) init (retentionHistory.take 4)).1.maxdatfileidx = 0 ∧
    ((AL.get (run (toyEnv true) init (retentionHistory.take 5)).1.index (keyOf (hashW (blk200 3)))).map (fun r => (r.datfileidx, r.ipos.isSome)))
      = some (2, true) := by decide

/-- the history of the FORMER defect (file number reuse): keep = 1, NO backup, three blocks in files 0, 1, 2 (file 0 removed),
    B and C marked invalid, restart, add D, flush -/
def reuseHistory : List Op :=
  [.reopen optsK, .add (hashW (blk200 1)) 1 1 false (blk200 1), .add (hashW (blk200 2)) 2 1 false (blk200 2),
   .add (hashW (blk200 3)) 3 1 false (blk200 3), .idle, .invalid (hashW (blk200 2)), .invalid (hashW (blk200 3)), .close,
   .reopen optsK, .add (hashW (blk200 4)) 4 1 false (blk200 4), .idle, .get (hashW (blk200 4)), .get (hashW (blk200 1))]

set_option maxRecDepth 1000000 in
/-- … on the model of the CURRENT source: after the restart the current file is still 2 (the invalid records of B and C
    count), D goes to file 2 or above — not into the lost number 0 —, D is claimed and returned, and the read of A (file 0,
    outside retention) is an error, not other bytes. -/
theorem no_reuse_witness :
    (run (toyEnv true) init (reuseHistory.take 9)).1.maxdatfileidx = 2 ∧
    (run (toyEnv true) init reuseHistory).1.fs.lost = [0] ∧
    ((AL.get (run (toyEnv true) init reuseHistory).1.index (keyOf (hashW (blk200 4)))).map (fun r => decide (2 ≤ r.datfileidx))) = some true ∧
    (specRunR (toyEnv true) init {} reuseHistory).drop 11 = [.data (blk200 4) false, .nothing] ∧
    (run (toyEnv true) init reuseHistory).2.drop 11 = [.data (blk200 4) false, .getErr .noFile false] := by decide

/-- the second line of defence (`restoresBackup`), on a directory the store itself no longer produces: the current data
    file is missing from the main directory and present in oldat/ — it is moved back, not shadowed, nothing is lost -/
theorem create_cur_restores :
    createCur { dats := [], olds := [(0, blkA)] } 0 = { dats := [(0, blkA)], olds := [] } := by decide

/-! ## invalid while still queued: the block is forgotten, a block stored again under its hash is claimed -/

def blkX : Bytes := mkBlock 5 90
/-- same 80-byte header as `blkX` (the header bytes are the first 80), other body and length -/
def blkX' : Bytes := blkX.take 80 ++ List.replicate 20 9
/-- add X, BlockInvalid(X) while X is still queued, add X' (same hash), close, restart, get, length -/
def readdHistory : List Op :=
  [.reopen optsW, .add (hashW blkX) 10 1 false blkX, .invalid (hashW blkX), .add (hashW blkX') 11 2 false blkX', .close,
   .reopen optsW, .get (hashW blkX'), .length (hashW blkX') true]

set_option maxRecDepth 1000000 in
/-- The scenario of the repair 6075761f carries a Lean claim: the specification forgets X with the store (`forgets`), the
    second add is a new entry, and after close + restart `store_refines_map` DEMANDS X' (100 bytes), which the model
    returns; the restart lists X' with height 11 / 2 transactions (`reopen_index` speaks about `specFinal`, which holds
    X'). -/
theorem readd_after_queued_invalid_claimed :
    hashW blkX = hashW blkX' ∧
    specRunR (toyEnv true) init {} readdHistory
      = [.nothing, .nothing, .nothing, .nothing, .nothing, .nothing, .data blkX' false, .len 100] ∧
    (run (toyEnv true) init readdHistory).2.drop 5
      = [.walk [⟨hashW blkX', blkX'.take 80, 11, 100, 2⟩], .data blkX' false, .len 100] ∧
    (AL.get (specFinal (toyEnv true) init {} readdHistory).m (keyOf (hashW blkX'))).map (fun e => (e.raw, e.height, e.tainted))
      = some (blkX', 11, false) := by decide

/-- add A as trusted, flush, BlockInvalid(A) — the call panics ("Trusted block cannot be invalid"), the store is unchanged —, get A -/
def panicHistory : List Op :=
  [.reopen optsW, .add (hashW blkA) 10 1 true blkA, .idle, .invalid (hashW blkA), .get (hashW blkA)]

set_option maxRecDepth 1000000 in
/-- second audit, item 1c: a BlockInvalid that panics does not taint the entry (`Spec.panics`): the specification keeps
    DEMANDING the block afterwards, and the model returns it. (On the real code the panic leaves db.mutex locked, so the
    harness ends a history there; the model continues.) -/
theorem panicking_invalid_keeps_claim :
    (run (toyEnv true) init panicHistory).2.drop 3 = [.panic, .data blkA true] ∧
    (specRunR (toyEnv true) init {} panicHistory).drop 3 = [.nothing, .data blkA true] := by decide

/-! ## the one-pass read `BlockGetInternal(hash, do_not_cache = true)` (Model/BlockDBNC.lean) -/

/-- The one-pass read (Chain.ParseTillBlock, Chain.UndoLastBlock, the rescan loop) answers exactly what `BlockGet` answers in
    the same state — the stored bytes or the same error — whatever the state is. -/
theorem onepass_read_reply_is_get_reply (env : Env) (s : State) (hash : Bytes) :
    (blockGetNC env s hash).2 = (blockGet env s hash).2 := blockGetNC_out env s hash

/-- The one-pass read never lets go of a cached block: after it the cache holds the same keys with the same bytes (on a hit
    only `LastUsed` moves, on a miss the cache is untouched), and every index record keeps its position, flags and identity. -/
theorem onepass_read_keeps_cache (env : Env) (s : State) (hash : Bytes) (k : Key) :
    (AL.get (blockGetNC env s hash).1.cache k).map (·.data) = (AL.get s.cache k).map (·.data) ∧
    (AL.get (blockGetNC env s hash).1.index k).map (fun r => (r.ipos, r.trusted, r.seq, r.datfileidx, r.fpos, r.blen))
      = (AL.get s.index k).map (fun r => (r.ipos, r.trusted, r.seq, r.datfileidx, r.fpos, r.blen)) :=
  ⟨blockGetNC_cache env s hash k, blockGetNC_index env s hash k⟩

/-- A block that sits in the cache — for a block whose write is still queued that is the only copy — is answered by `BlockGet`
    with the cached bytes after a one-pass read of ANY block, that block itself included. -/
theorem onepass_read_then_get (env : Env) (s : State) (hash hash' : Bytes) (r : Rec) (c : CacheEnt)
    (hr : AL.get s.index (keyOf hash') = some r) (hc : AL.get s.cache (keyOf hash') = some c) :
    (blockGet env (blockGetNC env s hash).1 hash').2 = .data c.data r.trusted :=
  blockGetNC_queued_readable env s hash hash' r c hr hc

/-- the hypotheses of `onepass_read_then_get` hold for a block that was just added (queued: `ipos = none`, cached) -/
example : (AL.get (run (toyEnv true) init [.reopen optsW, .add (hashW blkA) 10 1 false blkA]).1.index (keyOf (hashW blkA))).map (·.ipos) = some none ∧
    (AL.get (run (toyEnv true) init [.reopen optsW, .add (hashW blkA) 10 1 false blkA]).1.cache (keyOf (hashW blkA))).map (·.data) = some blkA := by
  decide

/-- add A (queued), one-pass read of A, BlockGet of A, flush, one-pass read, BlockGet -/
def onepassHistory : List OpX :=
  [.op (.reopen optsW), .op (.add (hashW blkA) 10 1 false blkA), .getNC (hashW blkA), .op (.get (hashW blkA)), .op .idle,
   .getNC (hashW blkA), .op (.get (hashW blkA))]

set_option maxRecDepth 1000000 in
/-- the hypotheses of `onepass_read_then_get` hold for a queued block, and the claims below are real ones -/
example : (runX (toyEnv true) init onepassHistory).2.drop 2 = [.data blkA false, .data blkA false, .ok, .data blkA false, .data blkA false] ∧
    (specRunRX (toyEnv true) init {} onepassHistory).drop 2 = [.data blkA false, .data blkA false, .nothing, .data blkA false, .data blkA false] := by
  decide

/-- store_refines_map WITH ONE-PASS READS, one session on a fresh directory, ANY options (cache size, compression, data-file
    size, retention, backup), any codec that round-trips: for every sequence of add / get / length / mark-trusted /
    mark-invalid / idle-flush / close AND one-pass reads `BlockGetInternal(hash, true)` in any order, every read — caching or
    one-pass — of a key that was added, never marked invalid and whose data file is within retention returns the bytes of its
    first add and the latest trusted flag (`claimRX` demands of a one-pass read what `claimR` demands of `get`).
    `_partial`: one session; the restart theorems (`store_refines_map`, `reopen_index`) are stated over `Op`, which has the
    caching read only — the index-file invariants were not re-proved for `OpX` (the one-pass read changes no file and no
    record field but `olen`: `onepass_read_keeps_cache`). -/
theorem store_refines_map_onepass_partial (env : Env)
    (hrt : ∀ x : Bytes, x.length ≤ 0xffffffff → env.dec (env.enc x) = some x) (hne : ∀ x, env.enc x ≠ [])
    (o : Opts) (ops : List OpX) (hops : ∀ op ∈ ops, op.ok) :
    AllHold (specRunRX env init {} (.op (.reopen o) :: ops)) (runX env init (.op (.reopen o) :: ops)).2 :=
  session_refinesRX env ⟨hrt, hne⟩ o ops hops

example : ∀ op ∈ onepassHistory.drop 1, op.ok := by
  intro op h
  simp only [onepassHistory, List.drop, List.mem_cons, List.not_mem_nil, or_false] at h
  rcases h with h | h | h | h | h | h <;> subst h <;> first | exact trivial | exact ⟨rfl, by simp [Op.sizeOK, blkA, mkBlock]⟩

/-- the same with the snappy model as codec — the environment `oracle_c16` runs -/
theorem store_refines_map_onepass_snappy_partial (hash : Bytes → Bytes) (adv : Bool)
    (o : Opts) (ops : List OpX) (hops : ∀ op ∈ ops, op.ok) :
    AllHold (specRunRX (snappyEnv hash adv) init {} (.op (.reopen o) :: ops)) (runX (snappyEnv hash adv) init (.op (.reopen o) :: ops)).2 :=
  session_refinesRX _ (snappyEnv_ok hash adv) o ops hops

end GocoinV.Props.C16
