/-
  Props.C05 — property theorems for C05 (block header / structure / commitment rules).
-/
import GocoinV.Model.BlockCheck
namespace GocoinV.Props.C05
end GocoinV.Props.C05
