/-
  Props.C05 — property theorems for C05 (blocks violating header, structure or commitment rules are never
  accepted). Theorems ONLY (helper lemmas live in GocoinV/Proofs/C05*.lean). Every theorem is about the
  definitions of Model/{Target,Retarget,BlockCheck}.lean — the ones oracle_c05 executes and go/cmd/c05
  compares with the real gocoin functions — and about the constants of Gen/ConsensusConsts.lean, which are
  regenerated from the Go source on every run.
-/
import GocoinV.Model.BlockCheck
import GocoinV.Spec.Merkle
import GocoinV.Spec.ScriptNum
import GocoinV.Proofs.C05Sort
import GocoinV.Proofs.C05Merkle
import GocoinV.Proofs.C05Script
import GocoinV.Proofs.C05Block
import GocoinV.Proofs.C05Compact
namespace GocoinV.Props.C05
open GocoinV GocoinV.Target GocoinV.Retarget GocoinV.BlockCheck GocoinV.Gen.ConsensusConsts

/-- PreCheckBlock, decision logic stated outright: a header that passes (`err = ok`) is at least 80 bytes,
    has a non-zero version, a hash that meets the target in its own `bits`, a time not more than
    `maxFutureBlockTime` (2 h) ahead of the clock, has no `BlockIndex` entry under its own 8-byte key, has a parent
    entry under the 8-byte key of its previous-block field WHOSE WHOLE HASH IS THAT FIELD (`i.parent = some
    (i.parentHash, …)`: the header names a block that exists — the index key alone is attacker-chosen header data),
    is not a fork deeper than the unwind limit, carries exactly the `bits` that GetNextWorkRequired demands after
    that parent, has a time strictly above the parent's median-time-past, and a (signed) version permitted at its
    height; and the call reports neither `dos` nor `maybelater` and leaves height = parent height + 1 and that MTP
    in the block. -/
theorem precheck_sound (p : Params) (c : Consensus) (i : PreIn) (o : PreOut)
    (h : preCheckBlock p c i = some o) (hok : o.err = .ok) :
    preMinRawLen ≤ i.rawLen ∧ signedVersion i.ver ≠ forbiddenVersion ∧
    checkProofOfWork i.hash i.bits = true ∧
    (i.time : Int) ≤ i.now + maxFutureBlockTime ∧
    i.known = none ∧
    ∃ prev anc mtp, i.parent = some (i.parentHash, prev :: anc) ∧
      o.height = (prev.height + 1) % 2^32 ∧
      (i.parentIsLast = true ∨ (i.lastHeight : Int) - (o.height : Int) < (forkDepthLimit : Int)) ∧
      getNextWorkRequired p (prev :: anc) i.time = some i.bits ∧
      getMedianTimePast (prev :: anc) = some mtp ∧ o.mtp = mtp ∧ mtp < i.time ∧
      versionRejected c i.ver o.height = false ∧
      o.dos = false ∧ o.maybelater = false := by
  unfold preCheckBlock at h
  split at h
  · simp at h; subst h; simp at hok
  split at h
  · simp at h; subst h; simp at hok
  split at h
  · simp at h; subst h; simp at hok
  split at h
  · simp at h; subst h; simp at hok
  rename_i hlen hver hpow htime
  split at h
  · split at h
    · simp at h; subst h; simp at hok
    split at h
    · simp at h; subst h; simp at hok
    · simp at h; subst h; simp at hok
  rename_i hknown
  split at h
  · simp at h; subst h; simp at hok
  · simp at h
  rename_i prev anc hpar
  have hpar' := Proofs.C05.parentOf_some i _ hpar
  simp only at h
  split at h
  · simp at h; subst h; simp at hok
  split at h
  · simp at h
  rename_i hdeep _ g hg
  split at h
  · simp at h; subst h; simp at hok
  split at h
  · simp at h
  rename_i hbits _ mtp hmtp
  split at h
  · simp at h; subst h; simp at hok
  split at h
  · simp at h; subst h; simp at hok
  rename_i hold hverrej
  simp at h; subst h
  dsimp only
  refine ⟨by omega, hver, by simpa using hpow, by omega, hknown, prev, anc, mtp, hpar', rfl, ?_, ?_, hmtp, rfl, by omega, by simpa using hverrej, rfl, rfl⟩
  · cases hp : i.parentIsLast with
    | true => left; rfl
    | false => right; simp [hp] at hdeep; omega
  · have : i.bits = g := by simpa using hbits
    rw [hg, this]

/-- non-vacuity of `precheck_sound`: a block on top of a one-block chain passes the model. -/
example : ∃ o, preCheckBlock { maxPowBits := 0x207fffff, maxPowValue := setCompact 0x207fffff, testnet := false, testnet4 := false }
    { bip34Height := 1, bip65Height := 1, bip66Height := 1, enforceCSV := 0, enforceSegwit := 0, enforceTaproot := 0 }
    { rawLen := 285, ver := 4, hash := 12345, parentHash := 2^64 * 77 + 5, bits := 0x207fffff, time := 1000, now := 5000, known := none,
      parent := some (2^64 * 77 + 5, [{ height := 0, ts := 900, bits := 0x207fffff }]), parentIsLast := true, lastHeight := 0 } = some o ∧ o.err = .ok := by
  exact ⟨{ dos := false, maybelater := false, err := .ok, height := 1, mtp := 900 }, by decide, rfl⟩

/-- **A previous-block field that shares only its 8-byte index key with a known block is an unknown parent.** The
    same block as in the example above, with the previous-block field changed outside its first 8 bytes (same `bidx`,
    so the `BlockIndex` look-up finds the same entry): refused with `bad-prevblk`, `maybelater` — what the code did
    before fix 533896f3 was to accept it (`parentHashCompared` is regenerated from the source: with the comparison
    removed this theorem and `precheck_sound` fail). -/
theorem prefix_only_parent_refused :
    bidx (2^64 * 78 + 5) = bidx (2^64 * 77 + 5) ∧
    preCheckBlock { maxPowBits := 0x207fffff, maxPowValue := setCompact 0x207fffff, testnet := false, testnet4 := false }
    { bip34Height := 1, bip65Height := 1, bip66Height := 1, enforceCSV := 0, enforceSegwit := 0, enforceTaproot := 0 }
    { rawLen := 285, ver := 4, hash := 12345, parentHash := 2^64 * 78 + 5, bits := 0x207fffff, time := 1000, now := 5000, known := none,
      parent := some (2^64 * 77 + 5, [{ height := 0, ts := 900, bits := 0x207fffff }]), parentIsLast := true, lastHeight := 0 }
      = some { dos := false, maybelater := true, err := .noParent } := by
  decide

/-- PostCheckBlock, decision logic stated outright, for the way every caller that handles untrusted data enters
    it (`bl.Txs == nil`, block not marked trusted): a block that passes is at least 81 bytes, parsed, weighs at
    most `postMaxWeight` (= MAX_BLOCK_WEIGHT = 4,000,000 by `weight_limit_is_max_block_weight`), has exactly
    its first transaction as coinbase, starts that coinbase's script with UintToScript(height) from BIP34Height
    on, has the Merkle root of its header with the `mutated` flag clear, gets the flags of GetBlockFlags, has —
    if the witness flag is on and the coinbase carries a commitment output (searched from the last output) — a
    single 32-byte nonce and SHA256d(witness-root ‖ nonce) equal to the commitment, carries no witness data at
    all otherwise, and every transaction passes CheckTransaction and IsFinal at (height, MTP or block time). -/
theorem postcheck_sound (h : Bytes → Bytes) (c : Consensus) (i : PostIn) (f : Nat)
    (hr : postCheckBlock h c i = some (.ok, f)) (hu : i.trusted = false) (hp : i.preParsed = false) :
    postMinRawLen ≤ i.rawLen ∧ i.buildOk = true ∧ blockWeight i.txs ≤ postMaxWeight ∧
    f = getBlockFlags c i.height i.time ∧
    calcMerkle h (i.txs.map (·.txid)) = some (i.merkleRoot, false) ∧
    ∃ cb rest, i.txs = cb :: rest ∧ cb.isCoinBase = true ∧ rest.any (·.isCoinBase) = false ∧
      (c.bip34Height ≤ i.height → (uintToScript i.height).isPrefixOf cb.in0Script = true) ∧
      (match (if f &&& VER_WITNESS ≠ 0 then findCommitment cb.outs.reverse else none) with
       | some pk => ∃ nonce root, cb.segwit = some [[nonce]] ∧ nonce.length = witnessNonceLen ∧
           witnessMerkle h i.txs = some root ∧ h (root ++ nonce) = (pk.drop witnessHeader.length).take 32
       | none => i.txs.any (·.segwit.isSome) = false) ∧
      checkTransactions i.txs i.height (if f &&& VER_CSV ≠ 0 then i.mtp else i.time) = [] := by
  unfold postCheckBlock at hr
  simp only [hu, hp, Bool.not_false, Bool.true_and, Bool.false_eq_true, ↓reduceIte] at hr
  split at hr
  · simp at hr
  rename_i hlen
  split at hr
  · simp at hr
  rename_i hbuild
  split at hr
  · simp at hr
  rename_i hw
  cases htxs : i.txs with
  | nil => simp [htxs] at hr
  | cons cb rest =>
    simp only [htxs] at hr
    by_cases hcb : cb.isCoinBase = true
    · simp only [hcb, Bool.not_true, Bool.false_eq_true, ↓reduceIte] at hr
      by_cases h34 : (decide (i.height ≥ c.bip34Height) && !(uintToScript i.height).isPrefixOf cb.in0Script) = true
      · simp [h34] at hr
      · simp only [h34, Bool.false_eq_true, ↓reduceIte] at hr
        by_cases hm : rest.any (·.isCoinBase) = true
        · simp [hm] at hr
        · simp only [hm, Bool.false_eq_true, ↓reduceIte] at hr
          generalize hmk : calcMerkle h _ = mk at hr
          cases mk with
          | none => simp at hr
          | some rm =>
            obtain ⟨root, mutated⟩ := rm
            cases mutated with
            | true => simp at hr
            | false =>
              simp only [Bool.false_eq_true, ↓reduceIte] at hr
              by_cases hroot : (root != i.merkleRoot) = true
              · simp [hroot] at hr
              · simp only [hroot, Bool.false_eq_true, ↓reduceIte] at hr
                cases hpw : postWitnessAndTxs h (getBlockFlags c i.height i.time) i with
                | none => simp [hpw] at hr
                | some e =>
                  simp [hpw] at hr
                  obtain ⟨he, hf⟩ := hr
                  subst he hf
                  obtain ⟨cb', rest', htx', hwit, hct⟩ := Proofs.C05.postWitnessAndTxs_ok h _ i hpw
                  rw [htxs] at htx'
                  injection htx' with h1 h2
                  subst h1 h2
                  have hroot' : root = i.merkleRoot := by simpa using hroot
                  refine ⟨by omega, by simpa using hbuild, by simpa [htxs, Proofs.C05.builtWeight_eq] using hw, rfl, by rw [hroot'], cb, rest, rfl, hcb, by simpa using hm, ?_, ?_, ?_⟩
                  · intro hge
                    simpa [hge] using h34
                  · rw [← htxs]; exact hwit
                  · rw [← htxs]; exact hct
    · simp [hcb] at hr

/-- non-vacuity of `postcheck_sound`, COMMITMENT branch: segwit active at height 1, a coinbase whose last output is
    6a24aa21a9ed ‖ h(witness-root ‖ nonce) with a single 32-byte nonce (toy hash `take 32`: witness root of the
    one-leaf tree = 32 zero bytes, so the commitment is 32 zero bytes), Merkle root = the coinbase txid: passes with
    the flags P2SH|DERSIG|CLTV|WITNESS|NULLDUMMY; and the same block with one commitment byte changed is refused. -/
example :
    let cb : Tx := { ins := [{ null := true, seq := 0xffffffff, scriptLen := 3 }], in0Script := [0x51, 1, 2],
                     outs := [[0x51], [0x6a, 0x24, 0xaa, 0x21, 0xa9, 0xed] ++ List.replicate 32 0], outValues := [5000000000, 0],
                     segwit := some [[List.replicate 32 7]], txid := [9], wtxid := [8], lockTime := 0, noWitSize := 150, size := 190 }
    let c : Consensus := { bip34Height := 1, bip65Height := 1, bip66Height := 1, enforceCSV := 0, enforceSegwit := 1, enforceTaproot := 0 }
    let i : PostIn := { rawLen := 271, preParsed := false, buildOk := true, trusted := false, height := 1, mtp := 900, time := 1000,
                        merkleRoot := [9], txs := [cb] }
    postCheckBlock (fun x => x.take 32) c i = some (.ok, getBlockFlags c 1 1000) ∧
    getBlockFlags c 1 1000 &&& VER_WITNESS ≠ 0 ∧
    (findCommitment cb.outs.reverse).isSome = true ∧
    postCheckBlock (fun x => x.take 32) c
      { i with txs := [{ cb with outs := [[0x51], [0x6a, 0x24, 0xaa, 0x21, 0xa9, 0xed] ++ (1 :: List.replicate 31 0)] }] }
      = some (.witnessMerkle, getBlockFlags c 1 1000) := by
  decide +kernel

/-- the weight limit applied by PostCheckBlock is the constant MAX_BLOCK_WEIGHT of lib/btc/const.go, which is
    4,000,000 (both regenerated from the source: an edit to either breaks this theorem). -/
theorem weight_limit_is_max_block_weight : postMaxWeight = MAX_BLOCK_WEIGHT ∧ MAX_BLOCK_WEIGHT = 4000000 := by
  decide

/-- the literal limits named in the property statement, as they occur in the current source: 2..100-byte
    coinbase script, two hours, 11-block median, 2016-block / two-week retarget with ¼ and 4× clamps,
    80-byte header, 32-byte nonce, the BIP141 commitment header. -/
theorem source_limits :
    cbScriptMin = 2 ∧ cbScriptMax = 100 ∧ maxFutureBlockTime = 7200 ∧ MedianTimeSpan = 11 ∧
    targetInterval = 2016 ∧ POWRetargetSpam = 1209600 ∧ retargetMinTimespan * 4 = POWRetargetSpam ∧
    retargetMaxTimespan = POWRetargetSpam * 4 ∧ preMinRawLen = 80 ∧ witnessNonceLen = 32 ∧
    witnessNonceStacks = 1 ∧ witnessNonceItems = 1 ∧ witnessCommitMinLen = 38 ∧
    witnessHeader = [0x6a, 0x24, 0xaa, 0x21, 0xa9, 0xed] ∧ LOCKTIME_THRESHOLD = 500000000 ∧
    minVersion_BIP34Height = 2 ∧ minVersion_BIP66Height = 3 ∧ minVersion_BIP65Height = 4 := by
  decide

/-- the remaining limits that gen_c05 reads off guards (not named in the property statement, but part of the
    decision logic the soundness theorems are about), in the canonical form the translator emits (`x <= c` is read
    as `x < c+1`, so a guard shifted by one shows up here as a changed number): PostCheckBlock wants more than the
    80-byte header, a version of exactly 0 is refused outright, a time-too-new block counts as DoS from five minutes
    beyond the two hours, a side branch is refused from MovingCheckopintDepth below the tip, a transaction's
    stripped size times 4 is held against MAX_BLOCK_WEIGHT, and the testnet min-difficulty rule needs a gap of more
    than two target spacings. -/
theorem secondary_limits :
    postMinRawLen = preMinRawLen + 1 ∧ forbiddenVersion = 0 ∧ futureDosLimit = maxFutureBlockTime + 300 ∧
    forkDepthLimit = MovingCheckopintDepth ∧ txMaxWeight = MAX_BLOCK_WEIGHT ∧
    testnetMinDiffGap = 2 * TargetSpacing := by
  decide

/-- structural facts about the `BlockIndex` look-ups, re-read from the source on every run (gen_c05): the entry found
    under the 8-byte key is compared with the WHOLE hash — of the block itself in PreCheckBlock's "already in" test,
    of the header's previous-block field in PreCheckBlock and in AcceptHeader (fix 533896f3). The extractor accepts an
    `Equal` call only if it mentions the entry, `BlockHash` and `Hash` / `ParentHash` AND none of its operands is
    indexed or cut (`Hash[:]` is the only slice allowed; `Hash[:16]` stops the translator); the exact operands of the
    PreCheckBlock comparison are also pinned by `guard_shapes` ("pre/bad-prevblk", "pre/index-collision"). -/
theorem index_lookups_compare_whole_hash :
    knownHashCompared = true ∧ parentHashCompared = true ∧ acceptHeaderParentHashCompared = true := by
  decide

/-- **Which quantity each guard compares, under which enclosing condition, and that it returns** — the canonical
    shapes (go/cmd/gen_c05/shape.go) of every marker-carrying guard of PreCheckBlock / PostCheckBlock, of the two
    assignments `bl.Height = …` / `bl.MedianPastTime = …`, of the commitment search loop, of the lock-time cut-off
    choice, of every rule of GetBlockFlags and its call, of the retarget timespan expression and of the two base-weight
    expressions of BuildTxListExt, re-read from the source on every run, are the ones the model was written for; and
    GetNextWorkRequired walks `targetInterval - 1` parents back. In a shape every bare identifier is `_` (locals are not
    told apart), constants are folded, `<= c` is `< c+1`, operands / members are sorted; facts that are SETS are
    written in a canonical order after the generator has checked on the source that they are sets (robustness pass 2):
    a run of adjacent GetBlockFlags rules `if c { flags |= K }` whose conditions do not read `flags` is sorted by rule
    text (rule 1, which ASSIGNS, keeps its place); the two stores `bl.Height = …` / `bl.MedianPastTime = …` are listed
    by field name as long as neither reads the object it writes; `if c {A} else {B}` and `if !c {B} else {A}` are one
    shape; the base-weight expressions are read through unexported single-return helpers and with conversions to
    integer types of 32 bits or more dropped (every intermediate value is below 2^9; a conversion to an 8- or 16-bit
    type stays visible). An edit that compares another
    quantity, flips an operator or polarity, adds or drops a conjunct, drops the `return`, moves a guard under another
    condition, searches the commitment forwards, cuts the commitment compare, swaps the cut-off branches or the
    arguments of GetBlockFlags, computes the timespan in 32 bits, measures a constant instead of the counter or walks
    2014 parents changes a string here. The last three entries are the client's hand reset of a Block object after a
    corrupt copy (client/network/data.go, cblk.go: the statements of every block that sets `.Txs = nil`), which the
    harness's retry paths re-implement (go/cmd/c05/entrypaths.go): if the client's reset changes, this theorem fails and
    the harness copy has to follow. NOT pinned by this: the `unexpected-witness` scan, CheckTransaction(s),
    GetMedianTimePast, CalcMerkle, the min-difficulty walk — for those the differential harness is the tie. -/
theorem guard_shapes :
    guardShapes = [
      ("pre/bad-blk-length", "len(_.Raw) < 80 -> return"),
      ("pre/bad-version", "int32(_.Version()) == 0 -> return"),
      ("pre/high-hash", "!_.CheckProofOfWork(_.Hash, _.Bits()) -> return"),
      ("pre/time-too-new", "(_.Now().Unix() + 7200) < int64(_.BlockTime()) -> return"),
      ("pre/index-collision", "!_.BlockHash.Equal(_.Hash) @ _ -> return"),
      ("pre/genesis", "_.Parent == nil @ _ -> return"),
      ("pre/bad-prevblk", "!_ || !_.Equal(_.BlockHash.Hash[:], _.ParentHash()) -> return"),
      ("pre/too-deep", "(int(_.LastBlock().Height) - int(_.Height)) > 2015 && _ != _.LastBlock() -> return"),
      ("pre/bad-diffbits", "_.Bits() != _.GetNextWorkRequired(_, _.BlockTime()) -> return"),
      ("pre/time-too-old", "_.BlockTime() <= _.MedianPastTime -> return"),
      ("pre/version-gate", "(_.Consensus.BIP34Height <= _.Height && int32(_.Version()) < 2) || (_.Consensus.BIP65Height <= _.Height && int32(_.Version()) < 4) || (_.Consensus.BIP66Height <= _.Height && int32(_.Version()) < 3) -> return"),
      ("post/bad-blk-length", "len(_.Raw) < 81 -> return"),
      ("post/bad-blk-weight", "_.BlockWeight > 4000000 @ _.Txs == nil -> return"),
      ("post/bad-cb-missing", "!_.Txs[0].IsCoinBase() || _.Txs[0] == nil || len(_.Txs) == 0 @ !_.Trusted.Get() -> return"),
      ("post/bad-cb-height", "!_.HasPrefix(_.Txs[0].TxIn[0].ScriptSig, _.UintToScript(_.Height)) @ !_.Trusted.Get() @ _.Consensus.BIP34Height <= _.Height -> return"),
      ("post/bad-cb-multiple", "_.Txs[_].IsCoinBase() @ !_.Trusted.Get() -> return"),
      ("post/bad-txns-duplicate", "_ -> return"),
      ("post/bad-txnmrklroot", "!_.Equal(_, _.MerkleRoot()) -> return"),
      ("post/bad-witness-nonce-size", "len(_.Txs[0].SegWit) != 1 || len(_.Txs[0].SegWit[0]) != 1 || len(_.Txs[0].SegWit[0][0]) != 32 @ !_.Trusted.Get() @ (_.VerifyFlags & 2048) != 0 @ _.Equal(_.Txs[0].TxOut[_].Pk_script[:6], {106,36,170,33,169,237}) && len(_.Txs[0].TxOut[_].Pk_script) > 37 -> return"),
      ("post/bad-witness-merkle-match", "!_.Equal(_.Sha2Sum(append(_, _.Txs[0].SegWit[0][0]))[:], _.Txs[0].TxOut[_].Pk_script[6:38]) @ !_.Trusted.Get() @ (_.VerifyFlags & 2048) != 0 @ _.Equal(_.Txs[0].TxOut[_].Pk_script[:6], {106,36,170,33,169,237}) && len(_.Txs[0].TxOut[_].Pk_script) > 37 -> return"),
      ("pre/assign-Height", "_.Height = (_.Height + 1)"),
      ("pre/assign-MedianPastTime", "_.MedianPastTime = _.GetMedianTimePast()"),
      ("post/commitment-search", "for _ = (len(_.Txs[0].TxOut) - 1); _ > -1; _--"),
      ("post/locktime-cutoff", "if (_.VerifyFlags & 1024) != 0 { _ = _.MedianPastTime } else { _ = _.BlockTime() }"),
      ("flags/rule-1", "$2 == 0 || $2 > 1333238399 => _ = 1"),
      ("flags/rule-2", "$1 >= _.Consensus.BIP65Height => _ |= 512"),
      ("flags/rule-3", "$1 >= _.Consensus.BIP66Height => _ |= 4"),
      ("flags/rule-4", "$1 >= _.Consensus.Enforce_CSV && _.Consensus.Enforce_CSV != 0 => _ |= 1024"),
      ("flags/rule-5", "$1 >= _.Consensus.Enforce_SEGWIT && _.Consensus.Enforce_SEGWIT != 0 => _ |= 2064"),
      ("flags/rule-6", "$1 >= _.Consensus.Enforce_Taproot && _.Consensus.Enforce_Taproot != 0 => _ |= 131072"),
      ("flags/apply", "_.VerifyFlags = _.GetBlockFlags(_.Height, _.BlockTime())"),
      ("gnwr/timespan", "(int64(_.Timestamp()) - int64(_.Timestamp()))"),
      ("build/base-weight-1", "((VLenSize(uint64(_.TxCount)) + 80) * 4)"),
      ("build/base-weight-2", "((VLenSize(uint64(_.TxCount)) + 80) * 4)"),
      ("client-reset/data.go#1", "_.Block.BlockWeight, _.TotalInputs = 0, 0; _.Block.Raw = _; _.Block.TxCount, _.Block.TxOffset = 0, 0; _.Block.Txs = nil"),
      ("client-reset/cblk.go#1", "_.Block.BlockWeight, _.TotalInputs = 0, 0; _.Block.Txs = nil; _.Block.UpdateContent(_.Header)"),
      ("client-reset/cblk.go#2", "_.Block.BlockWeight, _.TotalInputs = 0, 0; _.Block.Txs = nil; _.Block.UpdateContent(_.Header)")] ∧
    retargetParentSteps = targetInterval - 1 := by
  exact ⟨rfl, by decide⟩

/-- the activation heights and pow limit installed by NewChainExt (regenerated from lib/chain/chain.go on every
    run) are those of the three networks: BIP34/BIP65/BIP66/CSV/SegWit/Taproot heights of Bitcoin Core's
    chainparams for mainnet and testnet3, everything from block 1 on testnet4, pow limit 0x1d00ffff = 2^224-1
    rounded to the compact precision. -/
theorem activation_heights :
    (mainnet_BIP34Height, mainnet_BIP65Height, mainnet_BIP66Height, mainnet_Enforce_CSV, mainnet_Enforce_SEGWIT, mainnet_Enforce_Taproot)
      = (227931, 388381, 363725, 419328, 481824, 709632) ∧
    (testnet3_BIP34Height, testnet3_BIP65Height, testnet3_BIP66Height, testnet3_Enforce_CSV, testnet3_Enforce_SEGWIT, testnet3_Enforce_Taproot)
      = (21111, 581885, 330776, 770112, 834624, 2011968) ∧
    (testnet4_BIP34Height, testnet4_BIP65Height, testnet4_BIP66Height, testnet4_Enforce_CSV, testnet4_Enforce_SEGWIT, testnet4_Enforce_Taproot)
      = (1, 1, 1, 1, 1, 1) ∧
    mainnet_MaxPOWBits = 0x1d00ffff ∧ MaxPOWValue = 2^224 - 1 ∧ getCompact (MaxPOWValue : Int) = mainnet_MaxPOWBits := by
  decide

/-- what "every transaction passes" means: CheckTransactions returns no error only if every transaction has
    inputs and outputs, is not oversized, has output values and running totals within MAX_MONEY, has a
    2..100-byte script if it is a coinbase and no null prevout otherwise, and is final. -/
theorem tx_rules_sound (txs : List Tx) (height time : Nat) (h : checkTransactions txs height time = []) :
    ∀ t ∈ txs, t.ins ≠ [] ∧ t.outs ≠ [] ∧ checkOutValues t.outValues 0 = none ∧
      (t.isCoinBase = true → ∃ i rest, t.ins = i :: rest ∧ cbScriptMin ≤ i.scriptLen ∧ i.scriptLen ≤ cbScriptMax) ∧
      (t.isCoinBase = false → t.ins.any (·.null) = false) ∧
      isFinal t.lockTime (t.ins.map (·.seq)) height time = true := by
  intro t ht
  have h1 : checkOneTx t height time = none := by
    unfold checkTransactions at h
    rw [List.filterMap_eq_nil_iff] at h
    exact h t ht
  unfold checkOneTx at h1
  split at h1
  · simp at h1
  rename_i hct
  split at h1
  · rename_i hfin
    unfold checkTransaction at hct
    split at hct; · simp at hct
    rename_i hin
    split at hct; · simp at hct
    rename_i hout
    split at hct; · simp at hct
    split at hct; · simp at hct
    rename_i hval
    refine ⟨by intro hc; simp [hc] at hin, by intro hc; simp [hc] at hout, ?_, ?_, ?_, hfin⟩
    · cases hv : checkOutValues t.outValues 0 with
      | none => rfl
      | some e => exact absurd hv (hval e)
    · intro hcb
      simp only [hcb, ↓reduceIte] at hct
      split at hct
      · rename_i i rest hins
        split at hct
        · simp at hct
        · rename_i hl
          exact ⟨i, rest, hins, by omega, by omega⟩
      · rename_i hins; simp [hins] at hin
    · intro hcb
      simp only [hcb, Bool.false_eq_true, ↓reduceIte] at hct
      split at hct
      · simp at hct
      · rename_i hn; simpa using hn
  · simp at h1

/-- non-vacuity of `tx_rules_sound`: a coinbase with a 3-byte script and a regular non-final-looking transaction
    (lock time 100 < height 101) pass at height 101; at height 100 the second one is reported non-final. -/
example :
    let cb : Tx := { ins := [{ null := true, seq := 0xffffffff, scriptLen := 3 }], in0Script := [], outs := [[]], outValues := [5000000000],
                     segwit := none, txid := [], wtxid := [], lockTime := 0, noWitSize := 100, size := 100 }
    let t : Tx := { ins := [{ null := false, seq := 0, scriptLen := 0 }], in0Script := [], outs := [[]], outValues := [MAX_MONEY],
                    segwit := none, txid := [], wtxid := [], lockTime := 100, noWitSize := 100, size := 100 }
    checkTransactions [cb, t] 101 0 = [] ∧ checkTransactions [cb, t] 100 0 = [.nonFinal] ∧
    checkTransactions [{ t with outValues := [MAX_MONEY, 1] }] 101 0 = [.totalTooLarge] := by
  decide

/-- `Tx.IsFinal` is the reference client's `IsFinalTx(tx, nBlockHeight, nBlockTime)` (tx_verify.cpp), written out:
    lock time 0, or lock time below the height (when < 500,000,000) resp. below the time cut-off (otherwise), or every
    input sequence equal to 0xffffffff. (The cut-off handed in by PostCheckBlock is the parent's median-time-past when
    CSV is active, else the block time: `postcheck_sound`.) -/
theorem isFinal_is_IsFinalTx (lockTime : Nat) (seqs : List Nat) (height time : Nat) :
    isFinal lockTime seqs height time =
      (decide (lockTime = 0) || decide (lockTime < (if lockTime < 500000000 then height else time)) ||
       seqs.all (· = 0xffffffff)) := by
  have hth : LOCKTIME_THRESHOLD = 500000000 := by decide
  unfold isFinal
  rw [hth]
  by_cases h0 : lockTime = 0
  · simp [h0]
  · by_cases hlt : lockTime < 500000000
    · by_cases hh : lockTime < height <;> simp [h0, hlt, hh]
    · by_cases ht : lockTime < time <;> simp [h0, hlt, ht]

/-- GetMedianTimePast is the median of the last ≤ 11 timestamps: the value returned occurs among them, at most
    ⌊n/2⌋ of them are strictly smaller and more than ⌊n/2⌋ of them are ≤ it (n = number collected). -/
theorem mtp_is_median (chain : List Node) (m : Nat) (h : getMedianTimePast chain = some m) :
    let l := lastTimes chain
    l = (chain.take MedianTimeSpan).map (·.ts) ∧ l.length ≤ 11 ∧
    m ∈ l ∧ l.countP (· < m) ≤ l.length / 2 ∧ l.length / 2 < l.countP (· ≤ m) := by
  intro l
  refine ⟨rfl, ?_, Proofs.C05.median_spec l m h⟩
  simp [l, lastTimes, MedianTimeSpan]
  omega

/-- non-vacuity of `mtp_is_median` -/
example : getMedianTimePast [⟨3, 50, 0⟩, ⟨2, 70, 0⟩, ⟨1, 60, 0⟩] = some 60 := by decide

/-- GetMedianTimePast is total on every non-nil node (no panic). -/
theorem mtp_total (n : Node) (anc : List Node) : ∃ m, getMedianTimePast (n :: anc) = some m := by
  unfold getMedianTimePast
  have hl : (isort (lastTimes (n :: anc))).length = (lastTimes (n :: anc)).length :=
    (Proofs.C05.isort_perm _).length_eq
  have hpos : 0 < (lastTimes (n :: anc)).length := by simp [lastTimes, MedianTimeSpan]
  have : (lastTimes (n :: anc)).length / 2 < (isort (lastTimes (n :: anc))).length := by omega
  exact ⟨_, List.getElem?_eq_getElem this⟩

/-- The `mutated` flag of CalcMerkle is raised exactly when some level of the tree (leaves included, root
    excluded) has two equal nodes at the two distinct positions 2j, 2j+1 that are hashed together — the
    CVE-2012-2459 test of Bitcoin Core — and the returned root is the iterated pairwise hash. -/
theorem merkle_mutation_iff (h : Bytes → Bytes) (l : List Bytes) (r : Bytes) (m : Bool)
    (hc : calcMerkle h l = some (r, m)) :
    (m = true ↔ ∃ lv ∈ Spec.Merkle.levels h l.length l, ∃ j, 2 * j + 1 < lv.length ∧ lv[2 * j]? = lv[2 * j + 1]?) ∧
    (Spec.Merkle.root h l.length l).head? = some r :=
  Proofs.C05.calcMerkle_spec h l r m hc

/-- non-vacuity / CVE-2012-2459 on the model: [a,b,c] and [a,b,c,c] have the same root, only the second is flagged. -/
example : (calcMerkle (fun x => x.take 1) [[1], [2], [3]]).map (·.2) = some false ∧
    (calcMerkle (fun x => x.take 1) [[1], [2], [3], [3]]).map (·.2) = some true := by decide

/-- BIP34: for every height below 2^32, `script.UintToScript(n)` is exactly `CScript() << n` of the reference
    client (OP_0, OP_1..OP_16, or a minimal little-endian push with a sign-guard byte). -/
theorem uintToScript_eq_cscript_push (n : Nat) (h : n < 2^32) :
    uintToScript n = Spec.ScriptNum.cscriptPush n :=
  Proofs.C05.u2s_all n h

/-- non-vacuity: heights 0, 16, 17, 128, 32768 and the current mainnet range -/
example : uintToScript 0 = [0] ∧ uintToScript 16 = [0x60] ∧ uintToScript 17 = [1, 17] ∧ uintToScript 128 = [2, 128, 0] ∧
    uintToScript 32768 = [3, 0, 128, 0] ∧ uintToScript 840000 = [3, 0x40, 0xd1, 0x0c] := by decide

/-- Compact round trip: for every canonical compact value `c` (see `Target.Canonical`: sign bit clear; zero, or
    size ≥ 1 with a mantissa whose top byte is non-zero and no bits below the byte precision for sizes 1, 2),
    `GetCompact(SetCompact(c)) = c`. -/
theorem compact_roundtrip (c : Nat) (hc : Canonical c) : getCompact (setCompact c) = c :=
  Proofs.C05.compact_roundtrip_aux c hc

/-- non-vacuity: the mainnet and regtest limits are canonical, a negative and a non-minimal encoding are not -/
example : Canonical 0x1d00ffff ∧ Canonical 0x207fffff ∧ Canonical 0x02008000 ∧ ¬ Canonical 0x1d80ffff ∧ ¬ Canonical 0x04000001 := by decide

/-- What GetNextWorkRequired can demand: `GetCompact` of any positive target below 2^256 is a canonical 32-bit
    value (so the round trip applies to it) that the reference client reads as neither negative nor overflowing. -/
theorem getCompact_is_canonical (t : Int) (h0 : 0 < t) (hlt : t < 2^256) :
    Canonical (getCompact t) ∧ coreNegative (getCompact t) = false ∧ coreOverflow (getCompact t) = false := by
  obtain ⟨e, p, l, _⟩ := Proofs.C05.getCompact_pos t h0 hlt
  rw [e]
  exact ⟨Proofs.C05.getCompactNat_canonical _ p l, (Proofs.C05.getCompactNat_not_edge _ p l).2⟩

/-- Edge encodings of the compact target cannot get a block accepted:
    (1) an encoding the reference client reads as negative fails CheckProofOfWork for every hash;
    (2) an encoding of the value zero passes CheckProofOfWork only for the hash 0;
    (3) whenever `bits` equals the required bits `GetCompact(t)` of a target 0 < t < 2^256 (what PreCheckBlock
        demands through `bits = GetNextWorkRequired`), it is neither negative nor overflowing, its target is
        positive and at most t, and a hash passing CheckProofOfWork is at most t. -/
theorem pow_target_edge (hash bits : Nat) :
    (coreNegative bits = true → checkProofOfWork hash bits = false) ∧
    (setCompact bits = 0 → checkProofOfWork hash bits = true → hash = 0) ∧
    (∀ t : Int, 0 < t → t < 2^256 → bits = getCompact t →
      coreNegative bits = false ∧ coreOverflow bits = false ∧ 0 < setCompact bits ∧ setCompact bits ≤ t ∧
      (checkProofOfWork hash bits = true → (hash : Int) ≤ t)) := by
  refine ⟨?_, ?_, ?_⟩
  · intro hn
    have := Proofs.C05.setCompact_neg_of_coreNegative bits hn
    unfold checkProofOfWork
    apply decide_eq_false
    omega
  · intro hz hp
    unfold checkProofOfWork at hp
    rw [hz] at hp
    have := of_decide_eq_true hp
    omega
  · intro t h0 hlt hb
    obtain ⟨e, p, l, et⟩ := Proofs.C05.getCompact_pos t h0 hlt
    have h1 := Proofs.C05.getCompactNat_not_edge _ p l
    have h2 := Proofs.C05.setCompact_getCompactNat_le _ p l
    rw [← e, ← hb] at h1 h2
    rw [et] at h2
    refine ⟨h1.2.1, h1.2.2, h2.1, h2.2, ?_⟩
    intro hp
    unfold checkProofOfWork at hp
    have := of_decide_eq_true hp
    omega

/-- Retargeting: the timespan used is clamped to [T/4, 4T] (and unchanged inside); with a pow limit
    0 < L < 2^256 and a non-negative previous target the new bits decode to at most L; and when
    previous target × 4T < 2^256 (true for every target ≤ L on mainnet/testnet, `mainnet_no_overflow`) the
    result equals Bitcoin Core's computation with 256-bit wrap-around multiplication. -/
theorem retarget_clamp (maxPow : Int) (base : Nat) (span : Int) :
    ((retargetMinTimespan : Int) ≤ clampTimespan span ∧ clampTimespan span ≤ (retargetMaxTimespan : Int)) ∧
    ((retargetMinTimespan : Int) ≤ span → span ≤ (retargetMaxTimespan : Int) → clampTimespan span = span) ∧
    (0 < maxPow → maxPow < 2^256 → 0 ≤ setCompact base →
       setCompact (retarget maxPow base span) ≤ maxPow ∧
       (setCompact base * (retargetMaxTimespan : Int) < 2^256 →
          retarget maxPow base span =
            getCompact (let p := (setCompact base * clampTimespan span) % 2^256 / (POWRetargetSpam : Int)
                        if p > maxPow then maxPow else p))) := by
  have hc : (retargetMinTimespan : Int) ≤ clampTimespan span ∧ clampTimespan span ≤ (retargetMaxTimespan : Int) := by
    unfold clampTimespan
    have : (retargetMinTimespan : Int) ≤ (retargetMaxTimespan : Int) := by decide
    simp only
    split <;> split <;> omega
  refine ⟨hc, ?_, ?_⟩
  · intro h1 h2
    unfold clampTimespan
    simp only
    split <;> split <;> omega
  · intro hm0 hm1 hb
    have hpos : (0 : Int) < (POWRetargetSpam : Int) := by decide
    have hmin : (0 : Int) ≤ (retargetMinTimespan : Int) := by decide
    have hprod : 0 ≤ setCompact base * clampTimespan span := Int.mul_nonneg hb (by omega)
    have hx : 0 ≤ setCompact base * clampTimespan span / (POWRetargetSpam : Int) := Int.ediv_nonneg hprod (by omega)
    constructor
    · unfold retarget
      simp only
      generalize setCompact base * clampTimespan span / (POWRetargetSpam : Int) = x at hx ⊢
      by_cases hgt : x > maxPow
      · simp only [hgt, ↓reduceIte]
        obtain ⟨e, p, l, et⟩ := Proofs.C05.getCompact_pos maxPow hm0 hm1
        have := Proofs.C05.setCompact_getCompactNat_le _ p l
        rw [← e, et] at this
        exact this.2
      · simp only [hgt, ↓reduceIte]
        by_cases hx0 : x = 0
        · subst hx0
          have : setCompact (getCompact 0) = 0 := by decide
          omega
        · obtain ⟨e, p, l, et⟩ := Proofs.C05.getCompact_pos x (by omega) (by omega)
          have := Proofs.C05.setCompact_getCompactNat_le _ p l
          rw [← e, et] at this
          omega
    · intro hov
      unfold retarget
      have hle : setCompact base * clampTimespan span ≤ setCompact base * (retargetMaxTimespan : Int) :=
        Int.mul_le_mul_of_nonneg_left hc.2 hb
      have : (setCompact base * clampTimespan span) % 2^256 = setCompact base * clampTimespan span :=
        Int.emod_eq_of_lt hprod (by omega)
      rw [this]

/-- on mainnet and testnet the pow limit times the largest timespan stays below 2^256, so the 256-bit
    arithmetic of the reference client never wraps for a target ≤ pow limit -/
theorem mainnet_no_overflow : (MaxPOWValue : Int) * (retargetMaxTimespan : Int) < 2^256 ∧
    setCompact mainnet_MaxPOWBits ≤ (MaxPOWValue : Int) ∧ mainnet_MaxPOWBits = testnet3_MaxPOWBits ∧
    mainnet_MaxPOWBits = testnet4_MaxPOWBits := by decide

/-- non-vacuity of `retarget_clamp` / `pow_target_edge`: two weeks exactly keep the mainnet limit, a quarter
    of the time divides the target by four, and the result is what GetCompact gives for its own target -/
example : retarget MaxPOWValue 0x1d00ffff 1209600 = 0x1d00ffff ∧ retarget MaxPOWValue 0x1d00ffff 1 = 0x1c3fffc0 ∧
    getCompact (setCompact 0x1c3fffc0) = 0x1c3fffc0 := by decide

/-- GetNextWorkRequired at a retarget height (not testnet4): the previous block's bits, the time between the
    previous block and the one 2015 blocks before it, through `retarget`. -/
theorem gnwr_at_retarget (p : Params) (lst : Node) (m : Node) (anc : List Node) (ts : Nat) (first : Node)
    (hh : ((lst.height + 1) % 2^32) % targetInterval = 0)
    (hf : (lst :: m :: anc)[targetInterval - 1]? = some first) (hnet : p.testnet4 = false) :
    getNextWorkRequired p (lst :: m :: anc) ts =
      some (retarget p.maxPowValue lst.bits ((lst.ts : Int) - (first.ts : Int))) := by
  unfold getNextWorkRequired
  simp [hh, hf, hnet]

/-- GetNextWorkRequired away from a retarget height on mainnet: the previous block's bits. -/
theorem gnwr_off_retarget_mainnet (p : Params) (lst : Node) (m : Node) (anc : List Node) (ts : Nat)
    (hh : ((lst.height + 1) % 2^32) % targetInterval ≠ 0) (hnet : p.testnet = false) :
    getNextWorkRequired p (lst :: m :: anc) ts = some lst.bits := by
  unfold getNextWorkRequired
  simp [hh, hnet]

/-- non-vacuity of `gnwr_at_retarget` / `gnwr_off_retarget_mainnet`: a mainnet chain of 2016 nodes (heights 2015..0)
    whose last block is 302400 s (T/4) after the first: the block after it must carry a quarter of the target; one
    block earlier (height 2014 → next 2015, not a multiple of 2016) the parent's bits are demanded. -/
example :
    let p : Params := { maxPowBits := 0x1d00ffff, maxPowValue := MaxPOWValue, testnet := false, testnet4 := false }
    let lst : Node := { height := 2015, ts := 1000302400, bits := 0x1d00ffff }
    let n : Node := { height := 7, ts := 1000000000, bits := 0x1d00ffff }
    getNextWorkRequired p (lst :: n :: List.replicate 2014 n) 1000303000 = some (retarget MaxPOWValue 0x1d00ffff 302400) ∧
    retarget MaxPOWValue 0x1d00ffff 302400 = 0x1c3fffc0 ∧
    getNextWorkRequired p ({ lst with height := 2014 } :: n :: List.replicate 2014 n) 1000303000 = some 0x1d00ffff := by
  refine ⟨?_, by decide, ?_⟩
  · exact gnwr_at_retarget _ _ _ _ _ { height := 7, ts := 1000000000, bits := 0x1d00ffff } (by decide)
      (by
        have e : targetInterval - 1 = 2013 + 1 + 1 := by decide
        rw [e, List.getElem?_cons_succ, List.getElem?_cons_succ, List.getElem?_replicate]
        simp) rfl
  · exact gnwr_off_retarget_mainnet _ _ _ _ _ (by decide) rfl

/-- **The testnet "last non-min-difficulty block" walk** (`for prv.Parent != nil && prv.Height%2016 != 0 && prv.Bits() ==
    MaxPOWBits { prv = prv.Parent }`, used by the testnet3 off-boundary rule and as the testnet4 / BIP94 retarget base):
    the answer is the bits of the FIRST node, walking from the previous block towards genesis, that has no parent, sits
    on a retarget boundary or carries bits other than the minimum-difficulty value — every node passed over is a
    min-difficulty block off the boundary. This is Core's `GetLastBlockIndex` loop. -/
theorem testnet_walkback_spec (mp : Nat) (l : List Node) (hne : l ≠ []) :
    ∃ pre n suf, l = pre ++ n :: suf ∧ walkBack mp l = n.bits ∧
      (∀ m ∈ pre, m.height % targetInterval ≠ 0 ∧ m.bits = mp) ∧
      (suf = [] ∨ n.height % targetInterval = 0 ∨ n.bits ≠ mp) := by
  induction l with
  | nil => exact absurd rfl hne
  | cons n rest ih =>
    cases rest with
    | nil => exact ⟨[], n, [], rfl, rfl, by simp, Or.inl rfl⟩
    | cons m rest =>
      unfold walkBack
      split
      · rename_i hc
        obtain ⟨pre, x, suf, hl, hw, hpre, hx⟩ := ih (by simp)
        refine ⟨n :: pre, x, suf, by rw [hl]; rfl, hw, ?_, hx⟩
        intro y hy
        cases hy with
        | head => exact hc
        | tail _ h => exact hpre y h
      · rename_i hc
        refine ⟨[], n, m :: rest, rfl, rfl, by simp, Or.inr ?_⟩
        by_cases h1 : n.height % targetInterval = 0
        · exact Or.inl h1
        · exact Or.inr (fun h2 => hc ⟨h1, h2⟩)


/-- non-vacuity of `testnet_walkback_spec`: two min-difficulty blocks, then a real-difficulty one -/
example : walkBack 0x1d00ffff [⟨5, 30, 0x1d00ffff⟩, ⟨4, 20, 0x1d00ffff⟩, ⟨3, 10, 0x1c00ffff⟩, ⟨2, 5, 0x1d00ffff⟩] = 0x1c00ffff ∧
    walkBack 0x1d00ffff [⟨2016, 30, 0x1d00ffff⟩, ⟨2015, 20, 0x1c00ffff⟩] = 0x1d00ffff := by decide

/-- GetNextWorkRequired away from a retarget height on a testnet (testnet3 and testnet4): a block more than two
    target spacings (20 minutes) after its parent may carry the minimum difficulty; otherwise the bits of the last
    non-min-difficulty block (`testnet_walkback_spec`) are demanded. Hypothesis `hts`: the uint32 sum
    `lst.Timestamp()+TargetSpacing*2` does not wrap (parent time before 2106-02-07 06:08:15). -/
theorem gnwr_off_retarget_testnet (p : Params) (lst : Node) (m : Node) (anc : List Node) (ts : Nat)
    (hh : ((lst.height + 1) % 2^32) % targetInterval ≠ 0) (hnet : p.testnet = true)
    (hts : lst.ts + 2 * TargetSpacing < 2^32) :
    getNextWorkRequired p (lst :: m :: anc) ts =
      some (if ts > lst.ts + 2 * TargetSpacing then p.maxPowBits else walkBack p.maxPowBits (lst :: m :: anc)) := by
  unfold getNextWorkRequired
  have e : testnetMinDiffGap = 2 * TargetSpacing := by decide
  simp only [hnet, e, Nat.mod_eq_of_lt hts]
  rw [if_pos hh]
  simp only [if_true]
  split <;> rfl


/-- non-vacuity of `gnwr_off_retarget_testnet`: 1201 s after the parent the minimum is allowed, 1200 s after it not -/
example :
    let p : Params := { maxPowBits := 0x1d00ffff, maxPowValue := MaxPOWValue, testnet := true, testnet4 := false }
    let ch : List Node := [⟨5, 10000, 0x1d00ffff⟩, ⟨4, 9000, 0x1c00ffff⟩, ⟨3, 8000, 0x1c00ffff⟩]
    getNextWorkRequired p ch 11201 = some 0x1d00ffff ∧ getNextWorkRequired p ch 11200 = some 0x1c00ffff := by decide

/-- **GetBlockFlags, flag by flag**: the script-verification flags of a block at (height, time) contain P2SH iff the
    time is 0 or from the BIP16 switch time on, DERSIG / CLTV iff the height has reached the BIP66 / BIP65 height, CSV /
    WITNESS+NULLDUMMY / TAPROOT iff the deployment is configured (non-zero) and the height has reached it. (PostCheckBlock
    reads CSV for the lock-time cut-off and WITNESS for the commitment rule from exactly this value: `guard_shapes`.) -/
theorem getBlockFlags_spec (c : Consensus) (height time : Nat) :
    let f := getBlockFlags c height time
    (f &&& VER_P2SH ≠ 0 ↔ (time = 0 ∨ time ≥ BIP16SwitchTime)) ∧
    (f &&& VER_DERSIG ≠ 0 ↔ height ≥ c.bip66Height) ∧
    (f &&& VER_CLTV ≠ 0 ↔ height ≥ c.bip65Height) ∧
    (f &&& VER_CSV ≠ 0 ↔ (c.enforceCSV ≠ 0 ∧ height ≥ c.enforceCSV)) ∧
    (f &&& VER_WITNESS ≠ 0 ↔ (c.enforceSegwit ≠ 0 ∧ height ≥ c.enforceSegwit)) ∧
    (f &&& VER_NULLDUMMY ≠ 0 ↔ (c.enforceSegwit ≠ 0 ∧ height ≥ c.enforceSegwit)) ∧
    (f &&& VER_TAPROOT ≠ 0 ↔ (c.enforceTaproot ≠ 0 ∧ height ≥ c.enforceTaproot)) := by
  intro f
  have h := Proofs.C05.flagsB_spec (decide (time = 0 ∨ time ≥ BIP16SwitchTime)) (decide (height ≥ c.bip66Height)) (decide (height ≥ c.bip65Height))
        (decide (c.enforceCSV ≠ 0 ∧ height ≥ c.enforceCSV)) (decide (c.enforceSegwit ≠ 0 ∧ height ≥ c.enforceSegwit))
        (decide (c.enforceTaproot ≠ 0 ∧ height ≥ c.enforceTaproot))
  rw [← Proofs.C05.getBlockFlags_eq_flagsB] at h
  simpa only [decide_eq_true_eq] using h

/-- The block weight computed by BuildTxListExt is BIP141's: 3 × (size without witness data) + (total size),
    where both sizes count the 80-byte header, the transaction count and every transaction. -/
theorem weight_formula (txs : List Tx) :
    blockWeight txs =
      3 * (80 + CompactSize.vlenSize txs.length + (txs.map (·.noWitSize)).sum) +
          (80 + CompactSize.vlenSize txs.length + (txs.map (·.size)).sum) := by
  unfold blockWeight
  rw [Proofs.C05.sum_weight]
  omega

/-- **The weight held against the limit does not depend on how the block object came to be.** A `*btc.Block` keeps
    (TxCount, TxOffset): set from the whole serialisation by NewBlock / UpdateContent, but still 0 when the object was
    made from the 80-byte header (PreCheckBlock on the announced header) and the body was attached later by
    `bl.Raw = …` — the way the client handles every block it downloads — or after the hand reset that follows a corrupt
    copy. Whatever value `c` the counter has when BuildTxList is entered, the weight it leaves in `bl.BlockWeight` is
    BIP141's weight of the transactions parsed (`weight_formula`), with the transaction counter weighed at its real
    length (1 / 3 / 5 / 9 bytes); and PostCheckBlock's answer is the same for every such value. Rests on the
    regenerated source fact `buildTxListReadsCountAfterFallback` (the base weight reads the counter only after the
    `TxCount == 0` fallback has parsed it): with the base weight computed above the fallback, a header-first object is
    weighed with a 1-byte counter and a block of 253..65535 transactions weighing 4,000,001..4,000,008 passes.
    What this does NOT say: the second conjunct is the first one again (once the fact is `true`, `builtWeight` ignores
    `c`), and `i.txs` — the parse result — is an input: a STALE non-zero (TxCount, TxOffset) pair left from another Raw
    makes the real parser read other bytes, which is outside this model (object histories: C09
    `block_object_history_independent`; here the entry-path runs of the harness, which compare BlockWeight and the
    verdict after a corrupt copy and the client's reset). -/
theorem weight_entry_path_independent (h : Bytes → Bytes) (cns : Consensus) (i : PostIn) (c : Nat) :
    builtWeight c i.txs = blockWeight i.txs ∧
    postCheckBlock h cns { i with cntOnEntry := c } = postCheckBlock h cns i := by
  refine ⟨Proofs.C05.builtWeight_eq c i.txs, ?_⟩
  unfold postCheckBlock
  simp only [Proofs.C05.builtWeight_eq]
  rfl

/-- the boundary of `weight_entry_path_independent`: 252 transactions of 3,952 bytes and one of 4,013 bytes, no witness
    data, weigh 4·(80+3+252·3952+4013) = 4,000,000 — within the limit; with the last one a byte longer 4,000,004 — not;
    for an object entered with TxCount = 0 (header first) as for one entered with TxCount = 253. Weighed with a
    1-byte counter the second block would come to 3,999,996 and pass. -/
example :
    let t (n : Nat) : Tx := { ins := [], in0Script := [], outs := [], outValues := [], segwit := none, txid := [], wtxid := [],
                              lockTime := 0, noWitSize := n, size := n }
    let txs (last : Nat) : List Tx := List.replicate 252 (t 3952) ++ [t last]
    builtWeight 0 (txs 4013) = 4000000 ∧ builtWeight 253 (txs 4013) = 4000000 ∧
    builtWeight 0 (txs 4014) = 4000004 ∧ builtWeight 253 (txs 4014) = 4000004 ∧
    decide (builtWeight 0 (txs 4014) > postMaxWeight) = true ∧
    4 * (80 + CompactSize.vlenSize 0) + ((txs 4014).map (fun t => 3 * t.noWitSize + t.size)).sum = 3999996 := by
  decide +kernel

/-- The commitment output used by PostCheckBlock is the LAST output of the coinbase that is at least 38 bytes
    long and starts with 6a24aa21a9ed (BIP141: "the one with the highest output index"). -/
theorem commitment_is_last_matching (outs : List Bytes) (pk : Bytes) (h : findCommitment outs.reverse = some pk) :
    ∃ pre suf, outs = pre ++ pk :: suf ∧ witnessCommitMinLen ≤ pk.length ∧ pk.take witnessHeader.length = witnessHeader ∧
      ∀ y ∈ suf, ¬ (witnessCommitMinLen ≤ y.length ∧ y.take witnessHeader.length = witnessHeader) := by
  unfold findCommitment at h
  obtain ⟨pre, suf, hl, hp, hno⟩ := Proofs.C05.find_reverse_last _ outs pk h
  simp only [Bool.and_eq_true, decide_eq_true_eq, beq_iff_eq] at hp
  refine ⟨pre, suf, hl, hp.1, hp.2, ?_⟩
  intro y hy hc
  have := hno y hy
  simp [hc.1, hc.2] at this

/-- non-vacuity of `commitment_is_last_matching` -/
example : findCommitment ([[1], 0x6a :: 0x24 :: 0xaa :: 0x21 :: 0xa9 :: 0xed :: List.replicate 32 7, [2]] : List Bytes).reverse
    = some (0x6a :: 0x24 :: 0xaa :: 0x21 :: 0xa9 :: 0xed :: List.replicate 32 7) := by decide

/-- **CheckBlock never changes the chain.** On every path of `Chain.CheckBlock` — accepted, refused by
    PreCheckBlock, refused by PostCheckBlock — the chain state (block tree, `BlockIndex`, tip, unspent set) that
    comes out is the one that went in. -/
theorem checkBlock_chain_unchanged {U : Type} (p : Params) (c : Consensus) (h : Bytes → Bytes) (now : Int)
    (cs cs' : ChainSt U) (bl bl' : BlockObj) (r : CheckRes)
    (hr : checkBlockM p c h now cs bl = some (cs', bl', r)) : cs' = cs := by
  unfold checkBlockM at hr
  split at hr
  · simp at hr
  · dsimp only at hr
    split at hr
    · simp only [Option.some.injEq, Prod.mk.injEq] at hr; exact hr.1.symm
    · split at hr
      · simp at hr
      · simp only [Option.some.injEq, Prod.mk.injEq] at hr; exact hr.1.symm

/-- **refused_unchanged** — "Otherwise it is refused and nothing changes" (TRUE BY CONSTRUCTION of the model:
    `checkBlockM` hands back the very `cs` it received on every path — the theorem states the model's effect
    structure; that the Go code writes nothing is what the harness's before/after snapshot of the real chain object
    tests). When `Chain.CheckBlock` refuses a block
    (any result other than `ok`), the chain state — block tree, `BlockIndex`, tip, unspent set — is returned
    unchanged, and the block object differs from the one handed in at most in the eight fields the function
    assigns on its way: `Height`, `MedianPastTime` (PreCheckBlock), `VerifyFlags` (ApplyBlockFlags), and what
    BuildTxListExt writes — `Txs`, `TxCount` / `TxOffset` when the counter was still 0 and the fallback parsed the count
    field, `BlockWeight`, and `TotalInputs`, to which it ADDS (the field is never reset, so a second parse of the
    same object doubles it: `afterPost`). Everything derived from `Raw`, the hash and the trusted mark are as before.
    The record `BlockObj` lists every field of `btc.Block` that CheckBlock reads or writes; the harness compares all
    eight with the real object after every whole-block case. -/
theorem refused_unchanged {U : Type} (p : Params) (c : Consensus) (h : Bytes → Bytes) (now : Int)
    (cs cs' : ChainSt U) (bl bl' : BlockObj) (r : CheckRes)
    (hr : checkBlockM p c h now cs bl = some (cs', bl', r)) (_hne : r.code ≠ "ok") :
    cs' = cs ∧
    { bl' with height := bl.height, mtp := bl.mtp, txs := bl.txs, verifyFlags := bl.verifyFlags, txCount := bl.txCount,
               txOffset := bl.txOffset, weight := bl.weight, totalInputs := bl.totalInputs } = bl := by
  refine ⟨checkBlock_chain_unchanged p c h now cs cs' bl bl' r hr, ?_⟩
  unfold checkBlockM at hr
  split at hr
  · simp at hr
  · dsimp only at hr
    split at hr
    · simp only [Option.some.injEq, Prod.mk.injEq] at hr
      obtain ⟨_, rfl, _⟩ := hr
      simp [afterPre]
    · split at hr
      · simp at hr
      · simp only [Option.some.injEq, Prod.mk.injEq] at hr
        obtain ⟨_, rfl, _⟩ := hr
        simp [afterPost, afterPre]

/-- non-vacuity of `refused_unchanged`: a block whose previous-block field shares only the 8-byte index key
    (`bidx`) with the one known block is refused (`bad-prevblk`, maybelater) on a one-node chain — the look-up made by
    the model itself finds the entry, the whole-hash comparison discards it. -/
example : (checkBlockM (U := Unit)
    { maxPowBits := 0x207fffff, maxPowValue := setCompact 0x207fffff, testnet := false, testnet4 := false }
    { bip34Height := 1, bip65Height := 1, bip66Height := 1, enforceCSV := 0, enforceSegwit := 0, enforceTaproot := 0 }
    (fun x => x) 5000
    { nodes := #[({ height := 0, ts := 900, bits := 0x207fffff }, -1)], hashes := #[2^64 * 77 + 7], index := [(7, 0)], last := 0, unspent := () }
    { rawLen := 285, ver := 4, hash := 12345, parentHash := 2^64 * 78 + 7, bits := 0x207fffff, time := 1000, merkleRoot := [],
      trusted := false, build := some [], buildOk := true, height := 0, mtp := 0, txs := none, verifyFlags := 0 }).map (·.2.2)
      = some { dos := false, maybelater := true, code := "bad-prevblk" } := by
  decide +kernel

/-- **Accepted ⇒ both halves passed, on inputs read from the chain state, under the parent the header names.** If
    `Chain.CheckBlock` answers `ok`, then PreCheckBlock passed on the inputs it looked up itself in the chain state
    (`preInOf`: known hash, parent and ancestors, tip) and PostCheckBlock passed on the block as PreCheckBlock left it
    — so `precheck_sound` and `postcheck_sound` apply to exactly these inputs — the result carries neither `dos` nor
    `maybelater`, the block object holds height = parent height + 1, the parent's median-time-past and the flags of
    GetBlockFlags; `BlockIndex` has no entry under the block's own 8-byte key, and the entry `n` under the 8-byte key of
    the header's previous-block field is a node of the tree (`n < cs.nodes.size`) whose RECORDED hash
    (`cs.hashes[n]? = some …`, not the default 0 of a missing entry) equals that field as a whole.
    Hypothesis `hwf`: the chain state records a hash for every node (`hashes` and `nodes` are parallel arrays; the
    oracle's `node` request pushes to both). Without it `hashOf` would answer 0 for a node lacking a hash and a
    previous-block field of 32 zero bytes would "match" it. -/
theorem checkBlock_accept {U : Type} (p : Params) (c : Consensus) (h : Bytes → Bytes) (now : Int)
    (cs cs' : ChainSt U) (bl bl' : BlockObj) (r : CheckRes) (hwf : cs.hashes.size = cs.nodes.size)
    (hr : checkBlockM p c h now cs bl = some (cs', bl', r)) (hok : r.code = "ok") :
    ∃ o f, preCheckBlock p c (preInOf cs bl now) = some o ∧ o.err = .ok ∧
      postCheckBlock h c (postInOf (afterPre bl o)) = some (.ok, f) ∧
      r.dos = false ∧ r.maybelater = false ∧
      bl'.height = o.height ∧ bl'.mtp = o.mtp ∧ bl'.verifyFlags = f ∧
      lookupKey cs.index (bidx bl.hash) = none ∧
      ∃ n, lookupKey cs.index (bidx bl.parentHash) = some n ∧ n < cs.nodes.size ∧ cs.hashes[n]? = some bl.parentHash := by
  unfold checkBlockM at hr
  split at hr
  · simp at hr
  · rename_i o ho
    dsimp only at hr
    split at hr
    · rename_i hne
      simp only [Option.some.injEq, Prod.mk.injEq] at hr
      obtain ⟨_, _, rfl⟩ := hr
      exact absurd (Proofs.C05.preErr_code_ok hok) hne
    · rename_i hne
      have hoe : o.err = .ok := Classical.byContradiction hne
      split at hr
      · simp at hr
      · rename_i e f hpost
        simp only [Option.some.injEq, Prod.mk.injEq] at hr
        obtain ⟨_, rfl, rfl⟩ := hr
        have he : e = .ok := Proofs.C05.postErr_code_ok hok
        subst he
        have hs := precheck_sound p c _ o ho hoe
        obtain ⟨_, _, _, _, hkn, prev, anc, _, hpar, _, _, _, _, _, _, _, _, hml⟩ := hs
        refine ⟨o, f, ho, hoe, hpost, by simp, hml, ?_, ?_, ?_, ?_, ?_⟩
        · simp [afterPost, afterPre, hoe, PreErr.setsHeight]
        · simp [afterPost, afterPre, hoe, PreErr.setsMtp]
        · simp [afterPost, PostErr.setsFlags]
        · simpa [preInOf] using hkn
        · simp only [preInOf] at hpar
          cases hl : lookupKey cs.index (bidx bl.parentHash) with
          | none => simp [hl] at hpar
          | some n =>
            simp only [hl, Option.map_some, Option.some.injEq, Prod.mk.injEq] at hpar
            have hn : n < cs.nodes.size := Proofs.C05.chain_ne_nil_lt cs n (by rw [hpar.2]; simp)
            refine ⟨n, rfl, hn, ?_⟩
            have hh := hpar.1
            unfold ChainSt.hashOf at hh
            have hlt : n < cs.hashes.size := by omega
            simp only [Array.getElem?_eq_getElem hlt, Option.getD_some] at hh ⊢
            rw [hh]

/-- non-vacuity of `checkBlock_accept`: a one-transaction block (a coinbase whose script starts with the push of
    height 1, Merkle root = its txid under the toy hash `take 1`, no segwit) on a one-node chain, whose previous-block
    field is the WHOLE hash of that node, is accepted by the model; height 1, MTP 900 and the flags of
    GetBlockFlags are left in the block object, BlockWeight = 4·81 + 400 is assigned and TotalInputs grows by the one
    input parsed (5 → 6: the field accumulates). -/
example : (checkBlockM (U := Unit)
    { maxPowBits := 0x207fffff, maxPowValue := setCompact 0x207fffff, testnet := false, testnet4 := false }
    { bip34Height := 1, bip65Height := 1, bip66Height := 1, enforceCSV := 0, enforceSegwit := 0, enforceTaproot := 0 }
    (fun x => x.take 1) 5000
    { nodes := #[({ height := 0, ts := 900, bits := 0x207fffff }, -1)], hashes := #[2^64 * 77 + 7], index := [(7, 0)], last := 0, unspent := () }
    { rawLen := 285, ver := 4, hash := 12345, parentHash := 2^64 * 77 + 7, bits := 0x207fffff, time := 1000, merkleRoot := [9],
      trusted := false,
      build := some [{ ins := [{ null := true, seq := 0xffffffff, scriptLen := 3 }], in0Script := [0x51, 1, 2], outs := [[0x51]],
                       outValues := [5000000000], segwit := none, txid := [9], wtxid := [9], lockTime := 0, noWitSize := 100, size := 100 }],
      buildOk := true, height := 0, mtp := 0, txs := none, verifyFlags := 0, totalInputs := 5 }).map
        (fun x => (x.2.2, x.2.1.height, x.2.1.mtp, x.2.1.weight, x.2.1.totalInputs, x.2.1.txOffset))
      = some ({ dos := false, maybelater := false, code := "ok" }, 1, 900, 4 * (80 + 1) + 400, 5 + 1, 0) := by
  decide +kernel

/-- **Version gating, pointwise, on the three networks** (activation heights regenerated from NewChainExt, minimum
    versions from PreCheckBlock): a header version — read as a SIGNED 32-bit number — is permitted at a height iff
    it is at least 2 from the BIP34 height, 3 from the BIP66 height and 4 from the BIP65 height.
    Mainnet 227931 / 363725 / 388381, testnet3 21111 / 330776 / 581885, testnet4 from block 1. -/
theorem version_gating_pointwise (ver height : Nat) :
    (versionRejected mainnetConsensus ver height = false ↔
      signedVersion ver ≥ (if height ≥ 388381 then 4 else if height ≥ 363725 then 3 else if height ≥ 227931 then 2 else -2^31)) ∧
    (versionRejected testnet3Consensus ver height = false ↔
      signedVersion ver ≥ (if height ≥ 581885 then 4 else if height ≥ 330776 then 3 else if height ≥ 21111 then 2 else -2^31)) ∧
    (versionRejected testnet4Consensus ver height = false ↔
      signedVersion ver ≥ (if height ≥ 1 then 4 else -2^31)) := by
  have hlo := Proofs.C05.signedVersion_ge ver
  have m1 : mainnetConsensus.bip34Height = 227931 := by decide
  have m2 : mainnetConsensus.bip66Height = 363725 := by decide
  have m3 : mainnetConsensus.bip65Height = 388381 := by decide
  have t1 : testnet3Consensus.bip34Height = 21111 := by decide
  have t2 : testnet3Consensus.bip66Height = 330776 := by decide
  have t3 : testnet3Consensus.bip65Height = 581885 := by decide
  have f1 : testnet4Consensus.bip34Height = 1 := by decide
  have f2 : testnet4Consensus.bip66Height = 1 := by decide
  have f3 : testnet4Consensus.bip65Height = 1 := by decide
  rw [Proofs.C05.versionRejected_false_iff, Proofs.C05.versionRejected_false_iff, Proofs.C05.versionRejected_false_iff,
    m1, m2, m3, t1, t2, t3, f1, f2, f3]
  generalize signedVersion ver = v at hlo ⊢
  refine ⟨?_, ?_, ?_⟩
  · split
    · omega
    · split
      · omega
      · split <;> omega
  · split
    · omega
    · split
      · omega
      · split <;> omega
  · split <;> omega

/-- the boundary cases of the property's quantifier ("versions 1..4 at activation heights"), mainnet: each version
    is still permitted one block before the height that retires it and refused at that height; version 4 and above
    always pass; a version with the top bit set is negative and refused from the BIP34 height on. -/
theorem version_gating_mainnet_edges :
    versionRejected mainnetConsensus 1 227930 = false ∧ versionRejected mainnetConsensus 1 227931 = true ∧
    versionRejected mainnetConsensus 2 363724 = false ∧ versionRejected mainnetConsensus 2 363725 = true ∧
    versionRejected mainnetConsensus 3 388380 = false ∧ versionRejected mainnetConsensus 3 388381 = true ∧
    versionRejected mainnetConsensus 4 388381 = false ∧ versionRejected mainnetConsensus 0x20000000 900000 = false ∧
    versionRejected mainnetConsensus 0x80000004 227930 = false ∧ versionRejected mainnetConsensus 0x80000004 227931 = true := by
  decide

end GocoinV.Props.C05
