/-
  Props.C07 — restart after a crash at any point recovers a consistent chain state.
  Every theorem is about the definitions of Model/Persist.lean, i.e. the ones oracle_c07 executes and
  go/cmd/c07 compares with the real code at every crash point (point-name sequence and recovered state).
-/
import GocoinV.Proofs.C07Hist
import GocoinV.Proofs.C07JHist
import GocoinV.Proofs.C07Pos
import GocoinV.Proofs.C07KMain
import GocoinV.Proofs.C07Roll
import GocoinV.Proofs.C07Torn
import GocoinV.Proofs.C07Lib
import GocoinV.Proofs.C07Idx
import GocoinV.Model.PersistClient
namespace GocoinV.Props.C07
open GocoinV.Persist GocoinV.Proofs.C07

/-! ## the central statement is FALSE of the code as written (DESIGN §7 F8) -/

/-- `crash_consistent` fails: on the 4-block history `witnessOps` (block 1; A on it; snapshot of A;
    B1, B2 on block 1 → reorganisation, which rewrites undo/2 with B1's undo data; blocks flushed) a
    crash right after B2's index record is written (effect number `witnessK`, before the next snapshot
    is complete) makes the restart load A's snapshot, move to B2 and undo A with B1's undo file:
    the recovered tip is B2 but coin 1 (spent by A only) is missing from the unspent set although it
    is unspent in the replay of B2's chain. -/
theorem crash_consistent_counterexample :
    witnessK ≤ (run [] witnessOps).es.length ∧
    consistentAt [] witnessOps witnessK = false ∧
    witnessShows = true := by
  decide +kernel

/-- the same history is consistent at every crash point that lies BEFORE the reorganisation touches
    an undo file, and again once the snapshot of the new branch is complete: the failure window is
    exactly "undo file rewritten … next snapshot renamed". -/
theorem witness_failure_window :
    ∀ k, k ≤ (run [] witnessOps).es.length →
      (consistentAt [] witnessOps k = false ↔ (witnessLo ≤ k ∧ k < witnessHi)) := by
  intro k hk
  have h : ∀ k, k < (run [] witnessOps).es.length + 1 →
      (consistentAt [] witnessOps k = false ↔ (witnessLo ≤ k ∧ k < witnessHi)) := by decide +kernel
  exact h k (by omega)

/-- on the witness the failure window is EXACTLY the set of crash points after which the restart reads an undo file that
    names another block than the one it undoes (ghost flag `St.foreign`): the exclusion hypothesis of
    `recovered_set_is_replay` below is the precise one. -/
theorem witness_fails_iff_foreign_undo_read :
    ∀ k, k ≤ (run [] witnessOps).es.length →
      (consistentAt [] witnessOps k = false ↔ foreignAt [] witnessOps k = true) := by
  intro k hk
  have h : ∀ k, k < (run [] witnessOps).es.length + 1 →
      (consistentAt [] witnessOps k = false ↔ foreignAt [] witnessOps k = true) := by decide +kernel
  exact h k (by omega)

/-! ## the recovered unspent set is the replay of the tip's chain — ALL histories, ALL crash points

`WF bs` (Proofs/C07Chain.lean, every field decidable): block ids are non-zero and identify the block, height = parent's
height + 1, created coins are fresh w.r.t. the replay of the parent's chain, every block is valid on the replay of its
parent's chain (an invalid block on a side branch leads to DeleteBranch, which the model does not contain).
`St.foreign` is a ghost flag of the model (never read by it): it is raised when UndoBlockTxs reads an `undo/<height>` file
whose first 32 bytes name another block than the one being undone — the code skips these bytes (known finding
undo-file-keyed-by-height).  "foreign = false" is therefore literally "every undo file that was read belonged to the block it
was applied to".  The proof is an invariant (`Proofs.C07.J`: provenance of every data block / index record / undo file /
snapshot on disk at EVERY effect prefix + the in-memory chain) over all operations, FindFirstFather and FindPathTo included. -/

/-- `crash_consistent`, conjuncts "tip the node had validated" and "unspent set = replay of that tip's chain", for EVERY history
    over {submit (extend / side branch / reorganise), idle, close, restart, skip, pause, hurry} of well-formed blocks and EVERY
    crash point k: right after NewChainExt on the directory left by the first k effects (s1) — unconditionally —, after the client's
    recovery loop (s2) and after feeding every block of the workload again (s3) — as long as no undo file of another block was
    read up to there —, the tip is genesis or a submitted block and the unspent set equals (as a set) `replay` of the tip's chain. -/
theorem recovered_set_is_replay (bigs : List Coin) (ops : List Op) (k : Nat) (hwf : WF (submitted ops))
    (hrun : (run bigs ops).foreign = false) (s1 s2 s3 : St) (hc : crashAt bigs ops k = .ok (s1, s2, s3)) :
    ((s1.n.tip = 0 ∨ ∃ b ∈ submitted ops, b.id = s1.n.tip) ∧ sameSet s1.n.utxo (replay (submitted ops) s1.n.tip) = true) ∧
    (s2.foreign = false →
      (s2.n.tip = 0 ∨ ∃ b ∈ submitted ops, b.id = s2.n.tip) ∧ sameSet s2.n.utxo (replay (submitted ops) s2.n.tip) = true) ∧
    (s3.foreign = false →
      (s3.n.tip = 0 ∨ ∃ b ∈ submitted ops, b.id = s3.n.tip) ∧ sameSet s3.n.utxo (replay (submitted ops) s3.n.tip) = true) := by
  obtain ⟨h1, h2, h3⟩ := crash_J hwf bigs ops k (fun _ h => h) hrun hc
  exact ⟨h1.result hwf, fun hf => (h2 hf).result hwf, fun hf => (h3 hf).result hwf⟩

example : WF (submitted wlReorgNoSave) ∧ (run [] wlReorgNoSave).foreign = false ∧
    (match crashAt [] wlReorgNoSave 40 with | .ok (_, s2, s3) => !s2.foreign && !s3.foreign | .error _ => false) = true := by
  refine ⟨⟨by decide +kernel, by decide +kernel, by decide +kernel, by decide +kernel, by decide +kernel⟩, by decide +kernel, by decide +kernel⟩

/-- the same for the RUNNING node at every operation boundary of every history (restarts inside the history included): the tip
    is genesis or a submitted block and the unspent set is the replay of its chain, as long as no undo file of another block
    has been read. -/
theorem running_set_is_replay (bigs : List Coin) (ops : List Op) (hwf : WF (submitted ops))
    (hrun : (run bigs ops).foreign = false) (j : Nat) :
    ((run bigs (ops.take j)).n.tip = 0 ∨ ∃ b ∈ submitted ops, b.id = (run bigs (ops.take j)).n.tip) ∧
    sameSet (run bigs (ops.take j)).n.utxo (replay (submitted ops) (run bigs (ops.take j)).n.tip) = true :=
  (run_prefix_J hwf bigs ops (fun _ h => h) hrun j).result hwf

example : WF (submitted witnessOps) ∧ (run [] witnessOps).foreign = false := by
  refine ⟨⟨by decide +kernel, by decide +kernel, by decide +kernel, by decide +kernel, by decide +kernel⟩, by decide +kernel⟩

/-- every snapshot file, index record, data block and undo file on disk after ANY effect prefix of ANY such history comes from
    the block universe; every snapshot (UTXO.db, UTXO.old, *.db.tmp) holds the replay of its block's chain with the right height -/
theorem every_crash_prefix_provenance (bigs : List Coin) (ops : List Op) (k : Nat) (hwf : WF (submitted ops))
    (hrun : (run bigs ops).foreign = false) :
    Prov (submitted ops) (applyAll {} ((run bigs ops).es.take k)) :=
  applyAll_prov _ _ (Prov.empty _) (fun e he => (run_J hwf bigs ops (fun _ h => h) hrun).jd.effs e (List.mem_of_mem_take he))

/-! ## crash consistency: what else is proved for ALL histories and ALL crash points

The on-disk invariant (`Proofs.C07.DiskInv`, Proofs/C07Disk.lean): at every prefix of the effect list
  * UTXO.db, UTXO.old and every <hash>.db.tmp hold a snapshot whose (tip, coins) pair the running node held at an
    operation boundary and whose tip is genesis or has an index record;
  * every index record is valid, has its block in the data file, and its parent is genesis or indexed (whole ancestry
    in the index); every data block's parent is indexed.
It is preserved by every single effect (`apply_inv`) and, through the node/disk coupling `InvQ` (Proofs/C07Node.lean:
records marked on-disk are in the index file, the others are queued parent-before-child, Chain.Idle flushes the queue
before a snapshot starts, a paused writer holds the current state, a clean set means the loadable snapshot IS the
current state), by every operation of the model prefix-wise: save (any chunk count, paused, aborted, hurried),
CommitBlockTxs, UndoBlockTxs, BlockTrusted, ParseTillBlock, MoveToBlock (reorganisation), BlockAdd, CommitBlock,
AcceptBlock, writeOne/writeAll, Idle, Close, NewChainExt, the client's recovery loop, a restart in the middle of the
history (Proofs/C07Ops.lean, C07Run.lean, C07Hist.lean).

The central statement `crash_consistent` is proved below (after the two no-panic theorems), with these hypotheses:
  * `WF (submitted ops)` — see above;
  * "no undo file of another block is read": by the uninterrupted run (`(run bigs ops).foreign = false`) and by the restart after
    crash point k (`crashForeign bigs ops k = false`, the ghost flag of the three stages computed WITHOUT stopping at a panic) —
    the exclusion of the known finding undo-file-keyed-by-height, exactly the failure window on the witness;
  * `ParentsFirst (submitted ops)` — `crashAt` hands ALL blocks of the workload to the restarted node again; an orphan refused by the
    uninterrupted run would be accepted after the restart when its parent is then on disk;
  * `UniqueBest (submitted ops)` — with two blocks of maximal height the first one seen wins; whether "first seen" is the same for the
    uninterrupted run and for the restarted one (FindFarthestNode over the blocks loaded from disk — in the real code in Go map
    order) is not something the property promises;
  * every submitted block is in the uninterrupted run's tree at its end — PROVED for every history without an in-history restart
    (`restart_free_run_accepts_all`, hence `crash_consistent_restart_free`); an in-history restart is a kill, it forgets the blocks
    not yet flushed, so such a history is not an "uninterrupted run" in the property's sense.
  (That the uninterrupted run does not panic is proved, in-history restarts included: `run_never_panics`; the ghost flag of a
  FAILED in-history restart is kept by `step`.) -/

/-- the running node never panics and its tip is always a highest block of its tree: for EVERY history (in-history restarts
    included) over well-formed blocks, as long as no undo file of another block is read — UndoLastBlock finds block data and undo
    file, FindFirstFather returns a common ancestor within its fuel, FindPathTo succeeds, ParseTillBlock finds every block valid,
    NewChainExt and the recovery loop of an in-history restart succeed. -/
theorem run_never_panics (bigs : List Coin) (ops : List Op) (hwf : WF (submitted ops))
    (hrun : (run bigs ops).foreign = false) :
    (run bigs ops).err = none ∧ ∀ t ∈ (run bigs ops).n.tree, t.height ≤ (run bigs ops).n.tipHeight :=
  let h := (run_K hwf bigs ops (fun _ h => h) hrun).1
  ⟨h.k0.err, h.maxH⟩

example : WF (submitted (wlReorgNoSave ++ [.reopen])) ∧ (run [] (wlReorgNoSave ++ [.reopen])).foreign = false := by
  refine ⟨⟨by decide +kernel, by decide +kernel, by decide +kernel, by decide +kernel, by decide +kernel⟩, by decide +kernel⟩

/-- the undo-file part of the disk invariant, at EVERY crash prefix of every such history: every snapshot file on disk (UTXO.db,
    UTXO.old, every <hash>.db.tmp) has the undo files undo/1 … undo/<its height> next to it (CommitBlockTxs renames undo/<h> into
    place before LastBlockHeight becomes h; the model has no removal of undo/<h − UnwindBufLen>, i.e. heights ≤ 2560). -/
theorem every_crash_prefix_has_undo_files (bigs : List Coin) (ops : List Op) (k : Nat) (hwf : WF (submitted ops))
    (hrun : (run bigs ops).foreign = false) :
    UInv (applyAll {} ((run bigs ops).es.take k)) :=
  (run_K hwf bigs ops (fun _ h => h) hrun).2.pref k

/-- the restart never panics (item (a) of the earlier passes): after a crash at ANY point k of ANY history (well-formed blocks, the run itself
    without a foreign undo file read) NewChainExt, the client's recovery loop and the feeding of every block all
    complete without a panic as long as THEY read no undo file of another block, and the recovery loop leaves the tip at a highest
    block stored on disk. -/
theorem recovery_never_panics (bigs : List Coin) (ops : List Op) (k : Nat) (hwf : WF (submitted ops))
    (hrun : (run bigs ops).foreign = false) (hcr : crashForeign bigs ops k = false) :
    ∃ s1 s2 s3, crashAt bigs ops k = .ok (s1, s2, s3) ∧ (∀ t ∈ s2.n.tree, t.height ≤ s2.n.tipHeight) ∧
      (∀ t ∈ s3.n.tree, t.height ≤ s3.n.tipHeight) := by
  obtain ⟨s1, s2, s3, hc, _, k2, _, k3, _⟩ := crash_K hwf bigs ops k (fun _ h => h) hrun hcr
  exact ⟨s1, s2, s3, hc, k2.maxH, k3.maxH⟩

example : crashForeign [] wlReorgNoSave 40 = false := by decide +kernel

/-- a history without an in-history restart whose blocks arrive parents first: the uninterrupted run knows every block at its end -/
theorem restart_free_run_accepts_all (bigs : List Coin) (ops : List Op) (hwf : WF (submitted ops))
    (hpf : ParentsFirst (submitted ops)) (hrun : (run bigs ops).foreign = false) (hnr : ∀ op ∈ ops, op ≠ Op.reopen) :
    ∀ b ∈ submitted ops, InT (run bigs ops).n.tree b.id :=
  run_accepts_all bigs ops hwf hpf hrun hnr

/-- `crash_consistent` — ALL FOUR conjuncts of `consistentAt`, for EVERY history and EVERY crash point k (also k beyond the end):
    the restart completes without a panic, the recovered tip is genesis or a submitted block, the recovered unspent set is the
    replay of that tip's chain, and after feeding every block again tip and unspent set equal the uninterrupted run's.
    Hypotheses: see the comment above (well-formed blocks; parents first; a unique highest block; the uninterrupted run knows every
    block at its end — automatic without in-history restarts; no undo file of another block read = exclusion of the known finding
    undo-file-keyed-by-height). -/
theorem crash_consistent (bigs : List Coin) (ops : List Op) (k : Nat) (hwf : WF (submitted ops))
    (hpf : ParentsFirst (submitted ops)) (huniq : UniqueBest (submitted ops))
    (hacc : ∀ b ∈ submitted ops, InT (run bigs ops).n.tree b.id)
    (hrun : (run bigs ops).foreign = false) (hcr : crashForeign bigs ops k = false) :
    consistentAt bigs ops k = true :=
  crash_consistent' bigs ops k hwf hpf huniq hacc hrun hcr

example : ParentsFirst (submitted wlReorgNoSave) ∧ UniqueBest (submitted wlReorgNoSave) ∧
    (∀ b ∈ submitted wlReorgNoSave, InT (run [] wlReorgNoSave).n.tree b.id) := by
  refine ⟨?_, ?_, ?_⟩
  · simp [ParentsFirst, PFrom, submitted, wlReorgNoSave, b1, bA, bA2, bA3, bB1, bB2]
  · unfold UniqueBest; decide +kernel
  · unfold InT; decide +kernel

-- OPEN: run_foreign_false_restart_free — `(run bigs ops).foreign = false` for every restart-free history of well-formed blocks (a
-- running node only undoes blocks whose undo/<height> file it wrote itself, so the hypothesis `hrun` below should be derivable:
-- invariant "undo/<h> of every block of the active chain names that block", preserved by CommitBlockTxs (writes undo/<height+1>
-- of the new tip) and UndoBlockTxs (pops the tip)).  NOT proved: `hrun` stays a hypothesis; it is a DECIDABLE property of the input
-- history (run the model, read the flag — the examples do exactly that) and the harness checks it on every model-compared
-- workload (`final`/`crash` replies carry the flag).

/-- the same for histories without an in-history restart, where only properties of the INPUT remain as hypotheses -/
theorem crash_consistent_restart_free (bigs : List Coin) (ops : List Op) (k : Nat) (hwf : WF (submitted ops))
    (hpf : ParentsFirst (submitted ops)) (huniq : UniqueBest (submitted ops)) (hnr : ∀ op ∈ ops, op ≠ Op.reopen)
    (hrun : (run bigs ops).foreign = false) (hcr : crashForeign bigs ops k = false) :
    consistentAt bigs ops k = true :=
  crash_consistent' bigs ops k hwf hpf huniq (run_accepts_all bigs ops hwf hpf hrun hnr) hrun hcr

/-- `crash_consistent`, the part that holds for EVERY history over {submit (extend / side branch / reorganise), idle,
    close, restart, skip, pause, hurry} and EVERY crash point k (also k beyond the end = no crash, also inside the
    known-finding window): re-opening the directory left by the first k effects (NewChainExt: NewUnspentDb +
    LoadBlockIndex + loadBlockIndex) does not panic — in particular never "Last Block Hash not found" —, the node comes
    up either at genesis with the empty set or at EXACTLY a (tip, unspent set) pair the running node held at an
    operation boundary (never a half-written snapshot, never nothing when something was there before the save),
    that tip is in the loaded block tree, every index record is valid, has its block data and its parent indexed (so
    the whole ancestry of every indexed block, and the data needed to move to any leaf, are there). -/
theorem crash_reopen_partial (bigs : List Coin) (ops : List Op) (k : Nat) :
    ∃ s1, openNode (applyAll {} ((run bigs ops).es.take k)) bigs 0 = .ok s1 ∧
      ((s1.n.tip = 0 ∧ s1.n.utxo = [] ∧ s1.n.lastHeight = 0) ∨
        ∃ j, j ≤ ops.length ∧ (run bigs (ops.take j)).n.tip = s1.n.tip ∧ (run bigs (ops.take j)).n.utxo = s1.n.utxo ∧
          (run bigs (ops.take j)).n.lastHeight = s1.n.lastHeight) ∧
      inTree s1.n s1.n.tip = true ∧
      (∀ r ∈ s1.d.idx, (∃ b ∈ s1.d.dat, b.id = r.id) ∧ r.invalid = false ∧ (r.parent = 0 ∨ ∃ r' ∈ s1.d.idx, r'.id = r.parent)) ∧
      (∀ b ∈ s1.d.dat, b.parent = 0 ∨ ∃ r ∈ s1.d.idx, r.id = b.parent) :=
  crash_reopen' bigs ops k

/-- a snapshot file that cannot be read to its end (UTXO.db and/or UTXO.old cut short: power loss, full disk — NOT a process kill,
    so outside the property's quantifier, but it is what the fall-back "UTXO.db, else UTXO.old, else empty" of NewUnspentDb exists
    for; since fix eab07278 the real code behaves like `tearDb` also when the 48-byte header of the cut file is intact — before, it
    hung): at EVERY crash prefix of EVERY history NewChainExt still opens the directory without a panic, at genesis with the empty
    set or at EXACTLY a (tip, unspent set, height) the running node held at an operation boundary, that tip being in the loaded
    tree; with both files unreadable it starts from genesis.  (What the recovery loop then does is `restartFrom`, the function the
    oracle runs for the harness's truncated-UTXO.db cases; `crashAt` is `restartFrom` the crash directory by definition.) -/
theorem torn_snapshot_reopens (bigs : List Coin) (ops : List Op) (k : Nat) (db old : Bool) :
    ∃ s1, openNode (tearDb (applyAll {} ((run bigs ops).es.take k)) db old) bigs 0 = .ok s1 ∧ s1.err = none ∧
      ((s1.n.tip = 0 ∧ s1.n.utxo = [] ∧ s1.n.lastHeight = 0) ∨
        ∃ j, j ≤ ops.length ∧ (run bigs (ops.take j)).n.tip = s1.n.tip ∧ (run bigs (ops.take j)).n.utxo = s1.n.utxo ∧
          (run bigs (ops.take j)).n.lastHeight = s1.n.lastHeight) ∧
      inTree s1.n s1.n.tip = true ∧
      ((db = true ∧ old = true) → s1.n.tip = 0 ∧ s1.n.utxo = []) :=
  torn_reopen' bigs ops k db old

/-- `crashAt` (the function of the central theorem) is `restartFrom` (the function behind the oracle's `torn` op) on the directory
    left by the first k effects -/
theorem crashAt_eq_restartFrom (bigs : List Coin) (ops : List Op) (k : Nat) :
    crashAt bigs ops k = restartFrom (applyAll {} ((run bigs ops).es.take k)) bigs ops := rfl

/-- the torn-snapshot restart on a concrete history: the witness history closed cleanly (k beyond the end), UTXO.db unreadable —
    the node falls back to UTXO.old (snapshot of A, on the abandoned branch) and is then INSIDE the window of the known finding
    (ghost flag raised, final set wrong); with both files unreadable it starts over from genesis and converges. -/
theorem torn_snapshot_examples :
    restartForeign (tearDb (run [] witnessOps).d true false) [] witnessOps = true ∧
    (match restartFrom (tearDb (run [] witnessOps).d true true) [] witnessOps with
      | .ok (s1, _, s3) => s1.n.tip == 0 && s3.n.tip == (run [] witnessOps).n.tip && sameSet s3.n.utxo (run [] witnessOps).n.utxo && !s3.foreign
      | .error _ => false) = true ∧
    (match restartFrom (tearDb (run [] wlSave).d true false) [2, 3] wlSave with
      | .ok (s1, _, s3) => s1.n.tip != (run [2, 3] wlSave).n.tip && s3.n.tip == (run [2, 3] wlSave).n.tip && sameSet s3.n.utxo (run [2, 3] wlSave).n.utxo && !s3.foreign
      | .error _ => false) = true := by
  decide +kernel

/-- the invariant itself, at every crash point of every history: the directory is good (see above) -/
theorem every_crash_prefix_good (bigs : List Coin) (ops : List Op) (k : Nat) :
    DiskInv (PastState bigs ops) (applyAll {} ((run bigs ops).es.take k)) := by
  obtain ⟨q, h⟩ := run_inv bigs ops
  exact h.pref k

/-- a good directory is one NewChainExt opens without a panic, at the snapshot it holds -/
theorem good_directory_opens (P : Snap → Prop) (d : Disk) (hd : DiskInv P d) (bigs : List Coin) :
    ∃ s1, openNode d bigs 0 = .ok s1 ∧ s1.err = none ∧ inTree s1.n s1.n.tip = true ∧
      ((loadSnap d = none ∧ s1.n.tip = 0 ∧ s1.n.utxo = []) ∨ (∃ sn, loadSnap d = some sn ∧ s1.n.tip = sn.tip ∧ s1.n.utxo = sn.coins)) := by
  obtain ⟨s1, ho, _, he, hc, hin, _⟩ := openNode_inv hd bigs 0
  refine ⟨s1, ho, he, hin, ?_⟩
  rcases hc with ⟨a, b, c, _⟩ | ⟨sn, a, b, c, _⟩
  · exact Or.inl ⟨a, b, c⟩
  · exact Or.inr ⟨sn, a, b, c⟩

example : ∃ d : Disk, DiskInv (fun _ => True) d := ⟨{}, DiskInv.empty _⟩

/-- extend the tip (three blocks, flushed one by one, no snapshot until Close): every crash point recovers -/
theorem crash_consistent_partial_extend :
    ∀ k, k ≤ (run [] wlExtend).es.length → consistentAt [] wlExtend k = true := by
  intro k hk
  have h : ∀ k, k < (run [] wlExtend).es.length + 1 → consistentAt [] wlExtend k = true := by decide +kernel
  exact h k (by omega)

/-- save after every block (two full chunks per snapshot: coins 2 and 3 are "big"): every crash point
    recovers — including UTXO.db already renamed to UTXO.old with the new snapshot half written -/
theorem crash_consistent_partial_save :
    ∀ k, k ≤ (run [2, 3] wlSave).es.length → consistentAt [2, 3] wlSave k = true := by
  intro k hk
  have h : ∀ k, k < (run [2, 3] wlSave).es.length + 1 → consistentAt [2, 3] wlSave k = true := by decide +kernel
  exact h k (by omega)

/-- a save paused after its first chunk is aborted by a new block, a later one is hurried: every crash point recovers -/
theorem crash_consistent_partial_abort :
    ∀ k, k ≤ (run [2, 3] wlAbort).es.length → consistentAt [2, 3] wlAbort k = true := by
  intro k hk
  have h : ∀ k, k < (run [2, 3] wlAbort).es.length + 1 → consistentAt [2, 3] wlAbort k = true := by decide +kernel
  exact h k (by omega)

/-- reorganise BEFORE any snapshot of the old branch exists (snapshot = block 1): every crash point recovers -/
theorem crash_consistent_partial_reorg_before_save :
    ∀ k, k ≤ (run [] wlReorgNoSave).es.length → consistentAt [] wlReorgNoSave k = true := by
  intro k hk
  have h : ∀ k, k < (run [] wlReorgNoSave).es.length + 1 → consistentAt [] wlReorgNoSave k = true := by decide +kernel
  exact h k (by omega)

/-- the exclusion hypothesis of `crash_consistent` is the exact one on the witness history (which satisfies every other hypothesis:
    well-formed, parents first, unique highest block, no in-history restart, the run itself reads no foreign undo file): the crash
    points at which the restart reads an undo file of another block are exactly those at which `consistentAt` fails. -/
theorem witness_exclusion_exact :
    ∀ k, k ≤ (run [] witnessOps).es.length →
      (crashForeign [] witnessOps k = true ↔ consistentAt [] witnessOps k = false) := by
  intro k hk
  have h : ∀ k, k < (run [] witnessOps).es.length + 1 →
      (crashForeign [] witnessOps k = true ↔ consistentAt [] witnessOps k = false) := by decide +kernel
  exact h k (by omega)

example : ParentsFirst (submitted witnessOps) ∧ UniqueBest (submitted witnessOps) ∧ (∀ op ∈ witnessOps, op ≠ Op.reopen) ∧
    crashForeign [] witnessOps 10 = false := by
  refine ⟨?_, ?_, ?_, by decide +kernel⟩
  · simp [ParentsFirst, PFrom, submitted, witnessOps, b1, bA, bB1, bB2]
  · unfold UniqueBest; decide +kernel
  · intro op h
    simp only [witnessOps, List.mem_cons, List.mem_nil_iff, or_false] at h
    rcases h with h | h | h | h | h | h | h <;> subst h <;> simp

/-! ## clean shutdown -/

/-- `clean_restart_identity` on the concrete shapes: after Close the restart yields exactly the tip and
    unspent set of the running node — also for the reorganisation history whose crash points fail. -/
theorem clean_restart_identity_partial :
    cleanRestartOK [] wlExtend = true ∧ cleanRestartOK [2, 3] wlSave = true ∧ cleanRestartOK [2, 3] wlAbort = true ∧
    cleanRestartOK [] wlReorgNoSave = true ∧ cleanRestartOK [] witnessOps = true := by
  decide +kernel
/-- `clean_restart_identity` in full, EVERY history: after Close the whole restart — NewChainExt AND the client's recovery loop —
    yields exactly the running node's tip and unspent set (the same list): no index record on disk is higher than the tip at
    shutdown, so the recovery loop is a no-op.  Hypotheses: well-formed blocks (without height well-formedness it is false of the
    model: a block may carry any height field) and no undo file of another block read during the run (that the run did not panic
    follows: `run_never_panics`). -/
theorem clean_restart_identity (bigs : List Coin) (ops : List Op) (hwf : WF (submitted (ops ++ [.close])))
    (hrun : (run bigs (ops ++ [.close])).foreign = false) :
    cleanRestartOK bigs (ops ++ [.close]) = true :=
  clean_restart' bigs ops hwf hrun

example : WF (submitted ([.submit b1, .idle, .submit bA] ++ [.close])) ∧
    (run [] ([.submit b1, .idle, .submit bA] ++ [.close])).foreign = false := by
  refine ⟨⟨by decide +kernel, by decide +kernel, by decide +kernel, by decide +kernel, by decide +kernel⟩, by decide +kernel⟩


/-- clean shutdown, every history: after Close (no panic before) NewChainExt on the directory yields EXACTLY the
    running node's tip, unspent set (the same list) and height. -/
theorem clean_restart_reopen_identity_partial (bigs : List Coin) (ops : List Op)
    (herr : (run bigs (ops ++ [.close])).err = none) :
    ∃ s1, openNode (run bigs (ops ++ [.close])).d bigs 0 = .ok s1 ∧
      s1.n.tip = (run bigs (ops ++ [.close])).n.tip ∧ s1.n.utxo = (run bigs (ops ++ [.close])).n.utxo ∧
      s1.n.lastHeight = (run bigs (ops ++ [.close])).n.lastHeight :=
  clean_restart_reopen' bigs ops herr

example : (run [] ([.submit b1, .idle, .submit bA] ++ [.close])).err = none := by decide +kernel

/-! ## the multi-step updates are atomic under a crash — for ALL disks and contents -/

/-- writing an undo file (write undo/tmp, rename to undo/<h>): after a crash at either point and the
    restart's removal of undo/tmp, undo/<h> is the old file or the complete new one, every other height
    is untouched and no undo/tmp is left. -/
theorem undo_write_atomic (d : Disk) (u : UndoFile) (h : Nat) (k : Nat) :
    let d' := (recoverUnspent (applyAll d ((undoWriteEffects u h).take k))).1
    (getUndo d'.undo h = getUndo ((recoverUnspent d).1).undo h ∨ getUndo d'.undo h = some u) ∧
    (∀ h', h' ≠ h → getUndo d'.undo h' = getUndo d.undo h') ∧ d'.undoTmp = none :=
  undo_write_atomic' d u h k

/-- appending a block (data first, index record second): after a crash at any point the index is the old
    one or the old one plus the complete new record, and the data of every indexed block is present. -/
theorem block_append_atomic (d : Disk) (b : Block) (r : IdxRec) (hr : r.id = b.id) (k : Nat)
    (hinv : ∀ x ∈ d.idx, ∃ y ∈ d.dat, y.id = x.id) :
    let d' := applyAll d ((appendEffects b r).take k)
    (d'.idx = d.idx ∨ d'.idx = d.idx ++ [r]) ∧ (∀ x ∈ d'.idx, ∃ y ∈ d'.dat, y.id = x.id) :=
  block_append_atomic' d b r hr k hinv

example : ∃ d : Disk, ∀ x ∈ d.idx, ∃ y ∈ d.dat, y.id = x.id := ⟨{}, by simp⟩

/-- the snapshot save (rename UTXO.db→UTXO.old, create tmp, n chunks, final chunk, flush, rename tmp→UTXO.db):
    after a crash at ANY point the restart loads either the snapshot it would have loaded before the save
    started or — only after the last effect — the new one; it never loads nothing when something was there. -/
theorem save_crash_atomic (d : Disk) (sn : Snap) (n k : Nat) :
    let d' := applyAll d ((saveEffects sn n).take k)
    (recoverUnspent d').2.2 = (recoverUnspent d).2.2 ∨
      ((saveEffects sn n).length ≤ k ∧ (recoverUnspent d').2.2 = some sn) :=
  save_crash_atomic' d sn n k

/-- `saveEffects` is what the model's `startSave` (the function the oracle runs) emits. -/
theorem startSave_effects (s : St) (h1 : s.n.saving = none) (h2 : s.n.pause = false) :
    (startSave s false).es = s.es ++ saveEffects ⟨s.n.tip, s.n.lastHeight, s.n.utxo⟩ (nBig s.n) :=
  startSave_effects' s h1 h2

example : ∃ s : St, s.n.saving = none ∧ s.n.pause = false := ⟨{ n := {}, d := {} }, rfl, rfl⟩

/-- undo data is right when it is the block's own: undoing a valid block with ITS undo file gives back
    the unspent set (as a set) — the lemma that the height-keyed file breaks after a reorganisation. -/
theorem undo_own_commit (u : List Coin) (b : Block)
    (hv : validOn u b = true) (hfresh : ∀ c ∈ b.creates, c ∉ u) :
    ∀ c, c ∈ undoU (commitU u b) b b.spends ↔ c ∈ u :=
  undo_own_commit' u b hv hfresh

example : validOn [1, 2] ⟨1, 0, 1, [1], [3]⟩ = true ∧ ∀ c ∈ [3], c ∉ [1, 2] := by decide +kernel

/-! ## file positions inside blockchain.dat (Model/PersistPos.lean)

Model/Persist.lean treats the data file as an append-only list of blocks looked up by id.  The code addresses it by byte
position: LoadBlockIndex computes maxdatfilepos from the index and SEEKS the freshly opened data file there, writeOne writes
at the handle's offset and records fpos := maxdatfilepos.  The positional model makes the orphaned data tail (kill between the
data write and the index write) and the two-crash scenario explicit. -/

/-- with the Seek as written: after ANY history of completed writes, kills between the data write and the index write (each
    followed by a restart) and plain restarts, every index record reads back exactly its own block — the id-keyed data file of
    Model/Persist.lean is a sound abstraction (block lengths are positive). -/
theorem dat_positions_sound (ops : List POp) (hl : ∀ op ∈ ops, lenPos op) : readsBack (prun false {} ops).d = true :=
  readsBack_of (prun_inv ops {} pinit_inv hl).disk

example : ∀ op ∈ [POp.write 1 300, .crashMid 2 250, .write 2 250, .restart, .write 3 200], lenPos op := by
  intro op h
  simp only [List.mem_cons, List.mem_nil_iff, or_false] at h
  rcases h with h | h | h | h | h <;> subst h <;> simp [lenPos]

/-- … and it is the Seek that does it: if the data file handle ignored its offset (O_APPEND), the two-crash history "write;
    killed after the data write of the next block; restart; write it again; write another" leaves an index record that points
    into the orphaned tail. -/
theorem dat_positions_need_the_seek :
    readsBack (prun true {} [.write 1 300, .crashMid 2 250, .write 2 250, .write 3 200]).d = false ∧
    readsBack (prun false {} [.write 1 300, .crashMid 2 250, .write 2 250, .write 3 200]).d = true := by
  decide

/-! ## data-file roll-over (Model/PersistRoll.lean): BlockDBOpts.MaxDataFileSize, several bl<n>.dat files -/

/-- with LoadBlockIndex as written (data-file bump, THEN the unconditional append-position update) every index record reads back
    exactly its own block from its own data file after ANY history of writes (with or without roll-over, any MaxDataFileSize),
    kills right after the roll-over's file creation, kills between the data write and the index write, and restarts. -/
theorem dat_rollover_sound (maxSize : Nat) (ops : List ROp) (hl : ∀ op ∈ ops, rlenPos op) :
    rreadsBack (rrun false maxSize {} ops).d = true :=
  rreadsBack_of (rrun_inv maxSize ops {} rinit_inv hl).disk

/-- the same from ANY directory in which every index record has its data (distinct positions per file, positive lengths), e.g. a
    block store filled earlier with another MaxDataFileSize -/
theorem dat_rollover_sound_from (maxSize : Nat) (d : RDisk) (hd : RDiskInv d) (ops : List ROp) (hl : ∀ op ∈ ops, rlenPos op) :
    rreadsBack (rrun false maxSize (ropen false d) ops).d = true :=
  rreadsBack_of (rrun_inv maxSize ops _ (ropen_inv hd) hl).disk

example : ∃ d : RDisk, RDiskInv d := ⟨{}, rinit_inv.disk⟩

example : ∀ op ∈ [ROp.write 1 300, .write 2 300, .crashRoll 3 300, .restart, .crashMid 3 200, .write 3 200], rlenPos op := by
  intro op h
  simp only [List.mem_cons, List.mem_nil_iff, or_false] at h
  rcases h with h | h | h | h | h | h <;> subst h <;> simp [rlenPos]

/-- … and it is the unconditional update that does it: if the append-position update is an `else if` of the data-file bump (the
    first record of a newer data file then leaves the position at 0), a restart while the newest data file holds exactly one
    block makes the next block overwrite it. -/
theorem dat_rollover_needs_the_update_after_the_bump :
    rreadsBack (rrun true 500 {} [.write 1 300, .write 2 300, .restart, .write 3 200]).d = false ∧
    rreadsBack (rrun false 500 {} [.write 1 300, .write 2 300, .restart, .write 3 200]).d = true := by
  decide

/-! ## the start-up path (library mode, lock file) and the walking snapshot writer — tied to the source by REGENERATED FACTS

`Gen/C07Facts.lean` is rewritten by go/cmd/gen_c07 from /repo on every run; the theorems below are stated about its definitions,
so an edit of LockDatabaseDir's open call, of the guard in front of NewChainExt's ParseTillBlock, of the place where
UndoBlockTxs / CommitBlockTxs abort a running snapshot, or of the order inside Chain.Idle changes what the kernel re-checks. -/

open GocoinV.Gen.C07Facts in
/-- the five structural facts read from the source are the ones the models were written for: the lock file is opened if it
    exists (else created); NewChainExt re-applies blocks only when the farthest block is strictly HIGHER than the snapshot's;
    UndoBlockTxs and CommitBlockTxs abort a running snapshot before their first change of the maps; Chain.Idle flushes the
    block files before it starts a snapshot. -/
theorem source_facts_are_the_modelled_ones :
    lockOpenMode = .openOrCreate ∧ reapplyGuard = .higher ∧ undoAbortsSave = true ∧ commitAbortsSave = true ∧
    idleFlushesFirst = true := by decide

open GocoinV.Gen.C07Facts in
/-- `clean_restart_identity` for LIBRARY mode (NewChainExt without DoNotRescan, the mode of every user of the package but the
    client), EVERY history: after Close, NewChainExt with the guard AS WRITTEN IN THE SOURCE opens the directory without a panic
    at exactly the running node's tip and unspent set, and its last step re-applies nothing — in WHATEVER order Go's map
    iteration lists the block tree (`withTree`: any listing of nodes of the loaded tree), i.e. whichever of several equally
    high leaves FindFarthestNode returns.  Same hypotheses as `clean_restart_identity`. -/
theorem library_clean_restart_identity (bigs : List Coin) (ops : List Op) (hwf : WF (submitted (ops ++ [.close])))
    (hrun : (run bigs (ops ++ [.close])).foreign = false) :
    ∃ s1, libraryOpen reapplyGuard (run bigs (ops ++ [.close])).d bigs = .ok s1 ∧
      s1.n.tip = (run bigs (ops ++ [.close])).n.tip ∧ s1.n.utxo = (run bigs (ops ++ [.close])).n.utxo ∧
      ∀ tree, (∀ t ∈ tree, t ∈ s1.n.tree) → libraryTail reapplyGuard (withTree s1 tree) = withTree s1 tree := by
  obtain ⟨s1, ho, e1, e2, he, hmax⟩ := clean_restart_maxH bigs ops hwf hrun
  have hg : reapplyGuard = .higher := by decide
  refine ⟨s1, ?_, e1, e2, ?_⟩
  · have hn : libraryTail .higher s1 = s1 := libraryTail_higher_noop s1 hmax
    unfold libraryOpen
    simp only [ho, hg, hn, he]
  · intro tree hsub
    rw [hg]
    exact libraryTail_higher_noop (withTree s1 tree) (fun t ht => hmax t (hsub t ht))

example : WF (submitted ([.submit b1, .submit bA, .idle, .submit bB1, .idle] ++ [.close])) ∧
    (run [] ([.submit b1, .submit bA, .idle, .submit bB1, .idle] ++ [.close])).foreign = false := by
  refine ⟨⟨by decide +kernel, by decide +kernel, by decide +kernel, by decide +kernel, by decide +kernel⟩, by decide +kernel⟩

/-- … and it is the STRICT comparison that does it: on the closed directory of `siblingOps` (block 1; A with a snapshot; B1, a
    sibling of A, stored aside) a guard "the farthest block differs from the current one" is harmless as long as the tree is
    listed in index order, and panics "end block is not higher then current" (FindPathTo) as soon as the sibling is met first;
    the guard as written leaves the node alone in both orders. -/
theorem library_reopen_needs_the_strict_guard : siblingShows = true := by decide +kernel

open GocoinV.Gen.C07Facts in
/-- the lock file never stands in the way of a restart: with LockDatabaseDir's open call AS WRITTEN IN THE SOURCE, after ANY
    sequence of starts, kills and clean shutdowns (one instance at a time) no start has been refused. -/
theorem lock_never_blocks_restart (es : List LEvent) : (lockRun lockOpenMode es).refused = false :=
  lockRun_never_refused lockOpenMode (by decide) es

/-- … whereas an exclusive create (what the Windows variant does AFTER removing the file) refuses the first start after a kill -/
theorem lock_excl_blocks_restart_after_a_kill : (lockRun .createExcl [.start, .crash, .start]).refused = true := by decide

open GocoinV.Gen.C07Facts in
/-- the snapshot file is a state the node held — for the writer as it really works (it WALKS the maps; whatever is changed in a
    map it has not reached yet ends up in the file): with the abort calls where the source has them (regenerated facts), after
    ANY sequence of save start / walk one map / finish / CommitBlockTxs / UndoBlockTxs, UTXO.db holds the header's block, exactly
    the walk of that block's set, and the header's record count. -/
theorem lazy_snapshot_is_start_state (nmaps : Nat) (ops : List LOp) :
    fileHeld nmaps (lrun nmaps undoAbortsSave commitAbortsSave ops) = true :=
  (lrun_inv nmaps ops).file

/-- … and it needs the abort in UndoBlockTxs: if an undo leaves the running snapshot alone (the abort done by MoveToBlock only),
    the history "snapshot of block 2 starts, walks map 0; block 2 is undone; the writer finishes" renames a file to UTXO.db whose
    header names block 2 and announces 2 records but which holds the one record of block 1's set. -/
theorem lazy_snapshot_needs_the_abort_in_undo : fileHeld 256 (lrun 256 false true lazyWitness) = false := by decide +kernel

/-! ## round 4: the index file's positions and flag bytes, and what Chain.Close leaves in UTXO.db — REGENERATED FACTS again

Model/PersistIdx.lean; the facts `flagRewriteSource`, `invalidRecordAdvances`, `loadSeeksAppendPos`, `closeSaveGuard`,
`commitSetsDirty`, `undoSetsDirty`, `saveClearsDirtyOnlyWhenComplete` are read from BlockDB.setBlockFlag, BlockDB.LoadBlockIndex,
UnspentDB.Close / CommitBlockTxs / UndoBlockTxs / save by go/cmd/gen_c07 on every run (for the source shapes it knows; any
other shape stops the translator). -/

open GocoinV.Gen.C07Facts in
/-- the structural facts of round 4 are the ones the models were written for: setBlockFlag ORs the flag into the byte it
    READ FROM THE FILE at the record's position; in LoadBlockIndex a record flagged invalid advances the position counter like
    every other record, and after its loop the handle of blockchain.new is positioned at that counter (the index model identifies
    "append position" and "where the next write lands": without the Seek the handle stands at the end of the FILE, behind a torn
    record); UnspentDB.Close writes UTXO.db whenever the set is dirty (nothing else is asked); CommitBlockTxs and UndoBlockTxs mark
    the set dirty on every path that returns, and the flag is cleared only by a snapshot walk that was not aborted. -/
theorem source_facts_round4_are_the_modelled_ones :
    flagRewriteSource = .disk ∧ invalidRecordAdvances = true ∧ loadSeeksAppendPos = true ∧ closeSaveGuard = .dirty ∧
    commitSetsDirty = true ∧ undoSetsDirty = true ∧ saveClearsDirtyOnlyWhenComplete = true := by decide

open GocoinV.Gen.C07Facts in
/-- the two places of the CLIENT that the harness re-implements instead of running (go/cmd/c07/child.go: the fresh process opens
    the chain with DoNotRescan and accepts a recovered block by AbortWriting, BlockAdd, CommitBlock in this order) read as in the
    source: client/init.go passes `DoNotRescan: true`; client/main.go LocalAcceptBlock makes the three calls as plain top-level
    statements in that order. (A tripwire for these two shapes only: the rest of do_the_blocks / host_init is trusted to be what
    child.go mirrors.) -/
theorem client_facts_are_the_mirrored_ones : clientDoNotRescan = true ∧ clientAcceptOrder = true := by decide

open GocoinV.Gen.C07Facts in
/-- the client's start-up replay AS WRITTEN IN THE SOURCE (client/main.go do_the_blocks: where its walk to the farthest block on
    disk starts is regenerated from the source on every run - `clientReplayStart`) is the recovery loop of the model, the one every
    restart theorem of this file is about (`clientRecover`: from the first common ancestor of the snapshot's block and the farthest
    block). The harness also runs the client's own functions on captured directories (go/cmd/c07/realclient.go). -/
theorem client_replay_as_written_is_the_modelled_loop (s : St) : clientRecoverFrom clientReplayStart s = clientRecover s := rfl

/-- … and the common ancestor is needed: on the directory a kill leaves after a reorganisation that followed a snapshot (snapshot
    on A, the blocks of B1-B2 on disk, the next snapshot not complete) the walk that starts at the tip itself ends in FindPathTo's
    panic "unknown path to block" with the node still on A, the walk from the first common ancestor reaches B2. -/
theorem client_replay_needs_the_common_ancestor : replayStartShows = true := by decide +kernel

open GocoinV.Persist.Idx GocoinV.Gen.C07Facts in
/-- EVERY index record keeps what it was written with: for ANY directory `d` (any flag bytes, records flagged invalid anywhere)
    and ANY history of block writes, flag rewrites (BLOCK_TRUSTED / BLOCK_INVALID, the only two calls) of records the node holds
    and restarts (kill or clean shutdown, then LoadBlockIndex), with setBlockFlag and LoadBlockIndex AS WRITTEN IN THE SOURCE:
    the index file is the old records followed by the appended ones, in order, each with its compression / length / data-file
    bits and its data-file number unchanged - in particular every record still names the data file its block was written to -,
    nothing is overwritten, and the node's append position is the end of the file. -/
theorem idx_history_keeps_every_record (d : List IRec) (ops : List IOp) (hf : FlagsOK ops) :
    (Idx.run d ops).disk.map core = (d ++ appended ops).map core ∧
    (Idx.run d ops).disk.map dataFileOf = (d ++ appended ops).map dataFileOf ∧
    (Idx.run d ops).pos = 136 * (Idx.run d ops).disk.length := by
  have h1 : flagRewriteSource = .disk := by decide
  have h2 : invalidRecordAdvances = true := by decide
  have h := irun_inv d ops hf
  unfold Idx.run
  rw [h1, h2]
  exact ⟨h.2, map_dataFileOf_of_core _ _ h.2, h.1⟩

open GocoinV.Persist.Idx in
example : FlagsOK [.append ⟨0x3c, 1⟩, .flag 0 1, .restart, .flag 1 2, .append ⟨0x3d, 2⟩] := by
  intro i fl h
  simp at h
  rcases h with ⟨_, h⟩ | ⟨_, h⟩ <;> simp [h]

open GocoinV.Persist.Idx GocoinV.Gen.C07Facts in
/-- after a restart the node knows where every record is: LoadBlockIndex AS WRITTEN IN THE SOURCE, on ANY index file, returns the
    end of the file as the append position and, for the records not flagged invalid (in file order), exactly their byte
    positions as `ipos` (the position the next flag rewrite of that record writes to). -/
theorem idx_load_positions_exact (d : List IRec) :
    (iopen invalidRecordAdvances d).pos = 136 * d.length ∧
    (iopen invalidRecordAdvances d).mems.map (·.ipos) = validPos d 0 := by
  have h2 : invalidRecordAdvances = true := by decide
  rw [h2]
  exact ⟨(iopen_true d).1, (iopen_true d).2.1⟩

open GocoinV.Persist.Idx in
/-- … and it needs the advance in the invalid branch: if records flagged invalid do not advance the counter, then after a restart
    on [invalid record, valid record] the node believes the valid record is at byte 0 and the end of the file at byte 136; the
    next block written REPLACES the valid record (its block is lost from the index), and a flag rewrite of the valid record
    lands in the invalid one. -/
theorem idx_load_needs_the_advance :
    (irun .disk false [⟨0x3e, 1⟩, ⟨0x3d, 1⟩] [.append ⟨0x3c, 2⟩]).disk = [⟨0x3e, 1⟩, ⟨0x3c, 2⟩] ∧
    (irun .disk true [⟨0x3e, 1⟩, ⟨0x3d, 1⟩] [.append ⟨0x3c, 2⟩]).disk = [⟨0x3e, 1⟩, ⟨0x3d, 1⟩, ⟨0x3c, 2⟩] ∧
    (irun .disk false [⟨0x3e, 1⟩, ⟨0x3c, 1⟩] [.flag 0 1]).disk = [⟨0x3f, 1⟩, ⟨0x3c, 1⟩] := by
  decide

open GocoinV.Persist.Idx in
/-- … and it needs the byte READ BACK from the file: a flag byte rebuilt from the booleans the node keeps in memory (trusted,
    compressed, snappy, length) forgets BLOCK_INDEX, so the record of a block stored in data file 1 names data file 0 after it
    became trusted, while the rewrite as written keeps it. -/
theorem idx_flag_rewrite_from_memory_loses_the_data_file :
    (irun .memory true [⟨0x3c, 1⟩] [.flag 0 1]).disk.map dataFileOf = [0] ∧
    (irun .disk true [⟨0x3c, 1⟩] [.flag 0 1]).disk.map dataFileOf = [1] := by
  decide

open GocoinV.Persist.Idx GocoinV.Gen.C07Facts in
/-- "a clean shutdown followed by a restart reproduces the pre-shutdown state" at the level of WHICH BLOCK UTXO.db NAMES: with
    UnspentDB.Close's guard and the two "marks the set dirty" facts as the translator read them from the source, for ANY history of commits, undos (operator undo, reorganisations), Idle
    calls under any UTXO_SKIP_SAVE_BLOCKS and restarts, starting from a node whose clean set is the one on disk, every restart
    comes up at exactly the block and height the node had when it was shut down. -/
theorem close_restart_identity_model (s : CSt) (ops : List COp) (hs : Clean s) :
    ∀ p ∈ restartPairs closeSaveGuard commitSetsDirty undoSetsDirty s ops, p.1 = p.2 := by
  have h : closeSaveGuard = .dirty := by decide
  have h1 : commitSetsDirty = true := by decide
  have h2 : undoSetsDirty = true := by decide
  rw [h, h1, h2]
  exact restartPairs_dirty ops s hs

open GocoinV.Persist.Idx in
example : Clean ({ tip := 5, height := 5, dTip := 5, dHeight := 5 } : CSt) := by intro _; exact ⟨rfl, rfl⟩

open GocoinV.Persist.Idx in
/-- … and it needs the dirty flag ALONE: a guard that also asks whether the height in memory differs from the height on disk
    writes nothing after "snapshot at block 5 (height 5); block 5 undone; another block 55 accepted at height 5" - the restart
    comes up at block 5 although the node was shut down at block 55; the guard as written writes UTXO.db there. -/
theorem close_guard_by_height_loses_a_same_height_switch :
    restartPairs .dirtyAndHeightDiffers true true { tip := 5, height := 5, dTip := 5, dHeight := 5 } [.undo 4, .commit 55, .idle 0, .restart]
      = [((55, 5), (5, 5))] ∧
    restartPairs .dirty true true { tip := 5, height := 5, dTip := 5, dHeight := 5 } [.undo 4, .commit 55, .idle 0, .restart]
      = [((55, 5), (55, 5))] := by
  decide

open GocoinV.Persist.Idx in
/-- … and it needs UndoBlockTxs to mark the set dirty: "snapshot at block 5 complete; the operator undoes block 5; clean shutdown
    with nothing committed in between" - if the undo leaves the flag alone, Close writes nothing and the restart comes up at
    block 5 again (the undo silently did nothing); as written it comes up at block 4. The same for two undos. -/
theorem close_needs_undo_to_mark_the_set_dirty :
    restartPairs .dirty true false { tip := 5, height := 5, dTip := 5, dHeight := 5 } [.undo 4, .restart] = [((4, 4), (5, 5))] ∧
    restartPairs .dirty true true { tip := 5, height := 5, dTip := 5, dHeight := 5 } [.undo 4, .restart] = [((4, 4), (4, 4))] ∧
    restartPairs .dirty true false { tip := 5, height := 5, dTip := 5, dHeight := 5 } [.undo 4, .undo 3, .idle 4294967295, .restart]
      = [((3, 3), (5, 5))] := by
  decide

end GocoinV.Props.C07
