/-
  Props.C07 — restart after a crash at any point recovers a consistent chain state.
  Every theorem is about the definitions of Model/Persist.lean, i.e. the ones oracle_c07 executes and
  go/cmd/c07 compares with the real code at every crash point (point-name sequence and recovered state).
-/
import GocoinV.Proofs.C07
namespace GocoinV.Props.C07
open GocoinV.Persist GocoinV.Proofs.C07

/-! ## the central statement is FALSE of the code as written (DESIGN §7 F8) -/

/-- `crash_consistent` fails: on the 4-block history `witnessOps` (block 1; A on it; snapshot of A;
    B1, B2 on block 1 → reorganisation, which rewrites undo/2 with B1's undo data; blocks flushed) a
    crash right after B2's index record is written (effect number `witnessK`, before the next snapshot
    is complete) makes the restart load A's snapshot, move to B2 and undo A with B1's undo file:
    the recovered tip is B2 but coin 1 (spent by A only) is missing from the unspent set although it
    is unspent in the replay of B2's chain. -/
theorem crash_consistent_counterexample :
    witnessK ≤ (run [] witnessOps).es.length ∧
    consistentAt [] witnessOps witnessK = false ∧
    witnessShows = true := by
  decide +kernel

/-- the same history is consistent at every crash point that lies BEFORE the reorganisation touches
    an undo file, and again once the snapshot of the new branch is complete: the failure window is
    exactly "undo file rewritten … next snapshot renamed". -/
theorem witness_failure_window :
    ∀ k, k ≤ (run [] witnessOps).es.length →
      (consistentAt [] witnessOps k = false ↔ (witnessLo ≤ k ∧ k < witnessHi)) := by
  intro k hk
  have h : ∀ k, k < (run [] witnessOps).es.length + 1 →
      (consistentAt [] witnessOps k = false ↔ (witnessLo ≤ k ∧ k < witnessHi)) := by decide +kernel
  exact h k (by omega)

/-! ## crash consistency where the property's window is not entered

-- OPEN: crash_consistent_partial, full strength:
--   ∀ bigs ops, (∀ prefix, ¬ reorgAfterLastCompletedSnapshot prefix) → ∀ k ≤ (run bigs ops).es.length,
--     consistentAt bigs ops k = true
-- (invariant over the effect list: "UTXO.db or UTXO.old is a complete snapshot of a block whose whole
--  ancestry is in the index, and for every block between it and the best leaf the data file holds the
--  block"). Proved below only for the five concrete workload shapes the harness runs (every crash point
--  of each, by kernel evaluation) and, for ALL disks and contents, for the three multi-step updates
--  (snapshot save, undo-file write, block append) taken one at a time. -/

/-- extend the tip (three blocks, flushed one by one, no snapshot until Close): every crash point recovers -/
theorem crash_consistent_partial_extend :
    ∀ k, k ≤ (run [] wlExtend).es.length → consistentAt [] wlExtend k = true := by
  intro k hk
  have h : ∀ k, k < (run [] wlExtend).es.length + 1 → consistentAt [] wlExtend k = true := by decide +kernel
  exact h k (by omega)

/-- save after every block (two full chunks per snapshot: coins 2 and 3 are "big"): every crash point
    recovers — including UTXO.db already renamed to UTXO.old with the new snapshot half written -/
theorem crash_consistent_partial_save :
    ∀ k, k ≤ (run [2, 3] wlSave).es.length → consistentAt [2, 3] wlSave k = true := by
  intro k hk
  have h : ∀ k, k < (run [2, 3] wlSave).es.length + 1 → consistentAt [2, 3] wlSave k = true := by decide +kernel
  exact h k (by omega)

/-- a save paused after its first chunk is aborted by a new block, a later one is hurried: every crash point recovers -/
theorem crash_consistent_partial_abort :
    ∀ k, k ≤ (run [2, 3] wlAbort).es.length → consistentAt [2, 3] wlAbort k = true := by
  intro k hk
  have h : ∀ k, k < (run [2, 3] wlAbort).es.length + 1 → consistentAt [2, 3] wlAbort k = true := by decide +kernel
  exact h k (by omega)

/-- reorganise BEFORE any snapshot of the old branch exists (snapshot = block 1): every crash point recovers -/
theorem crash_consistent_partial_reorg_before_save :
    ∀ k, k ≤ (run [] wlReorgNoSave).es.length → consistentAt [] wlReorgNoSave k = true := by
  intro k hk
  have h : ∀ k, k < (run [] wlReorgNoSave).es.length + 1 → consistentAt [] wlReorgNoSave k = true := by decide +kernel
  exact h k (by omega)

/-! ## clean shutdown -/

/-- `clean_restart_identity` on the concrete shapes: after Close the restart yields exactly the tip and
    unspent set of the running node — also for the reorganisation history whose crash points fail. -/
theorem clean_restart_identity_partial :
    cleanRestartOK [] wlExtend = true ∧ cleanRestartOK [2, 3] wlSave = true ∧ cleanRestartOK [2, 3] wlAbort = true ∧
    cleanRestartOK [] wlReorgNoSave = true ∧ cleanRestartOK [] witnessOps = true := by
  decide +kernel
-- OPEN: clean_restart_identity : ∀ bigs ops, (run bigs ops).err = none → cleanRestartOK bigs (ops ++ [.close]) = true

/-! ## the multi-step updates are atomic under a crash — for ALL disks and contents -/

/-- writing an undo file (write undo/tmp, rename to undo/<h>): after a crash at either point and the
    restart's removal of undo/tmp, undo/<h> is the old file or the complete new one, every other height
    is untouched and no undo/tmp is left. -/
theorem undo_write_atomic (d : Disk) (u : UndoFile) (h : Nat) (k : Nat) :
    let d' := (recoverUnspent (applyAll d ((undoWriteEffects u h).take k))).1
    (getUndo d'.undo h = getUndo ((recoverUnspent d).1).undo h ∨ getUndo d'.undo h = some u) ∧
    (∀ h', h' ≠ h → getUndo d'.undo h' = getUndo d.undo h') ∧ d'.undoTmp = none :=
  undo_write_atomic' d u h k

/-- appending a block (data first, index record second): after a crash at any point the index is the old
    one or the old one plus the complete new record, and the data of every indexed block is present. -/
theorem block_append_atomic (d : Disk) (b : Block) (r : IdxRec) (hr : r.id = b.id) (k : Nat)
    (hinv : ∀ x ∈ d.idx, ∃ y ∈ d.dat, y.id = x.id) :
    let d' := applyAll d ((appendEffects b r).take k)
    (d'.idx = d.idx ∨ d'.idx = d.idx ++ [r]) ∧ (∀ x ∈ d'.idx, ∃ y ∈ d'.dat, y.id = x.id) :=
  block_append_atomic' d b r hr k hinv

example : ∃ d : Disk, ∀ x ∈ d.idx, ∃ y ∈ d.dat, y.id = x.id := ⟨{}, by simp⟩

/-- the snapshot save (rename UTXO.db→UTXO.old, create tmp, n chunks, final chunk, flush, rename tmp→UTXO.db):
    after a crash at ANY point the restart loads either the snapshot it would have loaded before the save
    started or — only after the last effect — the new one; it never loads nothing when something was there. -/
theorem save_crash_atomic (d : Disk) (sn : Snap) (n k : Nat) :
    let d' := applyAll d ((saveEffects sn n).take k)
    (recoverUnspent d').2.2 = (recoverUnspent d).2.2 ∨
      ((saveEffects sn n).length ≤ k ∧ (recoverUnspent d').2.2 = some sn) :=
  save_crash_atomic' d sn n k

/-- `saveEffects` is what the model's `startSave` (the function the oracle runs) emits. -/
theorem startSave_effects (s : St) (h1 : s.n.saving = none) (h2 : s.n.pause = false) :
    (startSave s false).es = s.es ++ saveEffects ⟨s.n.tip, s.n.lastHeight, s.n.utxo⟩ (nBig s.n) :=
  startSave_effects' s h1 h2

example : ∃ s : St, s.n.saving = none ∧ s.n.pause = false := ⟨{ n := {}, d := {} }, rfl, rfl⟩

/-- undo data is right when it is the block's own: undoing a valid block with ITS undo file gives back
    the unspent set (as a set) — the lemma that the height-keyed file breaks after a reorganisation. -/
theorem undo_own_commit (u : List Coin) (b : Block)
    (hv : validOn u b = true) (hfresh : ∀ c ∈ b.creates, c ∉ u) :
    ∀ c, c ∈ undoU (commitU u b) b b.spends ↔ c ∈ u :=
  undo_own_commit' u b hv hfresh

example : validOn [1, 2] ⟨1, 0, 1, [1], [3]⟩ = true ∧ ∀ c ∈ [3], c ∉ [1, 2] := by decide +kernel

end GocoinV.Props.C07
