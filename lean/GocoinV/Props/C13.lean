/-
  Props.C13 — property theorems for C13 (wallet-built transactions pay exactly what was asked and are fully
  valid). Theorems ONLY; helper lemmas are in GocoinV/Proofs/C13*.lean. All statements are about the
  definitions of Model/WalletTx.lean that the oracle executes and the harness compares with the wallet binary.
-/
import GocoinV.Proofs.C13
import GocoinV.Proofs.C13Sig
import GocoinV.Proofs.C13Demo
import GocoinV.Proofs.C13Final
import GocoinV.Proofs.C13Digest
import GocoinV.Proofs.C13Inst
import GocoinV.Proofs.C13Keys
import GocoinV.Proofs.C13Own
import GocoinV.Proofs.C13Inst2
import GocoinV.Gen.WalletFacts
namespace GocoinV.Props.C13
open GocoinV GocoinV.WalletTx GocoinV.WalletSpec

/-- **pays_exactly.** Whenever the model of a `-send`/`-batch` run writes a transaction `w`:
    its outputs are the requested (address, amount) pairs in order, followed by one change output iff the change
    is > 0 (value = change, script = the change address's script), followed by the OP_RETURN message iff `-msg`;
    its inputs are a sub-list (in file order) of the listed unspent outputs, all of them the wallet's own, with the
    asked sequence number; version and lock time are the asked ones; and — when the requested amounts plus the fee
    stay below 2^64 — Σ inputs = Σ outputs + fee exactly.
    Hypothesis: the wallet's own listed balance is below 2^64 satoshi. -/
theorem pays_exactly (H : Addr.Hashes) (c : Cfg) (ks : List KeyRec) (a2b : Bool) (coins : List Coin)
    (send : Option Bytes) (batch : Option (List Bytes)) (sig : Skeleton → SigFn) (w : Written)
    (hrun : runSend H c ks a2b coins send batch sig = .ok (some w))
    (hbal : ownedSum ks coins < 2^64) :
    ∃ req b outs chg,
      sendRequest H c send batch = .ok req ∧ build H c ks coins req = .ok b ∧
      PaysAll req.1 outs ∧
      w.tx.outs = outs ++ chg ++ (if c.msg.isEmpty then [] else [{ value := 0, script := msgScript c.msg }]) ∧
      (w.change = 0 → chg = []) ∧
      (0 < w.change → ∃ a s, changeAddr H c ks coins = .ok a ∧ Addr.outScript a = some s ∧
          chg = [{ value := w.change, script := s }]) ∧
      w.tx.ins.map (fun i => (i.txid, i.vout, i.sequence)) = b.spent.map (fun u => (u.txid, u.vout, c.seq)) ∧
      w.tx.version = c.version ∧ w.tx.lockTime = c.lockTime ∧
      b.spent.Sublist coins ∧ (∀ u ∈ b.spent, owned ks u = true) ∧
      (amtSum req.1 + c.fee < 2^64 → valSum b.spent = outSum w.tx.outs + c.fee) := by
  unfold runSend at hrun
  cases hreq : sendRequest H c send batch with
  | error e => simp [hreq] at hrun
  | ok req =>
    simp only [hreq] at hrun
    split at hrun
    · simp at hrun
    · cases hb : build H c ks coins req with
      | error e => simp [hb] at hrun
      | ok b =>
        simp only [hb, Except.ok.injEq, Option.some.injEq] at hrun
        subst hrun
        obtain ⟨outs, chg, h1, h2, h3, h4, h5, h6, h7, _, h9, h10, h11⟩ := build_spec H c ks coins req b hb hbal
        refine ⟨req, b, outs, chg, rfl, hb, h1, ?_, h3, h4, ?_, ?_, ?_, h9, h10, ?_⟩
        · simpa [signTx] using h2
        · have := signTx_skeleton H c ks sig (fun _ => none) b.tx
            (b.spent.map (fun u => some { value := u.value, script := u.script }))
          have hop := congrArg Skeleton.outpoints this
          simp only [skeleton] at hop
          rw [hop, h5]
          simp [List.map_map, Function.comp_def]
        · simpa [signTx] using h6
        · simpa [signTx] using h7
        · intro hnw
          have hinv : req.2 = u64 (amtSum req.1) := sendRequest_inv H c send batch req hreq
          have ha : u64 (amtSum req.1) = amtSum req.1 := u64_of_lt (by omega)
          rw [hinv, ha, u64_of_lt hnw] at h11
          have ho : outSum (signTx H c ks sig (fun _ => none) b.tx
              (b.spent.map (fun u => some { value := u.value, script := u.script }))).1.outs
              = amtSum req.1 + b.change := by
            have : (signTx H c ks sig (fun _ => none) b.tx
              (b.spent.map (fun u => some { value := u.value, script := u.script }))).1.outs = b.tx.outs := by
              simp [signTx]
            rw [this, h2]
            have hm : outSum (if c.msg.isEmpty then [] else [({ value := 0, script := msgScript c.msg } : TxOut)]) = 0 := by
              split <;> simp [outSum]
            have hc : outSum chg = b.change := by
              rcases Nat.eq_zero_or_pos b.change with hz | hp
              · rw [h3 hz, hz]; rfl
              · obtain ⟨a, s, _, _, hchg⟩ := h4 hp
                rw [hchg]; simp [outSum]
            have happ : ∀ a b : List TxOut, outSum (a ++ b) = outSum a + outSum b := by
              intro a b; simp [outSum, List.map_append, List.sum_append]
            rw [happ, happ, hm, hc, forall2_outSum _ _ h1]
            omega
          simp only [] at ho ⊢
          omega

/-- **inputs_distinct.** If the lines of unspent.txt name pairwise distinct outpoints, the inputs selected by
    make_signed_tx are pairwise distinct outpoints, each of them listed. -/
theorem inputs_distinct (H : Addr.Hashes) (c : Cfg) (ks : List KeyRec) (coins : List Coin) (req : Req) (b : Built)
    (hb : build H c ks coins req = .ok b) (hbal : ownedSum ks coins < 2^64)
    (hnd : (coins.map outpoint).Nodup) :
    (b.spent.map outpoint).Nodup ∧ ∀ u ∈ b.spent, u ∈ coins := by
  obtain ⟨_, _, _, _, _, _, _, _, _, _, hsub, _, _⟩ := build_spec H c ks coins req b hb hbal
  exact ⟨(hsub.map outpoint).nodup hnd, fun u hu => hsub.subset hu⟩

/-- **insufficient_writes_nothing.** If the wallet's own listed outputs sum to less than payments + fee
    (no wrap-around: payments + fee < 2^64), the run ends in `cleanExit(1)` and writes nothing — whatever the
    options (-useallinputs, -change, -msg …). -/
theorem insufficient_writes_nothing (H : Addr.Hashes) (c : Cfg) (ks : List KeyRec) (a2b : Bool) (coins : List Coin)
    (send : Option Bytes) (batch : Option (List Bytes)) (sig : Skeleton → SigFn) (req : Req)
    (hreq : sendRequest H c send batch = .ok req) (hne : req.1 ≠ [])
    (hnw : amtSum req.1 + c.fee < 2^64) (hlow : ownedSum ks coins < amtSum req.1 + c.fee) :
    runSend H c ks a2b coins send batch sig = .error .exit1 := by
  have hinv : req.2 = u64 (amtSum req.1) := sendRequest_inv H c send batch req hreq
  have ha : u64 (amtSum req.1) = amtSum req.1 := u64_of_lt (by omega)
  have hb := build_insufficient H c ks coins req (by rw [hinv, ha]; exact hnw) (by rw [hinv, ha]; exact hlow)
  unfold runSend
  simp only [hreq, hb]
  have : req.1.isEmpty = false := by
    cases h : req.1 with
    | nil => exact absurd h hne
    | cons _ _ => rfl
  simp [this]

/-- **raw_sign_preserves.** sign_tx (and therefore `-raw` signing and the signing step of `-send`) never alters
    version, lock time, the outpoints, the sequence numbers or the outputs of the transaction it is given:
    only scriptSig and witness data change. Holds for every signature function and every multisig result. -/
theorem raw_sign_preserves (H : Addr.Hashes) (c : Cfg) (ks : List KeyRec) (sig : Skeleton → SigFn) (ms : MsFn)
    (t : Tx) (spent : List (Option TxOut)) :
    skeleton (runRaw H c ks t spent sig ms).1 = skeleton t :=
  signTx_skeleton H c ks sig ms t spent

/-- non-vacuity of `raw_sign_preserves`' content: the skeleton really contains outputs and outpoints -/
example : (skeleton { version := 2, ins := [⟨[1], 0, [9], 5⟩], outs := [⟨7, [0x6a]⟩], wit := none, lockTime := 3 }).outpoints
    = [([1], 0, 5)] := by decide

/-- **ownership_is_four_templates.** What `pkscr_to_key` (pkscr_to_key_idx since the fix of finding F1) attributes to a
    key of the wallet's table is EXACTLY one of the four own scripts of a key of the table, and nothing else: P2PKH and
    P2WPKH of the key's public-key hash, P2SH of the hash of its script 00 14 <key hash> (only when the wallet is not in
    bech32 / tap mode), P2TR of its x-only key. In particular a script of ANOTHER template that merely carries one of the
    wallet's 20-byte hashes - `a9 14 HASH160(pub) 87`, `76 a9 14 HASH160(00 14 HASH160(pub)) 88 ac`, `00 14` of that
    script hash, a P2PKH / P2WPKH / P2SH to 20 zero bytes in bech32 mode, or `a9 <not 14> … 87` - is not owned (before the
    fix all of these were: finding F1). (⇒) holds for ANY key table and hash function; (⇐) for compressed keys and a
    20-byte HASH160. -/
theorem ownership_is_four_templates (H : Addr.Hashes) (c : Cfg) (pubs : List Bytes) (u : Coin) :
    (owned (keyTable H c.bech32 pubs) u = true → OwnScript c (keyTable H c.bech32 pubs) u.script) ∧
    ((∀ b, (H.hash160 b).length = 20) → (∀ p ∈ pubs, p.length = 33) →
      OwnScript c (keyTable H c.bech32 pubs) u.script → owned (keyTable H c.bech32 pubs) u = true) :=
  ⟨fun h => owned_is_own_script H c pubs u.script h,
   fun hl hp h => own_script_is_owned H c pubs u.script hl hp h⟩

/-- **change_is_own_address.** Without `-change`, the change address is derived from a listed unspent output
    that the wallet recognises as its own (pkscr_to_key ≠ nil), and the change output pays to exactly that
    output's script — i.e. to one of the wallet's own four scripts (`OwnScript`). Hypotheses: HASH160 yields 20 bytes,
    keys are 33-byte compressed. The former hypothesis `hshape` (every recognised output has one of the four own
    shapes) is now PROVED from ownership (`ownership_is_four_templates`). -/
theorem change_is_own_address (H : Addr.Hashes) (c : Cfg) (pubs : List Bytes) (coins : List Coin) (a : Addr.Addr)
    (hash_len : ∀ b, (H.hash160 b).length = 20) (pub_len : ∀ p ∈ pubs, p.length = 33)
    (hc : c.change = none) (h : changeAddr H c (keyTable H c.bech32 pubs) coins = .ok a) :
    ∃ u, u ∈ coins ∧ owned (keyTable H c.bech32 pubs) u = true ∧ OwnScript c (keyTable H c.bech32 pubs) u.script ∧
      Addr.outScript a = some u.script := by
  obtain ⟨u, hu, ho, hf⟩ := changeAddr_default H c _ coins a hc h
  have hs := owned_is_own_script H c pubs u.script ho
  exact ⟨u, hu, ho, hs, outScript_fromPkScript_own H c pubs u.script a hash_len pub_len hs hf⟩

/-- **signatures_verify_templates** (first version, kept: it holds for EVERY crypto instance satisfying the named
    sign/verify hypotheses, against the template reading `Spec.verifyInput`; superseded by `signatures_verify` below,
    which is about the real script rules and imports C03's theorems). For every input `i` of a transaction handed to sign_tx without witness data whose spent
    output is one of the wallet's own four types (P2PKH, P2WPKH, P2SH-P2WPKH when not in bech32 mode, P2TR key
    path), the signed transaction's input `i` passes `Spec.verifyInput` — the specialisation of consensus +
    standard script verification to these templates: right template, right public key (HASH160 / x-only match),
    right scriptCode, amount and digest kind, hash type ALL / DEFAULT, push-only minimal scriptSig, clean
    witness; and later signing steps do not invalidate it (the digests are functions of the skeleton).
    NAMED HYPOTHESES (trusted base, not axioms):
      `sign_verify_ecdsa`, `sign_verify_schnorr` — C03's statement: a signature made with key k verifies under
         k's public key for the same digest; `der_len`, `schnorr_len` — DER signatures have 1..74 bytes (so that
         `byte(len)` is a direct push), Schnorr signatures 64;
      digest-signed = digest-verified — C02's statement, built into the types: `Crypto.legacyDigest /
         witnessDigest / taprootDigest` take the `Skeleton` (and the spent outputs), nothing else;
      `hash_same`, `hash_len` — the verifier's HASH160 is the wallet's and yields 20 bytes;
      (`no_cross` — no key's HASH160 equals another key's P2SH-redeem hash — is no longer needed: since the fix every
         template is looked up among its own hashes only);
      `haddr` — NewAddrFromPkScript returns non-nil for the spent script (bech32 encoding succeeds);
      `hss` — a native witness input arrives with an empty scriptSig (always so for -send; the supplier's duty for -raw). -/
theorem signatures_verify_templates (H : Addr.Hashes) (C : Crypto) (S : Signer) (c : Cfg) (pubs : List Bytes) (ms : MsFn)
    (t : Tx) (spent : List TxOut) (i : Nat) (inp : TxIn) (uo : TxOut)
    (hash_same : C.hash160 = H.hash160) (hash_len : ∀ b, (H.hash160 b).length = 20)
    (sign_verify_ecdsa : ∀ k kr, (keyTable H c.bech32 pubs)[k]? = some kr → ∀ d, C.ecdsaVerify kr.pub (S.ecdsa k d) d = true)
    (der_len : ∀ k d, 1 ≤ (S.ecdsa k d).length ∧ (S.ecdsa k d).length ≤ 74)
    (sign_verify_schnorr : ∀ k kr, (keyTable H c.bech32 pubs)[k]? = some kr → ∀ d,
        C.schnorrVerify ((kr.pub.drop 1).take 32) (S.schnorr k d) d = true)
    (schnorr_len : ∀ k d, (S.schnorr k d).length = 64)
    (pub_len : ∀ p ∈ pubs, p.length = 33)
    (hwit : t.wit = none) (hin : t.ins[i]? = some inp) (hsp : spent[i]? = some uo) (hms : ms i = none)
    (hown : OwnScript c (keyTable H c.bech32 pubs) uo.script)
    (haddr : (Addr.fromPkScript H uo.script c.testnet).isSome)
    (hss : inp.scriptSig = [] ∨ uo.script.length = 25 ∨ uo.script.length = 23) :
    verifyInput C (runRaw H c (keyTable H c.bech32 pubs) t (spent.map some) (sigOf C S spent) ms).1 spent i = true :=
  verify_aux H C S c pubs ms t spent i inp uo hash_same hash_len sign_verify_ecdsa der_len sign_verify_schnorr
    schnorr_len pub_len hwit hin hsp hms hown haddr hss

/-! ### the four owned templates under the REAL script rules (`ScriptSpec.verifyScript`, the reference semantics that
    C01's `script_equiv` proves gocoin's `VerifyTxScript` equal to) — every oracle instance, every flag set that
    satisfies Core's flag dependencies (consensus flags and all standardness flags alike) -/

/-- P2PKH: scriptSig `<sig‖ht> <pub>` with an empty witness is accepted when HASH160(pub) = h and (sig‖ht, pub) is a
    `GoodSig` for the legacy digest of the scriptPubKey: strict DER, low S, defined hash type, compressed key, ECDSA
    equation. `hne`: the signature bytes are not the 20-byte hash itself (FindAndDelete would cut it out of the
    script code). -/
theorem p2pkh_accepted (O : Script.Oracles) (tx : Script.TxCtx) (f : ScriptSpec.Flags) (h sigh pub : Bytes)
    (hf : ScriptSpec.FlagsOk f) (hl : h.length = 20)
    (hss : tx.sigScript = push1 sigh ++ push1 pub) (hw : tx.witness = [])
    (hp : pub.length = 33) (hh : O.hash160 pub = h) (hne : sigh ≠ h)
    (hg : Proofs.C13S.GoodSig O .base (p2pkhScript h) sigh pub) :
    ScriptSpec.verifyScript O tx (p2pkhScript h) f = .ok () :=
  Proofs.C13S.verifyScript_p2pkh O tx f {} h sigh pub hf hl hss hw (by omega) (by omega) hh hne hg

/-- P2WPKH: empty scriptSig, witness `[sig‖ht, pub]`, BIP143 digest with script code DUP HASH160 <h> EQUALVERIFY
    CHECKSIG. `htrue`: the program is not "false" as a stack element (Core requires a true top after running the
    scriptPubKey, so a P2WPKH output to the all-zero hash is unspendable). -/
theorem p2wpkh_accepted (O : Script.Oracles) (tx : Script.TxCtx) (f : ScriptSpec.Flags) (h sigh pub : Bytes)
    (hf : ScriptSpec.FlagsOk f) (hl : h.length = 20) (hss : tx.sigScript = []) (hw : tx.witness = [sigh, pub])
    (hp : pub.length = 33) (hh : O.hash160 pub = h) (htrue : ScriptSpec.castToBool h = true)
    (hg : Proofs.C13S.GoodSig O .witnessV0 (p2pkhScript h) sigh pub) :
    ScriptSpec.verifyScript O tx (p2wpkhScript h) f = .ok () :=
  Proofs.C13S.verifyScript_p2wpkh O tx f {} h sigh pub hf hl hss hw (by omega) hh htrue hg

/-- P2SH-P2WPKH: scriptSig is exactly the push of the redeem script `0 <h>`, witness `[sig‖ht, pub]`. -/
theorem p2sh_p2wpkh_accepted (O : Script.Oracles) (tx : Script.TxCtx) (f : ScriptSpec.Flags) (sh h sigh pub : Bytes)
    (hf : ScriptSpec.FlagsOk f) (hl : h.length = 20) (hshl : sh.length = 20)
    (hss : tx.sigScript = push1 (p2wpkhScript h)) (hw : tx.witness = [sigh, pub])
    (hp : pub.length = 33) (hh : O.hash160 pub = h) (hsh : O.hash160 (p2wpkhScript h) = sh)
    (htrue : ScriptSpec.castToBool h = true)
    (hg : Proofs.C13S.GoodSig O .witnessV0 (p2pkhScript h) sigh pub) :
    ScriptSpec.verifyScript O tx (p2shScript sh) f = .ok () :=
  Proofs.C13S.verifyScript_p2sh_p2wpkh O tx f {} sh h sigh pub hf hl hshl hss hw (by omega) hh hsh htrue hg

/-- P2TR key path: empty scriptSig, witness `[sig]`, 64-byte signature (SIGHASH_DEFAULT) that verifies under the
    output key for the BIP341 key-path digest without annex. -/
theorem p2tr_keypath_accepted (O : Script.Oracles) (tx : Script.TxCtx) (f : ScriptSpec.Flags) (q sig d : Bytes)
    (hf : ScriptSpec.FlagsOk f) (hl : q.length = 32) (hss : tx.sigScript = []) (hw : tx.witness = [sig])
    (hs : sig.length = 64) (htrue : ScriptSpec.castToBool q = true)
    (hd : O.sigHashTap none [] 0 0 false = some d) (hv : O.schnorrVerify q sig d = some true) :
    ScriptSpec.verifyScript O tx (p2trScript q) f = .ok () :=
  Proofs.C13S.verifyScript_p2tr O tx f {} q sig d hf hl hss hw hs htrue hd hv

/-- non-vacuity of `FlagsOk`: gocoin's standard flag set (all 21 bits) and the consensus set -/
example : ScriptSpec.FlagsOk (ScriptSpec.Flags.ofMask 0x1FFFFF) ∧ ScriptSpec.FlagsOk (ScriptSpec.Flags.ofMask 0x20E15) := by
  decide

/-- What C03's signer hands out IS a good signature for the script rules (imported: `own_signature_accepted`,
    `sign_canonical`, `generator_order`; new: the DER bridges `strict_append`, `derS_append`, `parseBytes_append`):
    for a secret 0 < d < n, whenever `Signature.Sign` succeeds with R ≠ 0 on the digest the oracle hands out for
    (script code, SIGHASH_ALL), the bytes `Signature.Bytes() ‖ 01` with the compressed key of d·G satisfy everything
    OP_CHECKSIG asks under all flags, for every oracle whose `ecdsaVerify` is C03's model of `btc.EcdsaVerify`. -/
theorem own_signature_is_good (O : Script.Oracles) (sv : Script.SigVersion) (code : Bytes) (d k : Nat) (m : Bytes)
    (hd0 : 0 < d) (hdn : d < Secp.n) (hok : Proofs.C13L.SignOk d m k)
    (hdig : (if sv == .witnessV0 then O.sigHashWitV0 code 1 else O.sigHashLegacy code 1) = some m)
    (hO : ∀ pk sg dg, O.ecdsaVerify pk sg dg = some (Model.Sig.ecdsaVerify true pk sg dg)) :
    Proofs.C13S.GoodSig O sv code (Proofs.C13L.ecdsaDer d m k ++ [1]) (Secp.ser33 (Secp.mul d Secp.G)) :=
  Proofs.C13L.goodSig_of_sign O sv code d k m hd0 hdn hok hdig hO

/-- non-vacuity: `Sign` succeeds with R ≠ 0 for secret 1, digest 01, nonce 1 -/
example : Proofs.C13L.SignOk 1 [1] 1 := by
  unfold Proofs.C13L.SignOk
  have h : (Model.Sig.sign 1 (beVal [1]) 1).map (fun t => decide (t.1 ≠ 0)) = some true := by decide +kernel
  cases hs : Model.Sig.sign 1 (beVal [1]) 1 with
  | none => rw [hs] at h; simp at h
  | some t => obtain ⟨r, s, c⟩ := t; rw [hs] at h; exact ⟨r, s, c, rfl, by simpa using h⟩

/-- **digests_read_skeleton_only** (was OPEN). C02's models of `Tx.SignatureHash`, `Tx.WitnessSigHash` and
    `Tx.TaprootSigHash` (Model/SigHash.lean — the functions C02's check ties to lib/btc/tx.go and taproot.go) do not read
    the scriptSigs or the witness data of the transaction they are called on: for any two wallet transactions with the same
    skeleton (version, lock time, outpoints, sequence numbers, outputs) — e.g. the transaction while `sign_tx` is at input
    i, with the other inputs unsigned, partly signed or signed, and the final transaction the verifier sees — and ANY two
    coherent states of the per-transaction hash cache (filled by whichever earlier requests), for every script code,
    amount, input index, hash type and execution data: the legacy results are equal, the BIP143 results are equal, the
    BIP341 results are equal; and a cache that is coherent for one of them is coherent for the other (so the cache filled
    while signing stays valid for the finished transaction). `spent`: one spent output per input (BIP341 hashes them all).
    Proved by blanking: each function on `tx` equals itself on `stripTx tx` (all scriptSigs empty, witness nil) —
    `signatureHash_strip`, `witnessSigHash_strip`, `taprootSigHash_strip`, `cacheOK_strip` (Proofs/C13Digest.lean). -/
theorem digests_read_skeleton_only (sha : Bytes → Bytes) (t1 t2 : Tx) (hsk : skeleton t1 = skeleton t2) (spent : List TxOut)
    (hlen : t1.ins.length ≤ spent.length) (c1 c2 : SigHash.Cache)
    (h1 : SigHash.Cache.OK sha (toWire t1) (spent.map wireOut) c1) (h2 : SigHash.Cache.OK sha (toWire t2) (spent.map wireOut) c2) :
    (∀ sc i ht, SigHash.signatureHash sha (toWire t1) sc i ht = SigHash.signatureHash sha (toWire t2) sc i ht) ∧
    (∀ sc amount i ht, (SigHash.witnessSigHash sha (toWire t1) c1 sc amount i ht).1
        = (SigHash.witnessSigHash sha (toWire t2) c2 sc amount i ht).1) ∧
    (∀ ed i ht script, (SigHash.taprootSigHash true sha (toWire t1) (spent.map wireOut) c1 ed i ht script).1
        = (SigHash.taprootSigHash true sha (toWire t2) (spent.map wireOut) c2 ed i ht script).1) ∧
    SigHash.Cache.OK sha (toWire t2) (spent.map wireOut) c1 :=
  digests_same_skeleton sha t1 t2 hsk spent hlen c1 c2 h1 h2

/-- non-vacuity: two transactions that differ in a scriptSig and in the witness have the same skeleton, and the empty cache
    is coherent -/
example : skeleton { version := 2, ins := [⟨[1], 0, [9, 9], 5⟩], outs := [⟨7, [0x6a]⟩], wit := some [[[3]]], lockTime := 3 }
    = skeleton { version := 2, ins := [⟨[1], 0, [], 5⟩], outs := [⟨7, [0x6a]⟩], wit := none, lockTime := 3 } := by decide
example (sha : Bytes → Bytes) (t : Tx) (sp : List TxOut) : SigHash.Cache.OK sha (toWire t) (sp.map wireOut) {} :=
  SigHash.Cache.OK_empty _ _ _

/-- the wallet's digests: C02's three model functions evaluated on the skeleton (`c02Crypto`, Proofs/C13Digest.lean);
    the verify fields of `Crypto` are not used by `signatures_verify` -/
abbrev walletCrypto (sha : Bytes → Bytes) (H : Addr.Hashes) (K : C03Signer) : Crypto :=
  c02Crypto sha H.hash160 (Model.Sig.ecdsaVerify true) (Model.Sig.schnorrVerify K.tagged)

/-- **signatures_verify_given_digests** (the form of the previous pass, kept: ANY `Crypto` instance, with "digest signed =
    digest verified" as the hypotheses `dig_*`; `signatures_verify` below discharges them for C02's functions). -/
theorem signatures_verify_given_digests (H : Addr.Hashes) (O : Script.Oracles) (C : Crypto) (K : C03Signer) (f : ScriptSpec.Flags)
    (c : Cfg) (ms : MsFn) (t : Tx) (spent : List TxOut) (i : Nat) (inp : TxIn) (uo : TxOut)
    (hf : ScriptSpec.FlagsOk f)
    (hO_ecdsa : ∀ pk sg dg, O.ecdsaVerify pk sg dg = some (Model.Sig.ecdsaVerify true pk sg dg))
    (hO_schnorr : ∀ pk sg dg, O.schnorrVerify pk sg dg = some (Model.Sig.schnorrVerify K.tagged pk sg dg))
    (hash_same : O.hash160 = H.hash160) (hash_len : ∀ b, (H.hash160 b).length = 20)
    (dig_legacy : ∀ sc ht, O.sigHashLegacy sc ht = some (C.legacyDigest (skeleton t) i sc ht))
    (dig_wit : ∀ sc ht, O.sigHashWitV0 sc ht = some (C.witnessDigest (skeleton t) i sc uo.value ht))
    (dig_tap : O.sigHashTap none [] 0 0 false = some (C.taprootDigest (skeleton t) spent i 0))
    (hkeys : ∀ d ∈ K.secs, 0 < d ∧ d < Secp.n)
    (hcalls : ∀ j kr, (keyTable H c.bech32 K.pubs)[j]? = some kr → CallsOk C K (skeleton t) spent i uo j kr.h160)
    (no_clash : ∀ j kr, (keyTable H c.bech32 K.pubs)[j]? = some kr →
      K.signer.ecdsa j (C.legacyDigest (skeleton t) i uo.script 1) ++ [1] ≠ kr.h160)
    (nonzero : ∀ (k : Nat) (kr : KeyRec), (keyTable H c.bech32 K.pubs)[k]? = some kr →
      ScriptSpec.castToBool kr.h160 = true ∧ ScriptSpec.castToBool ((kr.pub.drop 1).take 32) = true)
    (hwit : t.wit = none) (hin : t.ins[i]? = some inp) (hsp : spent[i]? = some uo) (hms : ms i = none)
    (hown : OwnScript c (keyTable H c.bech32 K.pubs) uo.script)
    (haddr : (Addr.fromPkScript H uo.script c.testnet).isSome)
    (hss : inp.scriptSig = [] ∨ uo.script.length = 25 ∨ uo.script.length = 23) :
    ScriptSpec.verifyScript O
      (txCtxOf (runRaw H c (keyTable H c.bech32 K.pubs) t (spent.map some) (sigOf C K.signer spent) ms).1 i)
      uo.script f = .ok () :=
  signatures_verify_real H O C K f {} c ms t spent i inp uo hf hO_ecdsa hO_schnorr hash_same hash_len dig_legacy dig_wit
    dig_tap hkeys hcalls no_clash nonzero hwit hin hsp hms hown haddr hss

/-- **signatures_verify.** For every input `i` of a transaction handed to sign_tx without witness data whose spent
    output is one of the wallet's own four types (P2PKH, P2WPKH, P2SH-P2WPKH when not in bech32 mode, P2TR key path),
    the signed transaction's input `i` passes the REAL script rules `ScriptSpec.verifyScript` — scriptSig and witness
    as sign_tx assembled them (`txCtxOf`), the spent scriptPubKey, EVERY flag set satisfying Core's flag dependencies
    (so consensus and standardness alike: P2SH, WITNESS, TAPROOT, STRICTENC, DERSIG, LOW_S, NULLFAIL, SIGPUSHONLY,
    MINIMALDATA, CLEANSTACK, WITNESS_PUBKEYTYPE …) — where
      * the wallet signs the digests that C02's models of `SignatureHash` / `WitnessSigHash` / `TaprootSigHash` compute
        (`walletCrypto`), and the verifier's digest requests are answered by THE SAME model functions applied to the
        SIGNED transaction, in any coherent state of its hash cache (`hO_digests : DigestsAreC02 …` — like `hO_*` below
        this names which function the oracle is, it is not an equation between digests); "digest signed = digest
        verified" is PROVED from it (`digests_read_skeleton_only`: these functions read no scriptSig and no witness, and
        sign_tx changes nothing else — `raw_sign_preserves`);
      * `ecdsaVerify` / `schnorrVerify` ARE C03's models of `btc.EcdsaVerify` / `btc.SchnorrVerify` (`hO_*`), the wallet's
        keys are the compressed public keys of secrets in [1, n−1] and the signer is C03's `Signature.Sign`+`Bytes()` /
        `SchnorrSign` (`C03Signer`; nonce source and aux randomness arbitrary). The ECDSA/Schnorr sign⇒verify facts are
        IMPORTED from C03 (`own_signature_accepted`, `sign_canonical`, `schnorr_sign_verifies`, `generator_order`), not
        assumed; by C01's `script_equiv` the same verdict is gocoin's `VerifyTxScript`.
    Remaining hypotheses:
      `hspent`   one spent output per input is supplied (BIP341 hashes all of them; `TaprootSigHash` panics otherwise);
      `hcalls`   the ONE signing call the type of this input needs succeeds with R ≠ 0 (`CallsOk`: legacy `Tx.Sign` for a
                 25-byte P2PKH script, BIP143 `Tx.SignWitness` for 22-byte P2WPKH / 23-byte P2SH, `SchnorrSign` for 34-byte
                 P2TR; nothing is asked about the calls this input does not make) — the hypothesis inherited from C03
                 (`Sign` does not refuse R = 0);
      `hwit`     the transaction handed to sign_tx carries no witness data yet (always so for -send; for -raw it means the
                 file was serialised without witnesses — a partly signed segwit transaction fed back is NOT covered);
      `hin`, `hsp` input i exists and its spent output is supplied;  `hms` input i does not take the multisig branch
                 (sign_tx takes it when `btc.NewMultiSigFromScript` of the INCOMING scriptSig of the input is non-nil, as
                 `-p2sh` prepares it — the multisig branch is abstract in the model);
      `no_clash` the signature bytes ‖ 01 are not the 20-byte key hash itself (FindAndDelete; needs a 19-byte DER
                 signature equal to a HASH160);  `nonzero` no key hash / x-only key is "false" as a stack element
                 (all-zero, Core refuses such a witness program);  `haddr`, `hss` as in the first version. `hown` (the spent script is
                 one of the four own scripts) follows from ownership for every input a -send run selects
                 (`ownership_is_four_templates`, used in `send_signatures_verify`). -/
theorem signatures_verify (H : Addr.Hashes) (O : Script.Oracles) (sha : Bytes → Bytes) (K : C03Signer) (f : ScriptSpec.Flags)
    (c : Cfg) (ms : MsFn) (t : Tx) (spent : List TxOut) (i : Nat) (inp : TxIn) (uo : TxOut)
    (hf : ScriptSpec.FlagsOk f)
    (hO_ecdsa : ∀ pk sg dg, O.ecdsaVerify pk sg dg = some (Model.Sig.ecdsaVerify true pk sg dg))
    (hO_schnorr : ∀ pk sg dg, O.schnorrVerify pk sg dg = some (Model.Sig.schnorrVerify K.tagged pk sg dg))
    (hash_same : O.hash160 = H.hash160) (hash_len : ∀ b, (H.hash160 b).length = 20)
    (hO_digests : DigestsAreC02 O sha
      (runRaw H c (keyTable H c.bech32 K.pubs) t (spent.map some) (sigOf (walletCrypto sha H K) K.signer spent) ms).1
      spent i uo.value)
    (hspent : t.ins.length ≤ spent.length)
    (hkeys : ∀ d ∈ K.secs, 0 < d ∧ d < Secp.n)
    (hcalls : ∀ j kr, (keyTable H c.bech32 K.pubs)[j]? = some kr →
      CallsOk (walletCrypto sha H K) K (skeleton t) spent i uo j kr.h160)
    (no_clash : ∀ j kr, (keyTable H c.bech32 K.pubs)[j]? = some kr →
      K.signer.ecdsa j ((walletCrypto sha H K).legacyDigest (skeleton t) i uo.script 1) ++ [1] ≠ kr.h160)
    (nonzero : ∀ (k : Nat) (kr : KeyRec), (keyTable H c.bech32 K.pubs)[k]? = some kr →
      ScriptSpec.castToBool kr.h160 = true ∧ ScriptSpec.castToBool ((kr.pub.drop 1).take 32) = true)
    (hwit : t.wit = none) (hin : t.ins[i]? = some inp) (hsp : spent[i]? = some uo) (hms : ms i = none)
    (hown : OwnScript c (keyTable H c.bech32 K.pubs) uo.script)
    (haddr : (Addr.fromPkScript H uo.script c.testnet).isSome)
    (hss : inp.scriptSig = [] ∨ uo.script.length = 25 ∨ uo.script.length = 23) :
    ScriptSpec.verifyScript O
      (txCtxOf (runRaw H c (keyTable H c.bech32 K.pubs) t (spent.map some) (sigOf (walletCrypto sha H K) K.signer spent) ms).1 i)
      uo.script f = .ok () := by
  have hi : i < t.ins.length := by
    cases hlt : decide (i < t.ins.length) with
    | true => exact of_decide_eq_true hlt
    | false =>
      have : ¬ i < t.ins.length := of_decide_eq_false hlt
      rw [List.getElem?_eq_none (by omega)] at hin; cases hin
  obtain ⟨d1, d2, d3⟩ := dig_of_c02 O sha H.hash160 (Model.Sig.ecdsaVerify true) (Model.Sig.schnorrVerify K.tagged) t _
    (raw_sign_preserves H c (keyTable H c.bech32 K.pubs) (sigOf (walletCrypto sha H K) K.signer spent) ms t (spent.map some))
    spent i uo.value hi hspent hO_digests
  exact signatures_verify_real H O (walletCrypto sha H K) K f {} c ms t spent i inp uo hf hO_ecdsa hO_schnorr hash_same hash_len
    d1 d2 d3 hkeys hcalls no_clash nonzero hwit hin hsp hms hown haddr hss

/-- **signatures_verify_model_oracles.** `signatures_verify` for THE oracle instance made of the C02 and C03 model
    functions (`walletOracles`, Proofs/C13Inst.lean): digest requests = C02's `signatureHash` / `witnessSigHash` /
    `taprootSigHash` on the signed transaction, `ecdsaVerify` / `schnorrVerify` = C03's models of `btc.EcdsaVerify` /
    `btc.SchnorrVerify`, HASH160 = the wallet's. The four hypotheses that only name which function the oracle is
    (`hO_ecdsa`, `hO_schnorr`, `hash_same`, `hO_digests`) are gone — they hold by construction; the fields the four
    templates never consult (SHA-1, RIPEMD-160, tweak check …) are arbitrary (`base`). -/
theorem signatures_verify_model_oracles (H : Addr.Hashes) (base : Script.Oracles) (sha : Bytes → Bytes) (K : C03Signer)
    (f : ScriptSpec.Flags) (c : Cfg) (ms : MsFn) (t : Tx) (spent : List TxOut) (i : Nat) (inp : TxIn) (uo : TxOut)
    (hf : ScriptSpec.FlagsOk f) (hash_len : ∀ b, (H.hash160 b).length = 20)
    (hspent : t.ins.length ≤ spent.length)
    (hkeys : ∀ d ∈ K.secs, 0 < d ∧ d < Secp.n)
    (hcalls : ∀ j kr, (keyTable H c.bech32 K.pubs)[j]? = some kr →
      CallsOk (walletCrypto sha H K) K (skeleton t) spent i uo j kr.h160)
    (no_clash : ∀ j kr, (keyTable H c.bech32 K.pubs)[j]? = some kr →
      K.signer.ecdsa j ((walletCrypto sha H K).legacyDigest (skeleton t) i uo.script 1) ++ [1] ≠ kr.h160)
    (nonzero : ∀ (k : Nat) (kr : KeyRec), (keyTable H c.bech32 K.pubs)[k]? = some kr →
      ScriptSpec.castToBool kr.h160 = true ∧ ScriptSpec.castToBool ((kr.pub.drop 1).take 32) = true)
    (hwit : t.wit = none) (hin : t.ins[i]? = some inp) (hsp : spent[i]? = some uo) (hms : ms i = none)
    (hown : OwnScript c (keyTable H c.bech32 K.pubs) uo.script)
    (haddr : (Addr.fromPkScript H uo.script c.testnet).isSome)
    (hss : inp.scriptSig = [] ∨ uo.script.length = 25 ∨ uo.script.length = 23) :
    ScriptSpec.verifyScript
      (walletOracles base sha H.hash160 K.tagged
        (runRaw H c (keyTable H c.bech32 K.pubs) t (spent.map some) (sigOf (walletCrypto sha H K) K.signer spent) ms).1
        spent i uo.value)
      (txCtxOf (runRaw H c (keyTable H c.bech32 K.pubs) t (spent.map some) (sigOf (walletCrypto sha H K) K.signer spent) ms).1 i)
      uo.script f = .ok () :=
  signatures_verify H _ sha K f c ms t spent i inp uo hf (fun _ _ _ => rfl) (fun _ _ _ => rfl) rfl hash_len
    (walletOracles_digests base sha H.hash160 K.tagged _ spent i uo.value)
    hspent hkeys hcalls no_clash nonzero hwit hin hsp hms hown haddr hss

/-- **send_signatures_verify** (end-to-end corollary for `-send` / `-batch`, asked for by the second audit). Whenever the
    model of a send run writes a transaction `w` (request `req`, built transaction `b`): `w.tx` has one input per
    selected coin, and EVERY input i of it passes the real script rules `ScriptSpec.verifyScript` against the script of
    the coin it spends, for every flag set with Core's dependencies, under the model oracles (C02 digests of the signed
    transaction, C03 verifiers) - the conclusion of `signatures_verify_model_oracles` for all inputs at once.
    Discharged here, not assumed: `hown` (every selected coin is owned, and owned ⇒ one of the four own scripts:
    `ownership_is_four_templates` - the step that was FALSE before the fix of finding F1), `hwit` (make_signed_tx builds
    a transaction without witness data), `hin` / `hsp` / `hspent` (one spent output per input, in order), `hms` (no
    multisig branch in a send run), `hss` (scriptSigs start empty).
    Remaining hypotheses, each for every selected coin: `hbal` (the wallet's listed balance is below 2^64), `hcalls` (the one
    signing call the coin's type needs succeeds with R ≠ 0), `no_clash` (signature‖01 is not the key hash), `nonzero`,
    `haddr` (NewAddrFromPkScript is non-nil for the coin's script: the bech32 encoder succeeds), `hkeys`, `hash_len`. -/
theorem send_signatures_verify (H : Addr.Hashes) (base : Script.Oracles) (sha : Bytes → Bytes) (K : C03Signer)
    (f : ScriptSpec.Flags) (c : Cfg) (a2b : Bool) (coins : List Coin) (send : Option Bytes) (batch : Option (List Bytes))
    (req : Req) (b : Built) (w : Written)
    (hf : ScriptSpec.FlagsOk f) (hash_len : ∀ x, (H.hash160 x).length = 20)
    (hkeys : ∀ d ∈ K.secs, 0 < d ∧ d < Secp.n)
    (hreq : sendRequest H c send batch = .ok req) (hb : build H c (keyTable H c.bech32 K.pubs) coins req = .ok b)
    (hbal : ownedSum (keyTable H c.bech32 K.pubs) coins < 2^64)
    (hrun : runSend H c (keyTable H c.bech32 K.pubs) a2b coins send batch
      (sigOf (walletCrypto sha H K) K.signer (spentOuts b)) = .ok (some w))
    (hcalls : ∀ i uo, (spentOuts b)[i]? = some uo → ∀ j kr, (keyTable H c.bech32 K.pubs)[j]? = some kr →
      CallsOk (walletCrypto sha H K) K (skeleton b.tx) (spentOuts b) i uo j kr.h160)
    (no_clash : ∀ i uo, (spentOuts b)[i]? = some uo → ∀ j kr, (keyTable H c.bech32 K.pubs)[j]? = some kr →
      K.signer.ecdsa j ((walletCrypto sha H K).legacyDigest (skeleton b.tx) i uo.script 1) ++ [1] ≠ kr.h160)
    (nonzero : ∀ (k : Nat) (kr : KeyRec), (keyTable H c.bech32 K.pubs)[k]? = some kr →
      ScriptSpec.castToBool kr.h160 = true ∧ ScriptSpec.castToBool ((kr.pub.drop 1).take 32) = true)
    (haddr : ∀ u ∈ b.spent, (Addr.fromPkScript H u.script c.testnet).isSome) :
    w.tx.ins.length = b.spent.length ∧
    ∀ i uo, (spentOuts b)[i]? = some uo →
      ScriptSpec.verifyScript (walletOracles base sha H.hash160 K.tagged w.tx (spentOuts b) i uo.value)
        (txCtxOf w.tx i) uo.script f = .ok () := by
  obtain ⟨_, _, _, _, _, _, hins, _, _, hwit, _, hown, _⟩ := build_spec H c _ coins req b hb hbal
  have htx := runSend_tx H c _ a2b coins send batch _ req b w hreq hb hrun
  have hlen : b.tx.ins.length = b.spent.length := by rw [hins]; simp
  refine ⟨?_, ?_⟩
  · have := congrArg (fun s => s.outpoints.length) (raw_sign_preserves H c (keyTable H c.bech32 K.pubs)
      (sigOf (walletCrypto sha H K) K.signer (spentOuts b)) (fun _ => none) b.tx ((spentOuts b).map some))
    simp only [skeleton, List.length_map] at this
    rw [htx, this, hlen]
  · intro i uo hi
    rw [htx]
    have hi' : i < b.spent.length := by
      have : i < (spentOuts b).length := by
        cases hlt : decide (i < (spentOuts b).length) with
        | true => exact of_decide_eq_true hlt
        | false =>
          have : ¬ i < (spentOuts b).length := of_decide_eq_false hlt
          rw [List.getElem?_eq_none (by omega)] at hi; cases hi
      simpa [spentOuts] using this
    have hu : b.spent[i]? = some b.spent[i] := by simp [hi']
    have huo : uo = { value := b.spent[i].value, script := b.spent[i].script } := by
      simp [spentOuts, hu] at hi; exact hi.symm
    have hmem : b.spent[i] ∈ b.spent := List.getElem_mem hi'
    have hin : b.tx.ins[i]? = some { txid := b.spent[i].txid, vout := b.spent[i].vout, scriptSig := [], sequence := c.seq } := by
      rw [hins]; simp [hu]
    exact signatures_verify_model_oracles H base sha K f c (fun _ => none) b.tx (spentOuts b) i _ uo hf hash_len
      (by rw [hlen]; simp [spentOuts]) hkeys (hcalls i uo hi) (no_clash i uo hi) nonzero hwit hin hi rfl
      (by rw [huo]; exact owned_is_own_script H c K.pubs _ (hown _ hmem))
      (by rw [huo]; exact haddr _ hmem) (Or.inl rfl)

/-! ### source facts (Gen/WalletFacts.lean, regenerated from wallet/*.go and lib/btc/funcs.go by go/cmd/gen_c13 on every run) -/

/-- **source_guards_are_the_models.** The guards the translator reads off the CURRENT source are, for ALL values, the
    guards the model is written with: the change output is added iff `changeBtc > 0` (`build`: `if change > 0`); the run is
    refused iff `btcsofar < spendBtc+feeBtc` (uint64 sum; `build`: `if s.total < need`), tested BEHIND the selection
    loop; the loop stops iff `!useallinputs && btcsofar >= spendBtc+feeBtc` (`select`); `-f` is refused iff
    `am < curFee`, in front of `am -= curFee`, under `*subfee && i == 0` (`parseSendItem`); and `writePutLen` IS the
    switch of `btc.WritePutLen` with the three bounds read from the source (76 = OP_PUSHDATA1, 0x100, 0x10000). An edit
    of the polarity, an operand or a constant of one of these guards (e.g. `changeBtc >= 0`, `<= OP_PUSHDATA1`, the fund
    test moved in front of the loop) makes this theorem false; operand order and a hoisted local (`needBtc :=
    spendBtc + feeBtc`) do not matter. -/
theorem source_guards_are_the_models :
    (∀ n, Gen.WalletFacts.changeGuard n = decide (n > 0)) ∧
    (∀ s a f, Gen.WalletFacts.insufficient s a f = decide (s < u64 (a + f))) ∧
    Gen.WalletFacts.fundTestBehindLoop = true ∧
    (∀ ua s a f, Gen.WalletFacts.selectionStop ua s a f = (!ua && decide (s ≥ u64 (a + f)))) ∧
    (∀ a f, Gen.WalletFacts.subfeeRefuse a f = decide (a < f)) ∧
    Gen.WalletFacts.subfeeRefusalBeforeSubtraction = true ∧ Gen.WalletFacts.subfeeCondition = "*subfee&&i==0" ∧
    (∀ n, writePutLen n =
      if Gen.WalletFacts.putLenCase1 n then [UInt8.ofNat n]
      else if Gen.WalletFacts.putLenCase2 n then [0x4c, UInt8.ofNat n]
      else if Gen.WalletFacts.putLenCase3 n then 0x4d :: leBytes 2 n else 0x4e :: leBytes 4 n) := by
  refine ⟨?_, ?_, rfl, ?_, ?_, rfl, rfl, ?_⟩
  · intro n; unfold Gen.WalletFacts.changeGuard
    first | rfl | (simp only [decide_eq_decide]; omega)
  · intro s a f; unfold Gen.WalletFacts.insufficient u64
    first | rfl | (simp only [decide_eq_decide]; omega)
  · intro ua s a f; unfold Gen.WalletFacts.selectionStop u64
    cases ua <;> first | rfl | (simp only [Bool.not_true, Bool.not_false, Bool.false_and, Bool.true_and, decide_eq_decide]; omega)
  · intro a f; unfold Gen.WalletFacts.subfeeRefuse
    first | rfl | (simp only [decide_eq_decide]; omega)
  · intro n
    unfold writePutLen Gen.WalletFacts.putLenCase1 Gen.WalletFacts.putLenCase2 Gen.WalletFacts.putLenCase3
    simp only [decide_eq_true_eq]

/-- **source_lookups_are_per_template.** What the translator reads off the CURRENT wallet.go / signtx.go about key
    look-ups is what the model is written with (and what the fix of finding F1 established): `pkscr_to_key_idx` has
    exactly the four template tests of `pkscrToKey` (length and fixed bytes, INCLUDING the 0x14 push byte of P2SH) and
    calls `pubhash_to_key_idx` for P2KH [3:23] and P2WPKH [2:], `scripthash_to_key_idx` for P2SH [2:22],
    `public_xo_to_key_idx` for P2TR [2:]; `pubhash_to_key_idx` compares keys[i].BtcAddr.Hash160 only,
    `scripthash_to_key_idx` compares segwit[i].Hash160 only and only behind `segwit[i] != nil` and `SegwitProg == nil`
    (never the zero hash of a witness-program address), each returning the first matching index of keys[];
    `sign_tx` calls these three and not `hash_to_key_idx`, each on the bytes the model says, and tests
    `segwit[k_idx] != nil` before comparing address strings (fix 98d8f688); `make_wallet` makes segwit[] with len(keys),
    writes entries only at the key's own index and skips keys that are not compressed (`keyTable`). Reverting one of the
    fixes ebf80672 / 98d8f688, or building segwit[] by append, changes these facts and breaks this theorem.
    NOT pinned by facts (tied by the differential harness only): the conditions under which sign_tx picks each
    look-up, input selection order, output assembly, the parsers, the balance-file update, Tx.Sign / SignWitness. -/
theorem source_lookups_are_per_template :
    Gen.WalletFacts.pkscrTemplates =
      ["len=25 00=118 01=169 02=20 23=136 24=172 -> pubhash_to_key_idx[3:23]",
       "len=23 00=169 01=20 22=135 -> scripthash_to_key_idx[2:22]",
       "len=22 00=0 01=20 -> pubhash_to_key_idx[2:end]",
       "len=34 00=81 01=32 -> public_xo_to_key_idx[2:end]"] ∧
    Gen.WalletFacts.pubhashMatch = ["bytes.Equal(h,keys[i].BtcAddr.Hash160[:])"] ∧
    Gen.WalletFacts.scripthashMatch = ["segwit[i]!=nil", "segwit[i].SegwitProg==nil", "bytes.Equal(h,segwit[i].Hash160[:])"] ∧
    Gen.WalletFacts.xonlyMatch = ["bytes.Equal(h,keys[i].BtcAddr.Pubkey[1:33])"] ∧
    Gen.WalletFacts.segwitMadeWithLenKeys = true ∧ Gen.WalletFacts.segwitWrittenAtKeyIndex = true ∧
    Gen.WalletFacts.segwitSkipsUncompressed = true ∧
    Gen.WalletFacts.signTxLookups = ["pubhash_to_key_idx", "public_xo_to_key_idx", "scripthash_to_key_idx"] ∧
    Gen.WalletFacts.signTxDispatch = ["pubhash_to_key_idx(adr.Hash160[:])", "pubhash_to_key_idx(segwit_prog)",
      "public_xo_to_key_idx(segwit_prog)", "scripthash_to_key_idx(adr.Hash160[:])"] ∧
    Gen.WalletFacts.signTxP2shBranch = ["segwit[k_idx]!=nil", "adr.String()==segwit[k_idx].String()"] :=
  ⟨rfl, rfl, rfl, rfl, rfl, rfl, rfl, rfl, rfl, rfl⟩

/-- **wallet_der_is_c03_bytes.** The wallet does not call C03's `Signature.Bytes()`: `Tx.Sign` and `Tx.SignWitness`
    (lib/btc/tx.go) assemble the DER blob themselves from the (r, s) that `btc.EcdsaSign` returns (`r.Bytes()`, `s.Bytes()`,
    manual 0x00 pad, hand-written header) — modelled statement by statement in Model/WalletDer.lean (`txSignBusig`).
    (1) For ALL r, s and hash-type bytes that blob is `Signature.Bytes()` of (r, s) followed by the hash-type byte — the
    same bytes, and the same index panic when r = 0 or s = 0. (2) On the output of a successful `Signature.Sign` (R ≠ 0)
    it is therefore `ecdsaDer d m k ++ [01]`, the signature `signatures_verify` is stated for. (3) The scriptSig /
    witness stack that `Tx.Sign` / `Tx.SignWitness` store are the ones `signInput` of the wallet model assembles.
    (That `btc.EcdsaSign` hands `Signature.Sign`'s (R, S) through unchanged is read off ecdsa.go and tied by the harness:
    in `-rfc6979` runs the DER bytes in the real wallet's output equal `txSignRfc`, request `signrfc`.) -/
theorem wallet_der_is_c03_bytes :
    (∀ (r s : Nat) (ht : UInt8), txSignBusig r s ht = (Model.Sig.sigBytes r s).map (· ++ [ht])) ∧
    (∀ (d k : Nat) (m : Bytes), 0 < d → d < Secp.n → Proofs.C13L.SignOk d m k →
      ∃ r s recid, Model.Sig.sign d (beVal m) k = some (r, s, recid) ∧
        txSignBusig r s 1 = some (Proofs.C13L.ecdsaDer d m k ++ [1])) ∧
    (∀ busig pub : Bytes, txSignScriptSig busig pub = push1 busig ++ push1 pub ∧ txSignWitness busig pub = [busig, pub]) :=
  ⟨txSignBusig_eq_sigBytes, fun d k m h0 hn hok => txSign_is_ecdsaDer d k m h0 hn hok, txSign_assembly⟩

/-- non-vacuity / content of `wallet_der_is_c03_bytes`: a value with the top bit set gets the 0x00 pad, r = 0 is the panic -/
example : txSignBusig 0x80 1 1 = some [0x30, 7, 2, 2, 0, 0x80, 2, 1, 1, 1] ∧ txSignBusig 0 1 1 = none := by decide +kernel

/-- **msg_output_is_canonical_push.** The `-msg` output script is OP_RETURN followed by the CANONICAL push of the message
    (`ScriptSpec.pushEncoding`, Core's `CScript() << data`: direct push below 76 bytes, OP_PUSHDATA1 for 76..255,
    OP_PUSHDATA2 for 256..65535, OP_PUSHDATA4 above) for every message shorter than 2^32 bytes — since the fix of
    `btc.WritePutLen` (`<` instead of `<=` OP_PUSHDATA1; before it a 76-byte message gave `6a 4c <76 bytes>`, not a push). -/
theorem msg_output_is_canonical_push (msg : Bytes) (h : msg.length < 2^32) :
    msgScript msg = 0x6a :: ScriptSpec.pushEncoding msg := by
  have hu : u32 msg.length = msg.length := by unfold u32; exact Nat.mod_eq_of_lt h
  unfold msgScript writePutLen ScriptSpec.pushEncoding
  rw [hu]
  by_cases h1 : msg.length < 0x4c
  · simp [h1]
  · by_cases h2 : msg.length < 0x100
    · have : msg.length ≤ 0xff := by omega
      simp [h1, h2, this]
    · by_cases h3 : msg.length < 0x10000
      · have a : ¬ msg.length ≤ 0xff := by omega
        have b : msg.length ≤ 0xffff := by omega
        simp [h1, h2, h3, a, b]
      · have a : ¬ msg.length ≤ 0xff := by omega
        have b : ¬ msg.length ≤ 0xffff := by omega
        simp [h1, h2, h3, a, b]

/-- the 76-byte boundary: OP_RETURN OP_PUSHDATA1 76 … -/
example : (msgScript (List.replicate 76 0x41)).take 4 = [0x6a, 0x4c, 0x4c, 0x41] ∧
    (msgScript (List.replicate 75 0x41)).take 3 = [0x6a, 0x4b, 0x41] := by decide

/-- `stringToSatoshis` on a plain decimal `w.ffffffff` (8 fraction digits) is exact below 2^64 and WRAPS above
    (DESIGN O4, outside the property's quantifier): 184467440737.09551616 BTC = 2^64 satoshi parses as 0. -/
theorem stringToSatoshis_wraps :
    stringToSatoshis (strBytes "184467440737.09551616") = .ok 0 ∧
    stringToSatoshis (strBytes "184467440737.09551615") = .ok (2^64 - 1) ∧
    stringToSatoshis (strBytes "0.00000001") = .ok 1 := by
  refine ⟨?_, ?_, ?_⟩ <;> decide +kernel

/-! ### the key table with imported keys (.others): compressed AND uncompressed keys, in any positions.
    make_wallet keeps two slices - keys[] (imported keys first, then the deterministic ones) and segwit[], which
    hash_to_key_idx, sign_tx, pkscr_to_key and apply_to_balance all read as "segwit[i] is the SegWit address OF keys[i]"
    (nil for a key that is not compressed). The theorems of this section are about tables of ARBITRARY public keys
    (no `pub_len` hypothesis). -/

/-- **keys_segwit_index_parallel.** The model's record table EQUALS A SECOND, slice-level transcription of make_wallet's
    SegWit loop (`segTable`: made with len(keys), entry i written inside `for i, pk := range keys`, left nil when the key is
    not compressed; an entry that is not a P2SH address - bech32 / tap mode - counts as "no script hash") zipped index by
    index: it has one entry per key, and record i = (keys[i].Pubkey, keys[i].Hash160, the script hash of segwit[i] or the
    "none" marker). A SegWit slice that skips the uncompressed keys instead (shorter, entries shifted) is not this table.
    Both sides are model definitions (nothing here is generated from wallet.go); the link to the Go code is the harness's
    .others corpus. -/
theorem keys_segwit_index_parallel (H : Addr.Hashes) (b : Bool) (pubs : List Bytes) :
    (segTable H b pubs).length = pubs.length ∧
    ∀ i, (keyTable H b pubs)[i]? =
      (pubs[i]?).map fun p => ({ pub := p, h160 := H.hash160 p, segH160 := ((segTable H b pubs).getD i none).getD [] } : KeyRec) :=
  ⟨segTable_length H b pubs, keyTable_zip H b pubs⟩

/-- **script_hash_lookup_is_slice_loop.** `scriptHashToKeyIdx` on the record table (what the model's sign_tx / pkscr_to_key
    / balance update use for a P2SH script) equals the second transcription of scripthash_to_key_idx written over the two
    slices: ONE loop over the index range of keys[], returning the first i whose segwit[i] is a P2SH address with
    Hash160 = h - for EVERY h. In particular the index returned for a script hash is an index INTO keys[].
    (Model-vs-model, like the theorem above.) -/
theorem script_hash_lookup_is_slice_loop (H : Addr.Hashes) (b : Bool) (pubs : List Bytes) (h : Bytes) :
    scriptHashToKeyIdx (keyTable H b pubs) h = scriptHashToKeyIdxSlices pubs (segTable H b pubs) h :=
  scriptHashToKeyIdx_is_slice_loop H b pubs h

/-- **p2sh_input_attributed_to_owner.** In a wallet whose table may hold uncompressed imported keys at any positions
    (not in bech32 mode), sign_tx on a P2SH-P2WPKH output of the compressed key at index k attributes the input to a
    COMPRESSED key q of the table whose own redeem script 00 14 HASH160(q) hashes to the script hash being spent:
    scriptSig = push of exactly that redeem script, witness = <sig‖01> <q>, BIP143 script code = q's P2PKH script.
    (So HASH160(scriptSig's push) = the hash in the spent script - the P2SH evaluation cannot fail on the redeem
    script, wherever the uncompressed keys stand.) Hypotheses: HASH160 yields 20 bytes; `no_cross`. -/
theorem p2sh_input_attributed_to_owner (H : Addr.Hashes) (c : Cfg) (pubs : List Bytes) (sig : SigFn) (i k : Nat) (p : Bytes)
    (v : Nat) (hash_len : ∀ b, (H.hash160 b).length = 20)
    (hk : pubs[k]? = some p) (hp : p.length = 33) (hb : c.bech32 = false) :
    ∃ j q, pubs[j]? = some q ∧ q.length = 33 ∧
      H.hash160 ([0, 20] ++ H.hash160 q) = H.hash160 ([0, 20] ++ H.hash160 p) ∧
      signInput H c (keyTable H c.bech32 pubs) sig i
          (some { value := v, script := p2shScript (H.hash160 ([0, 20] ++ H.hash160 p)) }) =
        { scriptSig := some ([22, 0, 20] ++ H.hash160 q),
          witness := some [sig i (.witv0 j (p2pkhScript (H.hash160 q)) v) ++ [1], q], signed := true } :=
  p2sh_attribution H c pubs sig i k p v hash_len hk hp hb

/-- **p2pkh_input_attributed_to_owner.** sign_tx on the P2PKH output of ANY key of the table - compressed or an
    uncompressed imported one, whose SegWit entry is nil (after fix 98d8f688 sign_tx tests `segwit[k] != nil` before
    comparing addresses; before, it dereferenced the nil entry) - takes the legacy branch: scriptSig =
    <Tx.Sign signature over the spent script ‖01> <q> for a key q of the table with HASH160(q) = the hash being spent. -/
theorem p2pkh_input_attributed_to_owner (H : Addr.Hashes) (c : Cfg) (pubs : List Bytes) (sig : SigFn) (i k : Nat) (p : Bytes)
    (v : Nat) (hash_len : ∀ b, (H.hash160 b).length = 20) (hk : pubs[k]? = some p) :
    ∃ j q, pubs[j]? = some q ∧ H.hash160 q = H.hash160 p ∧
      signInput H c (keyTable H c.bech32 pubs) sig i (some { value := v, script := p2pkhScript (H.hash160 p) }) =
        { scriptSig := some (push1 (sig i (.legacy j (p2pkhScript (H.hash160 p))) ++ [1]) ++ push1 q),
          witness := none, signed := true } :=
  p2pkh_attribution H c pubs sig i k p v hash_len hk

section MixedTable
open GocoinV.WalletTx.Demo

/-- the mixed table [uncompressed imported key, compressed key]: the SegWit slice is [nil, entry of key 1] -/
example : (segTable H0 false [unc0, pub0]).map Option.isSome = [false, true] := by decide +kernel

/-- hypotheses of p2sh_input_attributed_to_owner are satisfiable on the mixed table (key 1 behind the uncompressed key) -/
example :=
  p2sh_input_attributed_to_owner H0 c0 [unc0, pub0] (fun _ _ => [0x30]) 0 1 pub0 5 (by intro b; simp [H0]) rfl
    (by simp [pub0]) rfl

/-- … and the conclusion observed by evaluation: the redeem script written is key 1's (00 14 HASH160(pub0)), the key
    index handed to the signer is 1 - not 0, which a SegWit slice without the nil entry would give -/
example : signInput H0 c0 (keyTable H0 false [unc0, pub0]) (fun _ r => match r with | .witv0 j _ _ => [UInt8.ofNat j] | _ => []) 0
      (some { value := 5, script := p2shScript (H0.hash160 ([0, 20] ++ H0.hash160 pub0)) }) =
    { scriptSig := some ([22, 0, 20] ++ H0.hash160 pub0), witness := some [[1, 1], pub0], signed := true } := by decide +kernel

/-- p2pkh_input_attributed_to_owner on the uncompressed key itself (index 0): legacy scriptSig with the 65-byte key -/
example :=
  p2pkh_input_attributed_to_owner H0 c0 [unc0, pub0] (fun _ _ => [0x30]) 0 0 unc0 5 (by intro b; simp [H0]) rfl

example : (signInput H0 c0 (keyTable H0 false [unc0, pub0]) (fun _ _ => [0x30]) 0
      (some { value := 5, script := p2pkhScript (H0.hash160 unc0) })).scriptSig = some ([2, 0x30, 1, 65] ++ unc0) := by decide +kernel

/-- script_hash_lookup_is_slice_loop observed: both sides give index 1 for key 1's P2SH hash; the uncompressed key's
    PUBLIC-KEY hash is found by the public-key look-up (index 0) and NOT by the script-hash look-up -/
example : scriptHashToKeyIdx (keyTable H0 false [unc0, pub0]) (List.replicate 20 22) = some 1 ∧
    scriptHashToKeyIdxSlices [unc0, pub0] (segTable H0 false [unc0, pub0]) (List.replicate 20 22) = some 1 ∧
    pubHashToKeyIdx (keyTable H0 false [unc0, pub0]) (List.replicate 20 65) = some 0 ∧
    scriptHashToKeyIdx (keyTable H0 false [unc0, pub0]) (List.replicate 20 65) = none := by decide +kernel

end MixedTable

/-! ### non-vacuity: the hypotheses are satisfiable and the conclusions are observed on a concrete instance
    (toy hash / always-true verifier from Proofs/C13Demo.lean; one P2PKH coin of 0.6 BTC, pay 0.5 BTC, fee 1000) -/
section NonVacuity
open GocoinV.WalletTx.Demo

/-- the request parses: one destination, spendBtc = 0.5 BTC -/
example : ((okReq (sendRequest H0 c0 (some send0) none)).map (fun q => (q.1.length, q.2))) = some (1, 50000000) := by decide +kernel

/-- insufficient_writes_nothing: empty balance ⇒ exit 1 -/
example : isExit1 (runSend H0 c0 ks0 true [] (some send0) none (fun _ _ _ => [])) = true := by decide +kernel

/-- pays_exactly: one input, outputs [0.5 BTC, change 0.09999 BTC], fee 1000 -/
example : ((written (runSend H0 c0 ks0 true [coin0] (some send0) none (fun _ _ _ => [0x30]))).map
    (fun w => (w.tx.ins.length, w.tx.outs.map (·.value), w.change))) = some (1, [50000000, 9999000], 9999000) := by decide +kernel

/-- signatures_verify_templates: all hypotheses discharged for the toy instance (P2PKH input) -/
example : verifyInput C0 (runRaw H0 c0 (keyTable H0 c0.bech32 [pub0]) t0 ([uo0].map some) (sigOf C0 S0 [uo0]) (fun _ => none)).1 [uo0] 0 = true :=
  signatures_verify_templates H0 C0 S0 c0 [pub0] (fun _ => none) t0 [uo0] 0 inp0 uo0 rfl (by intro b; simp [H0])
    (by intros; rfl) (by intro k d; simp [S0]) (by intros; rfl) (by intro k d; simp [S0])
    (by simp [pub0]) rfl rfl rfl rfl (OwnScript.p2pkh 0 (mkKey H0 false pub0) rfl) (by decide +kernel) (Or.inl rfl)

end NonVacuity

/-! ### JOINT non-vacuity of `signatures_verify`: every hypothesis discharged (kernel-checked) for one input of each of the
    four owned types — instance of Proofs/C13Inst.lean §3. Real: secp256k1 key 1·G, C03's Sign / Bytes / SchnorrSign and
    verify models, C02's digest functions, the templates, gocoin's standard flag set (all 21 bits). Toy (the theorem is
    parametric there): sha, HASH160, tagged hash, nonce source. -/
section JointInstance
open GocoinV.WalletTx.Inst

example (base : Script.Oracles) : ScriptSpec.verifyScript
    (walletOracles base toySha Ht.hash160 K0.tagged
      (runRaw Ht cI ksI tI ([uoPkh].map some) (sigOf WC K0.signer [uoPkh]) (fun _ => none)).1 [uoPkh] 0 uoPkh.value)
    (txCtxOf (runRaw Ht cI ksI tI ([uoPkh].map some) (sigOf WC K0.signer [uoPkh]) (fun _ => none)).1 0)
    uoPkh.script (ScriptSpec.Flags.ofMask 0x1FFFFF) = .ok () :=
  signatures_verify_model_oracles Ht base toySha K0 _ cI (fun _ => none) tI [uoPkh] 0 inpI uoPkh (by decide) hashLenI
    (by decide) keysI callsPkh clashPkh nonzeroI rfl rfl rfl rfl (OwnScript.p2pkh 0 krI keyI) addrPkh (Or.inl rfl)

example (base : Script.Oracles) : ScriptSpec.verifyScript
    (walletOracles base toySha Ht.hash160 K0.tagged
      (runRaw Ht cI ksI tI ([uoWpkh].map some) (sigOf WC K0.signer [uoWpkh]) (fun _ => none)).1 [uoWpkh] 0 uoWpkh.value)
    (txCtxOf (runRaw Ht cI ksI tI ([uoWpkh].map some) (sigOf WC K0.signer [uoWpkh]) (fun _ => none)).1 0)
    uoWpkh.script (ScriptSpec.Flags.ofMask 0x1FFFFF) = .ok () :=
  signatures_verify_model_oracles Ht base toySha K0 _ cI (fun _ => none) tI [uoWpkh] 0 inpI uoWpkh (by decide) hashLenI
    (by decide) keysI callsWpkh clashWpkh nonzeroI rfl rfl rfl rfl (OwnScript.p2wpkh 0 krI keyI) addrWpkh (Or.inl rfl)

example (base : Script.Oracles) : ScriptSpec.verifyScript
    (walletOracles base toySha Ht.hash160 K0.tagged
      (runRaw Ht cI ksI tI ([uoSh].map some) (sigOf WC K0.signer [uoSh]) (fun _ => none)).1 [uoSh] 0 uoSh.value)
    (txCtxOf (runRaw Ht cI ksI tI ([uoSh].map some) (sigOf WC K0.signer [uoSh]) (fun _ => none)).1 0)
    uoSh.script (ScriptSpec.Flags.ofMask 0x1FFFFF) = .ok () :=
  signatures_verify_model_oracles Ht base toySha K0 _ cI (fun _ => none) tI [uoSh] 0 inpI uoSh (by decide) hashLenI
    (by decide) keysI callsSh clashSh nonzeroI rfl rfl rfl rfl (OwnScript.p2sh 0 krI keyI rfl) addrSh (Or.inl rfl)

example (base : Script.Oracles) : ScriptSpec.verifyScript
    (walletOracles base toySha Ht.hash160 K0.tagged
      (runRaw Ht cI ksI tI ([uoTr].map some) (sigOf WC K0.signer [uoTr]) (fun _ => none)).1 [uoTr] 0 uoTr.value)
    (txCtxOf (runRaw Ht cI ksI tI ([uoTr].map some) (sigOf WC K0.signer [uoTr]) (fun _ => none)).1 0)
    uoTr.script (ScriptSpec.Flags.ofMask 0x1FFFFF) = .ok () :=
  signatures_verify_model_oracles Ht base toySha K0 _ cI (fun _ => none) tI [uoTr] 0 inpI uoTr (by decide) hashLenI
    (by decide) keysI callsTr clashTr nonzeroI rfl rfl rfl rfl (OwnScript.p2tr 0 krI keyI) addrTr (Or.inl rfl)

end JointInstance

/-! ### JOINT non-vacuity of `send_signatures_verify`: a whole -send run with TWO keys and TWO inputs of different types
    (P2PKH of key 0 and P2WPKH of key 1; instance of Proofs/C13Inst2.lean) - every hypothesis discharged, kernel-checked -/
section SendInstance
open GocoinV.WalletTx.Inst GocoinV.WalletTx.Inst2

example (base : Script.Oracles) : w2.tx.ins.length = b2.spent.length ∧
    ∀ i uo, (spentOuts b2)[i]? = some uo →
      ScriptSpec.verifyScript (walletOracles base toySha Ht.hash160 K2.tagged w2.tx (spentOuts b2) i uo.value)
        (txCtxOf w2.tx i) uo.script (ScriptSpec.Flags.ofMask 0x1FFFFF) = .ok () :=
  send_signatures_verify Ht base toySha K2 _ c2 true [coinA, coinB] (some send2) none req2 b2 w2 (by decide) hashLenI keysOk2
    hreq2 hb2 hbal2 hrun2 calls2 clash2 nonzero2 haddr2

/-- … and it is not an empty run: two inputs (a P2PKH and a P2WPKH coin of different keys), two outputs (payment, change) -/
example : spentOuts b2 = [uoA, uoB] ∧ w2.tx.ins.length = 2 ∧ w2.tx.outs.map (·.value) = [60000, 9000] := by decide +kernel

/-- ownership_is_four_templates observed on that table: the alias scripts of finding F1 are not owned, the own ones are -/
example : pkscrToKey ks2 (p2shScript kr0.h160) = none ∧ pkscrToKey ks2 (p2pkhScript kr0.segH160) = none ∧
    pkscrToKey ks2 (p2wpkhScript kr1.segH160) = none ∧ pkscrToKey ks2 (p2pkhScript kr1.h160) = some 1 ∧
    pkscrToKey ks2 (p2shScript kr1.segH160) = some 1 ∧
    pkscrToKey (keyTable Ht true K2.pubs) (p2shScript kr1.segH160) = none ∧
    pkscrToKey (keyTable Ht true K2.pubs) (p2pkhScript (List.replicate 20 0)) = none := by decide +kernel

end SendInstance

end GocoinV.Props.C13
