/-
  Props.C13 — property theorems for C13 (wallet-built transactions). Theorems ONLY.
-/
import GocoinV.Model.WalletTx
namespace GocoinV.Props.C13
open GocoinV GocoinV.WalletTx

end GocoinV.Props.C13
