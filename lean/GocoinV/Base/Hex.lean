/-
  Base.Hex — hex text <-> byte lists for the oracle line protocol. Core-only.
  Convention of the protocol: a byte string is lower-case hex; the empty
  byte string is written "-".
-/
namespace GocoinV

abbrev Bytes := List UInt8

namespace Hex

def nibble (n : Nat) : Char :=
  if n < 10 then Char.ofNat (48 + n) else Char.ofNat (87 + n)

def unnibble (c : Char) : Option Nat :=
  let n := c.toNat
  if 48 ≤ n ∧ n ≤ 57 then some (n - 48)
  else if 97 ≤ n ∧ n ≤ 102 then some (n - 87)
  else if 65 ≤ n ∧ n ≤ 70 then some (n - 55)
  else none

def encodeRaw (bs : Bytes) : String :=
  String.ofList (bs.flatMap fun b => [nibble (b.toNat / 16), nibble (b.toNat % 16)])

/-- protocol form: "-" for the empty string -/
def encode (bs : Bytes) : String :=
  if bs.isEmpty then "-" else encodeRaw bs

def decodeChars : List Char → Option Bytes
  | [] => some []
  | [_] => none
  | a :: b :: rest => do
    let x ← unnibble a
    let y ← unnibble b
    let r ← decodeChars rest
    pure (UInt8.ofNat (x * 16 + y) :: r)

def decode (s : String) : Option Bytes :=
  if s == "-" then some [] else decodeChars s.toList

end Hex

/-- ASCII string <-> bytes (Go `[]byte(s)` for the 1-byte-per-char strings we exchange as hex). -/
def strBytes (s : String) : Bytes := s.toUTF8.toList
def bytesStr (b : Bytes) : String := String.ofList (b.map fun x => Char.ofNat x.toNat)

end GocoinV
