/-
  Base.Ripemd160 — executable RIPEMD-160 for the oracle. Core-only.
  MODELLED, NOT VERIFIED (validated against the Go implementation by correspondence runs).
-/
import GocoinV.Base.Sha256
namespace GocoinV.Ripemd160

def rL : Array Nat := #[
  0, 1, 2, 3, 4, 5, 6, 7, 8, 9, 10, 11, 12, 13, 14, 15,
  7, 4, 13, 1, 10, 6, 15, 3, 12, 0, 9, 5, 2, 14, 11, 8,
  3, 10, 14, 4, 9, 15, 8, 1, 2, 7, 0, 6, 13, 11, 5, 12,
  1, 9, 11, 10, 0, 8, 12, 4, 13, 3, 7, 15, 14, 5, 6, 2,
  4, 0, 5, 9, 7, 12, 2, 10, 14, 1, 3, 8, 11, 6, 15, 13]

def rR : Array Nat := #[
  5, 14, 7, 0, 9, 2, 11, 4, 13, 6, 15, 8, 1, 10, 3, 12,
  6, 11, 3, 7, 0, 13, 5, 10, 14, 15, 8, 12, 4, 9, 1, 2,
  15, 5, 1, 3, 7, 14, 6, 9, 11, 8, 12, 2, 10, 0, 4, 13,
  8, 6, 4, 1, 3, 11, 15, 0, 5, 12, 2, 13, 9, 7, 10, 14,
  12, 15, 10, 4, 1, 5, 8, 7, 6, 2, 13, 14, 0, 3, 9, 11]

def sL : Array UInt32 := #[
  11, 14, 15, 12, 5, 8, 7, 9, 11, 13, 14, 15, 6, 7, 9, 8,
  7, 6, 8, 13, 11, 9, 7, 15, 7, 12, 15, 9, 11, 7, 13, 12,
  11, 13, 6, 7, 14, 9, 13, 15, 14, 8, 13, 6, 5, 12, 7, 5,
  11, 12, 14, 15, 14, 15, 9, 8, 9, 14, 5, 6, 8, 6, 5, 12,
  9, 15, 5, 11, 6, 8, 13, 12, 5, 12, 13, 14, 11, 8, 5, 6]

def sR : Array UInt32 := #[
  8, 9, 9, 11, 13, 15, 15, 5, 7, 7, 8, 11, 14, 14, 12, 6,
  9, 13, 15, 7, 12, 8, 9, 11, 7, 7, 12, 7, 6, 15, 13, 11,
  9, 7, 15, 11, 8, 6, 6, 14, 12, 13, 5, 14, 13, 13, 7, 5,
  15, 5, 8, 11, 14, 14, 6, 14, 6, 9, 12, 9, 12, 5, 15, 8,
  8, 5, 12, 9, 12, 5, 14, 6, 8, 13, 6, 5, 15, 13, 11, 11]

def kL : Array UInt32 := #[0x00000000, 0x5A827999, 0x6ED9EBA1, 0x8F1BBCDC, 0xA953FD4E]
def kR : Array UInt32 := #[0x50A28BE6, 0x5C4DD124, 0x6D703EF3, 0x7A6D76E9, 0x00000000]

@[inline] def rotl (x : UInt32) (n : UInt32) : UInt32 := (x <<< n) ||| (x >>> (32 - n))

@[inline] def f (j : Nat) (x y z : UInt32) : UInt32 :=
  if j < 16 then x ^^^ y ^^^ z
  else if j < 32 then (x &&& y) ||| ((~~~ x) &&& z)
  else if j < 48 then (x ||| (~~~ y)) ^^^ z
  else if j < 64 then (x &&& z) ||| (y &&& (~~~ z))
  else x ^^^ (y ||| (~~~ z))

def pad (msg : ByteArray) : ByteArray := Id.run do
  let len := msg.size
  let mut m := msg.push 0x80
  while m.size % 64 != 56 do
    m := m.push 0
  let bits := len * 8
  for i in [0:8] do
    m := m.push (UInt8.ofNat ((bits >>> (8 * i)) % 256))
  return m

def compress (h : Array UInt32) (m : ByteArray) (off : Nat) : Array UInt32 := Id.run do
  let mut x : Array UInt32 := Array.mkEmpty 16
  for i in [0:16] do
    let b0 := (m.get! (off + 4*i)).toUInt32
    let b1 := (m.get! (off + 4*i + 1)).toUInt32
    let b2 := (m.get! (off + 4*i + 2)).toUInt32
    let b3 := (m.get! (off + 4*i + 3)).toUInt32
    x := x.push (b0 ||| (b1 <<< 8) ||| (b2 <<< 16) ||| (b3 <<< 24))
  let mut al := h[0]!
  let mut bl := h[1]!
  let mut cl := h[2]!
  let mut dl := h[3]!
  let mut el := h[4]!
  let mut ar := h[0]!
  let mut br := h[1]!
  let mut cr := h[2]!
  let mut dr := h[3]!
  let mut er := h[4]!
  for j in [0:80] do
    let t := rotl (al + f j bl cl dl + x[rL[j]!]! + kL[j / 16]!) sL[j]! + el
    al := el; el := dl; dl := rotl cl 10; cl := bl; bl := t
    let t2 := rotl (ar + f (79 - j) br cr dr + x[rR[j]!]! + kR[j / 16]!) sR[j]! + er
    ar := er; er := dr; dr := rotl cr 10; cr := br; br := t2
  return #[h[1]! + cl + dr, h[2]! + dl + er, h[3]! + el + ar, h[4]! + al + br, h[0]! + bl + cr]

def hashBA (msg : ByteArray) : ByteArray := Id.run do
  let m := pad msg
  let mut h : Array UInt32 := #[0x67452301, 0xEFCDAB89, 0x98BADCFE, 0x10325476, 0xC3D2E1F0]
  for blk in [0:m.size / 64] do
    h := compress h m (blk * 64)
  let mut out := ByteArray.emptyWithCapacity 20
  for x in h do
    out := out.push x.toUInt8
    out := out.push (x >>> 8).toUInt8
    out := out.push (x >>> 16).toUInt8
    out := out.push (x >>> 24).toUInt8
  return out

end Ripemd160

def ripemd160 (b : Bytes) : Bytes := (Ripemd160.hashBA ⟨b.toArray⟩).toList
/-- Bitcoin HASH160 -/
def hash160 (b : Bytes) : Bytes := ripemd160 (sha256 b)

end GocoinV
