/-
  Base.C01_SecpFast — Jacobian-coordinate scalar multiplication on secp256k1 for the C01 oracle's
  independent taproot tweak reference (Base/Secp.lean's affine `mul` needs one field inversion per
  step, ≈ 40 ms per multiplication natively; this one needs a single inversion). Core-only.
  Not used by any theorem; cross-checked against `Secp.mul` by `oracle_c01 selftest`.
-/
import GocoinV.Base.Secp
namespace GocoinV.SecpFast
open GocoinV.Secp

/-- (X, Y, Z) with Z = 0 for the point at infinity; affine (X/Z², Y/Z³) -/
abbrev J := Nat × Nat × Nat

def inf : J := (1, 1, 0)

def dbl (P : J) : J :=
  let (x, y, z) := P
  if z == 0 || y == 0 then inf else
  let yy := y * y % p
  let s := 4 * x % p * yy % p
  let m := 3 * (x * x % p) % p
  let x3 := subMod (m * m % p) (2 * s % p) p
  let y3 := subMod (m * subMod s x3 p % p) (8 * (yy * yy % p) % p) p
  let z3 := 2 * y % p * z % p
  (x3, y3, z3)

def add (P Q : J) : J :=
  let (x1, y1, z1) := P
  let (x2, y2, z2) := Q
  if z1 == 0 then Q else if z2 == 0 then P else
  let z1z1 := z1 * z1 % p
  let z2z2 := z2 * z2 % p
  let u1 := x1 * z2z2 % p
  let u2 := x2 * z1z1 % p
  let s1 := y1 * z2 % p * z2z2 % p
  let s2 := y2 * z1 % p * z1z1 % p
  if u1 == u2 then (if s1 == s2 then dbl P else inf) else
  let h := subMod u2 u1 p
  let r := subMod s2 s1 p
  let hh := h * h % p
  let hhh := hh * h % p
  let v := u1 * hh % p
  let x3 := subMod (subMod (r * r % p) hhh p) (2 * v % p) p
  let y3 := subMod (r * subMod v x3 p % p) (s1 * hhh % p) p
  let z3 := h * z1 % p * z2 % p
  (x3, y3, z3)

def ofAffine : Point → J
  | none => inf
  | some (x, y) => (x, y, 1)

def toAffine (P : J) : Point :=
  let (x, y, z) := P
  if z == 0 then none else
  let zi := invMod z p
  let zi2 := zi * zi % p
  some (x * zi2 % p, y * (zi2 * zi % p) % p)

def mulAux (P : J) : Nat → Nat → J → J
  | 0, _, acc => acc
  | i+1, k, acc =>
    let acc := dbl acc
    mulAux P i k (if k.testBit i then add acc P else acc)

/-- k·P -/
def mul (k : Nat) (P : Point) : J := mulAux (ofAffine P) (k.log2 + 1) k inf

/-- P + k·G in affine coordinates -/
def addMulG (P : Point) (k : Nat) : Point := toAffine (add (ofAffine P) (mul k G))

end GocoinV.SecpFast
