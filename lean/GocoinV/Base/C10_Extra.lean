/-
  Base.C10_Extra — additions to Base.Bytes needed by the C10 models (kept in a file of its own because
  Base.Bytes is shared and frozen). Core-only.
    * `shorter l n`  : `l.length < n` without walking the whole list (decoders test this once per field;
                       `List.length` on the rest of a megabyte record made the oracle quadratic)
    * `vuleF/vlenF`  : `CompactSize.vule/vlen` with the same trick, proved equal and installed for the
                       compiler with `@[csimp]` (the definitions the theorems talk about stay `vule/vlen`)
-/
import GocoinV.Base.Bytes
namespace GocoinV

/-- `l.length < n`, looking at no more than `n` cells -/
def shorter {α : Type} : List α → Nat → Bool
  | _, 0 => false
  | [], _ + 1 => true
  | _ :: t, n + 1 => shorter t n

theorem shorter_iff {α : Type} (l : List α) (n : Nat) : shorter l n = true ↔ l.length < n := by
  induction l generalizing n with
  | nil => cases n <;> simp [shorter]
  | cons h t ih => cases n <;> simp [shorter, ih]

theorem shorter_false_iff {α : Type} (l : List α) (n : Nat) : shorter l n = false ↔ n ≤ l.length := by
  have := shorter_iff l n
  cases h : shorter l n <;> simp_all <;> omega

namespace CompactSize

def vuleF (b : Bytes) : Nat × Nat :=
  match b with
  | [] => (0, 0)
  | h :: t =>
    if h = 0xfd then (if !shorter t 2 then (leVal (t.take 2), 3) else (0, 0))
    else if h = 0xfe then (if !shorter t 4 then (leVal (t.take 4), 5) else (0, 0))
    else if h = 0xff then (if !shorter t 8 then (leVal (t.take 8), 9) else (0, 0))
    else (h.toNat, 1)

def vlenF (b : Bytes) : Int × Nat :=
  let (v, s) := vuleF b
  (toInt64 v, s)

theorem vule_eq_vuleF (b : Bytes) : vule b = vuleF b := by
  cases b with
  | nil => rfl
  | cons h t =>
    have e : ∀ n, (!shorter t n) = decide (t.length ≥ n) := by
      intro n
      cases hs : shorter t n
      · have := (shorter_false_iff t n).mp hs; simp; omega
      · have := (shorter_iff t n).mp hs; simp; omega
    simp only [vule, vuleF, e, decide_eq_true_eq]

@[csimp] theorem vule_csimp : @vule = @vuleF := by
  funext b; exact vule_eq_vuleF b

@[csimp] theorem vlen_csimp : @vlen = @vlenF := by
  funext b; simp [vlen, vlenF, vule_eq_vuleF]

end CompactSize
end GocoinV
