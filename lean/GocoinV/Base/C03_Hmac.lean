/-
  Base.C03_Hmac — HMAC (RFC 2104) and BIP340 tagged hashes over an arbitrary 64-byte-block hash `H`.
  Core-only. The hash is a PARAMETER: every theorem of C03 holds for all `H : Bytes → Bytes`
  (SHA-256 is "modelled, not verified", DESIGN §3.5); the oracle instantiates `H := sha256`.
-/
import GocoinV.Base.Bytes
namespace GocoinV.C03

/-- a hash function with 64-byte blocks (SHA-256 in the oracle) -/
abbrev Hash := Bytes → Bytes

/-- `n` copies of byte `c` -/
def fill (n : Nat) (c : UInt8) : Bytes := List.replicate n c

/-- right-pad with zero bytes to length `n` (no truncation) -/
def padTo (n : Nat) (b : Bytes) : Bytes := b ++ fill (n - b.length) 0

def xorByte (c : UInt8) (b : Bytes) : Bytes := b.map (· ^^^ c)

/-- RFC 2104: keys longer than the block are hashed first, then zero-padded to the block size. -/
def hmacKey (H : Hash) (key : Bytes) : Bytes :=
  padTo 64 (if key.length > 64 then H key else key)

/-- RFC 2104 HMAC: H((K ⊕ opad) ‖ H((K ⊕ ipad) ‖ text)) -/
def hmac (H : Hash) (key text : Bytes) : Bytes :=
  let k := hmacKey H key
  H (xorByte 0x5c k ++ H (xorByte 0x36 k ++ text))

/-- BIP340 tagged hash: H(H(tag) ‖ H(tag) ‖ data) -/
def taggedHash (H : Hash) (tag : String) (data : Bytes) : Bytes :=
  let t := H (strBytes tag)
  H (t ++ t ++ data)

/-- byte-wise xor of two strings (length of the first) -/
def xorBytes : Bytes → Bytes → Bytes
  | a :: as, b :: bs => (a ^^^ b) :: xorBytes as bs
  | as, [] => as
  | [], _ => []

end GocoinV.C03
