/-
  Base.C01_Sha1 — executable SHA-1 (FIPS 180-4) for the C01 oracle (OP_SHA1). Core-only.
  MODELLED, NOT VERIFIED: theorems never unfold this; it is validated against Go's
  crypto/sha1 by the C01 correspondence run (DESIGN.md §3 item 5).
-/
import GocoinV.Base.Hex
namespace GocoinV.Sha1

@[inline] def rotl (x : UInt32) (n : UInt32) : UInt32 := (x <<< n) ||| (x >>> (32 - n))

def pad (msg : ByteArray) : ByteArray := Id.run do
  let len := msg.size
  let mut m := msg.push 0x80
  while m.size % 64 != 56 do
    m := m.push 0
  let bits := len * 8
  for i in [0:8] do
    m := m.push (UInt8.ofNat ((bits >>> (8 * (7 - i))) % 256))
  return m

def compress (h : Array UInt32) (m : ByteArray) (off : Nat) : Array UInt32 := Id.run do
  let mut w : Array UInt32 := Array.mkEmpty 80
  for i in [0:16] do
    let b0 := (m.get! (off + 4*i)).toUInt32
    let b1 := (m.get! (off + 4*i + 1)).toUInt32
    let b2 := (m.get! (off + 4*i + 2)).toUInt32
    let b3 := (m.get! (off + 4*i + 3)).toUInt32
    w := w.push ((b0 <<< 24) ||| (b1 <<< 16) ||| (b2 <<< 8) ||| b3)
  for i in [16:80] do
    w := w.push (rotl (w[i-3]! ^^^ w[i-8]! ^^^ w[i-14]! ^^^ w[i-16]!) 1)
  let mut a := h[0]!
  let mut b := h[1]!
  let mut c := h[2]!
  let mut d := h[3]!
  let mut e := h[4]!
  for i in [0:80] do
    let (f, k) : UInt32 × UInt32 :=
      if i < 20 then ((b &&& c) ||| ((~~~ b) &&& d), 0x5A827999)
      else if i < 40 then (b ^^^ c ^^^ d, 0x6ED9EBA1)
      else if i < 60 then ((b &&& c) ||| (b &&& d) ||| (c &&& d), 0x8F1BBCDC)
      else (b ^^^ c ^^^ d, 0xCA62C1D6)
    let t := rotl a 5 + f + e + k + w[i]!
    e := d; d := c; c := rotl b 30; b := a; a := t
  return #[h[0]! + a, h[1]! + b, h[2]! + c, h[3]! + d, h[4]! + e]

def hashBA (msg : ByteArray) : ByteArray := Id.run do
  let m := pad msg
  let mut h : Array UInt32 := #[0x67452301, 0xEFCDAB89, 0x98BADCFE, 0x10325476, 0xC3D2E1F0]
  for blk in [0:m.size / 64] do
    h := compress h m (blk * 64)
  let mut out := ByteArray.emptyWithCapacity 20
  for x in h do
    out := out.push (x >>> 24).toUInt8
    out := out.push (x >>> 16).toUInt8
    out := out.push (x >>> 8).toUInt8
    out := out.push x.toUInt8
  return out

end Sha1

/-- SHA-1 over byte lists -/
def sha1 (b : Bytes) : Bytes := (Sha1.hashBA ⟨b.toArray⟩).toList

end GocoinV
