/-
  Base.Proto — the oracle side of the line protocol. Core-only.
  One request per line (space separated tokens), one reply line per request.
  The driver is a fold of `step` over stdin; state `σ` is the model state.
-/
import GocoinV.Base.Hex
namespace GocoinV.Proto

def tokens (line : String) : List String :=
  (line.trimAscii.toString.splitOn " ").filter (· ≠ "")

partial def loop {σ : Type} (h : IO.FS.Stream) (out : IO.FS.Stream)
    (step : σ → List String → σ × String) (s : σ) : IO Unit := do
  let line ← h.getLine
  if line.isEmpty then return ()
  let (s', reply) := step s (tokens line)
  out.putStrLn reply
  out.flush
  loop h out step s'

/-- run a stateless or stateful line server on stdin/stdout -/
def serve {σ : Type} (init : σ) (step : σ → List String → σ × String) : IO Unit := do
  loop (← IO.getStdin) (← IO.getStdout) step init

def boolStr (b : Bool) : String := if b then "1" else "0"

end GocoinV.Proto
