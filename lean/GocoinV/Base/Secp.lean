/-
  Base.Secp — executable reference secp256k1 over Nat (affine coordinates, textbook formulas).
  Core-only. This is the SPEC side for the oracle: the mathematical curve y² = x³ + 7 over F_p,
  written as directly as possible. It is deliberately unrelated to gocoin's limb / Jacobian code.
-/
import GocoinV.Base.Bytes
namespace GocoinV.Secp

def p : Nat := 0xFFFFFFFFFFFFFFFFFFFFFFFFFFFFFFFFFFFFFFFFFFFFFFFFFFFFFFFEFFFFFC2F
def n : Nat := 0xFFFFFFFFFFFFFFFFFFFFFFFFFFFFFFFEBAAEDCE6AF48A03BBFD25E8CD0364141
def Gx : Nat := 0x79BE667EF9DCBBAC55A06295CE870B07029BFCDB2DCE28D959F2815B16F81798
def Gy : Nat := 0x483ADA7726A3C4655DA4FBFC0E1108A8FD17B448A68554199C47D08FFB10D4B8

/-- square-and-multiply, structural on the bit length (fuel = 256 suffices for exponents < 2^256) -/
def powModAux (m : Nat) : Nat → Nat → Nat → Nat → Nat
  | 0, _, _, acc => acc
  | fuel+1, b, e, acc =>
    if e = 0 then acc
    else powModAux m fuel (b * b % m) (e / 2) (if e % 2 = 1 then acc * b % m else acc)

def powMod (b e m : Nat) : Nat := powModAux m 600 (b % m) e (1 % m)

/-- inverse mod a prime by Fermat -/
def invMod (a m : Nat) : Nat := powMod a (m - 2) m

def subMod (a b m : Nat) : Nat := (a % m + m - b % m) % m

/-- affine point; `none` is the point at infinity -/
abbrev Point := Option (Nat × Nat)

def onCurve : Point → Bool
  | none => true
  | some (x, y) => x < p && y < p && (y * y) % p == (x * x % p * x + 7) % p

def neg : Point → Point
  | none => none
  | some (x, y) => some (x, (p - y) % p)

def dbl : Point → Point
  | none => none
  | some (x, y) =>
    if y = 0 then none
    else
      let l := (3 * x % p * x) % p * invMod (2 * y % p) p % p
      let x3 := subMod (l * l % p) (2 * x % p) p
      let y3 := subMod (l * subMod x x3 p % p) y p
      some (x3, y3)

def add : Point → Point → Point
  | none, q => q
  | a, none => a
  | some (x1, y1), some (x2, y2) =>
    if x1 = x2 then
      (if y1 = y2 then dbl (some (x1, y1)) else none)
    else
      let l := subMod y2 y1 p * invMod (subMod x2 x1 p) p % p
      let x3 := subMod (subMod (l * l % p) x1 p) x2 p
      let y3 := subMod (l * subMod x1 x3 p % p) y1 p
      some (x3, y3)

/-- double-and-add scalar multiplication, most significant bit first -/
def mulAux (P : Point) : Nat → Nat → Point → Point
  | 0, _, acc => acc
  | i+1, k, acc =>
    let acc := dbl acc
    mulAux P i k (if k.testBit i then add acc P else acc)

def mul (k : Nat) (P : Point) : Point := mulAux P (k.log2 + 1) k none

def G : Point := some (Gx, Gy)

/-- square root mod p (p ≡ 3 mod 4): candidate a^((p+1)/4); `none` when a is not a residue -/
def sqrt? (a : Nat) : Option Nat :=
  let r := powMod a ((p + 1) / 4) p
  if r * r % p = a % p then some r else none

/-- BIP340 lift_x: the point with this x and even y -/
def liftX (x : Nat) : Point :=
  if x ≥ p then none
  else match sqrt? ((x * x % p * x + 7) % p) with
    | none => none
    | some y => some (x, if y % 2 = 0 then y else p - y)

/-- SEC1 public key parsing (33-byte compressed 02/03, 65-byte 04, hybrid 06/07 with parity check).
    Strict: coordinates must be < p and the point on the curve. `none` = reject. -/
def parsePubkey (b : Bytes) : Point :=
  match b with
  | [] => none
  | h :: t =>
    if (h = 2 ∨ h = 3) ∧ t.length = 32 then
      let x := beVal t
      if x ≥ p then none
      else match sqrt? ((x * x % p * x + 7) % p) with
        | none => none
        | some y =>
          let y := if (y % 2 = 1) = (h = 3) then y else p - y
          some (x, y)
    else if (h = 4 ∨ h = 6 ∨ h = 7) ∧ t.length = 64 then
      let x := beVal (t.take 32)
      let y := beVal (t.drop 32)
      if x ≥ p ∨ y ≥ p then none
      else if !onCurve (some (x, y)) then none
      else if h = 6 ∧ y % 2 = 1 then none
      else if h = 7 ∧ y % 2 = 0 then none
      else some (x, y)
    else none

def ser33 : Point → Bytes
  | none => []
  | some (x, y) => (if y % 2 = 0 then 2 else 3) :: beBytes 32 x

def ser65 : Point → Bytes
  | none => []
  | some (x, y) => 4 :: (beBytes 32 x ++ beBytes 32 y)

end GocoinV.Secp
