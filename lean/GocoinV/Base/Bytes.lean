/-
  Base.Bytes — little/big endian integers over byte lists and the CompactSize
  codecs of lib/btc/funcs.go (PutULe / VULe / VLen / VLenSize). Core-only.
  Values are `Nat`; Go's fixed-width wrap-around is made explicit by the caller.
-/
import GocoinV.Base.Hex
namespace GocoinV

/-- little-endian bytes of `n`, exactly `k` bytes (truncating like Go's PutUintNN). -/
def leBytes : Nat → Nat → Bytes
  | 0, _ => []
  | k+1, n => UInt8.ofNat (n % 256) :: leBytes k (n / 256)

/-- little-endian value of a byte list -/
def leVal : Bytes → Nat
  | [] => 0
  | b :: bs => b.toNat + 256 * leVal bs

def beBytes (k n : Nat) : Bytes := (leBytes k n).reverse
def beVal (bs : Bytes) : Nat := leVal bs.reverse

@[simp] theorem leBytes_length (k n : Nat) : (leBytes k n).length = k := by
  induction k generalizing n with
  | zero => rfl
  | succ k ih => simp [leBytes, ih]

theorem leVal_lt (bs : Bytes) : leVal bs < 256 ^ bs.length := by
  induction bs with
  | nil => simp [leVal]
  | cons b bs ih =>
    simp only [leVal, List.length_cons, Nat.pow_succ]
    have := b.toNat_lt
    omega

theorem leVal_leBytes (k n : Nat) : leVal (leBytes k n) = n % 256 ^ k := by
  induction k generalizing n with
  | zero => simp [leBytes, leVal, Nat.mod_one]
  | succ k ih =>
    simp only [leBytes, leVal, ih, Nat.pow_succ]
    have h : (UInt8.ofNat (n % 256)).toNat = n % 256 := by
      simp [UInt8.toNat_ofNat']
    rw [h, Nat.mul_comm (256 ^ k) 256, Nat.mod_mul]

theorem leBytes_leVal (bs : Bytes) : leBytes bs.length (leVal bs) = bs := by
  induction bs with
  | nil => rfl
  | cons b bs ih =>
    have hb := b.toNat_lt
    simp only [List.length_cons, leBytes, leVal]
    have h1 : (b.toNat + 256 * leVal bs) % 256 = b.toNat := by omega
    have h2 : (b.toNat + 256 * leVal bs) / 256 = leVal bs := by omega
    rw [h1, h2, ih]
    simp

/-- Go slice `b[a:c]` on a list; `none` = slice-bounds panic. -/
def slice? (b : Bytes) (a c : Nat) : Option Bytes :=
  if a ≤ c ∧ c ≤ b.length then some ((b.drop a).take (c - a)) else none

namespace CompactSize

/-- `btc.PutULe`: canonical CompactSize of a uint64 value (`n < 2^64`). -/
def putULe (n : Nat) : Bytes :=
  if n < 0xfd then [UInt8.ofNat n]
  else if n < 0x10000 then 0xfd :: leBytes 2 n
  else if n < 0x100000000 then 0xfe :: leBytes 4 n
  else 0xff :: leBytes 8 n

/-- `btc.VLenSize` -/
def vlenSize (n : Nat) : Nat :=
  if n < 0xfd then 1 else if n < 0x10000 then 3 else if n < 0x100000000 then 5 else 9

/-- `btc.VULe`: (value, size); (0,0) when the buffer is too short. Accepts non-minimal forms
    exactly as the Go code does. -/
def vule (b : Bytes) : Nat × Nat :=
  match b with
  | [] => (0, 0)
  | h :: t =>
    if h = 0xfd then (if t.length ≥ 2 then (leVal (t.take 2), 3) else (0, 0))
    else if h = 0xfe then (if t.length ≥ 4 then (leVal (t.take 4), 5) else (0, 0))
    else if h = 0xff then (if t.length ≥ 8 then (leVal (t.take 8), 9) else (0, 0))
    else (h.toNat, 1)

/-- two's-complement reinterpretation of a uint64 as Go `int` -/
def toInt64 (n : Nat) : Int :=
  if n % 2^64 < 2^63 then (n % 2^64 : Nat) else ((n % 2^64 : Nat) : Int) - 2^64

/-- `btc.VLen`: as `vule` but the value is a Go `int` (negative for 9-byte counts ≥ 2^63). -/
def vlen (b : Bytes) : Int × Nat :=
  let (v, s) := vule b
  (toInt64 v, s)

theorem putULe_length (n : Nat) : (putULe n).length = vlenSize n := by
  unfold putULe vlenSize
  repeat' split
  all_goals simp

/-- decoding a canonical encoding (followed by anything) returns the value and its size -/
theorem vule_putULe (n : Nat) (h : n < 2^64) (rest : Bytes) :
    vule (putULe n ++ rest) = (n, vlenSize n) := by
  unfold putULe vlenSize
  by_cases h1 : n < 0xfd
  · simp only [h1, ↓reduceIte, List.cons_append, List.nil_append, vule]
    have e : (UInt8.ofNat n).toNat = n := by simp [UInt8.toNat_ofNat']; omega
    have hne : ∀ k : UInt8, 0xfd ≤ k.toNat → UInt8.ofNat n ≠ k := by
      intro k hk hc
      rw [← hc, e] at hk; omega
    have a := hne 0xfd (by decide)
    have b := hne 0xfe (by decide)
    have c := hne 0xff (by decide)
    simp only [a, b, c, ↓reduceIte, e]
  · by_cases h2 : n < 0x10000
    · simp only [h1, h2, ↓reduceIte, List.cons_append, vule]
      have : (leBytes 2 n ++ rest).take 2 = leBytes 2 n := by
        rw [List.take_append_of_le_length (by simp)]; exact List.take_of_length_le (by simp)
      simp [this, leVal_leBytes]; omega
    · by_cases h3 : n < 0x100000000
      · simp only [h1, h2, h3, ↓reduceIte, List.cons_append, vule]
        have : (leBytes 4 n ++ rest).take 4 = leBytes 4 n := by
          rw [List.take_append_of_le_length (by simp)]; exact List.take_of_length_le (by simp)
        simp [this, leVal_leBytes]; omega
      · simp only [h1, h2, h3, ↓reduceIte, List.cons_append, vule]
        have : (leBytes 8 n ++ rest).take 8 = leBytes 8 n := by
          rw [List.take_append_of_le_length (by simp)]; exact List.take_of_length_le (by simp)
        simp [this, leVal_leBytes]; omega

end CompactSize
end GocoinV
