/-
  Base.C14_Sha512 — executable SHA-512 (FIPS 180-4), HMAC-SHA512 (RFC 2104) and PBKDF2-HMAC-SHA512
  (RFC 8018, as written in lib/others/bip39/bip39.go:pbkdf2Key) for the C14 oracle. Core-only.
  MODELLED, NOT VERIFIED: theorems never unfold these; they are validated against Go's crypto/sha512,
  crypto/hmac and the repo's pbkdf2Key by the C14 correspondence run (DESIGN.md §3 item 5).
-/
import GocoinV.Base.Hex
namespace GocoinV.Sha512

def K : Array UInt64 := #[
  0x428a2f98d728ae22, 0x7137449123ef65cd, 0xb5c0fbcfec4d3b2f, 0xe9b5dba58189dbbc,
  0x3956c25bf348b538, 0x59f111f1b605d019, 0x923f82a4af194f9b, 0xab1c5ed5da6d8118,
  0xd807aa98a3030242, 0x12835b0145706fbe, 0x243185be4ee4b28c, 0x550c7dc3d5ffb4e2,
  0x72be5d74f27b896f, 0x80deb1fe3b1696b1, 0x9bdc06a725c71235, 0xc19bf174cf692694,
  0xe49b69c19ef14ad2, 0xefbe4786384f25e3, 0x0fc19dc68b8cd5b5, 0x240ca1cc77ac9c65,
  0x2de92c6f592b0275, 0x4a7484aa6ea6e483, 0x5cb0a9dcbd41fbd4, 0x76f988da831153b5,
  0x983e5152ee66dfab, 0xa831c66d2db43210, 0xb00327c898fb213f, 0xbf597fc7beef0ee4,
  0xc6e00bf33da88fc2, 0xd5a79147930aa725, 0x06ca6351e003826f, 0x142929670a0e6e70,
  0x27b70a8546d22ffc, 0x2e1b21385c26c926, 0x4d2c6dfc5ac42aed, 0x53380d139d95b3df,
  0x650a73548baf63de, 0x766a0abb3c77b2a8, 0x81c2c92e47edaee6, 0x92722c851482353b,
  0xa2bfe8a14cf10364, 0xa81a664bbc423001, 0xc24b8b70d0f89791, 0xc76c51a30654be30,
  0xd192e819d6ef5218, 0xd69906245565a910, 0xf40e35855771202a, 0x106aa07032bbd1b8,
  0x19a4c116b8d2d0c8, 0x1e376c085141ab53, 0x2748774cdf8eeb99, 0x34b0bcb5e19b48a8,
  0x391c0cb3c5c95a63, 0x4ed8aa4ae3418acb, 0x5b9cca4f7763e373, 0x682e6ff3d6b2b8a3,
  0x748f82ee5defb2fc, 0x78a5636f43172f60, 0x84c87814a1f0ab72, 0x8cc702081a6439ec,
  0x90befffa23631e28, 0xa4506cebde82bde9, 0xbef9a3f7b2c67915, 0xc67178f2e372532b,
  0xca273eceea26619c, 0xd186b8c721c0c207, 0xeada7dd6cde0eb1e, 0xf57d4f7fee6ed178,
  0x06f067aa72176fba, 0x0a637dc5a2c898a6, 0x113f9804bef90dae, 0x1b710b35131c471b,
  0x28db77f523047d84, 0x32caab7b40c72493, 0x3c9ebe0a15c9bebc, 0x431d67c49c100d4c,
  0x4cc5d4becb3e42b6, 0x597f299cfc657e2a, 0x5fcb6fab3ad6faec, 0x6c44198c4a475817]

def H0 : Array UInt64 := #[
  0x6a09e667f3bcc908, 0xbb67ae8584caa73b, 0x3c6ef372fe94f82b, 0xa54ff53a5f1d36f1,
  0x510e527fade682d1, 0x9b05688c2b3e6c1f, 0x1f83d9abfb41bd6b, 0x5be0cd19137e2179]

@[inline] def rotr (x : UInt64) (n : UInt64) : UInt64 := (x >>> n) ||| (x <<< (64 - n))

def pad (msg : ByteArray) : ByteArray := Id.run do
  let len := msg.size
  let mut m := msg.push 0x80
  while m.size % 128 != 112 do
    m := m.push 0
  let bits := len * 8
  for i in [0:16] do
    m := m.push (UInt8.ofNat ((bits >>> (8 * (15 - i))) % 256))
  return m

def compress (h : Array UInt64) (m : ByteArray) (off : Nat) : Array UInt64 := Id.run do
  let mut w : Array UInt64 := Array.mkEmpty 80
  for i in [0:16] do
    let mut x : UInt64 := 0
    for j in [0:8] do
      x := (x <<< 8) ||| (m.get! (off + 8*i + j)).toUInt64
    w := w.push x
  for i in [16:80] do
    let w15 := w[i-15]!
    let w2 := w[i-2]!
    let s0 := rotr w15 1 ^^^ rotr w15 8 ^^^ (w15 >>> 7)
    let s1 := rotr w2 19 ^^^ rotr w2 61 ^^^ (w2 >>> 6)
    w := w.push (w[i-16]! + s0 + w[i-7]! + s1)
  let mut a := h[0]!
  let mut b := h[1]!
  let mut c := h[2]!
  let mut d := h[3]!
  let mut e := h[4]!
  let mut f := h[5]!
  let mut g := h[6]!
  let mut hh := h[7]!
  for i in [0:80] do
    let S1 := rotr e 14 ^^^ rotr e 18 ^^^ rotr e 41
    let ch := (e &&& f) ^^^ ((~~~ e) &&& g)
    let t1 := hh + S1 + ch + K[i]! + w[i]!
    let S0 := rotr a 28 ^^^ rotr a 34 ^^^ rotr a 39
    let maj := (a &&& b) ^^^ (a &&& c) ^^^ (b &&& c)
    let t2 := S0 + maj
    hh := g; g := f; f := e; e := d + t1
    d := c; c := b; b := a; a := t1 + t2
  return #[h[0]! + a, h[1]! + b, h[2]! + c, h[3]! + d, h[4]! + e, h[5]! + f, h[6]! + g, h[7]! + hh]

def hashBA (msg : ByteArray) : ByteArray := Id.run do
  let m := pad msg
  let mut h := H0
  for blk in [0:m.size / 128] do
    h := compress h m (blk * 128)
  let mut out := ByteArray.emptyWithCapacity 64
  for x in h do
    for j in [0:8] do
      out := out.push (x >>> (UInt64.ofNat (8 * (7 - j)))).toUInt8
  return out

/-- HMAC-SHA512 over byte arrays (block size 128) -/
def hmacBA (key msg : ByteArray) : ByteArray := Id.run do
  let k0 := if key.size > 128 then hashBA key else key
  let mut ipad := ByteArray.emptyWithCapacity (128 + msg.size)
  let mut opad := ByteArray.emptyWithCapacity 192
  for i in [0:128] do
    let kb : UInt8 := if i < k0.size then k0.get! i else 0
    ipad := ipad.push (kb ^^^ 0x36)
    opad := opad.push (kb ^^^ 0x5c)
  let inner := hashBA (ipad ++ msg)
  return hashBA (opad ++ inner)

/-- `pbkdf2Key(password, salt, iter, keyLen, sha512.New)` of lib/others/bip39/bip39.go -/
def pbkdf2BA (password salt : ByteArray) (iter keyLen : Nat) : ByteArray := Id.run do
  let hashLen := 64
  let numBlocks := (keyLen + hashLen - 1) / hashLen
  let mut dk := ByteArray.emptyWithCapacity (numBlocks * hashLen)
  for blk in [1:numBlocks+1] do
    let idx : ByteArray := ⟨#[UInt8.ofNat (blk >>> 24), UInt8.ofNat (blk >>> 16), UInt8.ofNat (blk >>> 8), UInt8.ofNat blk]⟩
    let mut u := hmacBA password (salt ++ idx)
    let mut t := u
    for _ in [2:iter+1] do
      u := hmacBA password u
      let mut t' := ByteArray.emptyWithCapacity hashLen
      for x in [0:hashLen] do
        t' := t'.push (t.get! x ^^^ u.get! x)
      t := t'
    dk := dk ++ t
  return dk.extract 0 keyLen

end Sha512

/-- SHA-512 over byte lists -/
def sha512 (b : Bytes) : Bytes := (Sha512.hashBA ⟨b.toArray⟩).toList
/-- HMAC-SHA512(key, msg) over byte lists (Go: `hmac.New(sha512.New, key); Write(msg); Sum(nil)`) -/
def hmacSha512 (key msg : Bytes) : Bytes := (Sha512.hmacBA ⟨key.toArray⟩ ⟨msg.toArray⟩).toList
/-- PBKDF2-HMAC-SHA512 over byte lists -/
def pbkdf2Sha512 (password salt : Bytes) (iter keyLen : Nat) : Bytes :=
  (Sha512.pbkdf2BA ⟨password.toArray⟩ ⟨salt.toArray⟩ iter keyLen).toList

end GocoinV
