/-
  Spec.ChainReplay — what "the unspent set equals the replay of the active branch" means for the C06 model:
  `replay` connects the blocks of a path (tip first) from the empty map with the model's own `commitTxs`/`commit`
  (script results are not re-checked here: trusted = true; they are checked when a block is first connected), and
  `PathOK c fl path` says that `path` is the active branch of the chain state `c`: linked through the tree from the tip
  to the root, every block stored, unspent map = replay (as partial functions), LastBlockHeight = length, and the undo
  file of every active height above the floor `fl` holds exactly the undo data of that height's active block.
  Second part: tree well-formedness `TreeWF`, exact cumulative work `workOf` and `MaxWork` (the tip is a maximum-work
  node), the block tree `BlockTree` the deliveries are drawn from (the assumptions of the all-histories theorems), and the
  ancestor relation `Desc`.
-/
import GocoinV.Model.ChainTree
namespace GocoinV.UtxoOps

/-- two maps agree as partial functions `txid ⇀ record` -/
def DBEq (u u' : DB) : Prop := ∀ k, u.get k = u'.get k

end GocoinV.UtxoOps

namespace GocoinV.ChainTree
open GocoinV.UtxoOps

/-- one block of a path: its id and its transactions -/
structure PE where
  id : Nat
  txs : List Tx

/-- replay of a branch (tip first) from the empty map; the block at position k from the root has height k -/
def replay : List PE → Option DB
  | [] => some []
  | e :: rest =>
    match replay rest with
    | none => none
    | some u =>
      match commitTxs u (rest.length + 1) (reward (rest.length + 1)) true e.txs with
      | .ok ch => some (commit u ch)
      | .error _ => none

def headId (c : Chain) : List PE → Nat
  | [] => c.root
  | e :: _ => e.id

/-- the path is linked through the tree (parent pointers) and every block of it is in the block store -/
def Linked (c : Chain) : List PE → Prop
  | [] => True
  | e :: rest => (∃ n, getNode c e.id = some n ∧ n.parent = headId c rest) ∧
                 (∃ blk, alookup e.id c.store = some blk ∧ blk.txs = e.txs) ∧ Linked c rest

/-- BIP30-style freshness along the path: no block re-uses a txid that is still in the map below it -/
def Fresh : List PE → Prop
  | [] => True
  | e :: rest => (∀ u, replay rest = some u → ∀ t ∈ e.txs.map (·.txid), u.get t = none) ∧ Fresh rest

/-- undo files: for every active height above the floor, `undo/<height>` = the undo data of the active block there -/
def UndoOK (c : Chain) (fl : Nat) : List PE → Prop
  | [] => True
  | e :: rest =>
    (rest.length + 1 > fl → ∃ u ch, replay rest = some u ∧
        commitTxs u (rest.length + 1) (reward (rest.length + 1)) true e.txs = .ok ch ∧
        alookup (rest.length + 1) c.undoFiles = some ch.undo) ∧ UndoOK c fl rest

structure PathOK (c : Chain) (fl : Nat) (path : List PE) : Prop where
  tip : c.tip = headId c path
  lastH : c.lastHeight = path.length
  linked : Linked c path
  utxo : ∃ u, replay path = some u ∧ DBEq c.utxo u
  undo : UndoOK c fl path
  fresh : Fresh path

-- ------------------------------------------------------------------------------------------ tree, work, block universe

/-- the node (found under id `x`) has its block data — or is the root, which has none and needs none
    (`TxCount == 0 && Parent != nil` is the code's test for "only the header is known") -/
def HasData (c : Chain) (x : Nat) (n : Node) : Prop := x = c.root ∨ n.txCount ≠ 0

/-- tree well-formedness w.r.t. the block tree `U` the deliveries are drawn from: the root node has height 0 and valid bits; every other
    node has its parent in the tree one level below and is listed among the parent's children; children lists name only
    real children; every non-root node is a block of `U` (parent, bits) and — IF IT HAS ITS DATA (`txCount ≠ 0`) — carries
    that block's transaction count and is in the block store with that block's transactions; a node WITHOUT data (a header
    that AcceptHeader linked and whose block has not been committed yet) is not in the block store (`hdr`); the nodes with
    data are closed under "parent" (`anc`: CommitBlock is only called on a node whose parent has its data — the client's
    HasAllParents test, and AcceptBlock on top of a block that has it); the block store holds only non-root nodes of the tree -/
structure TreeWF (U : List Block) (c : Chain) : Prop where
  root : ∃ r, getNode c c.root = some r ∧ r.height = 0 ∧ r.bits % 0x1000000 ≠ 0
  par : ∀ x n, getNode c x = some n → x ≠ c.root →
        ∃ p, getNode c n.parent = some p ∧ n.height = p.height + 1 ∧ x ∈ p.childs
  childs : ∀ y p, getNode c y = some p → ∀ x ∈ p.childs, x ≠ c.root ∧ ∃ n, getNode c x = some n ∧ n.parent = y
  blk : ∀ x n, getNode c x = some n → x ≠ c.root →
        ∃ b ∈ U, b.id = x ∧ b.parent = n.parent ∧ b.bits = n.bits ∧
          (n.txCount ≠ 0 → n.txCount = b.txs.length ∧ ∃ s, alookup x c.store = some s ∧ s.txs = b.txs)
  hdr : ∀ x n, getNode c x = some n → n.txCount = 0 → alookup x c.store = none
  anc : ∀ x n, getNode c x = some n → x ≠ c.root → n.txCount ≠ 0 →
        ∃ p, getNode c n.parent = some p ∧ HasData c n.parent p
  store : ∀ k s, alookup k c.store = some s → k ≠ c.root ∧ (getNode c k).isSome = true

/-- cumulative work of a node: Σ difficulty over the nodes from `n` down to (excluding) the root; exact rationals -/
def cumWorkN (c : Chain) : Nat → Node → Q
  | 0, _ => Q.zero
  | f + 1, n => if n.id == c.root then Q.zero else
      match getNode c n.parent with
      | none => Q.zero
      | some p => (cumWorkN c f p).add (difficulty n.bits)

def workOf (c : Chain) (n : Node) : Q := cumWorkN c n.height n

/-- **the tip is a maximum-work node among the nodes that have their data**: no node of the tree whose block data the
    chain has (and, by `TreeWF.anc`, the data of all its ancestors: a block that could be connected) and that has not been
    found invalid — invalid blocks are removed with their descendants when found — has more cumulative work than the tip.
    Header-only nodes (announced, data not yet received) do not compete. Since work grows strictly along a branch this is
    the same as "≥ every other leaf of the tree of blocks with data". -/
def MaxWork (c : Chain) : Prop :=
  ∃ t, getNode c c.tip = some t ∧ ∀ x n, getNode c x = some n → HasData c x n → (workOf c n).gt (workOf c t) = false

def headR (root : Nat) : List PE → Nat
  | [] => root
  | e :: _ => e.id

/-- `p` (tip first) is a chain of blocks of `U` hanging below `root` -/
def UChain (U : List Block) (root : Nat) : List PE → Prop
  | [] => True
  | e :: rest => (∃ b ∈ U, b.id = e.id ∧ b.txs = e.txs ∧ b.parent = headR root rest) ∧ UChain U root rest

/-- **the block tree the deliveries are drawn from** (assumptions on the delivered blocks): a block id determines the
    block (ids are hashes); no block is empty (CheckBlock refuses a block without coinbase); every block's bits have a
    non-zero mantissa (a valid target); BIP30 freshness along EVERY branch of the tree (no block re-uses a txid that is
    still in the unspent map of the branch below it); and no branch is longer than the unwind window `UnwindBufLen` =
    2560 (so every connected block's undo file is written and none is pruned). -/
structure BlockTree (root : Nat) (U : List Block) : Prop where
  ids : ∀ b1 ∈ U, ∀ b2 ∈ U, b1.id = b2.id → b1 = b2
  txs : ∀ b ∈ U, b.txs ≠ []
  bits : ∀ b ∈ U, b.bits % 0x1000000 ≠ 0
  fresh : ∀ p, UChain U root p → Fresh p
  depth : ∀ p, UChain U root p → p.length ≤ UnwindBufLen

-- ------------------------------------------------------------------------------------------ validity: scripts, removal

/-- every transaction of the list from position `first = false` on has `scriptsOk` (position 0 of a block is the
    coinbase: it has no inputs whose scripts could be run) -/
def allOkFrom : Bool → List Tx → Bool
  | _, [] => true
  | first, tx :: r => (first || tx.scriptsOk) && allOkFrom false r

/-- **every non-coinbase transaction of the block passed its script oracle** (`Tx.scriptsOk` = the result of
    `VerifyTxScript` over all inputs under the block's flags: an input of this model, property C01) -/
def scriptsPass (txs : List Tx) : Bool := allOkFrom true txs

/-- `b` **fails when it is connected on top of its own branch**: there is a chain `p` of blocks of `U` from the root up to
    `b`'s parent whose replay from the empty map succeeds, and `commitTxs` — scripts checked (`trusted = false`), at the
    height and with the subsidy of that position — refuses `b` on the replayed map. -/
def InvalidOnReplay (U : List Block) (root : Nat) (b : Block) : Prop :=
  ∃ p u e, UChain U root p ∧ headR root p = b.parent ∧ replay p = some u ∧
    commitTxs u (p.length + 1) (reward (p.length + 1)) false b.txs = .error e

/-- `a` is `x` or an ancestor of `x` in the block tree `U` (parent links of the BLOCKS, not of the chain state: it
    also speaks about blocks that are no longer — or never were — nodes of the tree) -/
inductive UAnc (U : List Block) (a : Nat) : Nat → Prop
  | refl : UAnc U a a
  | step {b : Block} : b ∈ U → UAnc U a b.parent → UAnc U a b.id

/-- the only excuse for a block to be missing from the tree: it, or one of its ancestors in `U`, fails when connected on
    top of its own branch -/
def Excused (U : List Block) (root : Nat) (x : Nat) : Prop :=
  ∃ b ∈ U, UAnc U b.id x ∧ InvalidOnReplay U root b

/-- **nothing but invalid blocks and their descendants is ever removed**: every node of `c` that is not a node of `c'`
    is excused -/
def Lost (U : List Block) (root : Nat) (c c' : Chain) : Prop :=
  ∀ x, (getNode c x).isSome = true → getNode c' x = none → Excused U root x

/-- stored blocks marked trusted have passed their script oracles (the mark is set only after `commitTxs` ran with the
    scripts checked, or on a block that carried it already) -/
def TrustedOK (c : Chain) : Prop :=
  ∀ k s, alookup k c.store = some s → s.trusted = true → scriptsPass s.txs = true

/-- every block of the path is stored with the trusted mark -/
def PathTrusted (c : Chain) (path : List PE) : Prop :=
  ∀ e ∈ path, ∃ s, alookup e.id c.store = some s ∧ s.trusted = true

/-- outcomes after which the delivered block HAS BEEN JUDGED: it was linked into the tree (stored aside, connected, or
    reached / not reached by a reorganisation), or refused by `commitTxs` when connected on the tip. Not admitted: a
    duplicate (judged when it first came), an orphan (`later`: its parent is not a node of the tree at that moment —
    `deliver_orphan_is_refused`), a block more than 2016 below the tip on another branch (`tooDeep`). -/
def Outcome.admitted : Outcome → Bool
  | .ok | .moveFailed | .rejected _ => true
  | _ => false

/-- one delivery, with the GHOST list (no counterpart in the code) of the ids admitted so far -/
def deliverG (s : Chain × List Nat) (b : Block) : Chain × List Nat :=
  ((deliver s.1 b).1, if (deliver s.1 b).2.admitted then b.id :: s.2 else s.2)

/-- **completeness of the tree**: every block admitted so far is a node of the tree — unless it, or one of its
    ancestors, fails `commitTxs` (scripts checked) on the replay of its parent's branch -/
def Complete (U : List Block) (root : Nat) (E : List Nat) (c : Chain) : Prop :=
  ∀ x ∈ E, (getNode c x).isSome = true ∨ Excused U root x

/-- `a` is `x` or an ancestor of `x` -/
inductive Desc (c : Chain) (a : Nat) : Nat → Prop
  | refl : Desc c a a
  | step {x : Nat} {n : Node} : getNode c x = some n → x ≠ c.root → Desc c a n.parent → Desc c a x

end GocoinV.ChainTree
