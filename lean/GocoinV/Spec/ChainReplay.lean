/-
  Spec.ChainReplay — what "the unspent set equals the replay of the active branch" means for the C06 model:
  `replay` connects the blocks of a path (tip first) from the empty map with the model's own `commitTxs`/`commit`
  (script results are not re-checked here: trusted = true; they are checked when a block is first connected), and
  `PathOK c fl path` says that `path` is the active branch of the chain state `c`: linked through the tree from the tip
  to the root, every block stored, unspent map = replay (as partial functions), LastBlockHeight = length, and the undo
  file of every active height above the floor `fl` holds exactly the undo data of that height's active block.
-/
import GocoinV.Model.ChainTree
namespace GocoinV.UtxoOps

/-- two maps agree as partial functions `txid ⇀ record` -/
def DBEq (u u' : DB) : Prop := ∀ k, u.get k = u'.get k

end GocoinV.UtxoOps

namespace GocoinV.ChainTree
open GocoinV.UtxoOps

/-- one block of a path: its id and its transactions -/
structure PE where
  id : Nat
  txs : List Tx

/-- replay of a branch (tip first) from the empty map; the block at position k from the root has height k -/
def replay : List PE → Option DB
  | [] => some []
  | e :: rest =>
    match replay rest with
    | none => none
    | some u =>
      match commitTxs u (rest.length + 1) (reward (rest.length + 1)) true e.txs with
      | .ok ch => some (commit u ch)
      | .error _ => none

def headId (c : Chain) : List PE → Nat
  | [] => c.root
  | e :: _ => e.id

/-- the path is linked through the tree (parent pointers) and every block of it is in the block store -/
def Linked (c : Chain) : List PE → Prop
  | [] => True
  | e :: rest => (∃ n, getNode c e.id = some n ∧ n.parent = headId c rest) ∧
                 (∃ blk, alookup e.id c.store = some blk ∧ blk.txs = e.txs) ∧ Linked c rest

/-- BIP30-style freshness along the path: no block re-uses a txid that is still in the map below it -/
def Fresh : List PE → Prop
  | [] => True
  | e :: rest => (∀ u, replay rest = some u → ∀ t ∈ e.txs.map (·.txid), u.get t = none) ∧ Fresh rest

/-- undo files: for every active height above the floor, `undo/<height>` = the undo data of the active block there -/
def UndoOK (c : Chain) (fl : Nat) : List PE → Prop
  | [] => True
  | e :: rest =>
    (rest.length + 1 > fl → ∃ u ch, replay rest = some u ∧
        commitTxs u (rest.length + 1) (reward (rest.length + 1)) true e.txs = .ok ch ∧
        alookup (rest.length + 1) c.undoFiles = some ch.undo) ∧ UndoOK c fl rest

structure PathOK (c : Chain) (fl : Nat) (path : List PE) : Prop where
  tip : c.tip = headId c path
  lastH : c.lastHeight = path.length
  linked : Linked c path
  utxo : ∃ u, replay path = some u ∧ DBEq c.utxo u
  undo : UndoOK c fl path
  fresh : Fresh path

end GocoinV.ChainTree
