/-
  Spec.MempoolTemplate — what "a block assembled from the listing is accepted" needs from the listing (C12).
  `BlockOK` is the input-availability part of Chain.commitTxs (lib/chain/chain_accept.go), stated abstractly:
  going through the block's transactions in order, every input must be available — either unspent in the
  confirmed set or created by an earlier transaction of the block — and is consumed by its use
  ("double spend inside the block" / "vout already spent" / "Unknown input TxID" are the failures).
  Scripts (an oracle in the model), amounts (the Fee invariant) and the weight/sigops caps (the template
  builder stops at them) are separate conditions and not part of this predicate.
-/
import GocoinV.Model.Mempool
namespace GocoinV.Mempool

abbrev OutPoint := TxId × Nat

def TxIn.op (i : TxIn) : OutPoint := (i.prev, i.vout)

def Tx.inOps (t : Tx) : List OutPoint := t.ins.map TxIn.op

/-- `o` is an output of `t` -/
def Tx.creates (t : Tx) (o : OutPoint) : Prop := o.1 = t.id ∧ o.2 < t.outs.length

/-- sequential input availability of a block body (without its coinbase) -/
def BlockOK (avail : OutPoint → Prop) : List Tx → Prop
  | [] => True
  | t :: r => t.inOps.Nodup ∧ (∀ o ∈ t.inOps, avail o) ∧
      BlockOK (fun o => (avail o ∧ o ∉ t.inOps) ∨ t.creates o) r

/-- parents-first by the MemInputs flags, for a listing that carries the records:
    every flagged parent key of an element occurs among the keys before it -/
def PFfrom (K : Keys) (seen : List Nat) : List (Nat × T2S) → Prop
  | [] => True
  | x :: r => (∀ p ∈ memParents K x.2, p ∈ seen) ∧ PFfrom K (x.1 :: seen) r

def ParentsFirst (K : Keys) (l : List (Nat × T2S)) : Prop := PFfrom K [] l

end GocoinV.Mempool
