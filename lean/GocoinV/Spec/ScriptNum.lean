/-
  Spec.ScriptNum — Bitcoin Core's `CScript() << n` for a non-negative 64-bit integer n (script.h
  `push_int64`, `CScriptNum::serialize`, push of a byte vector shorter than OP_PUSHDATA1), which is what
  BIP34 prescribes for the block height at the start of the coinbase script. Core-only.
-/
import GocoinV.Base.Hex
namespace GocoinV.Spec.ScriptNum
open GocoinV

/-- `while (absvalue) { result.push_back(absvalue & 0xff); absvalue >>= 8; }` — at most `fuel` bytes -/
def leMinAux : Nat → Nat → List Nat
  | 0, _ => []
  | f+1, n => if n = 0 then [] else (n % 256) :: leMinAux f (n / 256)

/-- `CScriptNum::serialize(n)` for 0 ≤ n < 2^64: minimal little-endian magnitude, plus a 0x00 byte when the
    top bit of the last byte is set (so that the number is not read as negative) -/
def serialize (n : Nat) : List Nat :=
  let r := leMinAux 8 n
  match r.getLast? with
  | some top => if top ≥ 0x80 then r ++ [0] else r
  | none => []

/-- `CScript() << n` for 0 ≤ n < 2^64 -/
def cscriptPush (n : Nat) : Bytes :=
  if 1 ≤ n ∧ n ≤ 16 then [UInt8.ofNat (0x50 + n)]       -- OP_1 .. OP_16
  else if n = 0 then [0]                                  -- OP_0
  else
    let d := serialize n
    UInt8.ofNat d.length :: d.map UInt8.ofNat             -- direct push: length < OP_PUSHDATA1

end GocoinV.Spec.ScriptNum
