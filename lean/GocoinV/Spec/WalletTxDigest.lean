/-
  Spec.WalletTxDigest — the wallet's transaction as the `btc.Tx` object of C02's model (Model/SigHash.lean), and the
  `Crypto` instance whose three digests ARE C02's model functions `signatureHash` / `witnessSigHash` /
  `taprootSigHash`, evaluated on the SKELETON of the transaction alone (empty scriptSigs, no witness, empty cache).
  Core only; `oracle_c13` evaluates `c02Crypto` (request `dig`) and the harness compares it with the real
  `Tx.SignatureHash` / `Tx.WitnessSigHash` / `Tx.TaprootSigHash` called on the SIGNED transaction.
-/
import GocoinV.Model.SigHash
import GocoinV.Spec.WalletTx
namespace GocoinV.SigHash

/-- the execution data of a key-path spend without annex, as the interpreter hands it to `TaprootSigHash` -/
def keyPathData : ExecData := { annexHash := none, tapleafHash := [], codesepPos := 0 }

end GocoinV.SigHash

namespace GocoinV.WalletTx
open GocoinV.WalletSpec GocoinV.SigHash

def wireIn (i : TxIn) : Wire.TxIn := { prevHash := i.txid, prevIdx := i.vout, scriptSig := i.scriptSig, sequence := i.sequence }
def wireOut (o : TxOut) : Wire.TxOut := { value := o.value, pkScript := o.script }

/-- the wallet's transaction as the `btc.Tx` object that `SignatureHash` & co. are methods of -/
def toWire (t : Tx) : Wire.Tx :=
  { version := t.version, ins := t.ins.map wireIn, outs := t.outs.map wireOut, witness := t.wit, lockTime := t.lockTime }

/-- the `btc.Tx` object that carries nothing but the skeleton: empty scriptSigs, no witness -/
def skelWire (sk : Skeleton) : Wire.Tx :=
  { version := sk.version
    ins := sk.outpoints.map fun p => { prevHash := p.1, prevIdx := p.2.1, scriptSig := [], sequence := p.2.2 }
    outs := sk.outs.map wireOut, witness := none, lockTime := sk.lockTime }

/-- the `Crypto` instance whose three digests ARE C02's model functions (legacy / BIP143 / BIP341 key path), evaluated on
    the skeleton alone with an empty cache; `sha` is single SHA-256 in the oracle -/
def c02Crypto (sha h160 : Bytes → Bytes) (ev sv : Bytes → Bytes → Bytes → Bool) : Crypto where
  hash160 := h160
  ecdsaVerify := ev
  schnorrVerify := sv
  legacyDigest sk i sc ht := ((signatureHash sha (skelWire sk) sc i ht).digest?).getD []
  witnessDigest sk i sc amount ht := ((witnessSigHash sha (skelWire sk) {} sc amount i ht).1.digest?).getD []
  taprootDigest sk spent i ht :=
    ((taprootSigHash true sha (skelWire sk) (spent.map wireOut) {} keyPathData i ht false).1.digest?).getD []

end GocoinV.WalletTx
