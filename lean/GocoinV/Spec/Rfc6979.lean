/-
  Spec.Rfc6979 — RFC 6979 §3.2 deterministic nonce generation, instantiated for a 256-bit group
  order and a 256-bit HMAC (hlen = qlen = 256, so step h.2 runs exactly once per candidate).
  Written from the RFC text; the hash inside HMAC is a parameter.
    x  = int2octets(private key)  (32 bytes)
    h1 = bits2octets(H(m))        (32 bytes; equals the message hash itself when int(hash) < q)
  The functions below take `h1` as a parameter. Props.C03.rfc6979_matches applies them to the message
  hash bytes UNREDUCED — that is libsecp256k1's variant of §3.2 (no bits2octets), identical to the RFC
  when int(hash) < q and different from it when int(hash) ≥ q.
-/
import GocoinV.Base.C03_Hmac
import GocoinV.Base.Secp
namespace GocoinV.Spec.Rfc6979
open GocoinV.C03

structure St where
  K : Bytes
  V : Bytes

/-- steps b–g -/
def init (H : Hash) (x h1 : Bytes) : St :=
  let V := fill 32 0x01                               -- b
  let K := fill 32 0x00                               -- c
  let K := hmac H K (V ++ [0x00] ++ x ++ h1)          -- d
  let V := hmac H K V                                 -- e
  let K := hmac H K (V ++ [0x01] ++ x ++ h1)          -- f
  let V := hmac H K V                                 -- g
  ⟨K, V⟩

/-- step h.1/h.2: T = V = HMAC_K(V) (one block because hlen = qlen) -/
def gen (H : Hash) (s : St) : St := ⟨s.K, hmac H s.K s.V⟩

/-- step h.3, the "otherwise" branch: K = HMAC_K(V ‖ 0x00); V = HMAC_K(V) -/
def reseed (H : Hash) (s : St) : St :=
  let K := hmac H s.K (s.V ++ [0x00])
  ⟨K, hmac H K s.V⟩

/-- state right after the `i`-th candidate (0-based) has been produced -/
def stateAt (H : Hash) (x h1 : Bytes) : Nat → St
  | 0 => gen H (init H x h1)
  | i+1 => gen H (reseed H (stateAt H x h1 i))

/-- the `i`-th candidate T (as bytes); k = bits2int(T) = big-endian value -/
def candidate (H : Hash) (x h1 : Bytes) (i : Nat) : Bytes := (stateAt H x h1 i).V

def valid (T : Bytes) : Bool := 0 < beVal T && beVal T < Secp.n

/-- first acceptable candidate among the first `fuel` ones -/
def nonceFrom (H : Hash) (x h1 : Bytes) (i : Nat) : Nat → Option Nat
  | 0 => none
  | fuel+1 =>
    let T := candidate H x h1 i
    if valid T then some (beVal T) else nonceFrom H x h1 (i+1) fuel

def nonce (H : Hash) (x h1 : Bytes) (fuel : Nat := 64) : Option Nat := nonceFrom H x h1 0 fuel

end GocoinV.Spec.Rfc6979
