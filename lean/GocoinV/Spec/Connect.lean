/-
  Spec.Connect — what property C04 MEANS: Bitcoin's ConnectBlock over an abstract map OutPoint ⇀ Coin in the
  obvious sequential form (after Bitcoin Core's tx_check.cpp CheckTransaction, tx_verify.cpp CheckTxInputs /
  IsFinalTx / CalculateSequenceLocks / EvaluateSequenceLocks / GetTransactionSigOpCost and validation.cpp
  ConnectBlock), written without looking at how gocoin organises the work:
    * every amount and every per-transaction total lies in [0, MAX_MONEY]           (MoneyRange)
    * each input names a coin that is in the map at that point; it is removed when spent
    * coinbase coins are spendable from depth 100                                    (maturity)
    * BIP68 relative lock-times hold when CSV is active and tx.version ≥ 2
    * every input script verifies (oracle Bool per input)
    * inputs cover outputs; the coinbase claims at most subsidy(height) + fees
    * the block's signature-operation cost (no exception for OP_RETURN) is ≤ 80000
  The map is an association list; its meaning is `get`.  Unspendable (OP_RETURN) outputs are kept in the map as
  gocoin does by default — they can never be spent, so validity is unaffected.  BIP30 is not part of the spec
  (Core does not evaluate it where BIP34 guarantees distinct txids); theorems state txid freshness as a hypothesis.
  Core-only; reuses the data types and the script tokeniser (`getOpcode`) of Model.Connect, nothing else.
-/
import GocoinV.Model.Connect
namespace GocoinV.Spec.Connect
open GocoinV.Connect (OutPoint TxOut TxIn Tx Block aGet aSet aDel getOpcode isP2SH isWitnessProgram)

def MAX_MONEY : Nat := 2100000000000000
def moneyRange (v : Nat) : Bool := v ≤ MAX_MONEY

structure Coin where
  value : Nat
  script : Bytes
  height : Nat
  coinbase : Bool
  mtpPrev : Nat      -- median time past of the block BEFORE the one that created the coin (BIP68 time locks)
  deriving DecidableEq, Repr, Inhabited

abbrev Utxo := List (OutPoint × Coin)

inductive Err
  | noCoinbase | multipleCoinbase
  | vinEmpty | voutEmpty | oversize | voutRange | cbLength | prevoutNull | dupInput | nonFinal
  | missingInput | immature | inputRange | inBelowOut | feeRange | seqLock | script | sigops | cbAmount
  deriving DecidableEq, Repr

/-- subsidy: 50 BTC halved every 210000 blocks, 0 from the 64th halving on -/
def subsidy (height : Nat) : Nat :=
  let halvings := height / 210000
  if halvings ≥ 64 then 0 else 5000000000 / 2 ^ halvings

/-! sigop cost (Core's CScript::GetSigOpCount — NO stop at OP_RETURN) -/

def sigOpLoop (accurate : Bool) : Nat → Bytes → Nat → Nat → Nat
  | 0, _, _, n => n
  | fuel+1, scr, last, n =>
    if scr.isEmpty then n else
    match getOpcode scr with
    | none => n
    | some (opcode, _, le) =>
      let n' :=
        if opcode = 0xac ∨ opcode = 0xad then n + 1
        else if opcode = 0xae ∨ opcode = 0xaf then
          (if accurate ∧ 0x51 ≤ last ∧ last ≤ 0x60 then n + (last - 0x50) else n + 20)
        else n
      sigOpLoop accurate fuel (scr.drop le) opcode n'

def sigOpCount (scr : Bytes) (accurate : Bool) : Nat := sigOpLoop accurate scr.length scr 0xff 0

/-- data pushed by the last opcode of a push-only script; `none` if not push-only / malformed -/
def lastPushOnly : Nat → Bytes → Bytes → Option Bytes
  | 0, _, d => some d
  | fuel+1, scr, d =>
    if scr.isEmpty then some d else
    match getOpcode scr with
    | none => none
    | some (opcode, d', le) => if opcode > 0x60 then none else lastPushOnly fuel (scr.drop le) d'

def p2shSigOps (scriptSig : Bytes) : Nat :=
  match lastPushOnly scriptSig.length scriptSig [] with
  | none => 0
  | some redeem => sigOpCount redeem true

def witProgSigOps (ver : Nat) (prog : Bytes) (wit : List Bytes) : Nat :=
  if ver = 0 ∧ prog.length = 20 then 1
  else if ver = 0 ∧ prog.length = 32 ∧ wit ≠ [] then sigOpCount (wit.getLastD []) true
  else 0

def witnessSigOps (inp : TxIn) (pk : Bytes) : Nat :=
  match isWitnessProgram pk with
  | some (v, p) => witProgSigOps v p inp.witness
  | none =>
    if isP2SH pk then
      match lastPushOnly inp.scriptSig.length inp.scriptSig [] with
      | some d => (match isWitnessProgram d with
                   | some (v, p) => witProgSigOps v p inp.witness
                   | none => 0)
      | none => 0
    else 0

def legacySigOps (tx : Tx) : Nat :=
  (tx.ins.map fun i => sigOpCount i.scriptSig false).sum + (tx.outs.map fun o => sigOpCount o.script false).sum

/-- GetTransactionSigOpCost for a non-coinbase tx, given the coins its inputs spend -/
def inputSigOpCost (b : Block) (inp : TxIn) (c : Coin) : Nat :=
  (if b.p2sh ∧ isP2SH c.script then 4 * p2shSigOps inp.scriptSig else 0)
  + (if b.witness then witnessSigOps inp c.script else 0)

/-! context-free transaction checks (CheckTransaction) and finality -/

def outsInRange : List TxOut → Nat → Bool
  | [], _ => true
  | o :: r, tot => moneyRange o.value && moneyRange (tot + o.value) && outsInRange r (tot + o.value)

def isNull (p : OutPoint) : Bool := p.hash.all (· = 0) && p.vout = 0xffffffff

def isCoinBase (tx : Tx) : Bool := tx.ins.length = 1 && (tx.ins.all fun i => isNull i.prev)

def hasDup : List OutPoint → Bool
  | [] => false
  | p :: r => r.contains p || hasDup r

def checkTransaction (tx : Tx) : Except Err Unit := do
  if tx.ins = [] then throw .vinEmpty
  if tx.outs = [] then throw .voutEmpty
  if tx.noWitSize * 4 > 4000000 then throw .oversize
  if !outsInRange tx.outs 0 then throw .voutRange
  if hasDup (tx.ins.map (·.prev)) then throw .dupInput
  if isCoinBase tx then
    let l := (tx.ins.map (·.scriptSig.length)).sum
    if l < 2 ∨ l > 100 then throw .cbLength
  else if tx.ins.any (fun i => isNull i.prev) then throw .prevoutNull

def isFinalTx (tx : Tx) (height cutoff : Nat) : Bool :=
  tx.lockTime = 0
  || tx.lockTime < (if tx.lockTime < 500000000 then height else cutoff)
  || tx.ins.all (·.sequence = 0xffffffff)

/-! BIP68 -/

def SEQ_DISABLE : Nat := 2^31
def SEQ_TYPE_TIME : Nat := 2^22
def SEQ_MASK : Nat := 0xffff

/-- one input's relative lock is satisfied in a block at `height` whose parent has median time past `mtp`.
    Core: nMinHeight = coinHeight + v − 1 must be < height; nMinTime = coinMtp + (v·512) − 1 must be < mtp. -/
def seqLockOk (height mtp : Nat) (inp : TxIn) (c : Coin) : Bool :=
  if inp.sequence / SEQ_DISABLE % 2 = 1 then true
  else
    let v := inp.sequence % (SEQ_MASK + 1)
    if inp.sequence / SEQ_TYPE_TIME % 2 = 1 then c.mtpPrev + v * 512 < mtp + 1
    else c.height + v < height + 1

/-! ConnectBlock -/

/-- running totals of one transaction's input loop -/
structure InAcc where
  utxo : Utxo
  valueIn : Nat
  sigops : Nat

def spendInput (b : Block) (tx : Tx) (inp : TxIn) (a : InAcc) : Except Err InAcc := do
  match aGet a.utxo inp.prev with
  | none => throw .missingInput
  | some c =>
    if c.coinbase ∧ b.height - c.height < 100 then throw .immature
    if !moneyRange c.value ∨ !moneyRange (a.valueIn + c.value) then throw .inputRange
    if b.csv ∧ tx.version ≥ 2 ∧ !seqLockOk b.height b.mtp inp c then throw .seqLock
    if !inp.scriptOk then throw .script
    pure { utxo := aDel a.utxo inp.prev, valueIn := a.valueIn + c.value, sigops := a.sigops + inputSigOpCost b inp c }

def spendInputs (b : Block) (tx : Tx) : List TxIn → InAcc → Except Err InAcc
  | [], a => .ok a
  | i :: r, a =>
    match spendInput b tx i a with
    | .error e => .error e
    | .ok a' => spendInputs b tx r a'

def addOuts (u : Utxo) (txid : Bytes) (b : Block) (cb : Bool) : List TxOut → Nat → Utxo
  | [], _ => u
  | o :: r, i => addOuts (aSet u ⟨txid, i⟩ ⟨o.value, o.script, b.height, cb, b.mtp⟩) txid b cb r (i + 1)

def outSum (tx : Tx) : Nat := (tx.outs.map (·.value)).sum

structure Acc where
  utxo : Utxo
  fees : Nat
  sigops : Nat

/-- connect one non-coinbase transaction -/
def connectTx (b : Block) (tx : Tx) (a : Acc) : Except Err Acc := do
  let r ← spendInputs b tx tx.ins ⟨a.utxo, 0, 0⟩
  if r.valueIn < outSum tx then throw .inBelowOut
  let fee := r.valueIn - outSum tx
  if !moneyRange (a.fees + fee) then throw .feeRange
  pure { utxo := addOuts r.utxo tx.txid b false tx.outs 0, fees := a.fees + fee,
         sigops := a.sigops + 4 * legacySigOps tx + r.sigops }

def connectTxs (b : Block) : List Tx → Acc → Except Err Acc
  | [], a => .ok a
  | tx :: r, a =>
    match connectTx b tx a with
    | .error e => .error e
    | .ok a' => connectTxs b r a'

def connectBlock (u : Utxo) (b : Block) : Except Err Utxo := do
  match b.txs with
  | [] => throw .noCoinbase
  | cb :: rest =>
    if !isCoinBase cb then throw .noCoinbase
    if rest.any isCoinBase then throw .multipleCoinbase
    b.txs.forM fun tx => do
      checkTransaction tx
      if !isFinalTx tx b.height (if b.csv then b.mtp else b.time) then throw .nonFinal
    -- the coinbase's outputs enter the map first (they are immature for the rest of the block anyway)
    let u0 := addOuts u cb.txid b true cb.outs 0
    let a ← connectTxs b rest ⟨u0, 0, 4 * legacySigOps cb⟩
    if a.sigops > 80000 then throw .sigops
    if outSum cb > subsidy b.height + a.fees then throw .cbAmount
    pure a.utxo

end GocoinV.Spec.Connect

/-! ## the abstraction from gocoin's record-level set to the spec's coin map -/
namespace GocoinV.Spec.Connect
open GocoinV.Connect (DB Rec key8 aGet OutPoint TxOut)

/-- the coin that gocoin's set holds for an outpoint: the record filed under the first 8 txid bytes, provided it
    IS the record of that txid.  `mtpOf h` = median time past of the block before height `h` (gocoin does not store
    it; the chain context supplies it). -/
def absGet (mtpOf : Nat → Nat) (db : DB) (op : OutPoint) : Option Coin :=
  match aGet db (key8 op.hash) with
  | none => none
  | some r =>
    if r.txid = op.hash then
      (r.outs.getD op.vout none).map fun o => ⟨o.value, o.script, r.height, r.coinbase, mtpOf r.height⟩
    else none

def recCoins (mtpOf : Nat → Nat) (r : Rec) : List (Option TxOut) → Nat → Utxo
  | [], _ => []
  | none :: t, i => recCoins mtpOf r t (i + 1)
  | some o :: t, i => (⟨r.txid, i⟩, ⟨o.value, o.script, r.height, r.coinbase, mtpOf r.height⟩) :: recCoins mtpOf r t (i + 1)

/-- the same as an (executable) association list -/
def absList (mtpOf : Nat → Nat) (db : DB) : Utxo := db.flatMap fun kr => recCoins mtpOf kr.2 kr.2.outs 0

def isOk {ε α : Type} : Except ε α → Bool
  | .ok _ => true
  | .error _ => false

def failsWith {ε α : Type} [DecidableEq ε] (r : Except ε α) (e : ε) : Bool :=
  match r with
  | .error e' => decide (e' = e)
  | .ok _ => false

end GocoinV.Spec.Connect
