/-
  Spec.Bip32 — BIP32 as the BIP states it (child key derivation functions, neutering, paths), over the
  reference curve of Base/Secp.lean. Written from the BIP text, independently of Model/HD.lean:
  integers are `Nat`, `ser32/ser256/serP/parse256` are the BIP's conversion functions, HMAC-SHA512 is a
  parameter. `none` is the BIP's "the resulting key is invalid, and one should proceed with the next
  value for i" (for CKDpub also: "failure" for hardened i).
-/
import GocoinV.Base.Secp
namespace GocoinV.Spec.Bip32
open GocoinV Secp

def ser32 (i : Nat) : Bytes := beBytes 4 i
def ser256 (k : Nat) : Bytes := beBytes 32 k
def parse256 (b : Bytes) : Nat := beVal b
def point (k : Nat) : Point := mul k G
def serP (P : Point) : Bytes := ser33 P

/-- CKDpriv((k_par, c_par), i) → (k_i, c_i) -/
def ckdPriv (hmac : Bytes → Bytes → Bytes) (kpar : Nat) (cpar : Bytes) (i : Nat) : Option (Nat × Bytes) :=
  let I := if i ≥ 2 ^ 31 then hmac cpar ([0] ++ ser256 kpar ++ ser32 i)
           else hmac cpar (serP (point kpar) ++ ser32 i)
  let IL := parse256 (I.take 32)
  let IR := I.drop 32
  let k := (IL + kpar) % n
  if IL ≥ n ∨ k = 0 then none else some (k, IR)

/-- CKDpub((K_par, c_par), i) → (K_i, c_i) -/
def ckdPub (hmac : Bytes → Bytes → Bytes) (Kpar : Point) (cpar : Bytes) (i : Nat) : Option (Point × Bytes) :=
  if i ≥ 2 ^ 31 then none
  else
    let I := hmac cpar (serP Kpar ++ ser32 i)
    let IL := parse256 (I.take 32)
    let IR := I.drop 32
    let K := add (point IL) Kpar
    if IL ≥ n ∨ K = none then none else some (K, IR)

/-- N((k, c)) → (K, c) -/
def neuter (kc : Nat × Bytes) : Point × Bytes := (point kc.1, kc.2)

/-- key fingerprint: first 32 bits of HASH160(serP(K)) -/
def fingerprint (hash160 : Bytes → Bytes) (K : Point) : Bytes := (hash160 (serP K)).take 4

/-- private derivation along a path (m / i1 / i2 / …) -/
def derivePriv (hmac : Bytes → Bytes → Bytes) : Nat × Bytes → List Nat → Option (Nat × Bytes)
  | kc, [] => some kc
  | kc, i :: t => match ckdPriv hmac kc.1 kc.2 i with
    | none => none
    | some kc' => derivePriv hmac kc' t

end GocoinV.Spec.Bip32
