/-
  Spec.Balances — what property C17 means: the projection of the unspent-output set onto one address.
  Executable (the oracle evaluates it next to the model's GetAllUnspent); core-only.
-/
import GocoinV.Model.Balances
namespace GocoinV.Spec.Balances
open GocoinV.Model.Balances

/-- outputs of one stored record paying to script `scr` with value ≥ `min`, positions counted from `j` -/
def recPays (min : Nat) (scr : Bytes) (r : Rec) : List (Option Out) → Nat → List Unspent
  | [], _ => []
  | o :: rest, j =>
    match o with
    | some o =>
      if min ≤ o.value ∧ o.script = scr then
        { txid := r.txid, vout := j, value := o.value, minedAt := r.inBlock, coinbase := r.coinbase } :: recPays min scr r rest (j + 1)
      else recPays min scr r rest (j + 1)
    | none => recPays min scr r rest (j + 1)

/-- `{o ∈ utxo | script o pays a ∧ value o ≥ min}` as a list in storage order -/
def projection (min : Nat) (utxo : Utxo) (a : Addr) : List Unspent :=
  utxo.flatMap (fun p => recPays min a.script p.2 p.2.outs 0)

def sumValues (l : List Unspent) : Nat := (l.map (·.value)).sum

/-- membership form of the projection (the form the theorems use):
    `u` is an unspent output of the set `utxo` that pays to `a` and is worth at least `min` -/
def Pays (min : Nat) (utxo : Utxo) (a : Addr) (u : Unspent) : Prop :=
  ∃ r o, aget (u.txid.take 8) utxo = some r ∧ outAt r.outs u.vout = some o ∧
    min ≤ o.value ∧ o.script = a.script ∧
    u = { txid := r.txid, vout := u.vout, value := o.value, minedAt := r.inBlock, coinbase := r.coinbase }

end GocoinV.Spec.Balances
