/-
  Spec.Script — the Bitcoin script rules, written independently of gocoin in the shape of Bitcoin Core's
  script/interpreter.cpp (as of the taproot era): BIP16 (P2SH), BIP65/112 (CLTV/CSV), BIP66 (DERSIG),
  BIP141/143 (segwit v0), BIP146/147 (LOW_S, NULLFAIL, NULLDUMMY), BIP341/342 (taproot, tapscript).

  Shape (deliberately different from the model):
    * the script is PARSED first into a list of instructions, with a flag for a decode error behind the last
      well-formed instruction (`parse`);
    * numbers are `Int`s with an explicit `ScriptNum` encode / decode / minimality rule;
    * the condition stack is Core's counter form (`Cond`: size + position of the first false);
    * flags are a record of Booleans (`Flags`), decoded from gocoin's bit mask by `Flags.ofMask`;
    * one small semantic function per opcode (group), errors are Core's `ScriptError` names;
    * `verifyScript` / `verifyWitnessProgram` / `executeWitnessScript` follow Core's functions of the same name.
  Cryptography is the same `Oracles` parameter as in the model (shared vocabulary, no shared logic).
  `ScriptError.NEED` only exists so that the oracle driver can run the spec against a partial table.

  Spec decisions (DESIGN.md §6 C01):
    * LOW_S: "S ∈ [1, n/2]" per BIP146's text is read as: a DER-valid signature whose S value (as the
      big-endian integer it encodes) exceeds n/2 is high — no modular reduction of an overflowing S.
    * CLTV / CSV with their flag off are plain NOPs (current Core), also under DISCOURAGE_UPGRADABLE_NOPS;
      `Quirks.discourageCltvCsv` switches to the old-Core / gocoin reading (used only to CLASSIFY differences).
    * BIP341: an undefined hash type, or SIGHASH_SINGLE without a corresponding output, has NO digest and the
      signature check fails (`Quirks.tapUndefinedHashType` again only for classification).
    * Pay-to-anchor (Core ≥ 28: witness v1, 2-byte program 4e73 exempt from DISCOURAGE_UPGRADABLE_WITNESS_PROGRAM)
      is policy only and not modelled.
-/
import GocoinV.Model.ScriptBase
namespace GocoinV.ScriptSpec
open GocoinV.Script (Oracles Query TxCtx SigVersion)

inductive ScriptError where
  | EVAL_FALSE | OP_RETURN | SCRIPT_SIZE | PUSH_SIZE | OP_COUNT | STACK_SIZE | SIG_COUNT | PUBKEY_COUNT
  | VERIFY | EQUALVERIFY | CHECKMULTISIGVERIFY | CHECKSIGVERIFY | NUMEQUALVERIFY
  | BAD_OPCODE | DISABLED_OPCODE | INVALID_STACK_OPERATION | INVALID_ALTSTACK_OPERATION | UNBALANCED_CONDITIONAL
  | NEGATIVE_LOCKTIME | UNSATISFIED_LOCKTIME
  | SIG_HASHTYPE | SIG_DER | MINIMALDATA | SIG_PUSHONLY | SIG_HIGH_S | SIG_NULLDUMMY | PUBKEYTYPE | CLEANSTACK
  | MINIMALIF | SIG_NULLFAIL
  | DISCOURAGE_UPGRADABLE_NOPS | DISCOURAGE_UPGRADABLE_WITNESS_PROGRAM | DISCOURAGE_UPGRADABLE_TAPROOT_VERSION
  | DISCOURAGE_OP_SUCCESS | DISCOURAGE_UPGRADABLE_PUBKEYTYPE
  | WITNESS_PROGRAM_WRONG_LENGTH | WITNESS_PROGRAM_WITNESS_EMPTY | WITNESS_PROGRAM_MISMATCH
  | WITNESS_MALLEATED | WITNESS_MALLEATED_P2SH | WITNESS_UNEXPECTED | WITNESS_PUBKEYTYPE
  | SCHNORR_SIG_SIZE | SCHNORR_SIG_HASHTYPE | SCHNORR_SIG
  | TAPROOT_WRONG_CONTROL_SIZE | TAPSCRIPT_VALIDATION_WEIGHT | TAPSCRIPT_CHECKMULTISIG | TAPSCRIPT_MINIMALIF
  | OP_CODESEPARATOR | SIG_FINDANDDELETE
  | UNKNOWN_ERROR
  | NEED (q : Query)
  deriving DecidableEq, Repr

abbrev E := Except ScriptError
open ScriptError

/-! ## flags -/

structure Flags where
  p2sh : Bool
  strictenc : Bool
  dersig : Bool
  lowS : Bool
  nulldummy : Bool
  sigpushonly : Bool
  minimaldata : Bool
  discourageNops : Bool
  cleanstack : Bool
  cltv : Bool
  csv : Bool
  witness : Bool
  discourageWitnessProgram : Bool
  minimalif : Bool
  nullfail : Bool
  witnessPubkeytype : Bool
  constScriptcode : Bool
  taproot : Bool
  discourageTaprootVersion : Bool
  discourageOpSuccess : Bool
  discouragePubkeytype : Bool
  deriving DecidableEq, Repr

/-- gocoin's `VER_*` bit positions (lib/script/script.go) -/
def Flags.ofMask (m : Nat) : Flags where
  p2sh := m.testBit 0
  strictenc := m.testBit 1
  dersig := m.testBit 2
  lowS := m.testBit 3
  nulldummy := m.testBit 4
  sigpushonly := m.testBit 5
  minimaldata := m.testBit 6
  discourageNops := m.testBit 7
  cleanstack := m.testBit 8
  cltv := m.testBit 9
  csv := m.testBit 10
  witness := m.testBit 11
  discourageWitnessProgram := m.testBit 12
  minimalif := m.testBit 13
  nullfail := m.testBit 14
  witnessPubkeytype := m.testBit 15
  constScriptcode := m.testBit 16
  taproot := m.testBit 17
  discourageTaprootVersion := m.testBit 18
  discourageOpSuccess := m.testBit 19
  discouragePubkeytype := m.testBit 20

/-- Core's flag dependencies (the `assert`s of VerifyScript and script_tests' consistency rule) -/
def FlagsOk (f : Flags) : Prop :=
  (f.witness → f.p2sh) ∧ (f.cleanstack → f.p2sh ∧ f.witness) ∧ (f.taproot → f.witness)

instance (f : Flags) : Decidable (FlagsOk f) := by unfold FlagsOk; exact inferInstance

/-- switches used ONLY to classify a difference between gocoin and the rules (all `false` = the rules) -/
structure Quirks where
  discourageCltvCsv : Bool := false
  tapUndefinedHashType : Bool := false
  deriving Repr

/-! ## parsing -/

structure Instr where
  op : Nat
  data : Bytes
  /-- the script from the byte behind this instruction to its end (`pc … pend`) -/
  after : Bytes
  deriving Repr, DecidableEq

/-- Core's `GetScriptOp` on the bytes at `pc`; `none` = false -/
def parseOne : Bytes → Option Instr
  | [] => none
  | c :: t =>
    if c.toNat ≤ 0x4e then
      let k : Nat := if c.toNat < 0x4c then 0 else if c.toNat = 0x4c then 1 else if c.toNat = 0x4d then 2 else 4
      if t.length < k then none else
      let size := if k = 0 then c.toNat else leVal (t.take k)
      let body := t.drop k
      if body.length < size then none else some ⟨c.toNat, body.take size, body.drop size⟩
    else some ⟨c.toNat, [], t⟩

/-- the instruction list and whether a decode error follows it -/
def parseAux : Nat → Bytes → List Instr × Bool
  | 0, s => ([], !s.isEmpty)
  | f+1, s =>
    if s.isEmpty then ([], false) else
    match parseOne s with
    | none => ([], true)
    | some i => let (r, bad) := parseAux f i.after; (i :: r, bad)
def parse (s : Bytes) : List Instr × Bool := parseAux s.length s

/-! ## ScriptNum -/

namespace ScriptNum

/-- `CScriptNum::set_vch` -/
def decode (b : Bytes) : Int :=
  match b.getLast? with
  | none => 0
  | some l =>
    let raw : Nat := leVal b
    if l.toNat ≥ 0x80 then -((raw - 0x80 * 256 ^ (b.length - 1) : Nat) : Int) else raw

def absBytes : Nat → Nat → Bytes
  | 0, _ => []
  | f+1, n => if n = 0 then [] else UInt8.ofNat (n % 256) :: absBytes f (n / 256)

/-- `CScriptNum::serialize` -/
def encode (v : Int) : Bytes :=
  if v = 0 then [] else
  let r := absBytes v.natAbs v.natAbs
  match r.getLast? with
  | none => []
  | some l =>
    if l.toNat ≥ 0x80 then r ++ [if v < 0 then 0x80 else 0x00]
    else if v < 0 then r.dropLast ++ [UInt8.ofNat (l.toNat + 0x80)]
    else r

/-- the minimal-encoding rule of `CScriptNum(vch, fRequireMinimal)` -/
def minimal (b : Bytes) : Bool :=
  match b.getLast? with
  | none => true
  | some l =>
    if l.toNat % 128 = 0 then
      -- only allowed when the byte is needed to hold the sign next to a set top bit
      b.length > 1 && (b.getD (b.length - 2) 0).toNat ≥ 0x80
    else true

/-- `CScriptNum(vch, fRequireMinimal, nMaxNumSize)`; the C++ exception `scriptnum_error` ends the script
    with UNKNOWN_ERROR -/
def read (b : Bytes) (requireMinimal : Bool) (maxSize : Nat := 4) : E Int :=
  if b.length > maxSize then throw UNKNOWN_ERROR
  else if requireMinimal && !minimal b then throw UNKNOWN_ERROR
  else pure (decode b)

end ScriptNum

/-- `CastToBool` -/
def castToBool (b : Bytes) : Bool :=
  b.dropLast.any (· != 0) ||
  (match b.getLast? with | some l => l != 0 && l != 0x80 | none => false)

def vchTrue : Bytes := [1]
def vchFalse : Bytes := []
def ofBool (b : Bool) : Bytes := if b then vchTrue else vchFalse

/-! ## condition stack (Core's `ConditionStack`) -/

structure Cond where
  size : Nat := 0
  firstFalse : Option Nat := none
  deriving DecidableEq, Repr

namespace Cond
def empty (c : Cond) : Bool := c.size == 0
def allTrue (c : Cond) : Bool := c.firstFalse.isNone
def push (c : Cond) (f : Bool) : Cond :=
  { size := c.size + 1, firstFalse := if c.firstFalse.isNone && !f then some c.size else c.firstFalse }
def pop (c : Cond) : Cond :=
  { size := c.size - 1, firstFalse := if c.firstFalse == some (c.size - 1) then none else c.firstFalse }
def toggleTop (c : Cond) : Cond :=
  match c.firstFalse with
  | none => { c with firstFalse := some (c.size - 1) }
  | some p => if p == c.size - 1 then { c with firstFalse := none } else c
end Cond

/-! ## encodings (BIP66 / BIP146 / STRICTENC / BIP143 key types) -/

/-- BIP66 strict DER with the hash-type byte appended (`IsValidSignatureEncoding`) -/
def isValidSignatureEncoding (sig : Bytes) : Bool :=
  let n := sig.length
  let g (i : Nat) : Nat := (sig.getD i 0).toNat
  9 ≤ n && n ≤ 73 && g 0 == 0x30 && g 1 == n - 3 &&
  (let lenR := g 3
   5 + lenR < n &&
   (let lenS := g (5 + lenR)
    lenR + lenS + 7 == n &&
    g 2 == 0x02 && lenR != 0 && g 4 < 0x80 && !(lenR > 1 && g 4 == 0 && g 5 < 0x80) &&
    g (lenR + 4) == 0x02 && lenS != 0 && g (lenR + 6) < 0x80 &&
    !(lenS > 1 && g (lenR + 6) == 0 && g (lenR + 7) < 0x80)))

def secpHalfOrder : Nat := 0x7FFFFFFFFFFFFFFFFFFFFFFFFFFFFFFF5D576E7357A4501DDFE92F46681B20A0

/-- the S value of a strictly DER-encoded signature -/
def derS (sig : Bytes) : Nat :=
  let lenR := (sig.getD 3 0).toNat
  let lenS := (sig.getD (5 + lenR) 0).toNat
  beVal ((sig.drop (6 + lenR)).take lenS)

def isLowDERSignature (sig : Bytes) : E Bool :=
  if !isValidSignatureEncoding sig then throw SIG_DER
  else pure (derS sig ≤ secpHalfOrder)

def isDefinedHashtypeSignature (sig : Bytes) : Bool :=
  match sig.getLast? with
  | none => false
  | some l => let t := l.toNat % 128; 1 ≤ t && t ≤ 3

def checkSignatureEncoding (f : Flags) (sig : Bytes) : E Unit := do
  if sig.isEmpty then return ()
  if (f.dersig || f.lowS || f.strictenc) && !isValidSignatureEncoding sig then throw SIG_DER
  if f.lowS then
    if !(← isLowDERSignature sig) then throw SIG_HIGH_S
  if f.strictenc && !isDefinedHashtypeSignature sig then throw SIG_HASHTYPE

def isCompressedOrUncompressedPubKey (pk : Bytes) : Bool :=
  match pk with
  | [] => false
  | h :: _ =>
    if pk.length < 33 then false
    else if h == 0x04 then pk.length == 65
    else if h == 0x02 || h == 0x03 then pk.length == 33
    else false

def isCompressedPubKey (pk : Bytes) : Bool :=
  match pk with
  | h :: _ => pk.length == 33 && (h == 0x02 || h == 0x03)
  | [] => false

def checkPubKeyEncoding (f : Flags) (sv : SigVersion) (pk : Bytes) : E Unit := do
  if f.strictenc && !isCompressedOrUncompressedPubKey pk then throw PUBKEYTYPE
  if f.witnessPubkeytype && sv == .witnessV0 && !isCompressedPubKey pk then throw WITNESS_PUBKEYTYPE

/-- `CheckMinimalPush` -/
def checkMinimalPush (data : Bytes) (opcode : Nat) : Bool :=
  match data with
  | [] => opcode == 0x00
  | [b] =>
    if 1 ≤ b.toNat && b.toNat ≤ 16 then opcode == 0x50 + b.toNat
    else if b == 0x81 then opcode == 0x4f
    else opcode == 1
  | _ =>
    if data.length ≤ 75 then opcode == data.length
    else if data.length ≤ 255 then opcode == 0x4c
    else if data.length ≤ 65535 then opcode == 0x4d
    else true

/-- `CScript() << vch`: the canonical push of a byte vector -/
def pushEncoding (v : Bytes) : Bytes :=
  let n := v.length
  if n < 0x4c then UInt8.ofNat n :: v
  else if n ≤ 0xff then 0x4c :: UInt8.ofNat n :: v
  else if n ≤ 0xffff then 0x4d :: (leBytes 2 n ++ v)
  else 0x4e :: (leBytes 4 n ++ v)

def startsWith (s b : Bytes) : Bool := s.take b.length == b

/-- strip every occurrence of `b` at the current position -/
def skipMatches (b : Bytes) : Nat → Bytes → Nat → Bytes × Nat
  | 0, pc, found => (pc, found)
  | f+1, pc, found =>
    if pc.length ≥ b.length && startsWith pc b then skipMatches b f (pc.drop b.length) (found + 1)
    else (pc, found)

def findAndDeleteAux (b : Bytes) : Nat → Bytes → Bytes → Nat → Bytes × Nat
  | 0, pc, result, found => (result ++ pc, found)
  | f+1, pc, result, found =>
    let (pc2, found) := skipMatches b pc.length pc found
    match parseOne pc2 with
    | none => (result ++ pc2, found)
    | some i => findAndDeleteAux b f i.after (result ++ pc2.take (pc2.length - i.after.length)) found

/-- Core's `FindAndDelete(script, b)`: the new script and the number of deletions -/
def findAndDelete (script b : Bytes) : Bytes × Nat :=
  if b.isEmpty then (script, 0) else
  let (r, found) := findAndDeleteAux b (script.length + 1) script [] 0
  if found > 0 then (r, found) else (script, 0)

/-! ## interpreter state -/

structure Env where
  O : Oracles
  tx : TxCtx
  f : Flags
  sv : SigVersion
  q : Quirks
  tapleaf : Bytes
  annexHash : Option Bytes

structure State where
  stack : List Bytes            -- head = top
  alt : List Bytes := []
  cond : Cond := {}
  opCount : Nat := 0
  /-- `pbegincodehash … pend` -/
  code : Bytes
  codesepPos : Nat := 0xFFFFFFFF
  weightLeft : Int := 0
  deriving Repr, DecidableEq

def ask {α : Type} (q : Query) : Option α → E α
  | some a => pure a
  | none => throw (NEED q)

def pop1 (st : State) : E (Bytes × State) :=
  match st.stack with
  | x :: r => pure (x, { st with stack := r })
  | [] => throw INVALID_STACK_OPERATION

def popNum (e : Env) (st : State) : E (Int × State) := do
  let (b, st) ← pop1 st
  let v ← ScriptNum.read b e.f.minimaldata
  pure (v, st)

def push (st : State) (b : Bytes) : State := { st with stack := b :: st.stack }
def pushNum (st : State) (v : Int) : State := push st (ScriptNum.encode v)

/-! ## signature checking -/

def MAX_SCRIPT_ELEMENT_SIZE : Nat := 520
def MAX_OPS_PER_SCRIPT : Nat := 201
def MAX_PUBKEYS_PER_MULTISIG : Nat := 20
def MAX_SCRIPT_SIZE : Nat := 10000
def MAX_STACK_SIZE : Nat := 1000
def LOCKTIME_THRESHOLD : Nat := 500000000
def VALIDATION_WEIGHT_PER_SIGOP_PASSED : Int := 50
def VALIDATION_WEIGHT_OFFSET : Nat := 50

/-- `GenericTransactionSignatureChecker::CheckECDSASignature` -/
def checkECDSASignature (e : Env) (sig pk scriptCode : Bytes) : E Bool :=
  match sig.getLast? with
  | none => pure false
  | some ht =>
    if pk.isEmpty then pure false else do
      let digest ← if e.sv == .witnessV0
        then ask (.sigW scriptCode ht.toNat) (e.O.sigHashWitV0 scriptCode ht.toNat)
        else ask (.sigL scriptCode ht.toNat) (e.O.sigHashLegacy scriptCode ht.toNat)
      ask (.ecdsa pk sig digest) (e.O.ecdsaVerify pk sig digest)

/-- BIP341: which hash types have a signature message at all -/
def tapHashTypeDefined (tx : TxCtx) (ht : Nat) : Bool :=
  (ht ≤ 3 || (0x81 ≤ ht && ht ≤ 0x83)) && !(ht % 4 == 3 && tx.idx ≥ tx.nOuts)

/-- `CheckSchnorrSignature` (the caller guarantees a 32-byte key) -/
def checkSchnorrSignature (e : Env) (sig pk : Bytes) (codesepPos : Nat) : E Unit := do
  if sig.length != 64 && sig.length != 65 then throw SCHNORR_SIG_SIZE
  let ht : Nat := if sig.length == 65 then (sig.getD 64 0).toNat else 0
  if sig.length == 65 && ht == 0 then throw SCHNORR_SIG_HASHTYPE
  if !e.q.tapUndefinedHashType && !tapHashTypeDefined e.tx ht then throw SCHNORR_SIG_HASHTYPE
  let script := e.sv == .tapscript
  let digest ← ask (.sigT e.annexHash e.tapleaf codesepPos ht script) (e.O.sigHashTap e.annexHash e.tapleaf codesepPos ht script)
  let okv ← ask (.schnorr pk (sig.take 64) digest) (e.O.schnorrVerify pk (sig.take 64) digest)
  if !okv then throw SCHNORR_SIG

def evalChecksigPreTapscript (e : Env) (st : State) (sig pk : Bytes) : E Bool := do
  let scriptCode ← (if e.sv == .base then
      let (sc, found) := findAndDelete st.code (pushEncoding sig)
      if found > 0 && e.f.constScriptcode then throw SIG_FINDANDDELETE else pure sc
    else pure st.code : E Bytes)
  checkSignatureEncoding e.f sig
  checkPubKeyEncoding e.f e.sv pk
  let success ← checkECDSASignature e sig pk scriptCode
  if !success && e.f.nullfail && !sig.isEmpty then throw SIG_NULLFAIL
  pure success

def evalChecksigTapscript (e : Env) (st : State) (sig pk : Bytes) : E (Bool × State) := do
  let success := !sig.isEmpty
  let st ← (if success then
      let w := st.weightLeft - VALIDATION_WEIGHT_PER_SIGOP_PASSED
      if w < 0 then throw TAPSCRIPT_VALIDATION_WEIGHT else pure { st with weightLeft := w }
    else pure st : E State)
  if pk.isEmpty then throw PUBKEYTYPE
  else if pk.length == 32 then
    if success then checkSchnorrSignature e sig pk st.codesepPos
  else
    if e.f.discouragePubkeytype then throw DISCOURAGE_UPGRADABLE_PUBKEYTYPE
  pure (success, st)

def evalChecksig (e : Env) (st : State) (sig pk : Bytes) : E (Bool × State) :=
  match e.sv with
  | .base | .witnessV0 => do let s ← evalChecksigPreTapscript e st sig pk; pure (s, st)
  | .tapscript => evalChecksigTapscript e st sig pk
  | .taproot => throw UNKNOWN_ERROR  -- key-path spending executes no script

/-! ## opcodes -/

def opIf (e : Env) (st : State) (exec : Bool) (notif : Bool) : E State := do
  if !exec then return { st with cond := st.cond.push false }
  match st.stack with
  | [] => throw UNBALANCED_CONDITIONAL
  | v :: r =>
    let nonMinimal := v.length > 1 || (v.length == 1 && v != [1])
    if e.sv == .tapscript && nonMinimal then throw TAPSCRIPT_MINIMALIF
    if e.sv == .witnessV0 && e.f.minimalif && nonMinimal then throw MINIMALIF
    let value := castToBool v
    pure { st with stack := r, cond := st.cond.push (if notif then !value else value) }

def opElse (st : State) : E State :=
  if st.cond.empty then throw UNBALANCED_CONDITIONAL else pure { st with cond := st.cond.toggleTop }

def opEndif (st : State) : E State :=
  if st.cond.empty then throw UNBALANCED_CONDITIONAL else pure { st with cond := st.cond.pop }

def opVerify (st : State) : E State :=
  match st.stack with
  | [] => throw INVALID_STACK_OPERATION
  | v :: r => if castToBool v then pure { st with stack := r } else throw VERIFY

/-- the pure stack-shuffling opcodes: new stack, or `none` when too few operands -/
def shuffle (op : Nat) (s : List Bytes) : Option (List Bytes) :=
  match op, s with
  | 0x6d, _ :: _ :: r => some r                                               -- 2DROP
  | 0x6e, x2 :: x1 :: r => some (x2 :: x1 :: x2 :: x1 :: r)                   -- 2DUP
  | 0x6f, x3 :: x2 :: x1 :: r => some (x3 :: x2 :: x1 :: x3 :: x2 :: x1 :: r) -- 3DUP
  | 0x70, x4 :: x3 :: x2 :: x1 :: r => some (x2 :: x1 :: x4 :: x3 :: x2 :: x1 :: r)            -- 2OVER
  | 0x71, x6 :: x5 :: x4 :: x3 :: x2 :: x1 :: r => some (x2 :: x1 :: x6 :: x5 :: x4 :: x3 :: r) -- 2ROT
  | 0x72, x4 :: x3 :: x2 :: x1 :: r => some (x2 :: x1 :: x4 :: x3 :: r)       -- 2SWAP
  | 0x73, x :: r => some (if castToBool x then x :: x :: r else x :: r)        -- IFDUP
  | 0x75, _ :: r => some r                                                    -- DROP
  | 0x76, x :: r => some (x :: x :: r)                                        -- DUP
  | 0x77, x2 :: _ :: r => some (x2 :: r)                                      -- NIP
  | 0x78, x2 :: x1 :: r => some (x1 :: x2 :: x1 :: r)                         -- OVER
  | 0x7b, x3 :: x2 :: x1 :: r => some (x1 :: x3 :: x2 :: r)                   -- ROT
  | 0x7c, x2 :: x1 :: r => some (x1 :: x2 :: r)                               -- SWAP
  | 0x7d, x2 :: x1 :: r => some (x2 :: x1 :: x2 :: r)                         -- TUCK
  | _, _ => none

def isShuffle (op : Nat) : Bool :=
  op == 0x6d || op == 0x6e || op == 0x6f || op == 0x70 || op == 0x71 || op == 0x72 || op == 0x73 ||
  op == 0x75 || op == 0x76 || op == 0x77 || op == 0x78 || op == 0x7b || op == 0x7c || op == 0x7d

def opPickRoll (e : Env) (st : State) (roll : Bool) : E State := do
  if st.stack.length < 2 then throw INVALID_STACK_OPERATION
  let (n, st) ← popNum e st
  if n < 0 || n ≥ st.stack.length then throw INVALID_STACK_OPERATION
  let i := n.toNat
  match st.stack[i]? with
  | none => throw INVALID_STACK_OPERATION
  | some v => pure { st with stack := v :: (if roll then st.stack.eraseIdx i else st.stack) }

def unaryNum (op : Nat) (v : Int) : Int :=
  if op == 0x8b then v + 1
  else if op == 0x8c then v - 1
  else if op == 0x8f then -v
  else if op == 0x90 then (if v < 0 then -v else v)
  else if op == 0x91 then (if v == 0 then 1 else 0)
  else (if v != 0 then 1 else 0)   -- 0x92 0NOTEQUAL

def bi (b : Bool) : Int := if b then 1 else 0

def binaryNum (op : Nat) (a b : Int) : Int :=
  if op == 0x93 then a + b
  else if op == 0x94 then a - b
  else if op == 0x9a then bi (a != 0 && b != 0)
  else if op == 0x9b then bi (a != 0 || b != 0)
  else if op == 0x9c || op == 0x9d then bi (a == b)
  else if op == 0x9e then bi (a != b)
  else if op == 0x9f then bi (a < b)
  else if op == 0xa0 then bi (a > b)
  else if op == 0xa1 then bi (a ≤ b)
  else if op == 0xa2 then bi (a ≥ b)
  else if op == 0xa3 then min a b
  else max a b                      -- 0xa4

def isUnaryNum (op : Nat) : Bool := op == 0x8b || op == 0x8c || op == 0x8f || op == 0x90 || op == 0x91 || op == 0x92
def isBinaryNum (op : Nat) : Bool := (0x93 ≤ op && op ≤ 0x94) || (0x9a ≤ op && op ≤ 0xa4)

def opUnaryNum (e : Env) (st : State) (op : Nat) : E State := do
  let (v, st) ← popNum e st
  pure (pushNum st (unaryNum op v))

def opBinaryNum (e : Env) (st : State) (op : Nat) : E State := do
  if st.stack.length < 2 then throw INVALID_STACK_OPERATION
  let (b, st) ← popNum e st
  let (a, st) ← popNum e st
  let r := binaryNum op a b
  if op == 0x9d then (if r != 0 then pure st else throw NUMEQUALVERIFY)
  else pure (pushNum st r)

def opWithin (e : Env) (st : State) : E State := do
  if st.stack.length < 3 then throw INVALID_STACK_OPERATION
  let (mx, st) ← popNum e st
  let (mn, st) ← popNum e st
  let (x, st) ← popNum e st
  pure (push st (ofBool (mn ≤ x && x < mx)))

def opHash (e : Env) (st : State) (op : Nat) : E State := do
  let (v, st) ← pop1 st
  let h := if op == 0xa6 then e.O.ripemd160 v
    else if op == 0xa7 then e.O.sha1 v
    else if op == 0xa8 then e.O.sha256 v
    else if op == 0xa9 then e.O.hash160 v
    else e.O.hash256 v
  pure (push st h)

def opEqual (st : State) (verify : Bool) : E State :=
  match st.stack with
  | a :: b :: r =>
    let eq := a == b
    if verify then (if eq then pure { st with stack := r } else throw EQUALVERIFY)
    else pure { st with stack := ofBool eq :: r }
  | _ => throw INVALID_STACK_OPERATION

def opChecksig (e : Env) (st : State) (verify : Bool) : E State :=
  match st.stack with
  | pk :: sig :: r => do
    let (success, st) ← evalChecksig e st sig pk
    if verify then (if success then pure { st with stack := r } else throw CHECKSIGVERIFY)
    else pure { st with stack := ofBool success :: r }
  | _ => throw INVALID_STACK_OPERATION

def opChecksigAdd (e : Env) (st : State) : E State := do
  if e.sv == .base || e.sv == .witnessV0 then throw BAD_OPCODE
  match st.stack with
  | pk :: nb :: sig :: r =>
    let num ← ScriptNum.read nb e.f.minimaldata
    let (success, st) ← evalChecksig e st sig pk
    pure { st with stack := ScriptNum.encode (num + (if success then 1 else 0)) :: r }
  | _ => throw INVALID_STACK_OPERATION

/-- the signature/key matching loop of CHECKMULTISIG: `keys`, `sigs` in stack order (first = nearest to the top) -/
def multisigLoop (e : Env) (scriptCode : Bytes) : List Bytes → List Bytes → E Bool
  | _, [] => pure true
  | [], _ :: _ => pure false
  | k :: keys, s :: sigs => do
    if (s :: sigs).length > (k :: keys).length then return false
    checkSignatureEncoding e.f s
    checkPubKeyEncoding e.f e.sv k
    let okv ← checkECDSASignature e s k scriptCode
    if okv then multisigLoop e scriptCode keys sigs
    else multisigLoop e scriptCode keys (s :: sigs)

def opCheckMultisig (e : Env) (st : State) (verify : Bool) : E State := do
  if e.sv == .tapscript then throw TAPSCRIPT_CHECKMULTISIG
  let rm := e.f.minimaldata
  match st.stack with
  | [] => throw INVALID_STACK_OPERATION
  | nk :: r1 =>
    let nKeys ← ScriptNum.read nk rm
    if nKeys < 0 || nKeys > MAX_PUBKEYS_PER_MULTISIG then throw PUBKEY_COUNT
    let nKeys := nKeys.toNat
    let opCount := st.opCount + nKeys
    if opCount > MAX_OPS_PER_SCRIPT then throw OP_COUNT
    if r1.length < nKeys + 1 then throw INVALID_STACK_OPERATION
    let keys := r1.take nKeys
    match r1.drop nKeys with
    | [] => throw INVALID_STACK_OPERATION
    | ns :: r2 =>
      let nSigs ← ScriptNum.read ns rm
      if nSigs < 0 || nSigs > nKeys then throw SIG_COUNT
      let nSigs := nSigs.toNat
      if r2.length < nSigs then throw INVALID_STACK_OPERATION
      let sigs := r2.take nSigs
      let r3 := r2.drop nSigs
      -- legacy: drop the signatures from the script code
      let scriptCode ← (if e.sv == .base then
          sigs.foldlM (fun sc sg =>
            let (sc', found) := findAndDelete sc (pushEncoding sg)
            if found > 0 && e.f.constScriptcode then throw SIG_FINDANDDELETE else pure sc') st.code
        else pure st.code : E Bytes)
      let success ← multisigLoop e scriptCode keys sigs
      -- NULLFAIL: every signature must be empty when the operation fails
      if !success && e.f.nullfail && sigs.any (fun sg => !sg.isEmpty) then throw SIG_NULLFAIL
      match r3 with
      | [] => throw INVALID_STACK_OPERATION
      | dummy :: r4 =>
        if e.f.nulldummy && !dummy.isEmpty then throw SIG_NULLDUMMY
        let st := { st with opCount := opCount }
        if verify then (if success then pure { st with stack := r4 } else throw CHECKMULTISIGVERIFY)
        else pure { st with stack := ofBool success :: r4 }

def checkLockTime (tx : TxCtx) (n : Int) : Bool :=
  ((tx.lockTime < LOCKTIME_THRESHOLD && n < LOCKTIME_THRESHOLD) ||
   (tx.lockTime ≥ LOCKTIME_THRESHOLD && n ≥ LOCKTIME_THRESHOLD)) &&
  n ≤ tx.lockTime && tx.sequence != 0xffffffff

def checkSequence (tx : TxCtx) (n : Nat) : Bool :=
  let typeFlag : Nat := 2 ^ 22
  let mask : Nat := typeFlag + 0xffff
  tx.version ≥ 2 && !tx.sequence.testBit 31 &&
  (let a := tx.sequence &&& mask
   let b := n &&& mask
   ((a < typeFlag && b < typeFlag) || (a ≥ typeFlag && b ≥ typeFlag)) && b ≤ a)

def opCltv (e : Env) (st : State) : E State := do
  if !e.f.cltv then
    if e.q.discourageCltvCsv && e.f.discourageNops then throw DISCOURAGE_UPGRADABLE_NOPS
    return st
  match st.stack with
  | [] => throw INVALID_STACK_OPERATION
  | v :: _ =>
    let n ← ScriptNum.read v e.f.minimaldata 5
    if n < 0 then throw NEGATIVE_LOCKTIME
    if !checkLockTime e.tx n then throw UNSATISFIED_LOCKTIME
    pure st

def opCsv (e : Env) (st : State) : E State := do
  if !e.f.csv then
    if e.q.discourageCltvCsv && e.f.discourageNops then throw DISCOURAGE_UPGRADABLE_NOPS
    return st
  match st.stack with
  | [] => throw INVALID_STACK_OPERATION
  | v :: _ =>
    let n ← ScriptNum.read v e.f.minimaldata 5
    if n < 0 then throw NEGATIVE_LOCKTIME
    if n.toNat.testBit 31 then return st
    if !checkSequence e.tx n.toNat then throw UNSATISFIED_LOCKTIME
    pure st

def isDisabledOpcode (op : Nat) : Bool :=
  op == 0x7e || op == 0x7f || op == 0x80 || op == 0x81 ||            -- CAT SUBSTR LEFT RIGHT
  op == 0x83 || op == 0x84 || op == 0x85 || op == 0x86 ||            -- INVERT AND OR XOR
  op == 0x8d || op == 0x8e ||                                        -- 2MUL 2DIV
  (0x95 ≤ op && op ≤ 0x99)                                           -- MUL DIV MOD LSHIFT RSHIFT

/-- an executed non-push opcode (or an IF-family opcode in a non-executed branch) -/
def execOpcode (e : Env) (st : State) (i : Instr) (exec : Bool) (pos : Nat) : E State :=
  let op := i.op
  if op == 0x4f || (0x51 ≤ op && op ≤ 0x60) then pure (pushNum st ((op : Int) - 0x50))
  else if op == 0x61 then pure st
  else if op == 0xb1 then opCltv e st
  else if op == 0xb2 then opCsv e st
  else if op == 0xb0 || (0xb3 ≤ op && op ≤ 0xb9) then
    (if e.f.discourageNops then throw DISCOURAGE_UPGRADABLE_NOPS else pure st)
  else if op == 0x63 then opIf e st exec false
  else if op == 0x64 then opIf e st exec true
  else if op == 0x67 then opElse st
  else if op == 0x68 then opEndif st
  else if op == 0x69 then opVerify st
  else if op == 0x6a then throw OP_RETURN
  else if op == 0x6b then
    (match st.stack with
     | x :: r => pure { st with stack := r, alt := x :: st.alt }
     | [] => throw INVALID_STACK_OPERATION)
  else if op == 0x6c then
    (match st.alt with
     | x :: r => pure { st with stack := x :: st.stack, alt := r }
     | [] => throw INVALID_ALTSTACK_OPERATION)
  else if isShuffle op then
    (match shuffle op st.stack with
     | some s => pure { st with stack := s }
     | none => throw INVALID_STACK_OPERATION)
  else if op == 0x74 then pure (pushNum st st.stack.length)
  else if op == 0x79 then opPickRoll e st false
  else if op == 0x7a then opPickRoll e st true
  else if op == 0x82 then
    (match st.stack with
     | x :: _ => pure (pushNum st x.length)
     | [] => throw INVALID_STACK_OPERATION)
  else if op == 0x87 then opEqual st false
  else if op == 0x88 then opEqual st true
  else if isUnaryNum op then opUnaryNum e st op
  else if isBinaryNum op then opBinaryNum e st op
  else if op == 0xa5 then opWithin e st
  else if 0xa6 ≤ op && op ≤ 0xaa then opHash e st op
  else if op == 0xab then pure { st with code := i.after, codesepPos := pos }
  else if op == 0xac then opChecksig e st false
  else if op == 0xad then opChecksig e st true
  else if op == 0xba then opChecksigAdd e st
  else if op == 0xae then opCheckMultisig e st false
  else if op == 0xaf then opCheckMultisig e st true
  else throw BAD_OPCODE

/-- one instruction of `EvalScript`'s loop -/
def execInstr (e : Env) (st : State) (i : Instr) (pos : Nat) : E State := do
  let exec := st.cond.allTrue
  if i.data.length > MAX_SCRIPT_ELEMENT_SIZE then throw PUSH_SIZE
  let st ← (if (e.sv == .base || e.sv == .witnessV0) && i.op > 0x60 then
      (if st.opCount + 1 > MAX_OPS_PER_SCRIPT then throw OP_COUNT else pure { st with opCount := st.opCount + 1 })
    else pure st : E State)
  if isDisabledOpcode i.op then throw DISABLED_OPCODE
  if i.op == 0xab && e.sv == .base && e.f.constScriptcode then throw OP_CODESEPARATOR
  let st ← (if exec && i.op ≤ 0x4e then
      (if e.f.minimaldata && !checkMinimalPush i.data i.op then throw MINIMALDATA else pure (push st i.data))
    else if exec || (0x63 ≤ i.op && i.op ≤ 0x68) then execOpcode e st i exec pos
    else pure st : E State)
  if st.stack.length + st.alt.length > MAX_STACK_SIZE then throw STACK_SIZE
  pure st

def execInstrs (e : Env) : List Instr → Nat → State → E State
  | [], _, st => pure st
  | i :: r, pos, st => do
    let st ← execInstr e st i pos
    execInstrs e r (pos + 1) st

/-- `EvalScript`: the final stack -/
def evalScript (e : Env) (script : Bytes) (stack : List Bytes) (weightLeft : Int := 0) : E (List Bytes) := do
  if (e.sv == .base || e.sv == .witnessV0) && script.length > MAX_SCRIPT_SIZE then throw SCRIPT_SIZE
  let (instrs, bad) := parse script
  let st ← execInstrs e instrs 0 { stack := stack, code := script, weightLeft := weightLeft }
  if bad then throw BAD_OPCODE
  if !st.cond.empty then throw UNBALANCED_CONDITIONAL
  pure st.stack

/-! ## witness programs -/

def isOpSuccess (op : Nat) : Bool :=
  op == 0x50 || op == 0x62 || (0x7e ≤ op && op ≤ 0x81) || (0x83 ≤ op && op ≤ 0x86) ||
  (0x89 ≤ op && op ≤ 0x8a) || (0x8d ≤ op && op ≤ 0x8e) || (0x95 ≤ op && op ≤ 0x99) ||
  (0xbb ≤ op && op ≤ 0xfe)

/-- the OP_SUCCESSx pre-scan: `some true` = an OP_SUCCESS is met before any decode error,
    `some false` = a decode error comes first, `none` = neither -/
def scanOpSuccess : List Instr → Bool → Option Bool
  | [], bad => if bad then some false else none
  | i :: r, bad => if isOpSuccess i.op then some true else scanOpSuccess r bad

def executeWitnessScript (O : Oracles) (tx : TxCtx) (f : Flags) (q : Quirks) (stack : List Bytes) (script : Bytes)
    (sv : SigVersion) (tapleaf : Bytes) (annexHash : Option Bytes) (weightLeft : Int) : E Unit := do
  if sv == .tapscript then
    let (instrs, bad) := parse script
    match scanOpSuccess instrs bad with
    | some true => if f.discourageOpSuccess then throw DISCOURAGE_OP_SUCCESS else return ()
    | some false => throw BAD_OPCODE
    | none => if stack.length > MAX_STACK_SIZE then throw STACK_SIZE
  if stack.any (fun x => x.length > MAX_SCRIPT_ELEMENT_SIZE) then throw PUSH_SIZE
  let s ← evalScript ⟨O, tx, f, sv, q, tapleaf, annexHash⟩ script stack weightLeft
  match s with
  | [x] => if castToBool x then pure () else throw EVAL_FALSE
  | [] => throw EVAL_FALSE
  | _ => throw CLEANSTACK

def taggedHash (O : Oracles) (tag : String) (msg : Bytes) : Bytes :=
  let t := O.sha256 (strBytes tag)
  O.sha256 (t ++ t ++ msg)

/-- BIP341 `ComputeTapleafHash` -/
def tapleafHash (O : Oracles) (leafVersion : UInt8) (script : Bytes) : Bytes :=
  taggedHash O "TapLeaf" (leafVersion :: (CompactSize.putULe script.length ++ script))

def bytesLt : Bytes → Bytes → Bool
  | [], [] => false
  | [], _ :: _ => true
  | _ :: _, [] => false
  | a :: x, b :: y => a < b || (a == b && bytesLt x y)

/-- BIP341 `ComputeTaprootMerkleRoot`: fold over the 32-byte nodes of the control block -/
def merkleRoot (O : Oracles) : List Bytes → Bytes → Bytes
  | [], k => k
  | node :: r, k =>
    merkleRoot O r (if bytesLt k node then taggedHash O "TapBranch" (k ++ node) else taggedHash O "TapBranch" (node ++ k))

def chunks32 : Nat → Bytes → List Bytes
  | 0, _ => []
  | n+1, b => b.take 32 :: chunks32 n (b.drop 32)

def verifyWitnessProgram (O : Oracles) (tx : TxCtx) (f : Flags) (q : Quirks) (witness : List Bytes)
    (witversion : Nat) (program : Bytes) (isP2sh : Bool) : E Unit := do
  -- `witness` is in serialization order; the last element is the top of the stack
  if witversion == 0 then
    if program.length == 32 then
      match witness.reverse with
      | [] => throw WITNESS_PROGRAM_WITNESS_EMPTY
      | script :: rest =>
        if O.sha256 script != program then throw WITNESS_PROGRAM_MISMATCH
        executeWitnessScript O tx f q rest script .witnessV0 [] none 0
    else if program.length == 20 then
      if witness.length != 2 then throw WITNESS_PROGRAM_MISMATCH
      executeWitnessScript O tx f q witness.reverse ([0x76, 0xa9] ++ pushEncoding program ++ [0x88, 0xac]) .witnessV0 [] none 0
    else throw WITNESS_PROGRAM_WRONG_LENGTH
  else if witversion == 1 && program.length == 32 && !isP2sh then
    if !f.taproot then return ()
    if witness.isEmpty then throw WITNESS_PROGRAM_WITNESS_EMPTY
    let rev := witness.reverse
    let hasAnnex := witness.length ≥ 2 && (match rev with | a :: _ => a.take 1 == [0x50] | [] => false)
    let annexHash : Option Bytes := if hasAnnex then (match rev with
        | a :: _ => some (O.sha256 (CompactSize.putULe a.length ++ a)) | [] => none) else none
    let stack := if hasAnnex then rev.drop 1 else rev
    match stack with
    | [] => throw WITNESS_PROGRAM_WITNESS_EMPTY
    | [sig] =>
      -- key path
      checkSchnorrSignature ⟨O, tx, f, .taproot, q, [], annexHash⟩ sig program 0
    | control :: script :: rest =>
      let n := control.length
      if n < 33 || n > 33 + 32 * 128 || (n - 33) % 32 != 0 then throw TAPROOT_WRONG_CONTROL_SIZE
      let c0 := control.getD 0 0
      let leafVersion : UInt8 := UInt8.ofNat (c0.toNat / 2 * 2)
      let tapleaf := tapleafHash O leafVersion script
      let internalKey := (control.drop 1).take 32
      let root := merkleRoot O (chunks32 ((n - 33) / 32) (control.drop 33)) tapleaf
      let tweak := taggedHash O "TapTweak" (internalKey ++ root)
      let okc ← ask (.tweak program internalKey tweak (c0.toNat % 2 == 1)) (O.tweakCheck program internalKey tweak (c0.toNat % 2 == 1))
      if !okc then throw WITNESS_PROGRAM_MISMATCH
      if leafVersion == 0xc0 then
        let ser : Nat := Script.vlenSize witness.length + (witness.map fun w => Script.vlenSize w.length + w.length).sum
        executeWitnessScript O tx f q rest script .tapscript tapleaf annexHash (ser + VALIDATION_WEIGHT_OFFSET : Nat)
      else if f.discourageTaprootVersion then throw DISCOURAGE_UPGRADABLE_TAPROOT_VERSION
      else return ()
  else if f.discourageWitnessProgram then throw DISCOURAGE_UPGRADABLE_WITNESS_PROGRAM
  else return ()

/-- `CScript::IsPushOnly` -/
def isPushOnly (s : Bytes) : Bool :=
  let (instrs, bad) := parse s
  !bad && instrs.all (fun i => i.op ≤ 0x60)

/-- `CScript::IsWitnessProgram` -/
def witnessProgram? (s : Bytes) : Option (Nat × Bytes) :=
  match s with
  | v :: l :: prog =>
    if 4 ≤ s.length && s.length ≤ 42 && (v == 0 || (0x51 ≤ v.toNat && v.toNat ≤ 0x60)) && l.toNat == prog.length
    then some (if v == 0 then 0 else v.toNat - 0x50, prog) else none
  | _ => none

/-- `CScript::IsPayToScriptHash` -/
def isPayToScriptHash (s : Bytes) : Bool :=
  s.length == 23 && s.take 2 == [0xa9, 0x14] && s.drop 22 == [0x87]

/-- the witness-program step of `VerifyScript` for the script `scr` (the scriptPubKey, or the P2SH redeem script):
    `true` = a witness program was found and verified. `malleated`: the scriptSig is not what it has to be
    (empty for a bare program, exactly the push of the redeem script for P2SH). -/
def witnessStep (O : Oracles) (tx : TxCtx) (f : Flags) (q : Quirks) (scr : Bytes) (malleated : Bool)
    (err : ScriptError) (isP2sh : Bool) : E Bool :=
  if !f.witness then pure false else
  match witnessProgram? scr with
  | none => pure false
  | some (ver, prog) => do
    if malleated then throw err
    verifyWitnessProgram O tx f q tx.witness ver prog isP2sh
    pure true

/-- `VerifyScript(scriptSig, scriptPubKey, witness, flags, checker)` for FlagsOk flag sets (Core `assert`s them).
    `had…` is Core's `hadWitness`, `size…` the size of the stack CLEANSTACK looks at (`stack.resize(1)` after a
    witness program). -/
def verifyScript (O : Oracles) (tx : TxCtx) (scriptPubKey : Bytes) (f : Flags) (q : Quirks := {}) : E Unit := do
  let scriptSig := tx.sigScript
  let witness := tx.witness
  let env : Env := ⟨O, tx, f, .base, q, [], none⟩
  if f.sigpushonly && !isPushOnly scriptSig then throw SIG_PUSHONLY
  let stack ← evalScript env scriptSig []
  let stackCopy := stack
  let stack ← evalScript env scriptPubKey stack
  match stack with
  | [] => throw EVAL_FALSE
  | t :: _ => if !castToBool t then throw EVAL_FALSE
  -- bare witness program
  let had1 ← witnessStep O tx f q scriptPubKey (!scriptSig.isEmpty) WITNESS_MALLEATED false
  let size1 := if had1 then 1 else stack.length
  -- P2SH
  let (had2, size2) ← (if f.p2sh && isPayToScriptHash scriptPubKey then do
      if !isPushOnly scriptSig then throw SIG_PUSHONLY
      match stackCopy with
      | [] => throw UNKNOWN_ERROR   -- Core: assert(!stack.empty()) — cannot happen
      | redeem :: rest =>
        let stack2 ← evalScript env redeem rest
        match stack2 with
        | [] => throw EVAL_FALSE
        | t :: _ => if !castToBool t then throw EVAL_FALSE
        let hadw ← witnessStep O tx f q redeem (scriptSig != pushEncoding redeem) WITNESS_MALLEATED_P2SH true
        pure (had1 || hadw, if hadw then 1 else stack2.length)
    else pure (had1, size1) : E (Bool × Nat))
  if f.cleanstack then
    if size2 != 1 then throw CLEANSTACK
  if f.witness then
    if !had2 && !witness.isEmpty then throw WITNESS_UNEXPECTED

/-- the verdict of the rules: `true` = valid -/
def verdict (O : Oracles) (tx : TxCtx) (scriptPubKey : Bytes) (f : Flags) (q : Quirks := {}) : E Unit :=
  verifyScript O tx scriptPubKey f q

end GocoinV.ScriptSpec
