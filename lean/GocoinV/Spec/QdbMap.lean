/-
  Spec.QdbMap — what C19 means by "an in-memory map": a finite map key ↦ (value, browsing flags),
  kept as an association list with unique keys (the order is never observable: Get looks a key up,
  Count is the length, Browse is compared as a set).
  Flags belong to the abstract state because NO_BROWSE is observable through Browse.
-/
import GocoinV.Model.Qdb
namespace GocoinV.QdbSpec
open GocoinV.Qdb

abbrev M := List (Key × (Bytes × Nat))

def mget (m : M) (k : Key) : Option Bytes := (ilookup k m).map (·.1)

def mcount (m : M) : Nat := m.length

/-- Browse when the walk function never answers BR_ABORT: every record not flagged NO_BROWSE is shown -/
def mbrowseOut (m : M) : List (Key × Bytes) :=
  m.filterMap fun (k, v, f) => if hasFlag f NO_BROWSE then none else some (k, v)

/-- what the walk function's BR_ABORT answers make of a Browse (`all = false`) / BrowseAll (`all = true`) of the map:
    `none` = every eligible entry is visited; `some l` = only the keys of `l` (Model.Qdb.visitSet: the eligible listed
    keys in the order of `w` — the order Go's map iteration takes — up to and including the first aborting one) -/
def mvisitSet (all : Bool) (m : M) (w : List (Key × Nat)) : Option (List Key) :=
  visitSet (α := Bytes × Nat) (·.2) all m w

/-- what Browse shows when the walk function may abort: the visited entries with their values -/
def mbrowseOutV (vs : Option (List Key)) (m : M) : List (Key × Bytes) :=
  m.filterMap fun (k, v, f) => if skipB false vs f k then none else some (k, v)

def mbrowseOutW (w : List (Key × Nat)) (m : M) : List (Key × Bytes) := mbrowseOutV (mvisitSet false m w) m

/-- the walk function's answer updates the flags of every visited entry — of the aborting one too -/
def mbrowseState (m : M) (walk : List (Key × Nat)) : M :=
  m.map fun (k, v, f) =>
    if skipB false (mvisitSet false m walk) f k then (k, v, f) else (k, v, applyBrowsingFlags f (walkRes walk k))

def mstep (m : M) : Op → M
  | .put k v => iset k (v, 0) m
  | .putExt k v f => iset k (v, f) m
  | .del k => ierase k m
  | .get k => match ilookup k m with
      | some (v, f) => iset k (v, applyBrowsingFlags f YES_CACHE) m
      | none => m
  | .browse w => mbrowseState m w
  | .applyFlags k fl => match ilookup k m with
      | some (v, f) => iset k (v, applyBrowsingFlags f fl) m
      | none => m
  | .defrag _ => m
  | .sync => m
  | .noSync => m
  | .reopen _ _ _ => m          -- an in-memory map keeps values AND flags. The store keeps the values (qdb_refines_map /
                                -- qdb_durable) but NOT a flag word changed since the record's last persist: known finding
                                -- Props.C19.flag_change_not_durable_counterexample

def mrun (m : M) (ops : List Op) : M := ops.foldl mstep m

/-! ### abstraction function and the "cached" sub-language (used by the partial refinement theorem) -/

def absRec (r : Rec) : Bytes × Nat := (r.data.getD [], r.flags)
def absE (kr : Key × Rec) : Key × (Bytes × Nat) := (kr.1, absRec kr.2)
/-- the abstract map of a store whose records are all in memory -/
def absv (db : DB) : M := db.index.map absE

/-- `e` is the store's ghost field `eager` (Model.Qdb.ncOf): for the real store (`e = false`) the tested flag is
    NO_CACHE; for the eager ghost it is a bit no 32-bit flag word has -/
def RecCached (e : Bool) (r : Rec) : Prop := r.data.isSome = true ∧ hasFlag r.flags (ncOf e) = false
def AllCached (e : Bool) (l : List (Key × Rec)) : Prop := ∀ kr ∈ l, RecCached e kr.2
/-- the store has not failed, every record has its data in memory and none carries the tested flag -/
def Cached (db : DB) : Prop := db.failed = none ∧ AllCached db.eager db.index

/-- the walk function never asks for the tested flag -/
def WalkOK (e : Bool) (w : List (Key × Nat)) : Prop := ∀ kf ∈ w, hasFlag kf.2 (ncOf e) = false

/-- operations of the cached sub-language: the tested flag is never set, no reopen -/
def OpOK (e : Bool) : Op → Prop
  | .putExt _ _ f => hasFlag f (ncOf e) = false
  | .applyFlags _ fl => hasFlag fl (ncOf e) = false
  | .browse w => WalkOK e w
  | .reopen _ _ _ => False
  | _ => True

end GocoinV.QdbSpec
