/-
  Spec.QdbMap — what C19 means by "an in-memory map": a finite map key ↦ (value, browsing flags),
  kept as an association list with unique keys (the order is never observable: Get looks a key up,
  Count is the length, Browse is compared as a set).
  Flags belong to the abstract state because NO_BROWSE is observable through Browse.
-/
import GocoinV.Model.Qdb
namespace GocoinV.QdbSpec
open GocoinV.Qdb

abbrev M := List (Key × (Bytes × Nat))

def mget (m : M) (k : Key) : Option Bytes := (ilookup k m).map (·.1)

def mcount (m : M) : Nat := m.length

/-- Browse: every record not flagged NO_BROWSE is shown; the walk function's result updates the flags -/
def mbrowseOut (m : M) : List (Key × Bytes) :=
  m.filterMap fun (k, v, f) => if hasFlag f NO_BROWSE then none else some (k, v)

def mbrowseState (m : M) (walk : List (Key × Nat)) : M :=
  m.map fun (k, v, f) => if hasFlag f NO_BROWSE then (k, v, f) else (k, v, applyBrowsingFlags f (walkRes walk k))

def mstep (m : M) : Op → M
  | .put k v => iset k (v, 0) m
  | .putExt k v f => iset k (v, f) m
  | .del k => ierase k m
  | .get k => match ilookup k m with
      | some (v, f) => iset k (v, applyBrowsingFlags f YES_CACHE) m
      | none => m
  | .browse w => mbrowseState m w
  | .applyFlags k fl => match ilookup k m with
      | some (v, f) => iset k (v, applyBrowsingFlags f fl) m
      | none => m
  | .defrag _ => m
  | .sync => m
  | .noSync => m
  | .reopen _ _ _ => m          -- values survive; which flags survive is decided by what was persisted

def mrun (m : M) (ops : List Op) : M := ops.foldl mstep m

/-! ### abstraction function and the "cached" sub-language (used by the partial refinement theorem) -/

def absRec (r : Rec) : Bytes × Nat := (r.data.getD [], r.flags)
def absE (kr : Key × Rec) : Key × (Bytes × Nat) := (kr.1, absRec kr.2)
/-- the abstract map of a store whose records are all in memory -/
def absv (db : DB) : M := db.index.map absE

def RecCached (r : Rec) : Prop := r.data.isSome = true ∧ hasFlag r.flags NO_CACHE = false
def AllCached (l : List (Key × Rec)) : Prop := ∀ kr ∈ l, RecCached kr.2
/-- the store has not failed, every record has its data in memory and none is flagged NO_CACHE -/
def Cached (db : DB) : Prop := db.failed = none ∧ AllCached db.index

/-- the walk function never asks for NO_CACHE -/
def WalkOK (w : List (Key × Nat)) : Prop := ∀ kf ∈ w, hasFlag kf.2 NO_CACHE = false

/-- operations of the cached sub-language: no NO_CACHE flag is ever set, no reopen -/
def OpOK : Op → Prop
  | .putExt _ _ f => hasFlag f NO_CACHE = false
  | .applyFlags _ fl => hasFlag fl NO_CACHE = false
  | .browse w => WalkOK w
  | .reopen _ _ _ => False
  | _ => True

end GocoinV.QdbSpec
