/-
  Spec.WalletTx — what "the input carries a signature that verifies under consensus and standardness rules"
  means for the four output types the wallet owns: the specialisation of script verification (BIP16, BIP141,
  BIP143, BIP341 key path; flags P2SH, WITNESS, TAPROOT, SIGPUSHONLY, CLEANSTACK, WITNESS_PUBKEYTYPE, STRICTENC
  shape of the stack) to the fixed templates
      P2PKH        76 a9 14 <h> 88 ac          scriptSig = <sig‖ht> <pub>,            no witness
      P2WPKH       00 14 <h>                   scriptSig empty,                        witness = [sig‖ht, pub]
      P2SH-P2WPKH  a9 14 <sh> 87               scriptSig = <00 14 h>, HASH160 = sh,    witness = [sig‖ht, pub]
      P2TR (key)   51 20 <q>                   scriptSig empty,                        witness = [sig] (64 bytes)
  The cryptographic primitives and the three signature digests are abstract (`Crypto`): what they are is the
  subject of C02 (digests) and C03 (ECDSA / Schnorr). The digests take the transaction `Skeleton` — that they
  depend on nothing else of the transaction (all scriptSigs are blanked / not covered) is C02's statement.
  Any other spent script is outside this spec (`verifyInput` = false).
-/
import GocoinV.Model.WalletTx
namespace GocoinV.WalletSpec
open GocoinV GocoinV.WalletTx

structure Crypto where
  hash160 : Bytes → Bytes
  ecdsaVerify : Bytes → Bytes → Bytes → Bool      -- public key, DER signature (without hash type), digest
  schnorrVerify : Bytes → Bytes → Bytes → Bool    -- x-only key, 64-byte signature, digest
  legacyDigest : Skeleton → Nat → Bytes → Nat → Bytes             -- input, scriptCode, hash type
  witnessDigest : Skeleton → Nat → Bytes → Nat → Nat → Bytes      -- input, scriptCode, amount, hash type
  taprootDigest : Skeleton → List TxOut → Nat → Nat → Bytes       -- spent outputs, input, hash type

/-- one direct push (opcodes 0x01..0x4b), the only form a minimal push of 1..75 bytes may take -/
def parsePush (s : Bytes) : Option (Bytes × Bytes) :=
  match s with
  | [] => none
  | n :: rest =>
    if 1 ≤ n.toNat ∧ n.toNat ≤ 75 ∧ n.toNat ≤ rest.length then some (rest.take n.toNat, rest.drop n.toNat) else none

/-- ECDSA check of `sig‖ht` for SIGHASH_ALL (the only type the wallet produces; other types are outside this spec) -/
def ecdsaOk (C : Crypto) (pub sigh : Bytes) (digest : Nat → Bytes) : Bool :=
  sigh.length ≥ 2 && sigh.getLast? == some 1 && C.ecdsaVerify pub sigh.dropLast (digest 1)

def wpkhOk (C : Crypto) (sk : Skeleton) (i : Nat) (h : Bytes) (amount : Nat) (w : List Bytes) : Bool :=
  match w with
  | [sigh, pub] =>
    pub.length == 33 && C.hash160 pub == h &&
      ecdsaOk C pub sigh (fun ht => C.witnessDigest sk i (p2pkhScript h) amount ht)
  | _ => false

def verifyInput (C : Crypto) (t : Tx) (spent : List TxOut) (i : Nat) : Bool :=
  match t.ins[i]?, spent[i]? with
  | some inp, some uo =>
    let w := (t.wit.getD []).getD i []
    let sk := skeleton t
    let scr := uo.script
    if scr.length = 25 ∧ scr = p2pkhScript ((scr.drop 3).take 20) then
      w.isEmpty &&
      (match parsePush inp.scriptSig with
       | some (sigh, r1) =>
         (match parsePush r1 with
          | some (pub, []) =>
            C.hash160 pub == (scr.drop 3).take 20 && ecdsaOk C pub sigh (fun ht => C.legacyDigest sk i scr ht)
          | _ => false)
       | none => false)
    else if scr.length = 22 ∧ scr = [0, 20] ++ scr.drop 2 then
      inp.scriptSig.isEmpty && wpkhOk C sk i (scr.drop 2) uo.value w
    else if scr.length = 23 ∧ scr = [0xa9, 20] ++ (scr.drop 2).take 20 ++ [0x87] then
      (match parsePush inp.scriptSig with
       | some (redeem, []) =>
         redeem.length == 22 && redeem == [0, 20] ++ redeem.drop 2 &&
         C.hash160 redeem == (scr.drop 2).take 20 && wpkhOk C sk i (redeem.drop 2) uo.value w
       | _ => false)
    else if scr.length = 34 ∧ scr = [0x51, 32] ++ scr.drop 2 then
      inp.scriptSig.isEmpty &&
      (match w with
       | [s] => s.length == 64 && C.schnorrVerify (scr.drop 2) s (C.taprootDigest sk spent i 0)
       | _ => false)
    else false
  | _, _ => false

end GocoinV.WalletSpec

namespace GocoinV.WalletSpec
open GocoinV GocoinV.WalletTx

/-- the signing primitives (btc.EcdsaSign → DER, secp256k1.SchnorrSign) as functions of key index and digest;
    randomness / RFC6979 are inside (the theorems hold for every such function) -/
structure Signer where
  ecdsa : Nat → Bytes → Bytes
  schnorr : Nat → Bytes → Bytes

/-- what sign_tx asks the primitives to sign: the digest named by the request, over the skeleton -/
def sigOf (C : Crypto) (S : Signer) (spent : List TxOut) : Skeleton → SigFn := fun sk i req =>
  match req with
  | .legacy k sc => S.ecdsa k (C.legacyDigest sk i sc 1)
  | .witv0 k sc a => S.ecdsa k (C.witnessDigest sk i sc a 1)
  | .taproot k => S.schnorr k (C.taprootDigest sk spent i 0)

end GocoinV.WalletSpec
