/-
  Spec.SigHash — what the three signature-hash algorithms ARE, written from the specifications and not
  from gocoin's code. Core-only, executable.

    legacy   the original algorithm (Bitcoin Core `SignatureHash` for SigVersion::BASE, i.e.
             `CTransactionSignatureSerializer`): build a modified copy of the transaction, serialise it
             with the ordinary (non-witness) serialiser, append the 4-byte hash type, double-SHA256.
    bip143   BIP143 §Specification (the ten-item preimage).
    bip341   BIP341 "Common signature message" `SigMsg(hash_type, ext_flag)` and the BIP342 extension.

  Option-valued: `none` where the specification defines no digest (input index out of range, a taproot
  hash type outside {0,1,2,3,0x81,0x82,0x83}, taproot SIGHASH_SINGLE without a matching output, and —
  for the legacy algorithm — a script code that does not decode into opcodes: Core's serialiser reads
  such a script with `GetOp` too, but no caller can succeed on it, see Props.C02).
  Only the data structures `Wire.Tx/TxIn/TxOut` and `leBytes` are shared with the model side.
-/
import GocoinV.Base.Bytes
import GocoinV.Model.Wire
namespace GocoinV.Spec.SigHash
open GocoinV.Wire (Tx TxIn TxOut)

/-! ### serialisation primitives (Bitcoin Core serialize.h) -/

def u32 (n : Nat) : Bytes := leBytes 4 n
def u64 (n : Nat) : Bytes := leBytes 8 n

/-- `WriteCompactSize` -/
def compactSize (n : Nat) : Bytes :=
  if n ≤ 252 then [UInt8.ofNat n]
  else if n ≤ 0xffff then 253 :: leBytes 2 n
  else if n ≤ 0xffffffff then 254 :: leBytes 4 n
  else 255 :: leBytes 8 n

/-- a byte vector / script as serialised inside a transaction -/
def varBytes (b : Bytes) : Bytes := compactSize b.length ++ b

def outpoint (i : TxIn) : Bytes := i.prevHash ++ u32 i.prevIdx
def txOut (o : TxOut) : Bytes := u64 o.value ++ varBytes o.pkScript
def txIn (i : TxIn) : Bytes := outpoint i ++ varBytes i.scriptSig ++ u32 i.sequence

def vector {α : Type} (f : α → Bytes) (l : List α) : Bytes := compactSize l.length ++ (l.map f).flatten

/-- the ordinary serialisation without witness -/
def serializeTx (t : Tx) : Bytes :=
  u32 t.version ++ vector txIn t.ins ++ vector txOut t.outs ++ u32 t.lockTime

/-! ### scripts as opcode sequences (Core `GetScriptOp`) -/

/-- total length (opcode byte + length field + data) of the first operation, if its header is there -/
def opLen : Bytes → Option Nat
  | [] => none
  | op :: t =>
    if op.toNat < 0x4c then some (1 + op.toNat)
    else if op = 0x4c then
      match t with
      | a :: _ => some (2 + a.toNat)
      | _ => none
    else if op = 0x4d then
      match t with
      | a :: b :: _ => some (3 + (a.toNat + 256 * b.toNat))
      | _ => none
    else if op = 0x4e then
      match t with
      | a :: b :: c :: d :: _ => some (5 + (a.toNat + 256 * (b.toNat + 256 * (c.toNat + 256 * d.toNat))))
      | _ => none
    else some 1

/-- first operation (its raw bytes) and the rest; `none` when the script ends inside it -/
def nextOp (s : Bytes) : Option (Bytes × Bytes) :=
  match opLen s with
  | none => none
  | some n => if n ≤ s.length then some (s.take n, s.drop n) else none

def parseOps : Nat → Bytes → Option (List Bytes)
  | _, [] => some []
  | 0, _ :: _ => none
  | f+1, s =>
    match nextOp s with
    | none => none
    | some (op, rest) =>
      match parseOps f rest with
      | none => none
      | some ops => some (op :: ops)

/-- the script as a list of operations (raw bytes each); `none` = does not decode -/
def parse (s : Bytes) : Option (List Bytes) := parseOps s.length s

def OP_CODESEPARATOR : Bytes := [0xab]

/-! ### legacy -/

inductive SigMsg where
  /-- the digest is the double hash of this message -/
  | msg (pre : Bytes)
  /-- the digest is the number one as a 256-bit little-endian integer (the SIGHASH_SINGLE "bug") -/
  | one
deriving DecidableEq, Repr

def anyoneCanPay (ht : Nat) : Bool := ht.testBit 7
/-- `nHashType & 0x1f` -/
def baseType (ht : Nat) : Nat := ht % 32

/-- the modified transaction copy that is serialised -/
def legacyTxCopy (t : Tx) (sc : Bytes) (idx ht : Nat) : Tx :=
  let noneOrSingle := baseType ht = 2 ∨ baseType ht = 3
  let ins1 := t.ins.mapIdx fun k i =>
    { i with scriptSig := if k = idx then sc else [],
             sequence := if k ≠ idx ∧ noneOrSingle then 0 else i.sequence }
  let ins2 := if anyoneCanPay ht then (ins1.drop idx).take 1 else ins1
  let outs1 :=
    if baseType ht = 2 then []
    else if baseType ht = 3 then
      List.replicate idx ({ value := 2^64 - 1, pkScript := [] } : TxOut) ++ (t.outs.drop idx).take 1
    else t.outs
  { t with ins := ins2, outs := outs1 }

/-- the legacy signature message for input `idx`, script code `scriptCode` (already cut at the last
    executed OP_CODESEPARATOR and with the signature removed by the caller), hash type `ht` (32 bit) -/
def legacy (t : Tx) (scriptCode : Bytes) (idx ht : Nat) : Option SigMsg :=
  if idx ≥ t.ins.length then none else
  match parse scriptCode with
  | none => none
  | some ops =>
    let sc := (ops.filter (· ≠ OP_CODESEPARATOR)).flatten
    if baseType ht = 3 ∧ idx ≥ t.outs.length then some .one
    else some (.msg (serializeTx (legacyTxCopy t sc idx ht) ++ u32 ht))

/-- FindAndDelete(script, push(sig)) on a decodable script: remove every operation that is exactly
    the canonical push of `sig`. -/
def pushOf (d : Bytes) : Bytes :=
  if d.length < 0x4c then UInt8.ofNat d.length :: d
  else if d.length ≤ 0xff then 0x4c :: UInt8.ofNat d.length :: d
  else if d.length ≤ 0xffff then 0x4d :: (leBytes 2 d.length ++ d)
  else 0x4e :: (leBytes 4 d.length ++ d)

def findAndDelete (script sig : Bytes) : Option (Bytes × Nat) :=
  match parse script with
  | none => none
  | some ops => some ((ops.filter (· ≠ pushOf sig)).flatten, (ops.filter (· = pushOf sig)).length)

/-! ### BIP143 -/

def zeros32 : Bytes := List.replicate 32 0

/-- BIP143 preimage; `dsha` = double SHA-256 -/
def bip143 (dsha : Bytes → Bytes) (t : Tx) (scriptCode : Bytes) (amount idx ht : Nat) : Option Bytes :=
  match t.ins[idx]? with
  | none => none
  | some inp =>
    let acp := anyoneCanPay ht
    let single := baseType ht = 3
    let nonE := baseType ht = 2
    let hashPrevouts := if ¬ acp then dsha ((t.ins.map outpoint).flatten) else zeros32
    let hashSequence := if ¬ acp ∧ ¬ single ∧ ¬ nonE then dsha ((t.ins.map fun i => u32 i.sequence).flatten) else zeros32
    let hashOutputs :=
      if ¬ single ∧ ¬ nonE then dsha ((t.outs.map txOut).flatten)
      else if single ∧ idx < t.outs.length then dsha (txOut (t.outs.getD idx default))
      else zeros32
    some (u32 t.version ++ hashPrevouts ++ hashSequence ++ outpoint inp ++ varBytes scriptCode
          ++ u64 amount ++ u32 inp.sequence ++ hashOutputs ++ u32 t.lockTime ++ u32 ht)

/-! ### BIP341 / BIP342 -/

/-- "TapSighash" -/
def tagTapSighash : Bytes := "TapSighash".toList.map fun c => UInt8.ofNat c.toNat

/-- BIP340 tagged hash: SHA256(SHA256(tag) ‖ SHA256(tag) ‖ msg); this is its input -/
def taggedPreimage (sha : Bytes → Bytes) (tag msg : Bytes) : Bytes := sha tag ++ sha tag ++ msg

def validTaprootHashType (ht : Nat) : Bool :=
  ht = 0 ∨ ht = 1 ∨ ht = 2 ∨ ht = 3 ∨ ht = 0x81 ∨ ht = 0x82 ∨ ht = 0x83

/-- tapscript extension data (BIP342): leaf hash, key version 0, code separator position -/
structure Ext where
  tapleafHash : Bytes
  codesepPos : Nat
deriving DecidableEq, Repr

/-- `SigMsg(hash_type, ext_flag)` preceded by the epoch byte and followed by the BIP342 extension when
    `ext` is given (then ext_flag = 1). `spent` are the outputs spent by the inputs, in input order.
    `none` where BIP341 says validation fails. -/
def bip341Msg (sha : Bytes → Bytes) (t : Tx) (spent : List TxOut) (idx ht : Nat) (annex : Option Bytes)
    (ext : Option Ext) : Option Bytes :=
  if ¬ validTaprootHashType ht then none else
  if spent.length ≠ t.ins.length then none else      -- one spent output per input
  match t.ins[idx]?, spent[idx]? with
  | some inp, some sp =>
    let acp := ht / 128 = 1
    let outT := ht % 4
    if outT = 3 ∧ idx ≥ t.outs.length then none else
    let extFlag := if ext.isSome then 1 else 0
    let annexPresent := if annex.isSome then 1 else 0
    some (
      [0]                                                             -- epoch
      ++ [UInt8.ofNat ht] ++ u32 t.version ++ u32 t.lockTime
      ++ (if ¬ acp then
            sha ((t.ins.map outpoint).flatten)
            ++ sha ((spent.map fun o => u64 o.value).flatten)
            ++ sha ((spent.map fun o => varBytes o.pkScript).flatten)
            ++ sha ((t.ins.map fun i => u32 i.sequence).flatten)
          else [])
      ++ (if outT ≠ 2 ∧ outT ≠ 3 then sha ((t.outs.map txOut).flatten) else [])
      ++ [UInt8.ofNat (extFlag * 2 + annexPresent)]                   -- spend_type
      ++ (if acp then outpoint inp ++ u64 sp.value ++ varBytes sp.pkScript ++ u32 inp.sequence
          else u32 idx)
      ++ (match annex with | some a => sha (varBytes a) | none => [])
      ++ (if outT = 3 then sha (txOut (t.outs.getD idx default)) else [])
      ++ (match ext with
          | some e => e.tapleafHash ++ [0] ++ u32 e.codesepPos
          | none => []))
  | _, _ => none

/-- what is fed to SHA-256 to obtain the taproot digest -/
def bip341 (sha : Bytes → Bytes) (t : Tx) (spent : List TxOut) (idx ht : Nat) (annex : Option Bytes)
    (ext : Option Ext) : Option Bytes :=
  (bip341Msg sha t spent idx ht annex ext).map (taggedPreimage sha tagTapSighash)

end GocoinV.Spec.SigHash
