/-
  Spec.ScriptSigRef — the three signature digests AS THE RULES DEFINE THEM, packaged as the sighash fields of
  the script interpreter's `Oracles`. Core-only, executable (the C01 oracle runs the reference semantics with it).

  Until this file existed the reference semantics of C01 (Spec/Script.lean) was run with the SAME sighash
  answers as the model — the answers of the tree's own Tx.SignatureHash / WitnessSigHash / TaprootSigHash.
  A change of those functions that alters a digest only for inputs outside what standard wallets sign
  (e.g. BIP143 selecting NONE/SINGLE with `hashType & 3` instead of `hashType & 0x1f`) moved implementation,
  model AND reference together, and the verdict of VerifyTxScript — the observable of C01 — was wrong unseen.
  Now the reference side gets its digests from the specification text (Spec/SigHash.lean: the original legacy
  algorithm, BIP143, BIP341/342; written from the documents, not from gocoin), evaluated on the whole spending
  transaction, which the harness hands over with the `tx` request.

  What is taken from where:
    * `Spec.SigHash.legacy / bip143 / bip341` — the messages (property C02 proves gocoin's MODEL of the three
      functions equal to them, see Props/C01.lean `sighash_model_is_reference_*`);
    * the hash functions come from the `Oracles` record itself (`O.sha256`, `O.hash256`);
    * the annex of a taproot spend is read off the witness stack as BIP341 says (last of ≥ 2 elements, first byte 0x50).
  Where the specification defines NO message although the interpreter may ask (legacy: a script code that does
  not decode — no verdict can depend on it, Props.C02.tail_irrelevant; an annex hash that is not the hash of this
  witness's annex — only `eval` requests on explicit execution data) the field falls back to `O`'s own answer.
-/
import GocoinV.Model.ScriptBase
import GocoinV.Spec.SigHash
namespace GocoinV.Script.SigRef
open GocoinV GocoinV.Script

/-- the spending transaction as the signature digests read it -/
structure FullTx where
  tx : Wire.Tx
  /-- the outputs spent by the inputs, in input order (`Tx.Spent_outputs`) -/
  spent : List Wire.TxOut
  /-- the input under verification (`SigChecker.Idx`) -/
  idx : Nat
deriving Repr

/-- `SigChecker.Amount` of a well-formed checker: the value of the output spent by input `idx` -/
def FullTx.amount (F : FullTx) : Nat := (F.spent.getD F.idx default).value

/-- uint256 "1" as the original SIGHASH_SINGLE code returns it -/
def one32 : Bytes := 1 :: List.replicate 31 0

/-- legacy digest by the original algorithm; `none` = the specification defines no message -/
def legacyDigest (dsha : Bytes → Bytes) (F : FullTx) (sc : Bytes) (ht : Nat) : Option Bytes :=
  match Spec.SigHash.legacy F.tx sc F.idx ht with
  | none => none
  | some .one => some one32
  | some (.msg pre) => some (dsha pre)

/-- BIP143 digest; `none` = input index out of range -/
def witV0Digest (dsha : Bytes → Bytes) (F : FullTx) (sc : Bytes) (ht : Nat) : Option Bytes :=
  (Spec.SigHash.bip143 dsha F.tx sc F.amount F.idx ht).map dsha

/-- BIP341 digest of the signature message; `[]` (gocoin's `nil`) where BIP341 defines none -/
def tapDigest (sha : Bytes → Bytes) (F : FullTx) (annex : Option Bytes) (leaf : Bytes) (codesep ht : Nat)
    (scriptPath : Bool) : Bytes :=
  let ext : Option Spec.SigHash.Ext := if scriptPath then some ⟨leaf, codesep⟩ else none
  ((Spec.SigHash.bip341 sha F.tx F.spent F.idx ht annex ext).map sha).getD []

/-- BIP341: "If there are at least two witness elements, and the first byte of the last element is 0x50, this
    last element is called annex" (witness in push order, last element last) -/
def annexOf (witness : List Bytes) : Option Bytes :=
  if witness.length < 2 then none else
  match witness.getLast? with
  | some (0x50 :: r) => some (0x50 :: r)
  | _ => none

/-- `sha256(compact_size(len annex) ‖ annex)`, the value execution data carries -/
def annexHash (sha : Bytes → Bytes) (annex : Bytes) : Bytes := sha (Spec.SigHash.varBytes annex)

/-- `O` with the three signature-digest fields replaced by the specification's digests of `F`
    (`witness` = witness stack of the input under verification, for the annex) -/
def withRefSigHash (O : Oracles) (F : FullTx) (witness : List Bytes) : Oracles :=
  { O with
    sigHashLegacy := fun sc ht =>
      match legacyDigest O.hash256 F sc ht with
      | some d => some d
      | none => O.sigHashLegacy sc ht
    sigHashWitV0 := fun sc ht =>
      match witV0Digest O.hash256 F sc ht with
      | some d => some d
      | none => O.sigHashWitV0 sc ht
    sigHashTap := fun a l c h s =>
      let annex := annexOf witness
      if a = annex.map (annexHash O.sha256) then some (tapDigest O.sha256 F annex l c h s)
      else O.sigHashTap a l c h s }

end GocoinV.Script.SigRef
