/-
  Spec.TapTweak — BIP341 commitment check: with internal key bytes `base` (32 bytes, must be
  liftable), tweak t = int(hash) (fail if t ≥ n), Q = lift_x(int(base)) + t·G (fail if infinite):
  accept iff bytes(x(Q)) = the output key and the parity bit equals y(Q) mod 2.

  LENGTHS: `hash` is read as the integer its bytes spell, whatever their number — as the code does
  (`tweak.SetBytes(hash)`): an empty hash is t = 0 and the 33 bytes 00‖t are t. BIP341 only ever
  produces a 32-byte tagged hash here and so do the consensus callers; the spec (and the theorem
  `tweak_accept_iff`) is about the integer, not about "hash is a 32-byte string".
-/
import GocoinV.Base.Secp
namespace GocoinV.Spec.TapTweak
open GocoinV.Secp

def check (qx base hash : Bytes) (parity : Bool) : Bool :=
  if base.length ≠ 32 then false
  else match liftX (beVal base) with
    | none => false
    | some P =>
      let t := beVal hash
      if t ≥ n then false
      else match add (some P) (mul t G) with
        | none => false
        | some (x, y) => beBytes 32 x == qx && (y % 2 == 1) == parity

end GocoinV.Spec.TapTweak
