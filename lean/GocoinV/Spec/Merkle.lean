/-
  Spec.Merkle — what "duplicate-subtree mutation" (CVE-2012-2459) means, independently of the loop of
  btc.CalcMerkle: the Merkle tree is the list of its levels; a level is *mutated* when two nodes that are
  hashed together (positions 2j and 2j+1, two distinct indexes) are equal. This is the test of Bitcoin
  Core's ComputeMerkleRoot (`hashes[pos] == hashes[pos+1]` for even pos with pos+1 < size). Core-only.
-/
import GocoinV.Base.Hex
namespace GocoinV.Spec.Merkle
open GocoinV

/-- the level above: pairs are hashed together, an odd last node is paired with itself -/
def nextLevel (h : Bytes → Bytes) : List Bytes → List Bytes
  | [] => []
  | [a] => [h (a ++ a)]
  | a :: b :: rest => h (a ++ b) :: nextLevel h rest

/-- some pair (2j, 2j+1) of this level holds two equal nodes -/
def hasEqualPair : List Bytes → Bool
  | a :: b :: rest => (a == b) || hasEqualPair rest
  | _ => false

/-- the levels of the tree from the leaves upwards, the root level (one node) excluded -/
def levels (h : Bytes → Bytes) : Nat → List Bytes → List (List Bytes)
  | 0, _ => []
  | fuel+1, l => if l.length > 1 then l :: levels h fuel (nextLevel h l) else []

/-- the root: iterate `nextLevel` until one node is left -/
def root (h : Bytes → Bytes) : Nat → List Bytes → List Bytes
  | 0, l => l
  | fuel+1, l => if l.length > 1 then root h fuel (nextLevel h l) else l

end GocoinV.Spec.Merkle
