/-
  Spec.BlockStoreMapNC — the durable-map specification (Spec/BlockStoreMap.lean) for histories that also contain the
  one-pass read `BlockGetInternal(hash, do_not_cache = true)` (Model/BlockDBNC.lean): for the specification it is a read —
  the claim demanded of it is the one of `get`, the durable map is unchanged. Core-only.
-/
import GocoinV.Model.BlockDBNC
import GocoinV.Spec.BlockStoreMap
namespace GocoinV.BlockDB

def specStepX (s : State) (sp : Spec) : OpX → Spec
  | .op o => specStep s sp o
  | .getNC _ => sp

def claimRX (s : State) (sp : Spec) : OpX → Claim
  | .op o => claimR s sp o
  | .getNC hash => claimR s sp (.get hash)

def runX (env : Env) : State → List OpX → State × List Out
  | s, [] => (s, [])
  | s, op :: ops =>
    let (s', o) := stepX env s op
    let (s'', os) := runX env s' ops
    (s'', o :: os)

def specRunRX (env : Env) : State → Spec → List OpX → List Claim
  | _, _, [] => []
  | s, sp, op :: ops => claimRX s sp op :: specRunRX env (stepX env s op).1 (specStepX s sp op) ops

def OpX.ok : OpX → Prop
  | .op o => o.isReopen = false ∧ o.sizeOK
  | .getNC _ => True

end GocoinV.BlockDB
