/-
  Spec.BlockStoreMap — what property C16 means: the block store is a durable map
  `key ⇀ (bytes, height, txcount, trusted)`; it survives close / reopen.  Core-only.

  * the key of a block is `keyOf hash` (the first 8 hash bytes, gocoin's `BIdx`) — two blocks whose hashes share
    these bytes are one key for the store and for this specification alike;
  * the first `add` of a key fixes its bytes / height / txcount, later ones can only raise the trusted flag
    (the store ignores a block it already has);
  * `invalid` taints the key: the specification makes no claim about a key once it was marked invalid
    ("until it is explicitly marked invalid") — EXCEPT when the block is forgotten: BlockInvalid of a block that is still
    in the write queue (not yet durable) and not trusted removes it from the store ("never write it"), and the
    specification removes the entry with it, so that a later `add` of the same hash is a NEW entry whose bytes are claimed
    (the scenario of the repair 6075761f). Whether the block is still queued is read from the store's index record
    (`forgets`: `ipos = none`), the write buffer being part of the store, not of the durable map;
    a BlockInvalid that PANICS (the block is trusted: `panics`) leaves the store unchanged and the entry untouched;
  * a claim is made for `get` (bytes + latest trusted flag) and for `length` (the size of the stored block).
-/
import GocoinV.Model.BlockDB
namespace GocoinV.BlockDB

structure SEnt where
  raw : Bytes
  height : Nat
  txcount : Nat
  trusted : Bool
  tainted : Bool := false
  deriving DecidableEq, Repr

structure Spec where
  isOpen : Bool := false
  m : List (Key × SEnt) := []
  deriving Repr

def Op.isReopen : Op → Bool
  | .reopen _ => true
  | _ => false

/-- the block's length fits gocoin's uint32 length fields (blocks are at most 4 MB) -/
def Op.sizeOK : Op → Prop
  | .add _ _ _ _ raw => raw.length ≤ 0xffffffff
  | _ => True

/-- BlockInvalid forgets the block instead of flagging it: it is in the index, not trusted, and not yet written -/
def forgets (s : State) (k : Key) : Bool :=
  match AL.get s.index k with
  | some r => !r.trusted && r.ipos.isNone
  | none => false

/-- BlockInvalid panics ("Trusted block cannot be invalid") and changes nothing: the key is in the index and trusted -/
def panics (s : State) (k : Key) : Bool :=
  match AL.get s.index k with
  | some r => r.trusted
  | none => false

/-- one operation on the durable map; `s` is the store's state BEFORE the operation (read only by `forgets` and `panics`) -/
def specStep (s : State) (sp : Spec) (op : Op) : Spec :=
  match op with
  | .reopen _ => if sp.isOpen then sp else { sp with isOpen := true }
  | op =>
    if !sp.isOpen then sp else
    match op with
    | .add hash height txcount trusted raw =>
      if raw.length < 80 then sp else
      match AL.get sp.m (keyOf hash) with
      | none => { sp with m := AL.set sp.m (keyOf hash) ⟨raw, height, txcount % 2^32, trusted, false⟩ }
      | some e => { sp with m := AL.set sp.m (keyOf hash) { e with trusted := e.trusted || trusted } }
    | .trusted hash =>
      match AL.get sp.m (keyOf hash) with
      | none => sp
      | some e => { sp with m := AL.set sp.m (keyOf hash) { e with trusted := true } }
    | .invalid hash =>
      match AL.get sp.m (keyOf hash) with
      | none => sp
      | some e =>
        if panics s (keyOf hash) then sp     -- the call panicked, the store is unchanged: the entry keeps its claim
        else if forgets s (keyOf hash) then { sp with m := AL.del sp.m (keyOf hash) }
        else { sp with m := AL.set sp.m (keyOf hash) { e with tainted := true } }
    | .close => { sp with isOpen := false }
    | _ => sp

/-- what the specification demands of the reply to `op` in state `sp` -/
inductive Claim
  | nothing
  | data (bytes : Bytes) (trusted : Bool)
  | len (n : Nat)
  deriving DecidableEq, Repr

def claim (sp : Spec) (op : Op) : Claim :=
  if !sp.isOpen then .nothing else
  match op with
  | .get hash =>
    match AL.get sp.m (keyOf hash) with
    | some e => if e.tainted then .nothing else .data e.raw e.trusted
    | none => .nothing
  | .length hash _ =>
    match AL.get sp.m (keyOf hash) with
    | some e => if e.tainted then .nothing else .len e.raw.length
    | none => .nothing
  | _ => .nothing

/-- the reply `out` satisfies the claim -/
def Claim.holds : Claim → Out → Prop
  | .nothing, _ => True
  | .data b t, out => out = .data b t
  | .len n, out => out = .len n

/-- the claims along a history (the store's state is threaded for `forgets` only) -/
def specRun (env : Env) : State → Spec → List Op → List Claim
  | _, _, [] => []
  | s, sp, op :: ops => claim sp op :: specRun env (step env s op).1 (specStep s sp op) ops

/-- the durable map after a history -/
def specFinal (env : Env) : State → Spec → List Op → Spec
  | _, sp, [] => sp
  | s, sp, op :: ops => specFinal env (step env s op).1 (specStep s sp op) ops

/-- every reply satisfies the claim made for its operation (the two lists have the same length) -/
def AllHold : List Claim → List Out → Prop
  | [], [] => True
  | c :: cs, o :: os => c.holds o ∧ AllHold cs os
  | _, _ => False

/-! ### retention (DataFilesKeep ≠ 0, DataFilesBackup) -/

/-- the key's record is written and its data file left the configured retention or was shadowed (ghost `FS.lost`, set by
    `removeDatFile` without backup and by the O_CREATE of LoadBlockIndex over a file that sits in `oldat/`) -/
def keyLost (s : State) (k : Key) : Bool :=
  match AL.get s.index k with
  | some r => r.ipos.isSome && s.fs.lost.contains r.datfileidx
  | none => false

/-- the claim "within the configured retention": nothing is claimed for a key whose data file is lost in the state the
    operation starts from -/
def claimR (s : State) (sp : Spec) (op : Op) : Claim :=
  match op with
  | .get hash => if keyLost s (keyOf hash) then .nothing else claim sp op
  | .length hash _ => if keyLost s (keyOf hash) then .nothing else claim sp op
  | _ => .nothing

/-- the claims along a history, with the model state threaded for `keyLost` -/
def specRunR (env : Env) : State → Spec → List Op → List Claim
  | _, _, [] => []
  | s, sp, op :: ops => claimR s sp op :: specRunR env (step env s op).1 (specStep s sp op) ops

theorem AllHold.get {cs : List Claim} {os : List Out} (h : AllHold cs os) (i : Nat) (c : Claim) (o : Out)
    (hc : cs[i]? = some c) (ho : os[i]? = some o) : c.holds o := by
  induction cs generalizing os i with
  | nil => simp at hc
  | cons c0 cs ih =>
    cases os with
    | nil => simp at ho
    | cons o0 os =>
      obtain ⟨h1, h2⟩ := h
      cases i with
      | zero => simp at hc ho; subst hc; subst ho; exact h1
      | succ i => simp at hc ho; exact ih h2 i hc ho

end GocoinV.BlockDB
