/-
  Spec.Bip340 — BIP340 verification and default signing, written from the BIP text.
    Verify(pk, m, sig): P = lift_x(int(pk)) (fail if none); r = int(sig[0:32]) (fail if r ≥ p);
      s = int(sig[32:64]) (fail if s ≥ n); e = int(hash_challenge(bytes(r) ‖ bytes(P) ‖ m)) mod n;
      R = s·G − e·P; fail if R is infinite, y(R) is odd or x(R) ≠ r.
  pk must be 32 bytes and sig 64 bytes; the message may have any length.

  TWO forms are given. `verify` writes −e·P as ((n−e) mod n)·P with the P-term first — the shape of the
  Go code (`XYZ.ECmult` with the scalar n − e). `verifyText` writes the BIP's own step "R = s·G − e·P"
  with the point e·P NEGATED. The order of the summands is immaterial (commutativity is part of the
  proved group law). The scalar is NOT: ((n−e) mod n)·P = −(e·P) holds for a point P with n·P = ∞, i.e.
  for every P once one knows #E(F_p) = n — the point count that this development does NOT prove
  (see `recover_verifies_partial`). So: model = `verify` is proved unconditionally
  (`Props.C03.schnorr_accept_iff`); `verify` = `verifyText` is proved for keys whose lifted point has
  order dividing n (`Props.C03.schnorr_accept_text_partial`; a kernel evaluation for any concrete key).
  The harness's math/big reference uses the `verifyText` form, and the oracle evaluates both.
-/
import GocoinV.Base.C03_Hmac
import GocoinV.Base.Secp
namespace GocoinV.Spec.Bip340
open GocoinV.Secp GocoinV.C03

def challenge (H : Hash) (r32 pk32 msg : Bytes) : Nat :=
  beVal (taggedHash H "BIP0340/challenge" (r32 ++ pk32 ++ msg)) % n

def verify (H : Hash) (pk sig msg : Bytes) : Bool :=
  if pk.length ≠ 32 ∨ sig.length ≠ 64 then false
  else match liftX (beVal pk) with
    | none => false
    | some P =>
      let r := beVal (sig.take 32)
      let s := beVal (sig.drop 32)
      if r ≥ p ∨ s ≥ n then false
      else
        let e := challenge H (sig.take 32) pk msg
        match add (mul ((n - e) % n) (some P)) (mul s G) with
        | none => false
        | some (x, y) => y % 2 == 0 && x == r

/-- BIP340 Verify with the step "R = s·G − e·P" written as in the BIP text: s·G plus the NEGATION of the
    point e·P. -/
def verifyText (H : Hash) (pk sig msg : Bytes) : Bool :=
  if pk.length ≠ 32 ∨ sig.length ≠ 64 then false
  else match liftX (beVal pk) with
    | none => false
    | some P =>
      let r := beVal (sig.take 32)
      let s := beVal (sig.drop 32)
      if r ≥ p ∨ s ≥ n then false
      else
        let e := challenge H (sig.take 32) pk msg
        match add (mul s G) (neg (mul e (some P))) with
        | none => false
        | some (x, y) => y % 2 == 0 && x == r

/-- BIP340 default signing Sign(sk, m, a) (with the recommended final verification). The secret key is
    a 32-byte array in the BIP; `sign` reads any byte string as an integer — the model theorem
    `bip340_sign_matches_partial` is stated for 32-byte keys only, and for every other length the code
    returns nil (`schnorr_sign_key_length`). -/
def sign (H : Hash) (msg sk aux : Bytes) : Option Bytes :=
  let d' := beVal sk
  if d' = 0 ∨ d' ≥ n then none
  else match mul d' G with
    | none => none
    | some (px, py) =>
      let d := if py % 2 = 0 then d' else n - d'
      let t := xorBytes (beBytes 32 d) (taggedHash H "BIP0340/aux" aux)
      let rand := taggedHash H "BIP0340/nonce" (t ++ beBytes 32 px ++ msg)
      let k' := beVal rand % n
      if k' = 0 then none
      else match mul k' G with
        | none => none
        | some (rx, ry) =>
          let k := if ry % 2 = 0 then k' else n - k'
          let e := challenge H (beBytes 32 rx) (beBytes 32 px) msg
          let sig := beBytes 32 rx ++ beBytes 32 ((k + e * d) % n)
          if verify H (beBytes 32 px) sig msg then some sig else none

end GocoinV.Spec.Bip340
