/-
  Spec.Ecdsa — ECDSA acceptance as the property states it: the public-key bytes encode a point of
  secp256k1 with coordinates below p (SEC1: compressed, uncompressed, hybrid with matching parity —
  `Secp.parsePubkey`, the behaviour of libsecp256k1's secp256k1_ec_pubkey_parse), r and s lie in
  [1, n-1], and the ECDSA equation holds:  x(u1·G + u2·Q) mod n = r,  u1 = m·s⁻¹, u2 = r·s⁻¹ (mod n).

  The signature container is the "lax DER" layout 30 L 02 lr R 02 ls S [trailing bytes] with one-byte
  lengths, lr, ls ≥ 1, L = lr+ls+4, integers read as unsigned big-endian. (Strict DER / BIP66 is a
  script-level rule — property C01 — not part of this acceptance predicate.)

  Group elements are written with the reference functions of Base/Secp; the sum is written
  u2·Q + u1·G (the group is commutative; commutativity of `Secp.add` is part of the group law, proved
  in Proofs/C03Curve.lean — `Props.C03.reference_curve_group_law`).

  LENGTHS: the message argument is the integer its bytes spell, whatever their number (the code does
  `Number.SetBytes(msg)`); callers pass 32-byte hashes. The predicate is about that integer.
-/
import GocoinV.Base.Secp
namespace GocoinV.Spec.Ecdsa
open GocoinV.Secp

/-- split the container into (r, s) -/
def decodeSig : Bytes → Option (Nat × Nat)
  | t0 :: L :: t1 :: lr :: rest =>
    if t0 ≠ 0x30 ∨ t1 ≠ 0x02 then none
    else
      let lr := lr.toNat
      if lr = 0 ∨ rest.length < lr + 2 then none
      else match rest.drop lr with
        | t2 :: ls :: rest2 =>
          let ls := ls.toNat
          if t2 ≠ 0x02 ∨ ls = 0 ∨ rest2.length < ls ∨ L.toNat ≠ lr + ls + 4 then none
          else some (beVal (rest.take lr), beVal (rest2.take ls))
        | _ => none
  | _ => none

/-- the ECDSA equation for a point Q, scalars r, s and message value m -/
def verifyEq (Q : Point) (r s m : Nat) : Bool :=
  let w := invMod s n
  let u1 := m * w % n
  let u2 := r * w % n
  match add (mul u2 Q) (mul u1 G) with
  | none => false
  | some (x, _) => x % n == r

/-- the acceptance predicate of the property -/
def Accepts (pk sig msg : Bytes) : Prop :=
  ∃ Q r s, parsePubkey pk = some Q ∧ decodeSig sig = some (r, s) ∧
    1 ≤ r ∧ r < n ∧ 1 ≤ s ∧ s < n ∧ verifyEq (some Q) r s (beVal msg) = true

/-- executable form (served by the oracle as an independent opinion) -/
def verify (pk sig msg : Bytes) : Bool :=
  match parsePubkey pk, decodeSig sig with
  | some Q, some (r, s) =>
    decide (1 ≤ r) && decide (r < n) && decide (1 ≤ s) && decide (s < n) && verifyEq (some Q) r s (beVal msg)
  | _, _ => false

/-- BIP66 strict DER (IsValidSignatureEncoding) for a signature WITHOUT the hash-type byte. -/
def isStrictDER (sig : Bytes) : Bool :=
  let len := sig.length
  if len < 8 ∨ len > 72 then false
  else if sig.getD 0 0 ≠ 0x30 ∨ (sig.getD 1 0).toNat ≠ len - 2 then false
  else
    let lr := (sig.getD 3 0).toNat
    if 5 + lr ≥ len then false
    else
      let ls := (sig.getD (5 + lr) 0).toNat
      if lr + ls + 6 ≠ len then false
      else if sig.getD 2 0 ≠ 0x02 ∨ lr = 0 ∨ sig.getD 4 0 ≥ 0x80 then false
      else if lr > 1 ∧ sig.getD 4 0 = 0 ∧ sig.getD 5 0 < 0x80 then false
      else if sig.getD (lr + 4) 0 ≠ 0x02 ∨ ls = 0 ∨ sig.getD (lr + 6) 0 ≥ 0x80 then false
      else if ls > 1 ∧ sig.getD (lr + 6) 0 = 0 ∧ sig.getD (lr + 7) 0 < 0x80 then false
      else true

end GocoinV.Spec.Ecdsa
