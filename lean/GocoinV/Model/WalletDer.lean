/-
  Model.WalletDer — the DER assembly INSIDE `Tx.Sign` and `Tx.SignWitness` (lib/btc/tx.go), statement by statement.
  The wallet does not call `Signature.Bytes()` (C03's `Sig.sigBytes`): both functions take the two `big.Int`s that
  `btc.EcdsaSign` returns and build the blob themselves —

      rb := r.Bytes(); sb := s.Bytes()
      if rb[0] >= 0x80 { rb = append([]byte{0x00}, rb...) }        // index panic when r = 0 (empty slice)
      if sb[0] >= 0x80 { sb = append([]byte{0x00}, sb...) }
      busig: 30, byte(4+len(rb)+len(sb)), 02, byte(len(rb)), rb, 02, byte(len(sb)), sb, byte(hash_type)
      Tx.Sign:        ScriptSig = byte(len(busig)) busig byte(len(pubkey)) pubkey
      Tx.SignWitness: SegWit[in] = [busig, pubkey]

  `Proofs/C13Inst.lean` proves that this blob is `Signature.Bytes()` of the same (r, s) followed by the hash-type byte
  (`txSignBusig_eq_sigBytes`), so the signer of `signatures_verify` (`ecdsaDer` = C03's Sign + Bytes) hands out what the
  wallet's own code assembles. `oracle_c13` evaluates `txSignRfc` (request `signrfc`) and the harness compares it with the
  signature bytes found in the output of the REAL wallet run with `-rfc6979`.
  Core only.
-/
import GocoinV.Model.Sig
import GocoinV.Model.WalletTx
namespace GocoinV.WalletTx
open GocoinV.Model

/-- `rb := r.Bytes(); if rb[0] >= 0x80 { rb = append([]byte{0x00}, rb...) }`; `none` = index-out-of-range panic
    (`big.Int.Bytes()` of 0 is the empty slice) -/
def txSignInt (v : Nat) : Option Bytes :=
  let vb := Sig.natBytes v
  match vb[0]? with
  | none => none
  | some b0 => some (if b0 ≥ 0x80 then [0x00] ++ vb else vb)

/-- the buffer `busig` of `Tx.Sign` / `Tx.SignWitness` for the pair (r, s) returned by `btc.EcdsaSign` -/
def txSignBusig (r s : Nat) (hashType : UInt8) : Option Bytes :=
  match txSignInt r, txSignInt s with
  | some rb, some sb =>
    some ([0x30] ++ [UInt8.ofNat (4 + rb.length + sb.length)] ++ [0x02] ++ [UInt8.ofNat rb.length] ++ rb
          ++ [0x02] ++ [UInt8.ofNat sb.length] ++ sb ++ [hashType])
  | _, _ => none

/-- `Tx.Sign`: the bytes assigned to `tx.TxIn[in].ScriptSig` -/
def txSignScriptSig (busig pubkey : Bytes) : Bytes :=
  [UInt8.ofNat busig.length] ++ busig ++ [UInt8.ofNat pubkey.length] ++ pubkey

/-- `Tx.SignWitness`: the stack assigned to `tx.SegWit[in]` -/
def txSignWitness (busig pubkey : Bytes) : List Bytes := [busig, pubkey]

/-- `btc.EcdsaSign` with `-rfc6979` followed by the assembly of `Tx.Sign` / `Tx.SignWitness` (hash type ALL):
    the signature blob WITHOUT the hash-type byte (what the harness cuts out of the wallet's output);
    `none` = the signing loop does not terminate / Sign fails / r = 0 panic -/
def txSignRfc (H : GocoinV.C03.Hash) (priv hash : Bytes) : Option Bytes :=
  match Sig.ecdsaSignRfc H priv hash with
  | none => none
  | some (r, s) => (txSignBusig r s 1).map (·.dropLast)

end GocoinV.WalletTx
