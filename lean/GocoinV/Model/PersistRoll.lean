/-
  Model.PersistRoll — the positional block store WITH data-file roll-over (BlockDBOpts.MaxDataFileSize), which
  Model/PersistPos.lean (one data file) leaves out.  Core-only, executable (oracle_c07 op `roll`).

  Mirrors lib/chain/blockdb.go (as written, /repo @ HEAD):
    LoadBlockIndex : for every index record, in file order of blockchain.new:
                       if blen > 0 && datfileidx > maxdatfileidx { maxdatfileidx = datfileidx; maxdatfilepos = 0 }
                       if fpos+blen > maxdatfilepos { maxdatfilepos = fpos+blen }          -- UNCONDITIONAL, after the bump
                     blockdata = OpenFile(dat_fname(maxdatfileidx), O_RDWR|O_CREATE); blockdata.Seek(maxdatfilepos)
    writeOne       : if max_data_file_size != 0 && maxdatfilepos+len > max_data_file_size {
                         os.Create(dat_fname(maxdatfileidx+1))   -- truncates; handle at offset 0
                         maxdatfilepos = 0; maxdatfileidx++ }
                     blockdata.Write(data); index record (datfileidx := maxdatfileidx, fpos := maxdatfilepos, blen);
                     maxdatfilepos += blen
  `buggy` selects the variant in which the append-position update is an `else if` of the bump restricted to the current file
  (the first record of a newer data file then leaves maxdatfilepos at 0) — NOT what the code does; it is here so that the model
  can say what goes wrong then.  removeDatFile (DataFilesKeep) is outside this model.
  Histories: `write`, `crashRoll` (killed right after the roll-over's os.Create), `crashMid` (killed between the data write and
  the index write), `restart`; each kill is followed by a restart.
-/
import GocoinV.Model.PersistPos
namespace GocoinV.Persist

structure RRec where
  id : Nat
  file : Nat
  fpos : Nat
  blen : Nat
deriving Repr, DecidableEq

structure RDisk where
  files : Nat → DatFile := fun _ => {}     -- bl00000000.dat, bl00000001.dat, …; a missing file is the empty one
  idx : List RRec := []

structure RNode where
  maxidx : Nat := 0
  maxpos : Nat := 0
  off : Nat := 0            -- file offset of the open blockdata handle (on data file `maxidx`)
deriving Repr, DecidableEq

structure RSt where
  n : RNode := {}
  d : RDisk := {}

/-- one iteration of LoadBlockIndex's loop -/
def rloadStep (buggy : Bool) (acc : Nat × Nat) (r : RRec) : Nat × Nat :=
  if buggy then
    if r.blen > 0 && r.file > acc.1 then (r.file, 0)
    else if r.file == acc.1 && r.fpos + r.blen > acc.2 then (acc.1, r.fpos + r.blen)
    else acc
  else
    let acc := if r.blen > 0 && r.file > acc.1 then (r.file, 0) else acc
    if r.fpos + r.blen > acc.2 then (acc.1, r.fpos + r.blen) else acc

def rload (buggy : Bool) (idx : List RRec) : Nat × Nat := idx.foldl (rloadStep buggy) (0, 0)

/-- LoadBlockIndex + open of the newest data file + Seek -/
def ropen (buggy : Bool) (d : RDisk) : RSt :=
  { n := { maxidx := (rload buggy d.idx).1, maxpos := (rload buggy d.idx).2, off := (rload buggy d.idx).2 }, d := d }

def setFile (files : Nat → DatFile) (k : Nat) (f : DatFile) : Nat → DatFile := fun i => if i = k then f else files i

/-- the roll-over check at the head of writeOne -/
def rroll (maxSize : Nat) (s : RSt) (l : Nat) : RSt :=
  if maxSize != 0 && s.n.maxpos + l > maxSize then
    { n := { maxidx := s.n.maxidx + 1, maxpos := 0, off := 0 },
      d := { s.d with files := setFile s.d.files (s.n.maxidx + 1) {} } }
  else s

/-- blockdata.Write(data) at the handle's offset -/
def rwriteDat (s : RSt) (id l : Nat) : RSt :=
  { s with d := { s.d with files := setFile s.d.files s.n.maxidx ((s.d.files s.n.maxidx).write s.n.off id l) },
           n := { s.n with off := s.n.off + l } }

/-- the index record, maxdatfilepos += blen -/
def rwriteIdx (s : RSt) (id l : Nat) : RSt :=
  { s with d := { s.d with idx := s.d.idx ++ [{ id := id, file := s.n.maxidx, fpos := s.n.maxpos, blen := l }] },
           n := { s.n with maxpos := s.n.maxpos + l } }

inductive ROp
  | write (id l : Nat)
  | crashRoll (id l : Nat)   -- killed after the roll-over check (and os.Create, if it fired), before the data write
  | crashMid (id l : Nat)    -- killed after the data write, before the index write
  | restart
deriving Repr, DecidableEq

def rstep (buggy : Bool) (maxSize : Nat) (s : RSt) : ROp → RSt
  | .write id l => rwriteIdx (rwriteDat (rroll maxSize s l) id l) id l
  | .crashRoll _ l => ropen buggy (rroll maxSize s l).d
  | .crashMid id l => ropen buggy (rwriteDat (rroll maxSize s l) id l).d
  | .restart => ropen buggy s.d

def rrun (buggy : Bool) (maxSize : Nat) (s : RSt) (ops : List ROp) : RSt := ops.foldl (rstep buggy maxSize) s

/-- every index record reads back its own block from its own data file -/
def rreadsBack (d : RDisk) : Bool := d.idx.all (fun r => (d.files r.file).read r.fpos r.blen == some r.id)

end GocoinV.Persist
