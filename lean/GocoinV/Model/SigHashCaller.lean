/-
  Model.SigHashCaller — ONE transaction object in the hands of its CALLER (lib/chain/chain_accept.go `commitTxs`;
  client/txpool and the web UI do the same sequentially). Core-only.

  The caller makes `tx.Spent_outputs = make([]*btc.TxOut, len(tx.TxIn))` (all nil), resolves the inputs one after the
  other (`tx.Spent_outputs[j] = tout`, `store`) and has every input verified by a worker; a worker's digest request
  (`req`) is atomic (hashLock). What a request sees of `Spent_outputs` after `j` stores is the first `j` entries, the
  rest is nil — reading a nil entry is a nil dereference, exactly what reading past the end of the list
  `spent.take j` is for the model (`tapSingleFill`: `spent.length < tx.ins.length` = panic with the pointer
  `tapSingleHashes` already published; `taprootTail`: `spent[inPos]? = none` = panic).

  `commitTxs` as written starts the workers after the collecting loop: every `req` comes after all `store`s.
-/
import GocoinV.Model.SigHash
namespace GocoinV.SigHash
open GocoinV.Wire (Tx TxIn TxOut)

inductive CEv where
  /-- the collecting loop resolves the next input: `tx.Spent_outputs[j] = tout`, `j` = number of stores so far -/
  | store
  /-- a digest request of a verification worker runs -/
  | req (k : Call)
deriving DecidableEq, Repr, Inhabited

structure CallerSt where
  stored : Nat := 0
  cache : Cache := {}
deriving DecidableEq, Repr, Inhabited

def callerStep (H : Bytes → Bytes) (tx : Tx) (spent : List TxOut) (s : CallerSt) : CEv → CallerSt × Option Res
  | .store => ({ s with stored := s.stored + 1 }, none)
  | .req k =>
    let r := step true H tx (spent.take s.stored) s.cache k
    ({ s with cache := r.2 }, some r.1)

def runCaller (H : Bytes → Bytes) (tx : Tx) (spent : List TxOut) : CallerSt → List CEv → List (Option Res)
  | _, [] => []
  | s, e :: es =>
    let r := callerStep H tx spent s e
    r.2 :: runCaller H tx spent r.1 es

/-- the same history answered by a fresh object that holds ALL spent outputs -/
def callerSpec (H : Bytes → Bytes) (tx : Tx) (spent : List TxOut) : List CEv → List (Option Res)
  | [] => []
  | .store :: es => none :: callerSpec H tx spent es
  | .req k :: es => some (step true H tx spent {} k).1 :: callerSpec H tx spent es

/-- may request `k` run when `j` of the `n` spent outputs are stored? The legacy and BIP143 digests do not read
    `Spent_outputs` (BIP143 gets the amount as an argument); a taproot digest with SIGHASH_ANYONECANPAY reads the
    entry of its own input only; every other taproot digest commits to ALL spent outputs. -/
def safeAt (n j : Nat) : Call → Bool
  | .leg _ _ _ => true
  | .wit _ _ _ _ => true
  | .tap _ inPos ht _ => decide (n ≤ j) || (decide (ht &&& 0x80 = 0x80) && decide (inPos < j))

/-- every request of the history is safe at the moment it runs (`j` = stores before the history starts) -/
def disciplined (n : Nat) : Nat → List CEv → Bool
  | _, [] => true
  | j, .store :: es => disciplined n (j + 1) es
  | j, .req k :: es => safeAt n j k && disciplined n j es

/-- the code as written: all stores, then the requests in any order -/
def collectThenVerify (n : Nat) (ks : List Call) : List CEv := List.replicate n .store ++ ks.map .req

end GocoinV.SigHash
