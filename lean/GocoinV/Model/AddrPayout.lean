/-
  Model.AddrPayout — the two cooperating call sites through which a payout address typed at run time
  reaches a payment script:
    client/usif/textui/mining.go  do_minaddr(s)     : `minadr <s>` validates s with btc.NewAddrFromString and,
                                                      when accepted, stores the STRING in rpcapi.COINBASE_ADDRESS
    client/rpcapi/mining.go       make_coinbase_tx  : the_addr, _ := btc.NewAddrFromString(COINBASE_ADDRESS);
                                                      TxOut[0].Pk_script = the_addr.OutScript()
    client/rpcapi/address.go      ValidateAddress(s): scriptPubKey = NewAddrFromString(s).OutScript()
  The state of the configuration machine is the one string COINBASE_ADDRESS; nothing else is kept between
  two templates (the harness observes exactly that on the real code: go/cmd/c15/callers.go).
-/
import GocoinV.Model.Addr
namespace GocoinV.Addr.Payout
open GocoinV.Addr

/-- one thing the operator / a miner does -/
inductive Step where
  | typed (s : Bytes)      -- text UI: `minadr <s>`
  | template               -- rpc getwork: make_coinbase_tx
  | validate (s : Bytes)   -- rpc validateaddress <s>
  deriving Repr, DecidableEq

/-- does `btc.NewAddrFromString` accept the string -/
def accepted (H : Hashes) (s : Bytes) : Bool :=
  match fromString H s with
  | .ok _ => true
  | .error _ => false

/-- `do_minaddr`: COINBASE_ADDRESS after `minadr <s>` -/
def minadr (H : Hashes) (cfg s : Bytes) : Bytes :=
  if s = [] then cfg else if accepted H s then s else cfg

/-- script the string denotes as the callers compute it: `a, _ := NewAddrFromString(s); a.OutScript()`;
    `none` = Go panic (nil address, or a version byte without script form) -/
def scriptOf (H : Hashes) (s : Bytes) : Option Bytes :=
  match fromString H s with
  | .ok a => outScript a
  | .error _ => none

/-- what one step shows -/
inductive Out where
  | shown (cfg : Bytes)              -- `COINBASE_ADDRESS: <cfg>` printed by minadr
  | pays (scr : Option Bytes)        -- TxOut[0].Pk_script of the template (none = panic)
  | valid (scr : Option (Option Bytes))  -- validateaddress: none = isvalid false, some scr = scriptPubKey
  deriving Repr, DecidableEq

def validate (H : Hashes) (s : Bytes) : Option (Option Bytes) :=
  match fromString H s with
  | .ok a => some (outScript a)
  | .error _ => none

/-- the configuration string after a history -/
def cfgAfter (H : Hashes) : List Step → Bytes → Bytes
  | [], c => c
  | .typed s :: r, c => cfgAfter H r (minadr H c s)
  | _ :: r, c => cfgAfter H r c

/-- everything a history shows, from the start value `c` of COINBASE_ADDRESS -/
def run (H : Hashes) : List Step → Bytes → List Out
  | [], _ => []
  | .typed s :: r, c => .shown (minadr H c s) :: run H r (minadr H c s)
  | .template :: r, c => .pays (scriptOf H c) :: run H r c
  | .validate s :: r, c => .valid (validate H s) :: run H r c

/-- SPECIFICATION side: the strings typed with `minadr`, in order -/
def typedOf : List Step → List Bytes
  | [] => []
  | .typed s :: r => s :: typedOf r
  | _ :: r => typedOf r

/-- SPECIFICATION side: the address in force = the last typed string that is a non-empty accepted address,
    the start value when there is none -/
def inForce (H : Hashes) (start : Bytes) (typed : List Bytes) : Bytes :=
  (typed.reverse.find? (fun s => s ≠ [] ∧ accepted H s)).getD start

end GocoinV.Addr.Payout
