/-
  Model.ChainTree — the block tree and the tip-selection / reorganisation logic of lib/chain
  (chain_accept.go: AcceptHeader, CommitBlock; chain_tree.go: MoveToBlock, UndoLastBlock, ParseTillBlock,
  FindPathTo, FindFarthestNode, DeleteBranch; chain_diff.go: MorePOW; block_check.go: the tree-related
  part of PreCheckBlock; unspent_db.go: CommitBlockTxs / UndoBlockTxs around the undo files).
  Core-only, executable; mirrors the code as written (first child wins ties in FindFarthestNode, undo
  files are keyed by height only, …).

  Work: the Go code sums `float64` `btc.GetDifficulty(bits)`.  The model uses the exact rational
  `0xffff·256^(29−e)/mantissa` (`Q` = numerator/denominator over Nat, compared by cross-multiplication).
  Float rounding is the difference between model and code; it can only show when two sums are closer
  than one rounding error (see the `o1-float-tie` scenario of the harness).

  Go panics are `Except.error` results. Loops over parents carry fuel (tree depth is bounded by height).

  HEADER-FIRST delivery (the client's normal path: client/network ProcessNewHeader = PreCheckBlock + AcceptHeader on the
  80 header bytes, later client/main LocalAcceptBlock = CommitBlock(bl, node) on the node that exists already) is the
  second half of this file: `header`, `commitNode`, `Op` / `step`. A node with `txCount = 0` is a header without block
  data; `limbo` holds the entries of `BlockIndex` that are no longer reachable from the root.
-/
import GocoinV.Model.UtxoOps
namespace GocoinV.ChainTree
open GocoinV.UtxoOps

structure Node where
  id : Nat
  parent : Nat
  height : Nat
  bits : Nat
  childs : List Nat      -- ordered as in `Childs` (arrival order; delChild keeps the order)
  txCount : Nat          -- 0 = only the header is known
deriving Repr, Inhabited

structure Stored where
  txs : List Tx
  trusted : Bool
deriving Repr, Inhabited

structure Chain where
  nodes : List Node                   -- BlockIndex / the tree
  root : Nat
  tip : Nat                           -- blockTreeEnd
  utxo : DB
  store : List (Nat × Stored)         -- block store (invalid-flagged blocks are dropped)
  undoFiles : List (Nat × List Rec)   -- undo/<height>  (keyed by height only, as the code)
  lastHeight : Nat                    -- Unspent.LastBlockHeight
  vcBad : Nat := 0                    -- GHOST (no counterpart in the code): connected blocks whose changes fail `validChangesB`
  limbo : List Node := []             -- entries of BlockIndex that are NOT reachable from the root any more: the header-only
                                      -- descendants of a block that CommitBlock refused on the tip (it unlinks the block from its
                                      -- parent and deletes the block's own index entry only), and headers accepted below them
deriving Repr, Inhabited

-- ------------------------------------------------------------------------------------------ work

structure Q where
  num : Nat
  den : Nat
deriving Repr, Inhabited

def Q.zero : Q := ⟨0, 1⟩
def Q.add (a b : Q) : Q := ⟨a.num * b.den + b.num * a.den, a.den * b.den⟩
/-- `a > b` for positive denominators -/
def Q.gt (a b : Q) : Bool := a.num * b.den > b.num * a.den

/-- exact value of `btc.GetDifficulty(bits)` -/
def difficulty (bits : Nat) : Q :=
  let e := (bits / 0x1000000) % 256
  let m := bits % 0x1000000
  if e ≤ 29 then ⟨0xffff * 256 ^ (29 - e), m⟩ else ⟨0xffff, m * 256 ^ (e - 29)⟩

def UnwindBufLen : Nat := 2560
def MovingCheckpointDepth : Nat := 2016

/-- `btc.GetBlockReward` -/
def reward (height : Nat) : Nat := 5000000000 / 2 ^ (height / 210000)

-- ------------------------------------------------------------------------------------------ tree access

def getNode (c : Chain) (id : Nat) : Option Node := c.nodes.find? (fun n => n.id == id)

def modNode (c : Chain) (id : Nat) (f : Node → Node) : Chain :=
  { c with nodes := c.nodes.map fun n => if n.id == id then f n else n }

def node! (c : Chain) (id : Nat) : Except String Node :=
  match getNode c id with
  | some n => pure n
  | none => throw "panic:nil-node"

/-- `b1.MorePOW(b2)` -/
def morePOWAux (c : Chain) : Nat → Node → Node → Q → Q → Bool
  | 0, _, _, _, _ => false
  | f + 1, b1, b2, s1, s2 =>
    if b1.height > b2.height then
      match getNode c b1.parent with
      | some p => morePOWAux c f p b2 (s1.add (difficulty b1.bits)) s2
      | none => false
    else if b2.height > b1.height then
      match getNode c b2.parent with
      | some p => morePOWAux c f b1 p s1 (s2.add (difficulty b2.bits))
      | none => false
    else if b1.id == b2.id then s1.gt s2
    else
      match getNode c b1.parent, getNode c b2.parent with
      | some p1, some p2 => morePOWAux c f p1 p2 (s1.add (difficulty b1.bits)) (s2.add (difficulty b2.bits))
      | _, _ => false

def morePOW (c : Chain) (b1 b2 : Node) : Bool :=
  morePOWAux c (b1.height + b2.height + 2) b1 b2 Q.zero Q.zero

/-- `n.FindFarthestNode()`: (leaf, Σ difficulty of the nodes from `n` down to and including the leaf — since fix
    dee8064a the leaf's own difficulty counts) -/
def farthest (c : Chain) : Nat → Node → Nat × Q
  | 0, n => (n.id, difficulty n.bits)
  | f + 1, n =>
    match n.childs.filterMap (getNode c) with
    | [] => (n.id, difficulty n.bits)
    | c0 :: rest =>
      let first := farthest c f c0
      let best := rest.foldl (fun acc ch =>
        let r := farthest c f ch
        if r.2.gt acc.2 then r else acc) first
      (best.1, best.2.add (difficulty n.bits))

/-- `n.findFarthestWithData()` (fix c3d926ba): `FindFarthestNode` over the children that have block data
    (`c.TxCount == 0 → continue`): a header-only child is skipped together with whatever hangs below it. The first
    child WITH DATA wins ties. This is what ParseTillBlock's fall-back uses. -/
def farthestS (c : Chain) : Nat → Node → Nat × Q
  | 0, n => (n.id, difficulty n.bits)
  | f + 1, n =>
    match (n.childs.filterMap (getNode c)).filter (fun m => m.txCount != 0) with
    | [] => (n.id, difficulty n.bits)
    | c0 :: rest =>
      let first := farthestS c f c0
      let best := rest.foldl (fun acc ch =>
        let r := farthestS c f ch
        if r.2.gt acc.2 then r else acc) first
      (best.1, best.2.add (difficulty n.bits))

/-- `n.FindPathTo(end)` : next node on the way, `none` when `n == end` -/
def climbTo (c : Chain) (n : Node) : Nat → Node → Except String Nat
  | 0, _ => throw "panic:fuel"
  | f + 1, e =>
    if e.parent == n.id then pure e.id
    else if e.height ≤ n.height then throw "panic:reached the starting node height, but no hit"
    else do
      let p ← node! c e.parent
      climbTo c n f p

def findPathTo (c : Chain) (n e : Node) : Except String (Option Nat) :=
  if n.id == e.id then pure none
  else if e.height ≤ n.height then throw "panic:end block is not higher then current"
  else match n.childs with
    | [] => throw "panic:unknown path to block"
    | [x] => pure (some x)
    | _ => do
      let r ← climbTo c n (e.height + 1) e
      pure (some r)

/-- ids of the subtree below (and including) `id` -/
def subtree (c : Chain) : Nat → Nat → List Nat
  | 0, id => [id]
  | f + 1, id =>
    match getNode c id with
    | none => [id]
    | some n => id :: n.childs.flatMap (subtree c f)

/-- `ch.DeleteBranch(cur)` (after the delAllChildren fix: every block of the branch is flagged invalid) -/
def deleteBranch (c : Chain) (id : Nat) : Chain :=
  match getNode c id with
  | none => c
  | some n =>
    let dead := subtree c (c.nodes.length + 1) id
    let c1 := modNode c n.parent fun p => { p with childs := p.childs.filter (· != id) }
    { c1 with nodes := c1.nodes.filter (fun m => !dead.contains m.id),
              store := c1.store.filter (fun s => !dead.contains s.1) }

-- ------------------------------------------------------------------------------------------ utxo + undo files

/-- `Unspent.CommitBlockTxs(changes, hash)`; `withUndo` = `changes.UndoData != nil` -/
def commitBlockTxs (c : Chain) (height : Nat) (withUndo : Bool) (txids : List Nat) (ch : Changes) : Chain :=
  let c := if validChangesB c.utxo txids ch then c else { c with vcBad := c.vcBad + 1 }
  let files := if withUndo then aset height ch.undo c.undoFiles else c.undoFiles
  let files := if height > UnwindBufLen then files.filter (fun p => p.1 != height - UnwindBufLen) else files
  { c with utxo := commit c.utxo ch, undoFiles := files, lastHeight := height }

/-- `ch.UndoLastBlock()` -/
def undoLast (c : Chain) : Except String Chain := do
  let last ← node! c c.tip
  match alookup last.id c.store with
  | none => throw "panic:block not in the index"
  | some blk =>
    match alookup c.lastHeight c.undoFiles with
    | none => throw "panic:undo file missing"
    | some undo =>
      pure { c with utxo := undoBlock c.utxo (blk.txs.map (·.txid)) undo, tip := last.parent,
                    lastHeight := c.lastHeight - 1 }

def undoTo (target : Nat) : Nat → Chain → Except String Chain
  | 0, _ => throw "panic:fuel"
  | f + 1, c => if c.tip == target then pure c else do
      let c1 ← undoLast c
      undoTo target f c1

/-- first loop(s) of MoveToBlock: climb from `n` until height ≤ `h`; `none` = "cannot continue"
    (`cur.TxCount == 0 && cur.Parent != nil`: the genesis node has no data and needs none) -/
def climbChecked (c : Chain) (h : Nat) : Nat → Node → Except String (Option Node)
  | 0, _ => throw "panic:fuel"
  | f + 1, n =>
    if n.height > h then do
      let p ← node! c n.parent
      if p.txCount == 0 && p.id != c.root then pure none else climbChecked c h f p
    else pure (some n)

/-- third loop of MoveToBlock: both at the same height, climb to the common block -/
def commonAnc (c : Chain) : Nat → Node → Node → Except String (Option Node)
  | 0, _, _ => throw "panic:fuel"
  | f + 1, tmp, cur =>
    if tmp.id == cur.id then pure (some cur) else do
      let cp ← node! c cur.parent
      -- `if cur.Parent != tmp.Parent && cur.Parent.TxCount == 0` (the common block itself needs no data)
      if cur.parent != tmp.parent && cp.txCount == 0 then pure none else do
        let tp ← node! c tmp.parent
        commonAnc c f tp cp

mutual
/-- `ch.ParseTillBlock(end)` -/
def parseTill : Nat → Chain → Nat → Except String Chain
  | 0, _, _ => throw "panic:fuel"
  | f + 1, c, e =>
    if c.tip == e then pure c else do
      let last ← node! c c.tip
      let en ← node! c e
      match ← findPathTo c last en with
      | none => afterFail f c
      | some nx =>
        let nxt ← node! c nx
        if nxt.txCount == 0 then afterFail f c else
        match alookup nx c.store with
        | none => throw "panic:Db.BlockGet"
        | some blk =>
          match commitTxs c.utxo nxt.height (reward nxt.height) blk.trusted blk.txs with
          | .error _ => afterFail f (deleteBranch c nx)
          | .ok ch =>
            let c1 := { c with store := aset nx { blk with trusted := true } c.store }
            let c2 := commitBlockTxs c1 nxt.height (nxt.height + UnwindBufLen ≥ en.height) (blk.txs.map (·.txid)) ch
            parseTill f { c2 with tip := nx } e
/-- the tail of ParseTillBlock when `last != end`: the farthest node WITH DATA from the root (findFarthestWithData, fix
    c3d926ba; before: FindFarthestNode, which also returned header-only leaves), MoveToBlock there -/
def afterFail : Nat → Chain → Except String Chain
  | 0, _ => throw "panic:fuel"
  | f + 1, c => do
    let r ← node! c c.root
    moveTo f c (farthestS c (c.nodes.length + 1) r).1
/-- `ch.MoveToBlock(dst)` -/
def moveTo : Nat → Chain → Nat → Except String Chain
  | 0, _, _ => throw "panic:fuel"
  | f + 1, c, dst => do
    let d ← node! c dst
    let lb ← node! c c.tip
    match ← climbChecked c lb.height (d.height + 1) d with
    | none => pure c                                    -- "cannot continue A1"
    | some cur =>
      match ← climbChecked c cur.height (lb.height + 1) lb with
      | none => pure c                                  -- "cannot continue A2"
      | some lb2 =>
        match ← commonAnc c (cur.height + 2) lb2 cur with
        | none => pure c                                -- "cannot continue B"
        | some anc => do
          let c1 ← undoTo anc.id (lb.height + 2) c
          parseTill f c1 dst
end

-- ------------------------------------------------------------------------------------------ deliveries

structure Block where
  id : Nat
  parent : Nat
  bits : Nat
  txs : List Tx
deriving Repr, Inhabited

inductive Outcome
  | ok | dup | later | tooDeep | rejected (e : Err) | moveFailed | panic (s : String)
  | collision    -- another block sits under the block's own 8-byte `BlockIndex` key (only `deliverIdx` returns it)
  | noHeader     -- `commit` of a block whose header is not in BlockIndex (the client asks only for blocks of known headers)
  | notLinking   -- `commit`: HasAllParents is false (a block between this one and the active branch has no data yet; the client parks the block)
  | discarded    -- `commit` of a block whose node is no longer reachable from the root (the client: DiscardedBlocks)
  | detached     -- `block` (header and data at once) whose parent is a node that is no longer reachable from the root: NOT MODELLED
deriving Repr, Inhabited

def Outcome.name : Outcome → String
  | .ok => "ok" | .dup => "dup" | .later => "later" | .tooDeep => "toodeep"
  | .rejected e => "err:" ++ e.name | .moveFailed => "movefailed" | .panic s => s | .collision => "index-collision"
  | .noHeader => "noheader" | .notLinking => "notlinking" | .discarded => "discarded" | .detached => "detached"

/-- fuel for one delivery. Between two failures ParseTillBlock connects at most (tree depth) ≤ #nodes blocks, every
    failure deletes at least one node and costs three more calls, so `(#nodes+3)²` is enough
    (proved: Proofs/C06Reorg `moveTo_spec` never returns `panic:fuel` from this amount). -/
def fuelOf (c : Chain) : Nat := (c.nodes.length + 3) * (c.nodes.length + 3)

/-- `ch.CommitBlock(bl, cur)` -/
def commitBlock (c : Chain) (b : Block) (height : Nat) : Chain × Outcome :=
  let c := modNode c b.id fun n => { n with txCount := b.txs.length }
  if c.tip == b.parent then
    match commitTxs c.utxo height (reward height) false b.txs with
    | .error e =>
      let c1 := modNode c b.parent fun p => { p with childs := p.childs.filter (· != b.id) }
      ({ c1 with nodes := c1.nodes.filter (fun n => n.id != b.id) }, .rejected e)
    | .ok ch =>
      let c1 := { c with store := aset b.id { txs := b.txs, trusted := true } c.store }
      let c2 := commitBlockTxs c1 height true (b.txs.map (·.txid)) ch        -- LastKnownHeight = 0 in the harness
      ({ c2 with tip := b.id }, .ok)
  else
    let c1 := if (alookup b.id c.store).isSome then c else { c with store := aset b.id { txs := b.txs, trusted := false } c.store }
    match getNode c1 b.id, getNode c1 c1.tip with
    | some cur, some tipN =>
      if morePOW c1 cur tipN then
        match moveTo (fuelOf c1) c1 b.id with
        | .error s => (c1, .panic s)
        | .ok c2 => (c2, if c2.tip == b.id then .ok else .moveFailed)
      else (c1, .ok)
    | _, _ => (c1, .panic "panic:nil-node")

/-- the rest of a delivery once the parent node `p` and the tip node `t` have been found: the fork-depth rule of
    PreCheckBlock, AcceptHeader, CommitBlock -/
def deliverAt (c : Chain) (b : Block) (p t : Node) : Chain × Outcome :=
  let height := p.height + 1
  if p.id != t.id && t.height ≥ height + MovingCheckpointDepth then (c, .tooDeep) else
  -- AcceptHeader
  let n : Node := { id := b.id, parent := p.id, height := height, bits := b.bits, childs := [], txCount := 0 }
  let c1 := modNode c p.id fun q => { q with childs := q.childs ++ [b.id] }
  let c2 := { c1 with nodes := c1.nodes ++ [n] }
  commitBlock c2 b height

/-- `Chain.CheckBlock` (tree part) + `Chain.AcceptBlock`, blocks looked up by their WHOLE id (= hash). This is the
    definition the theorems are about; what the code does — look-ups by the 8-byte key followed by the comparison of
    the whole hash — is `deliverIdx` below, which the oracle runs and which equals `deliver` whenever no two blocks
    share an 8-byte key (`Proofs/C06Idx`). -/
def deliver (c : Chain) (b : Block) : Chain × Outcome :=
  if (getNode c b.id).isSome then (c, .dup) else
  match getNode c b.parent, getNode c c.tip with
  | none, _ => (c, .later)
  | _, none => (c, .panic "panic:nil-node")
  | some p, some t => deliverAt c b p t

/-- `Uint256.BIdx()` of an id: ids are whole block hashes read as 64 hex digits, first byte first; the key of
    `Chain.BlockIndex` is the first 8 bytes. -/
def bidx (id : Nat) : Nat := id / 2 ^ 192

/-- `ch.BlockIndex[BIdx(id)]`: the entry (if any) under the 8-byte key of `id` -/
def lookupIdx (c : Chain) (id : Nat) : Option Node := c.nodes.find? (fun n => bidx n.id == bidx id)

/-- the parent as PreCheckBlock / AcceptHeader obtain it since fix 533896f3: the entry under the 8-byte key of the
    header's previous-block field, kept only if its WHOLE hash is that field
    (`!ok || !bytes.Equal(prevblk.BlockHash.Hash[:], bl.ParentHash())`) -/
def parentIdx (c : Chain) (pid : Nat) : Option Node := (lookupIdx c pid).filter (fun p => p.id == pid)

/-- `Chain.CheckBlock` (tree part) + `Chain.AcceptBlock` AS THE CODE LOOKS BLOCKS UP: the "already in" test and the
    parent look-up go through the 8-byte `BlockIndex` key and then compare the whole hash (fix 533896f3). A block whose
    own key is taken by another block is refused (`collision`); a previous-block field that shares only its key with
    a known block is an unknown parent (`later`). -/
def deliverIdx (c : Chain) (b : Block) : Chain × Outcome :=
  match lookupIdx c b.id with
  | some n => if n.id == b.id then (c, .dup) else (c, .collision)
  | none =>
    match parentIdx c b.parent, getNode c c.tip with
    | none, _ => (c, .later)
    | _, none => (c, .panic "panic:nil-node")
    | some p, some t => deliverAt c b p t

-- ------------------------------------------------------------------------------------------ header-first delivery

/-- the entry of `BlockIndex` for `id` among the nodes that are no longer reachable from the root -/
def inLimbo (c : Chain) (id : Nat) : Option Node := c.limbo.find? (fun n => n.id == id)

/-- `ch.BlockIndex[id]` by whole id: the node and whether it is attached (reachable from the root) -/
def lookupAll (c : Chain) (id : Nat) : Option (Node × Bool) :=
  match getNode c id with
  | some n => some (n, true)
  | none => (inLimbo c id).map fun n => (n, false)

/-- `ch.OnActiveBranch(dst)`: walk down from the tip until `dst` is met (true) or its height is reached (false) -/
def onActive (c : Chain) (dst : Node) : Nat → Node → Except String Bool
  | 0, _ => throw "panic:fuel"
  | f + 1, top =>
    if dst.id == top.id then pure true
    else if dst.height ≥ top.height then pure false
    else do
      let p ← node! c top.parent
      onActive c dst f p

/-- `ch.HasAllParents(dst)`: climb from `dst`; true as soon as a parent is on the active branch, false as soon as a
    parent has no data (`TxCount == 0`). The client calls CommitBlock on a node only when this is true. -/
def hasAllParents (c : Chain) : Nat → Node → Except String Bool
  | 0, _ => throw "panic:fuel"
  | f + 1, dst => do
    let p ← node! c dst.parent
    let t ← node! c c.tip
    if ← onActive c p (t.height + 1) t then pure true
    else if p.txCount == 0 then pure false
    else hasAllParents c f p

/-- the tree part of PreCheckBlock (fork-depth rule) + AcceptHeader for a header ALONE, parent entry `p` found
    (`att`: `p` is reachable from the root): a node without data (`txCount = 0`, nothing stored) -/
def headerAt (c : Chain) (b : Block) (p t : Node) (att : Bool) : Chain × Outcome :=
  let height := p.height + 1
  if p.id != t.id && t.height ≥ height + MovingCheckpointDepth then (c, .tooDeep) else
  let n : Node := { id := b.id, parent := p.id, height := height, bits := b.bits, childs := [], txCount := 0 }
  if att then
    let c1 := modNode c p.id fun q => { q with childs := q.childs ++ [b.id] }
    ({ c1 with nodes := c1.nodes ++ [n] }, .ok)
  else
    ({ c with limbo := (c.limbo.map fun q => if q.id == p.id then { q with childs := q.childs ++ [b.id] } else q) ++ [n] }, .ok)

/-- **a header alone** (client/network ProcessNewHeader: PreCheckBlock + AcceptHeader on the 80 header bytes), blocks
    looked up by whole id. Known (attached or not) → `dup`; parent unknown → `later`; too deep → `tooDeep`; else a
    header-only node is linked under its parent — under a parent that is itself unreachable from the root it lands in
    `limbo`. Tip, unspent map, block store and undo files are untouched. -/
def header (c : Chain) (b : Block) : Chain × Outcome :=
  if (lookupAll c b.id).isSome then (c, .dup) else
  match lookupAll c b.parent, getNode c c.tip with
  | none, _ => (c, .later)
  | _, none => (c, .panic "panic:nil-node")
  | some (p, att), some t => headerAt c b p t att

/-- `BlockIndex[BIdx(id)]` over ALL entries (attached nodes first, then the unreachable ones), 8-byte key -/
def lookupAllIdx (c : Chain) (id : Nat) : Option (Node × Bool) :=
  match lookupIdx c id with
  | some n => some (n, true)
  | none => (c.limbo.find? (fun n => bidx n.id == bidx id)).map fun n => (n, false)

/-- `header` as the code looks blocks up (8-byte key, then the whole hash): what the oracle runs -/
def headerIdx (c : Chain) (b : Block) : Chain × Outcome :=
  match lookupAllIdx c b.id with
  | some (n, _) => if n.id == b.id then (c, .dup) else (c, .collision)
  | none =>
    match (lookupAllIdx c b.parent).filter (fun x => x.1.id == b.parent), getNode c c.tip with
    | none, _ => (c, .later)
    | _, none => (c, .panic "panic:nil-node")
    | some (p, att), some t => headerAt c b p t att

/-- bookkeeping after CommitBlock refused a block ON THE TIP whose node had (header-only) descendants `dead`: the code
    unlinks the block from its parent and deletes the block's own `BlockIndex` entry — the descendants stay in
    `BlockIndex` with a parent pointer into the unlinked node. They are moved from `nodes` to `limbo`. -/
def sweep (c : Chain) (dead : List Nat) : Chain :=
  { c with nodes := c.nodes.filter (fun m => !dead.contains m.id),
           limbo := c.limbo ++ c.nodes.filter (fun m => dead.contains m.id) }

/-- `CommitBlock(bl, cur)` on a node `n` that exists already, after the client's tests -/
def commitAt (c : Chain) (b : Block) (n : Node) : Chain × Outcome :=
  if n.txCount != 0 then (c, .dup) else
  match hasAllParents c (n.height + 1) n with
  | .error s => (c, .panic s)
  | .ok false => (c, .notLinking)
  | .ok true =>
    let below := (subtree c (c.nodes.length + 1) b.id).filter (· != b.id)
    let r := commitBlock c b n.height
    match r.2 with
    | .rejected _ => (sweep r.1 below, r.2)
    | _ => r

/-- **the block of a known header** (client/main HandleNetBlock + LocalAcceptBlock: the node was created by
    AcceptHeader earlier; CheckParentDiscarded, HasAllParents, then `CommitBlock(bl, node)`), blocks looked up by whole
    id. No node → `noHeader` (or `discarded` when the entry is unreachable from the root); the node has data already →
    `dup`; a parent without data → `notLinking`; otherwise CommitBlock: on the tip (connected, or refused and unlinked —
    its header-only descendants go to `limbo`), or stored aside / reorganised to. -/
def commitNode (c : Chain) (b : Block) : Chain × Outcome :=
  match getNode c b.id with
  | none => if (inLimbo c b.id).isSome then (c, .discarded) else (c, .noHeader)
  | some n => commitAt c b n

/-- `commitNode` through the 8-byte key: what the oracle runs -/
def commitNodeIdx (c : Chain) (b : Block) : Chain × Outcome :=
  match lookupAllIdx c b.id with
  | none => (c, .noHeader)
  | some (n, att) =>
    if n.id != b.id then (c, .noHeader)
    else if att then commitAt c b n else (c, .discarded)

/-- the three ways a block reaches the chain -/
inductive Op
  | header (b : Block)    -- the header alone
  | commit (b : Block)    -- the data of a block whose header is known
  | block (b : Block)     -- header and data at once: CheckBlock + AcceptBlock (tools/importblocks, the RPC path)
deriving Repr, Inhabited

def Op.blk : Op → Block
  | .header b | .commit b | .block b => b

/-- one operation, blocks looked up by whole id (the definition the header-first theorems are about). `block` for a
    block that sits in `limbo` is "already in"; `block` whose PARENT sits in `limbo` is outside the model (`detached`:
    the code links it below the unreachable node and compares work across the gap). -/
def step (c : Chain) : Op → Chain × Outcome
  | .header b => header c b
  | .commit b => commitNode c b
  | .block b =>
    if (inLimbo c b.id).isSome then (c, .dup)
    else if (getNode c b.id).isNone && (getNode c b.parent).isNone && (inLimbo c b.parent).isSome then (c, .detached)
    else deliver c b

/-- `step` as the code looks blocks up: what the oracle runs -/
def stepIdx (c : Chain) : Op → Chain × Outcome
  | .header b => headerIdx c b
  | .commit b => commitNodeIdx c b
  | .block b =>
    match lookupIdx c b.id with
    | some _ => deliverIdx c b
    | none =>
      match c.limbo.find? (fun n => bidx n.id == bidx b.id) with
      | some n => if n.id == b.id then (c, .dup) else (c, .collision)
      | none =>
        if (parentIdx c b.parent).isNone && ((c.limbo.find? (fun n => bidx n.id == bidx b.parent)).filter (fun p => p.id == b.parent)).isSome
        then (c, .detached) else deliverIdx c b

def init (rootId rootBits : Nat) : Chain :=
  { nodes := [{ id := rootId, parent := rootId, height := 0, bits := rootBits, childs := [], txCount := 0 }],
    root := rootId, tip := rootId, utxo := [], store := [], undoFiles := [], lastHeight := 0 }

/-- the active path, tip first -/
def activePath (c : Chain) : Nat → Nat → List Nat
  | 0, _ => []
  | f + 1, id => if id == c.root then [id] else
    match getNode c id with
    | none => [id]
    | some n => id :: activePath c f n.parent

end GocoinV.ChainTree
