/-
  Model.Target — lib/btc/target.go: SetCompact, GetCompact, CheckProofOfWork.
  `*big.Int` is modelled as `Int` (DESIGN §3 item 5), `uint32` as `Nat` with explicit `% 2^32`.
  Statement by statement; `GetDifficulty` (float) is not modelled.  Core-only.
-/
namespace GocoinV.Target

/-- `btc.SetCompact(nCompact uint32) *big.Int`.
    size := nCompact>>24; neg := nCompact&0x00800000 != 0; word := nCompact & 0x007fffff;
    size ≤ 3 → word >>= 8*(3-size) else word << 8*(size-3); negate if neg. -/
def setCompact (c : Nat) : Int :=
  let c := c % 2^32
  let size := c / 2^24
  let neg := (c / 2^23) % 2 = 1
  let word := c % 2^23
  let mag : Nat := if size ≤ 3 then word / 2^(8*(3-size)) else word * 2^(8*(size-3))
  if neg then -(mag : Int) else (mag : Int)

def byteLenAux : Nat → Nat → Nat
  | 0, _ => 0
  | fuel+1, n => if n = 0 then 0 else 1 + byteLenAux fuel (n / 256)

/-- `len(b.Bytes())` of a `big.Int` with absolute value `n`: number of significant bytes (0 for 0). -/
def byteLen (n : Nat) : Nat := byteLenAux n n

/-- Go `uint32(x)` of an int64 / big-int value that fits in int64: two's complement truncation. -/
def toU32 (x : Int) : Nat := (x % 2^32).toNat

/-- `btc.GetCompact(b *big.Int) uint32`.
    size := len(b.Bytes());
    size ≤ 3 → compact = uint32(b.Int64() << 8*(3-size))
    else b = b >> 8*(size-3) (arithmetic, rounds to −∞ like big.Int.Rsh); compact = uint32(b.Int64());
    if compact&0x00800000 ≠ 0 { compact >>= 8; size++ }; compact |= size<<24;
    if b < 0 { compact |= 0x00800000 }.
    (`b.Int64()` is exact on both paths: |b| < 2^24 resp. |b>>k| ≤ 2^24.) -/
def getCompact (b : Int) : Nat :=
  let size := byteLen b.natAbs
  let b' : Int := if size ≤ 3 then b else b / (2^(8*(size-3)) : Int)
  let c0 : Nat := if size ≤ 3 then toU32 (b * (2^(8*(3-size)) : Int)) else toU32 b'
  let hi := (c0 / 2^23) % 2 = 1
  let c1 := if hi then c0 / 2^8 else c0
  let size1 := if hi then size + 1 else size
  let c2 := c1 ||| ((size1 * 2^24) % 2^32)
  if b' < 0 then c2 ||| 0x00800000 else c2

/-- `btc.CheckProofOfWork(hash, bits)`: `hash.BigInt().Cmp(SetCompact(bits)) <= 0`;
    `hash` is the 256-bit value of the block hash (little-endian bytes read as a number). -/
def checkProofOfWork (hash : Nat) (bits : Nat) : Bool :=
  decide ((hash : Int) ≤ setCompact bits)

/-! Bitcoin Core's reading of a compact value (`arith_uint256::SetCompact` out-flags), used by the
    property theorems as the reference notion of an *edge* encoding. -/

/-- Core `fNegative`: `nWord != 0 && (nCompact & 0x00800000) != 0`, where `nWord` is the mantissa *after* the
    right shift applied for sizes ≤ 3. -/
def coreNegative (c : Nat) : Bool :=
  let c := c % 2^32
  let size := c / 2^24
  let word := c % 2^23
  let w := if size ≤ 3 then word / 2^(8*(3-size)) else word
  decide (w ≠ 0 ∧ (c / 2^23) % 2 = 1)

/-- Core `fOverflow`: `word ≠ 0 ∧ (size > 34 ∨ (word > 0xff ∧ size > 33) ∨ (word > 0xffff ∧ size > 32))`. -/
def coreOverflow (c : Nat) : Bool :=
  let size := c / 2^24
  let word := c % 2^23
  decide (word ≠ 0 ∧ (size > 34 ∨ (word > 0xff ∧ size > 33) ∨ (word > 0xffff ∧ size > 32)))

/-- A *canonical* compact value — exactly the values `GetCompact` produces for non-negative numbers below
    2^2016: the sign bit is clear and either everything is zero, or the size byte is at least 1 and the 23-bit
    mantissa has a non-zero top byte (0x008000 ≤ m ≤ 0x7fffff); for sizes 1 and 2 the mantissa bytes that
    `SetCompact` shifts out are zero. -/
def Canonical (c : Nat) : Prop :=
  c < 2^32 ∧ (c / 2^23) % 2 = 0 ∧
  (c / 2^24 = 0 → c % 2^23 = 0) ∧ (1 ≤ c / 2^24 → 2^15 ≤ c % 2^23) ∧
  (c / 2^24 = 1 → c % 2^23 % 2^16 = 0) ∧ (c / 2^24 = 2 → c % 2^23 % 2^8 = 0)

instance (c : Nat) : Decidable (Canonical c) := by unfold Canonical; infer_instance

end GocoinV.Target
