/-
  Model.Bech32Str — HOW `bech32.Encode` READS ITS HUMAN-READABLE PART (lib/others/bech32/bech32.go).

  `Model.Bech32.encode` treats the Go string `hrp` as the list of its bytes. Both hrp loops of `Encode` are written as a
  `range` over the STRING (`for i = range hrp { ch := int(hrp[i]) … i++ }` and `for i := range hrp { tmp := hrp[i] … }`):
  they visit the first byte of every UTF-8 code point only (an invalid byte being a code point of width 1), and the
  length test after the first loop uses the loop variable (`i+7+len(data) > 90`, where `i` is the last visited position
  + 1 because of the `i++` in the body, or 0), not `len(hrp)`. This file models the two loops as they are written
  (UTF-8 decoder `Base58Str.decodeRune`, tied to Go's `range` by oracle op `runes`); Proofs/C15Str3.lean proves
  `encodeSrc = Bech32.encode` for every byte string: the first loop refuses a position whose byte is > 126, and a
  skipped byte always follows such a byte. The oracle runs `encodeSrc` next to `encode` (op `b32src`).
-/
import GocoinV.Model.Bech32
import GocoinV.Model.Base58Str
namespace GocoinV.Bech32Str
open GocoinV.Bech32 GocoinV.Base58Str

/-- first loop of `Encode` as written; state: checksum and the Go variable `i`; `skip` = bytes of the current code
    point still to pass over, `pos` = index of the head byte -/
def hrpHighR : Bytes → Nat → Nat → UInt32 → Nat → Option (UInt32 × Nat)
  | [], _, _, chk, i => some (chk, i)
  | _ :: t, skip + 1, pos, chk, i => hrpHighR t skip (pos + 1) chk i
  | ch :: t, 0, pos, chk, _ =>
    if ch.toNat < 33 ∨ ch.toNat > 126 then none
    else if isUpper ch then none
    else hrpHighR t ((decodeRune (ch :: t)).2 - 1) (pos + 1) (polymodStep chk ^^^ (ch.toUInt32 >>> 5)) (pos + 1)

/-- second hrp loop of `Encode` as written: checksum and the bytes written to the output buffer -/
def hrpLowR : Bytes → Nat → UInt32 → Bytes → UInt32 × Bytes
  | [], _, chk, out => (chk, out)
  | _ :: t, skip + 1, chk, out => hrpLowR t skip chk out
  | ch :: t, 0, chk, out =>
    hrpLowR t ((decodeRune (ch :: t)).2 - 1) (polymodStep chk ^^^ (ch &&& 0x1f).toUInt32) (out ++ [ch])

/-- `bech32.Encode` with its two hrp loops as written -/
def encodeSrc (hrp data : Bytes) (bech32m : Bool) : Option Bytes :=
  if hrp.length < 1 then none
  else match hrpHighR hrp 0 0 1 0 with
    | none => none
    | some (chk, i) =>
      if i + 7 + data.length > 90 then none
      else
        let lo := hrpLowR hrp 0 (polymodStep chk) []
        match dataFold? data lo.1 with
        | none => none
        | some c =>
          some (lo.2 ++ [49] ++ data.map charsetAt ++ (checksumSyms (six c ^^^ finalConstant bech32m)).map charsetAt)

end GocoinV.Bech32Str
