/-
  Model.BalancesAddr — wallet.GetAllUnspent for ANY `btc.BtcAddr` value (client/wallet/db.go), not only the five
  standard forms: the branch structure that picks the sub-index and the hashed payload from the address, and
  `BtcAddr.OutScript()` (lib/btc/addr.go), the scriptPubKey that pays to the address. Core-only.

  A `btc.BtcAddr` as these two functions read it is either
    * `SegwitProg != nil`: witness version (Go `int`; `NewAddrFromPkScript` / `NewAddrFromString` produce 0..16) and a
      program (the constructors produce 2..40 bytes, 20 or 32 for version 0), or
    * `SegwitProg == nil`: a `Version` byte and `Hash160 [20]byte` (base58 address; the version may belong to the
      other network or to no network at all).
  GetAllUnspent (statement by statement):
      SegwitProg != nil:  Version == 1 && len(Program) == 32            -> IDX_P2TAP, ourHash(Program)
                          else Version != 0                              -> return
                          else len(Program) == 20                        -> IDX_P2WKH, ourHash(Hash160 := Program)
                               len(Program) == 32                        -> IDX_P2WSH, ourHash(Program)
                               default                                   -> return
      Version == AddrVerPubkey(common.Testnet)                           -> IDX_P2KH, ourHash(Hash160)
      Version == AddrVerScript(common.Testnet)                           -> IDX_P2SH, ourHash(Hash160)
      else                                                               -> return
-/
import GocoinV.Model.Balances
namespace GocoinV.Model.Balances

/-- `btc.BtcAddr` as GetAllUnspent / OutScript read it -/
inductive QAddr where
  /-- `SegwitProg != nil`: `SegwitProg.Version`, `SegwitProg.Program` -/
  | segwit (version : Nat) (program : Bytes)
  /-- `SegwitProg == nil`: `Version`, `Hash160[:]` -/
  | base58 (version : Nat) (hash160 : Bytes)
deriving DecidableEq, Repr

/-- what the Go types guarantee: `Hash160` is a `[20]byte` -/
def QAddr.WF : QAddr → Prop
  | .segwit _ _ => True
  | .base58 _ h => h.length = 20

/-- `btc.AddrVerPubkey(testnet)` -/
def verPubkey (testnet : Bool) : Nat := if testnet then 111 else 0
/-- `btc.AddrVerScript(testnet)` -/
def verScript (testnet : Bool) : Nat := if testnet then 196 else 5

/-- the branches of wallet.GetAllUnspent before the record lookup: sub-index and hashed payload;
    `none` = the function returns without looking anything up -/
def addrKey (testnet : Bool) : QAddr → Option Addr
  | .segwit v p =>
    if v = 1 ∧ p.length = 32 then some ⟨4, p⟩
    else if v ≠ 0 then none
    else if p.length = 20 then some ⟨2, p⟩   -- copy(aa.Hash160[:], Program): 20 bytes into a [20]byte
    else if p.length = 32 then some ⟨3, p⟩
    else none
  | .base58 v h =>
    if v = verPubkey testnet then some ⟨0, h⟩
    else if v = verScript testnet then some ⟨1, h⟩
    else none

/-- `BtcAddr.OutScript()`; `none` = panic ("Cannot create OutScript for …") -/
def QAddr.outScript : QAddr → Option Bytes
  | .segwit v p =>
    if v = 0 then some ([0x00, UInt8.ofNat p.length] ++ p)
    else if v ≤ 16 then some ([UInt8.ofNat (v - 1 + 0x51), UInt8.ofNat p.length] ++ p)
    else none
  | .base58 v h =>
    if v = 0 ∨ v = 111 ∨ v = 48 then some ([0x76, 0xa9, 0x14] ++ h ++ [0x88, 0xac])
    else if v = 5 ∨ v = 196 then some ([0xa9, 0x14] ++ h ++ [0x87])
    else none

/-- `wallet.GetAllUnspent(aa)` for any address value -/
def getAllUnspentQ (H : Bytes → Nat) (testnet : Bool) (s : State) (q : QAddr) : List Unspent :=
  match addrKey testnet q with
  | none => []
  | some a => getAllUnspent H s a

/-- the `Value` of the record GetAllUnspent browses (0 when it looks nothing up or finds no record) -/
def totalQ (H : Bytes → Nat) (testnet : Bool) (s : State) (q : QAddr) : Nat :=
  match addrKey testnet q with
  | none => 0
  | some a => total H s a

/-- the address value of a standard address (type 0..4, payload) on the given network, as `NewAddrFromPkScript`
    builds it from the standard script -/
def Addr.toQ (testnet : Bool) (a : Addr) : QAddr :=
  match a.idx with
  | 0 => .base58 (verPubkey testnet) a.payload
  | 1 => .base58 (verScript testnet) a.payload
  | 2 => .segwit 0 a.payload
  | 3 => .segwit 0 a.payload
  | _ => .segwit 1 a.payload

end GocoinV.Model.Balances
